/-
Specification peer for C19: the CiA 402 power state machine of a standard-conformant drive, written
from the standard (CiA 402-2 / IEC 61800-7-201, "power drive system finite state automaton"),
independently of canopen/profiles/p402.py.

* eight observable power states with their statusword patterns (bits 0-3, 5, 6);
* the controlword commands, decoded from bits 0-3 and 7 exactly as the command table of the
  standard gives them (`x` = don't care);
* fault reset on the *rising edge* of bit 7;
* automatic transitions 1 (NOT READY TO SWITCH ON -> SWITCH ON DISABLED) and 14 (FAULT REACTION
  ACTIVE -> FAULT), which the drive performs by itself at a moment of its choosing, and - only for
  drives configured that way - 12 (QUICK STOP ACTIVE -> SWITCH ON DISABLED when the quick stop is
  completed).  Transition 0 (START -> NOT READY TO SWITCH ON) is not observable through the
  statusword and is not part of the model.
* every statusword bit the state pattern does not fix is arbitrary ("extra status bits").

A commanded transition takes effect when the controlword is received.  Non-determinism (the moment
of an automatic transition) is an explicit argument of the users of this file.
-/
namespace Canopen.Spec.Drive402

inductive PState where
  | nrtso | sod | rtso | so | oe | fault | fra | qsa
deriving DecidableEq, Repr, Inhabited

namespace PState

def all : List PState := [nrtso, sod, rtso, so, oe, fault, fra, qsa]

/-- the numbering used on the line protocol (and by the Python reference drive) -/
def num : PState → Nat
  | nrtso => 0 | sod => 1 | rtso => 2 | so => 3 | oe => 4 | fault => 5 | fra => 6 | qsa => 7

def ofNum : Nat → Option PState
  | 0 => some nrtso | 1 => some sod | 2 => some rtso | 3 => some so | 4 => some oe
  | 5 => some fault | 6 => some fra | 7 => some qsa | _ => none

/-- state names of the standard (upper case, as the library spells them) -/
def name : PState → List Char
  | nrtso => ['N', 'O', 'T', ' ', 'R', 'E', 'A', 'D', 'Y', ' ', 'T', 'O', ' ', 'S', 'W', 'I', 'T', 'C', 'H', ' ', 'O', 'N']
  | sod => ['S', 'W', 'I', 'T', 'C', 'H', ' ', 'O', 'N', ' ', 'D', 'I', 'S', 'A', 'B', 'L', 'E', 'D']
  | rtso => ['R', 'E', 'A', 'D', 'Y', ' ', 'T', 'O', ' ', 'S', 'W', 'I', 'T', 'C', 'H', ' ', 'O', 'N']
  | so => ['S', 'W', 'I', 'T', 'C', 'H', 'E', 'D', ' ', 'O', 'N']
  | oe => ['O', 'P', 'E', 'R', 'A', 'T', 'I', 'O', 'N', ' ', 'E', 'N', 'A', 'B', 'L', 'E', 'D']
  | fault => ['F', 'A', 'U', 'L', 'T']
  | fra => ['F', 'A', 'U', 'L', 'T', ' ', 'R', 'E', 'A', 'C', 'T', 'I', 'O', 'N', ' ', 'A', 'C', 'T', 'I', 'V', 'E']
  | qsa => ['Q', 'U', 'I', 'C', 'K', ' ', 'S', 'T', 'O', 'P', ' ', 'A', 'C', 'T', 'I', 'V', 'E']

/-- statusword pattern `(mask, value)`:
    xxxx xxxx x0xx 0000 not ready to switch on, x1xx 0000 switch on disabled,
    x01x 0001 ready to switch on, x01x 0011 switched on, x01x 0111 operation enabled,
    x00x 0111 quick stop active, x0xx 1111 fault reaction active, x0xx 1000 fault -/
def pattern : PState → Nat × Nat
  | nrtso => (0x4F, 0x00)
  | sod => (0x4F, 0x40)
  | rtso => (0x6F, 0x21)
  | so => (0x6F, 0x23)
  | oe => (0x6F, 0x27)
  | qsa => (0x6F, 0x07)
  | fra => (0x4F, 0x0F)
  | fault => (0x4F, 0x08)

/-- the states a controlword command can lead to (targets of transitions 2-12, 15, 16) -/
def commandable : PState → Bool
  | sod | rtso | so | oe | qsa => true
  | _ => false

end PState

/-- `sw` shows state `s` -/
def Matches (s : PState) (sw : Nat) : Prop := sw &&& s.pattern.1 = s.pattern.2

instance (s : PState) (sw : Nat) : Decidable (Matches s sw) := by unfold Matches; infer_instance

/-- the low seven bits of the statusword: pattern bits fixed, the others taken from `x` -/
def low7 (s : PState) (x : Nat) : Nat := (x &&& (127 ^^^ s.pattern.1)) ||| s.pattern.2

/-- The statusword of a drive in state `s` whose free bits are those of `extra`
    (`(extra & ~mask & 0xFFFF) | value`). -/
def statusword (s : PState) (extra : Nat) : Nat :=
  (extra % 65536) / 128 * 128 + low7 s (extra % 128)

/-- automatic transition enabled in `s` (`auto12`: the drive leaves QUICK STOP ACTIVE by itself) -/
def autoNext (auto12 : Bool) : PState → Option PState
  | .nrtso => some .sod          -- 1
  | .fra => some .fault          -- 14
  | .qsa => if auto12 then some .sod else none   -- 12
  | _ => none

/-- automatic transitions the drive *must* eventually perform -/
def mandatory : PState → Bool
  | .nrtso | .fra => true
  | _ => false

/-- States entered (in order) when controlword `cw` is received in state `s`; `edge` = bit 7 rose.
    Command table of the standard, bits 7, 3, 2, 1, 0:
      shutdown 0 x 1 1 0 (2, 6, 8)        switch on 0 0 1 1 1 (3)
      switch on + enable operation 0 1 1 1 1 (3 + 4)
      disable voltage 0 x x 0 x (7, 9, 10, 12)   quick stop 0 x 0 1 x (7, 10, 11)
      disable operation 0 0 1 1 1 (5)     enable operation 0 1 1 1 1 (4, 16)
      fault reset: rising edge of bit 7 (15) -/
def commandStates (s : PState) (edge : Bool) (cw : Nat) : List PState :=
  let b := fun i => cw.testBit i
  match s with
  | .nrtso | .fra => []
  | .fault => if edge then [.sod] else []
  | _ =>
    if b 7 then []
    else if !b 1 then                       -- disable voltage
      (match s with | .rtso | .so | .oe | .qsa => [.sod] | _ => [])
    else if !b 2 then                       -- quick stop
      (match s with | .rtso | .so => [.sod] | .oe => [.qsa] | _ => [])
    else if !b 0 then                       -- shutdown
      (match s with | .sod | .so | .oe => [.rtso] | _ => [])
    else if !b 3 then                       -- switch on / disable operation
      (match s with | .rtso => [.so] | .oe => [.so] | _ => [])
    else                                    -- (switch on +) enable operation
      (match s with | .rtso => [.so, .oe] | .so | .qsa => [.oe] | _ => [])

/-! ### modes of operation (objects 0x6060 / 0x6061 / 0x6502)

(name as the library spells it, bit of "supported drive modes" 0x6502 that advertises the mode,
code written to "modes of operation" 0x6060): pp, vl, pv, tq, hm, ip, csp, csv, cst. -/
def modeTable : List (List Char × Nat × Int) := [
  (['P', 'R', 'O', 'F', 'I', 'L', 'E', 'D', ' ', 'P', 'O', 'S', 'I', 'T', 'I', 'O', 'N'], 0, 1),
  (['V', 'E', 'L', 'O', 'C', 'I', 'T', 'Y'], 1, 2),
  (['P', 'R', 'O', 'F', 'I', 'L', 'E', 'D', ' ', 'V', 'E', 'L', 'O', 'C', 'I', 'T', 'Y'], 2, 3),
  (['P', 'R', 'O', 'F', 'I', 'L', 'E', 'D', ' ', 'T', 'O', 'R', 'Q', 'U', 'E'], 3, 4),
  (['H', 'O', 'M', 'I', 'N', 'G'], 5, 6),
  (['I', 'N', 'T', 'E', 'R', 'P', 'O', 'L', 'A', 'T', 'E', 'D', ' ', 'P', 'O', 'S', 'I', 'T', 'I', 'O', 'N'], 6, 7),
  (['C', 'Y', 'C', 'L', 'I', 'C', ' ', 'S', 'Y', 'N', 'C', 'H', 'R', 'O', 'N', 'O', 'U', 'S', ' ', 'P', 'O', 'S', 'I', 'T', 'I', 'O', 'N'], 7, 8),
  (['C', 'Y', 'C', 'L', 'I', 'C', ' ', 'S', 'Y', 'N', 'C', 'H', 'R', 'O', 'N', 'O', 'U', 'S', ' ', 'V', 'E', 'L', 'O', 'C', 'I', 'T', 'Y'], 8, 9),
  (['C', 'Y', 'C', 'L', 'I', 'C', ' ', 'S', 'Y', 'N', 'C', 'H', 'R', 'O', 'N', 'O', 'U', 'S', ' ', 'T', 'O', 'R', 'Q', 'U', 'E'], 9, 10)]

/-- "no mode change / no mode assigned": code 0, not subject to advertisement -/
def noModeName : List Char := ['N', 'O', ' ', 'M', 'O', 'D', 'E']

end Canopen.Spec.Drive402
