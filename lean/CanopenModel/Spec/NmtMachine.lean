/-
CiA 301 §7.3.2 "NMT state machine" and §7.2.8 "Network management" written independently of
`canopen/nmt.py` (this is the *specification* the generated tables and the model of the code are
compared with; nothing in this file mentions the code's tables).

* Node control (COB-ID 0, two bytes `[cs, node-id]`; node-id 0 addresses every node):
  cs 1 start remote node → OPERATIONAL, cs 2 stop remote node → STOPPED,
  cs 128 enter pre-operational → PRE-OPERATIONAL, cs 129 reset node and cs 130 reset communication
  → INITIALISING.  The destination does not depend on the state the command is received in; a
  command specifier that is not defined is ignored; a command addressed to another node is ignored.
* Error control (COB-ID 0x700 + node-id, one byte): bit 7 is the node-guarding toggle bit / reserved
  in the heartbeat protocol, bits 6..0 are the state: 0 boot-up, 4 STOPPED, 5 OPERATIONAL,
  127 PRE-OPERATIONAL.  Boot-up announces that the node has left INITIALISING and entered
  PRE-OPERATIONAL.
* The library's table also knows two power-saving commands/states (80 SLEEP, 96 STANDBY, from
  CiA 320-style extensions); they are kept here as two further rows so that the comparison is total
  (DESIGN §5 C11).
* DESIGN §5 C11: reset is reported as INITIALISING; the automatic transition to PRE-OPERATIONAL is
  what the *boot-up message* reports, it is not performed by the machine itself.
-/
namespace Canopen.Spec.Nmt

/-- NMT states -/
inductive St where
  | initialising | preOperational | operational | stopped | sleep | standby
deriving Repr, DecidableEq

/-- NMT node-control services -/
inductive Cmd where
  | start | stop | enterPreOperational | resetNode | resetCommunication | sleep | standby
deriving Repr, DecidableEq

/-- command specifier of each service -/
def Cmd.cs : Cmd → Nat
  | .start => 1
  | .stop => 2
  | .enterPreOperational => 128
  | .resetNode => 129
  | .resetCommunication => 130
  | .sleep => 80
  | .standby => 96

def allCmds : List Cmd :=
  [.start, .stop, .enterPreOperational, .resetNode, .resetCommunication, .sleep, .standby]

/-- the service a command specifier denotes, if any -/
def decodeCs (cs : Nat) : Option Cmd := allCmds.find? (fun c => c.cs = cs)

/-- state the node is in after the service (independent of the state before) -/
def Cmd.dest : Cmd → St
  | .start => .operational
  | .stop => .stopped
  | .enterPreOperational => .preOperational
  | .resetNode => .initialising
  | .resetCommunication => .initialising
  | .sleep => .sleep
  | .standby => .standby

/-- a command specifier applied to a node that is addressed by it -/
def apply (s : St) (cs : Nat) : St :=
  match decodeCs cs with
  | some c => c.dest
  | none => s

/-- a node-control frame `[cs, target]` seen by node `own` -/
def recv (own : Nat) (s : St) (cs target : Nat) : St :=
  if target = own ∨ target = 0 then apply s cs else s

/-- the state value a node in state `s` puts into its heartbeat (0 while initialising: that is
    the boot-up message) -/
def St.code : St → Nat
  | .initialising => 0
  | .stopped => 4
  | .operational => 5
  | .preOperational => 127
  | .sleep => 80
  | .standby => 96

def allStates : List St :=
  [.initialising, .stopped, .operational, .sleep, .standby, .preOperational]

/-- the state a consumer derives from the 7 state bits of an error-control byte: boot-up (0) means
    the node has just entered PRE-OPERATIONAL; undefined values denote no state -/
def ofHeartbeat (v : Nat) : Option St :=
  if v = 0 then some .preOperational else allStates.find? (fun s => s.code = v)

/-- state names as the library's API spells them -/
def St.name : St → List Char
  | .initialising => ['I','N','I','T','I','A','L','I','S','I','N','G']
  | .preOperational => ['P','R','E','-','O','P','E','R','A','T','I','O','N','A','L']
  | .operational => ['O','P','E','R','A','T','I','O','N','A','L']
  | .stopped => ['S','T','O','P','P','E','D']
  | .sleep => ['S','L','E','E','P']
  | .standby => ['S','T','A','N','D','B','Y']

/-- names accepted for a state assignment: every state name requests the service leading to that
    state, plus the two reset services by their own names -/
def nameTable : List (List Char × Cmd) := [
  (St.name .operational, .start),
  (St.name .stopped, .stop),
  (St.name .preOperational, .enterPreOperational),
  (St.name .initialising, .resetNode),
  (['R','E','S','E','T'], .resetNode),
  (['R','E','S','E','T',' ','C','O','M','M','U','N','I','C','A','T','I','O','N'], .resetCommunication),
  (St.name .sleep, .sleep),
  (St.name .standby, .standby)]

def cmdOfName (n : List Char) : Option Cmd := (nameTable.find? (fun p => p.1 = n)).map (·.2)

/-- a state assignment by name applied to the node's state (invalid names leave it alone) -/
def assign (s : St) (n : List Char) : St :=
  match cmdOfName n with
  | some c => c.dest
  | none => s

end Canopen.Spec.Nmt
