/-
An independent EDS/DCF *writer* after CiA 306, the peer of C08: a described dictionary
(`SOD`: objects, values, limits, device data — each number together with the way it is to be
spelled) is laid out as the parsed document `write sod : Doc` (sections → key/value lines; the
text layer itself is `configparser`'s, outside the model).  `build sod nodeId` is the dictionary the
description denotes, assembled with the library's own constructors (`addObject`, `addMember`) from
`denoteVar`, the field-by-field meaning of a described variable.

Spelling freedom (every choice is a field, so theorems quantify over all of them): each number in
decimal / hex / octal / binary, upper or lower case digits and prefix, zero padding, explicit `+`;
`$NODEID+x` or `x+$NODEID`, with or without blanks; limits of signed types as two's-complement
pattern or as signed number; access type in lower, UPPER or Capitalised form; section names with
upper or lower case hex digits, `sub` or `Sub`, zero-padded sub-index; `ObjectType` present or
omitted for variables; explicit or compact arrays, with or without name list.
-/
import CanopenModel.Eds.Import
import CanopenModel.Spec.Cia301Types

namespace Canopen.Spec.EdsWriter
open Canopen.Eds Canopen.Spec

/-! ### numbers -/

inductive Base where
  | dec | hex | oct | bin
deriving Repr, DecidableEq

def Base.radix : Base → Nat
  | .dec => 10 | .hex => 16 | .oct => 8 | .bin => 2

def Base.letter (up : Bool) : Base → Char
  | .dec => 'd'            -- not used
  | .hex => if up then 'X' else 'x'
  | .oct => if up then 'O' else 'o'
  | .bin => if up then 'B' else 'b'

structure NumSp where
  base : Base := .dec
  upDigits : Bool := false
  upPrefix : Bool := false
  pad : Nat := 0
  plus : Bool := false
deriving Repr, DecidableEq

def spellNat (sp : NumSp) (n : Nat) : Str :=
  match sp.base with
  | .dec => natStr 10 false n
  | b => '0' :: b.letter sp.upPrefix :: zpad sp.pad (natStr b.radix sp.upDigits n)

def spellInt (sp : NumSp) (i : Int) : Str :=
  if i < 0 then '-' :: spellNat sp (-i).toNat
  else (if sp.plus then ['+'] else []) ++ spellNat sp i.toNat

/-! ### data types (CiA 301, independent of the code's tuples) -/

def isBlobType (t : Nat) : Bool := t = 0x0A || t = 0x0F       -- OCTET_STRING, DOMAIN
def isTextType (t : Nat) : Bool := t = 0x09 || t = 0x0B       -- VISIBLE_STRING, UNICODE_STRING
def isRealType (t : Nat) : Bool := t = 0x08 || t = 0x11       -- REAL32, REAL64
/-- everything else up to 0x1B is read as an integer (BOOLEAN, INTEGERn, UNSIGNEDn, TIME_OF_DAY …) -/
def isIntLike (t : Nat) : Bool := !isBlobType t && !isTextType t && !isRealType t

/-- width of a signed integer type -/
def signedWidth (t : Nat) : Option Nat :=
  match cia301Lookup t with
  | some (w, .signed) => some w
  | _ => none

/-! ### described values -/

inductive SVal where
  /-- an integer, spelled -/
  | num (i : Int) (sp : NumSp)
  /-- `$NODEID+base` (`nodeFirst`) or `base+$NODEID`, optionally with blanks around `+` -/
  | rel (base : Int) (sp : NumSp) (nodeFirst : Bool) (blanks : Bool)
  /-- bytes as hex pairs, upper or lower case, optionally separated by blanks -/
  | bytes (bs : List Nat) (up : Bool) (spaced : Bool)
  | str (s : Str)
  /-- a float literal (the float itself is opaque: Python's `float(text)`) -/
  | real (txt : Str)
  /-- `DefaultValue=` with nothing after the sign -/
  | empty
deriving Repr, DecidableEq

def spellBytes (up spaced : Bool) : List Nat → Str
  | [] => []
  | [b] => [digitChar up (b / 16), digitChar up (b % 16)]
  | b :: c :: r =>
    digitChar up (b / 16) :: digitChar up (b % 16) ::
      ((if spaced then [' '] else []) ++ spellBytes up spaced (c :: r))

def plusText (blanks : Bool) : Str := if blanks then c!" + " else c!"+"

def SVal.text : SVal → Str
  | .num i sp => spellInt sp i
  | .rel b sp nodeFirst blanks =>
    if nodeFirst then nodeidTok ++ plusText blanks ++ spellInt sp b
    else spellInt sp b ++ plusText blanks ++ nodeidTok
  | .bytes bs up spaced => spellBytes up spaced bs
  | .str s => s
  | .real t => t
  | .empty => []

/-- which value descriptions make sense for which data type -/
def SVal.okFor (t : Nat) : SVal → Prop
  | .num _ _ => isIntLike t = true
  | .rel _ _ _ _ => isIntLike t = true
  | .bytes bs _ _ => isBlobType t = true ∧ ∀ b ∈ bs, b < 256
  | .str _ => isTextType t = true
  | .real txt => isRealType t = true ∧ floatOk txt = true
  | .empty => True

/-- the value a description denotes under the node id in force; `none`: no value -/
def SVal.denote (t : Nat) (nodeId : Option Int) : SVal → Option Value
  | .num i _ => some (.int i)
  | .rel b _ _ _ => nodeId.map fun n => .int (b + n)
  | .bytes bs _ _ => some (.bytes bs)
  | .str s => some (.str s)
  | .real txt => some (.real txt)
  | .empty => if isBlobType t then some (.bytes []) else if isTextType t then some (.str []) else none

/-- "relative to the node id": the text mentions `$NODEID` -/
def SVal.isRelative (v : SVal) : Bool := containsNodeid v.text

/-! ### limits -/

/-- a limit `v`; for signed types `twos` selects the two's-complement pattern `v mod 2^w` -/
structure SLim where
  v : Int
  sp : NumSp := {}
  twos : Bool := false
deriving Repr, DecidableEq

def SLim.text (t : Nat) (l : SLim) : Str :=
  match signedWidth t with
  | some w => if l.twos then spellNat l.sp (l.v % ((2 ^ w : Nat) : Int)).toNat else spellInt l.sp l.v
  | none => spellInt l.sp l.v

/-- limits of signed types lie in the type's range -/
def SLim.okFor (t : Nat) (l : SLim) : Prop :=
  match signedWidth t with
  | some w => -((2 ^ (w - 1) : Nat) : Int) ≤ l.v ∧ l.v < ((2 ^ (w - 1) : Nat) : Int)
  | none => True

/-! ### described variables -/

inductive AccessType where
  | ro | wo | rw | rwr | rww | const
deriving Repr, DecidableEq

def AccessType.text : AccessType → Str
  | .ro => c!"ro" | .wo => c!"wo" | .rw => c!"rw" | .rwr => c!"rwr" | .rww => c!"rww"
  | .const => c!"const"

inductive Case where
  | lower | upper | capital
deriving Repr, DecidableEq

def capitalize : Str → Str
  | [] => []
  | c :: r => c.toUpper :: r

def Case.apply : Case → Str → Str
  | .lower, s => s
  | .upper, s => Canopen.Eds.upper s
  | .capital, s => capitalize s

structure SVar where
  name : Str
  dataType : Nat
  dtSp : NumSp := {}
  access : AccessType := .rw
  accessCase : Case := .lower
  /-- `PDOMapping=<n>`; absent = not mappable -/
  pdo : Option (Nat × NumSp) := none
  default : Option SVal := none
  value : Option SVal := none
  low : Option SLim := none
  high : Option SLim := none
  storage : Option Str := none
  factor : Option Str := none
  description : Option Str := none
  unit : Option Str := none
deriving Repr, DecidableEq

structure SVar.WF (v : SVar) : Prop where
  dataType_pos : 0 < v.dataType
  dataType_le : v.dataType ≤ 0x1B
  default_ok : ∀ d, v.default = some d → d.okFor v.dataType
  value_ok : ∀ d, v.value = some d → d.okFor v.dataType
  low_ok : ∀ l, v.low = some l → l.okFor v.dataType
  high_ok : ∀ l, v.high = some l → l.okFor v.dataType
  factor_ok : ∀ f, v.factor = some f → floatOk f = true

def optLine (k : Str) : Option Str → List (Str × Str)
  | some v => [(k, v)]
  | none => []

/-- the lines of a variable-like section; `pre` are the lines the kind of object puts first
    (`ObjectType`, `CompactSubObj`, …) -/
def varOpts (v : SVar) : List (Str × Str) :=
  [(kParameterName, v.name)] ++
  optLine kStorageLocation v.storage ++
  [(kDataType, spellNat v.dtSp v.dataType),
   (kAccessType, v.accessCase.apply v.access.text)] ++
  optLine kLowLimit (v.low.map (·.text v.dataType)) ++
  optLine kHighLimit (v.high.map (·.text v.dataType)) ++
  optLine kDefaultValue (v.default.map (·.text)) ++
  optLine kParameterValue (v.value.map (·.text)) ++
  optLine kPDOMapping (v.pdo.map fun p => spellNat p.2 p.1) ++
  optLine kFactor v.factor ++
  optLine kDescription v.description ++
  optLine kUnit v.unit

/-- the `ODVariable` a described variable denotes, field by field -/
def denoteVar (v : SVar) (nodeId : Option Int) (index sub : Nat) : Var :=
  { name := v.name, index := index, subindex := sub,
    dataType := (v.dataType : Int),
    accessType := v.access.text,
    pdoMappable := (match v.pdo with | some (n, _) => decide (n ≠ 0) | none => false),
    min := v.low.map (·.v),
    max := v.high.map (·.v),
    default := v.default.bind (·.denote v.dataType nodeId),
    value := v.value.bind (·.denote v.dataType nodeId),
    relative := (match v.default with | some d => d.isRelative | none => false),
    defaultRaw := v.default.map (·.text),
    valueRaw := v.value.map (·.text),
    storage := v.storage,
    factor := v.factor,
    description := v.description.getD [],
    unit := v.unit.getD [] }

/-! ### described objects -/

/-- four hex digits of an index -/
def hex4 (up : Bool) (i : Nat) : Str :=
  [digitChar up (i / 4096 % 16), digitChar up (i / 256 % 16), digitChar up (i / 16 % 16),
   digitChar up (i % 16)]

structure SMember where
  sub : Nat
  v : SVar
  /-- `Sub` instead of `sub` -/
  capital : Bool := false
  upHex : Bool := true
  pad : Nat := 0
deriving Repr, DecidableEq

def subSectionName (up : Bool) (index : Nat) (m : SMember) : Str :=
  hex4 up index ++ (if m.capital then 'S' else 's') :: 'u' :: 'b' :: zpad m.pad (natStr 16 m.upHex m.sub)

inductive SObj where
  /-- a variable (`ObjectType` 7, omitted when `ot = none`) or, with `domain`, an object of
      object type DOMAIN (`ObjectType` 2) -/
  | var (index : Nat) (up : Bool) (v : SVar) (ot : Option NumSp) (domain : Bool)
  /-- a record or an array with one section per sub-index -/
  | coll (isArray : Bool) (index : Nat) (up : Bool) (name : Str) (storage : Option Str)
      (otSp : NumSp) (subNumber : Option NumSp) (members : List SMember)
  /-- an array in compact form: `n` entries like `template`, optionally a name for each -/
  | compact (index : Nat) (up : Bool) (n : Nat) (nSp : NumSp) (template : SVar) (otSp : NumSp)
      (names : Option (List Str))
deriving Repr

def SObj.index : SObj → Nat
  | .var i _ _ _ _ => i
  | .coll _ i _ _ _ _ _ _ => i
  | .compact i _ _ _ _ _ _ => i

def SObj.name : SObj → Str
  | .var _ _ v _ _ => v.name
  | .coll _ _ _ n _ _ _ _ => n
  | .compact _ _ _ _ t _ _ => t.name

def kSubNumber : Str := c!"SubNumber"

/-- lines `<pre><k>=<text>`, `<pre><k+1>=…` with decimal numbers -/
def numbered (pre : Str) : Nat → List Str → List (Str × Str)
  | _, [] => []
  | k, t :: r => (pre ++ natStr 10 false k, t) :: numbered pre (k + 1) r

def nameListOpts (names : List Str) : List (Str × Str) :=
  (kNrOfEntries, natStr 10 false names.length) :: numbered [] 1 names

def varObjectType (ot : Option NumSp) (domain : Bool) : Option Str :=
  if domain then some (spellNat (ot.getD {}) 2) else ot.map fun sp => spellNat sp 7

/-- the sections of one object, in file order -/
def objSections : SObj → List Sec
  | .var i up v ot domain =>
    [{ name := hex4 up i, opts := optLine kObjectType (varObjectType ot domain) ++ varOpts v }]
  | .coll isArray i up name storage otSp subNumber members =>
    { name := hex4 up i,
      opts := [(kParameterName, name), (kObjectType, spellNat otSp (if isArray then 8 else 9))] ++
              optLine kSubNumber (subNumber.map fun sp => spellNat sp members.length) ++
              optLine kStorageLocation storage } ::
    members.map fun m => { name := subSectionName up i m, opts := varOpts m.v }
  | .compact i up n nSp t otSp names =>
    { name := hex4 up i,
      opts := (kObjectType, spellNat otSp 8) :: (kCompactSubObj, spellNat nSp n) :: varOpts t } ::
    (match names with
     | some ns => [{ name := hex4 up i ++ c!"Name", opts := nameListOpts ns }]
     | none => [])

/-- the first entry of every array the importer makes from a compact description -/
def numberOfEntriesVar (index : Nat) : Var :=
  { name := numberOfEntries, index := index, subindex := 0, dataType := 5 }

/-- `add_member` of the template under the given names, sub-indices `k`, `k+1`, … -/
def addNamed (tv : Var) : Nat → List Str → Coll → Coll
  | _, [], c => c
  | k, n :: r, c => addNamed tv (k + 1) r (c.addMember { tv with name := n, subindex := k })

/-- the object a description denotes, assembled with `addMember` -/
def buildObj (nodeId : Option Int) : SObj → Obj
  | .var i _ v _ _ => .var (denoteVar v nodeId i 0)
  | .coll isArray i _ name storage _ _ members =>
    .coll (members.foldl (fun c m => c.addMember (denoteVar m.v nodeId i m.sub))
      { isArray := isArray, name := name, index := i, storage := storage })
  | .compact i _ _ _ t _ names =>
    let tv := denoteVar t nodeId i 1
    let base : Coll := { isArray := true, name := t.name, index := i, storage := t.storage }
    let c0 := (base.addMember (numberOfEntriesVar i)).addMember tv
    .coll (match names with
      | none => c0
      | some ns => addNamed tv 1 ns c0)

def SObj.WF : SObj → Prop
  | .var i _ v _ _ => i < 65536 ∧ v.WF
  | .coll _ i _ _ _ _ _ members => i < 65536 ∧ ∀ m ∈ members, m.v.WF
  | .compact i _ _ _ t _ _ => i < 65536 ∧ t.WF

/-! ### the device part -/

/-- `[DeviceInfo]` as CiA 306 lists it; numbers and flags with their spelling -/
structure SDevInfo where
  vendorName : Option Str := none
  vendorNumber : Option (Int × NumSp) := none
  productName : Option Str := none
  productNumber : Option (Int × NumSp) := none
  revisionNumber : Option (Int × NumSp) := none
  orderCode : Option Str := none
  simpleBootUpMaster : Option (Int × NumSp) := none
  simpleBootUpSlave : Option (Int × NumSp) := none
  granularity : Option (Int × NumSp) := none
  dynamicChannelsSupported : Option (Int × NumSp) := none
  groupMessaging : Option (Int × NumSp) := none
  nrOfRXPDO : Option (Int × NumSp) := none
  nrOfTXPDO : Option (Int × NumSp) := none
  lssSupported : Option (Int × NumSp) := none
  baud10 : Option (Int × NumSp) := none
  baud20 : Option (Int × NumSp) := none
  baud50 : Option (Int × NumSp) := none
  baud125 : Option (Int × NumSp) := none
  baud250 : Option (Int × NumSp) := none
  baud500 : Option (Int × NumSp) := none
  baud800 : Option (Int × NumSp) := none
  baud1000 : Option (Int × NumSp) := none
deriving Repr

def numLine (k : Str) (o : Option (Int × NumSp)) : List (Str × Str) :=
  optLine k (o.map fun p => spellInt p.2 p.1)

def spelled (o : Option (Int × NumSp)) : Option Str := o.map fun p => spellInt p.2 p.1

/-- the lines that are present, in the order of the rows -/
def optRows (rows : List (Str × Option Str)) : List (Str × Str) :=
  rows.filterMap fun r => r.2.map fun v => (r.1, v)

def devInfoRows (d : SDevInfo) : List (Str × Option Str) :=
  [(c!"VendorName", d.vendorName),
   (c!"VendorNumber", spelled d.vendorNumber),
   (c!"ProductName", d.productName),
   (c!"ProductNumber", spelled d.productNumber),
   (c!"RevisionNumber", spelled d.revisionNumber),
   (c!"OrderCode", d.orderCode),
   (c!"BaudRate_10", spelled d.baud10),
   (c!"BaudRate_20", spelled d.baud20),
   (c!"BaudRate_50", spelled d.baud50),
   (c!"BaudRate_125", spelled d.baud125),
   (c!"BaudRate_250", spelled d.baud250),
   (c!"BaudRate_500", spelled d.baud500),
   (c!"BaudRate_800", spelled d.baud800),
   (c!"BaudRate_1000", spelled d.baud1000),
   (c!"SimpleBootUpMaster", spelled d.simpleBootUpMaster),
   (c!"SimpleBootUpSlave", spelled d.simpleBootUpSlave),
   (c!"Granularity", spelled d.granularity),
   (c!"DynamicChannelsSupported", spelled d.dynamicChannelsSupported),
   (c!"GroupMessaging", spelled d.groupMessaging),
   (c!"NrOfRXPDO", spelled d.nrOfRXPDO),
   (c!"NrOfTXPDO", spelled d.nrOfTXPDO),
   (c!"LSS_Supported", spelled d.lssSupported)]

def devInfoOpts (d : SDevInfo) : List (Str × Str) := optRows (devInfoRows d)

def textProp (attr : Str) (o : Option Str) : Option (Str × DevVal) := o.map fun s => (attr, .str s)
def numProp (attr : Str) (o : Option (Int × NumSp)) : Option (Str × DevVal) :=
  o.map fun p => (attr, .int p.1)
def flagProp (attr : Str) (o : Option (Int × NumSp)) : Option (Str × DevVal) :=
  o.map fun p => (attr, .bool (decide (p.1 ≠ 0)))

/-- the attributes of `device_information` a `[DeviceInfo]` section denotes (CiA 306: texts, numbers —
    `Granularity` is one, 0 … 64 — and flags) -/
def denoteDevInfo (d : SDevInfo) : List (Str × DevVal) :=
  [textProp c!"vendor_name" d.vendorName, numProp c!"vendor_number" d.vendorNumber,
   textProp c!"product_name" d.productName, numProp c!"product_number" d.productNumber,
   numProp c!"revision_number" d.revisionNumber, textProp c!"order_code" d.orderCode,
   flagProp c!"simple_boot_up_master" d.simpleBootUpMaster,
   flagProp c!"simple_boot_up_slave" d.simpleBootUpSlave, numProp c!"granularity" d.granularity,
   flagProp c!"dynamic_channels_supported" d.dynamicChannelsSupported,
   flagProp c!"group_messaging" d.groupMessaging, numProp c!"nr_of_RXPDO" d.nrOfRXPDO,
   numProp c!"nr_of_TXPDO" d.nrOfTXPDO, flagProp c!"LSS_supported" d.lssSupported].filterMap id

def baudOn (rate : Nat) (o : Option (Int × NumSp)) : Option Nat :=
  match o with
  | some (n, _) => if n ≠ 0 then some (rate * 1000) else none
  | none => none

/-- `allowed_baudrates` in bit/s -/
def denoteBauds (d : SDevInfo) : List Nat :=
  [baudOn 10 d.baud10, baudOn 20 d.baud20, baudOn 50 d.baud50, baudOn 125 d.baud125,
   baudOn 250 d.baud250, baudOn 500 d.baud500, baudOn 800 d.baud800,
   baudOn 1000 d.baud1000].filterMap id

structure SDummy where
  d1 : Bool := false
  d2 : Bool := false
  d3 : Bool := false
  d4 : Bool := false
  d5 : Bool := false
  d6 : Bool := false
  d7 : Bool := false
  /-- `D`/`d` and `U`/`u` in the section name -/
  capD : Bool := true
  capU : Bool := true
deriving Repr

def flagText (b : Bool) : Str := if b then c!"1" else c!"0"

def dummyOpts (f : SDummy) : List (Str × Str) :=
  [(dummyKey 1, flagText f.d1), (dummyKey 2, flagText f.d2), (dummyKey 3, flagText f.d3),
   (dummyKey 4, flagText f.d4), (dummyKey 5, flagText f.d5), (dummyKey 6, flagText f.d6),
   (dummyKey 7, flagText f.d7)]

def dummySectionName (f : SDummy) : Str :=
  (if f.capD then 'D' else 'd') :: 'u' :: 'm' :: 'm' :: 'y' :: (if f.capU then 'U' else 'u') :: c!"sage"

structure SHeader where
  fileInfo : Option (List (Str × Str)) := none
  /-- `[Comments]`: the lines, and how their number is spelled -/
  comments : Option (List Str × NumSp) := none
  devInfo : Option SDevInfo := none
  /-- `[DeviceComissioning]`: bit rate in kbit/s and node id, each optional -/
  commissioning : Option (Option Nat × Option (Int × NumSp)) := none
  dummy : Option SDummy := none
deriving Repr

structure SOD where
  header : SHeader := {}
  /-- sections the importer does not look at (object lists, tool sections), before the objects -/
  extra : List Sec := []
  objs : List SObj := []
deriving Repr

def commentOpts (ls : List Str) (sp : NumSp) : List (Str × Str) :=
  (kLines, spellNat sp ls.length) :: numbered c!"Line" 1 ls

def commissioningOpts (br : Option Nat) (nid : Option (Int × NumSp)) : List (Str × Str) :=
  numLine kNodeID nid ++ optLine kBaudrate (br.map (natStr 10 false))

def headerSections (h : SHeader) : List Sec :=
  (h.fileInfo.map fun o => ({ name := sFileInfo, opts := o } : Sec)).toList ++
  (h.devInfo.map fun d => ({ name := sDeviceInfo, opts := devInfoOpts d } : Sec)).toList ++
  (h.commissioning.map fun p => (⟨sDeviceComissioning, commissioningOpts p.1 p.2⟩ : Sec)).toList ++
  (h.dummy.map fun f => ({ name := dummySectionName f, opts := dummyOpts f } : Sec)).toList ++
  (h.comments.map fun p => ({ name := sComments, opts := commentOpts p.1 p.2 } : Sec)).toList

/-- the whole document -/
def write (sod : SOD) : Doc :=
  headerSections sod.header ++ sod.extra ++ sod.objs.flatMap objSections

/-! ### what the header denotes -/

/-- bit/s from the kbit/s of the file; 0 means "not given" -/
def denoteBitrate : Option Nat → Option Int
  | some b => if b ≠ 0 then some ((b : Int) * 1000) else none
  | none => none

/-- the explicit argument wins over the node id in the file -/
def pickNodeId (arg : Option Int) (nid : Option (Int × NumSp)) : Option Int :=
  match arg with
  | some n => some n
  | none => nid.map (·.1)

/-- the node id in force: the explicit argument, else the one in the file -/
def nodeIdInForce (h : SHeader) (arg : Option Int) : Option Int :=
  match h.commissioning with
  | some p => pickNodeId arg p.2
  | none => arg

/-- the empty dictionary with the device part the header describes; `dv` reads `[DeviceInfo]` -/
def buildHeaderWith (dv : SDevInfo → List (Str × DevVal)) (h : SHeader) (arg : Option Int) : OD :=
  { comments := (match h.comments with | some p => joinWith ['\n'] p.1 | none => []),
    bauds := (match h.devInfo with | some d => denoteBauds d | none => []),
    devInfo := (match h.devInfo with | some d => dv d | none => []),
    bitrate := (match h.commissioning with | some p => denoteBitrate p.1 | none => none),
    nodeId := (match h.commissioning with | some p => pickNodeId arg p.2 | none => none),
    fileInfo := h.fileInfo }

def dummyVar (i : Nat) : Var :=
  { name := dummyKey i, index := i, subindex := 0, dataType := (i : Int), accessType := c!"const" }

def addDummyIf (b : Bool) (i : Nat) (od : OD) : OD := if b then od.addObject (.var (dummyVar i)) else od

def addDummies (f : SDummy) (od : OD) : OD :=
  addDummyIf f.d7 7 (addDummyIf f.d6 6 (addDummyIf f.d5 5 (addDummyIf f.d4 4 (addDummyIf f.d3 3
    (addDummyIf f.d2 2 (addDummyIf f.d1 1 od))))))

/-- the dictionary a description denotes, for a given reading of `[DeviceInfo]` -/
def buildWith (dv : SDevInfo → List (Str × DevVal)) (sod : SOD) (arg : Option Int) : OD :=
  let nid := nodeIdInForce sod.header arg
  let od0 := buildHeaderWith dv sod.header arg
  let od1 := match sod.header.dummy with | some f => addDummies f od0 | none => od0
  sod.objs.foldl (fun od o => od.addObject (buildObj nid o)) od1

/-- the dictionary a description denotes -/
def build : SOD → Option Int → OD := buildWith denoteDevInfo

/-- a section the importer has no reason to look at -/
def ignoredSection (s : Sec) : Prop :=
  isDummySection s.name = false ∧ matchIndex s.name = none ∧ matchSub s.name = none ∧
  matchName s.name = none ∧ s.name ≠ sFileInfo ∧ s.name ≠ sComments ∧ s.name ≠ sDeviceInfo ∧
  s.name ≠ sDeviceComissioning

structure SOD.WF (sod : SOD) : Prop where
  objs_ok : ∀ o ∈ sod.objs, o.WF
  extra_ok : ∀ s ∈ sod.extra, ignoredSection s

end Canopen.Spec.EdsWriter
