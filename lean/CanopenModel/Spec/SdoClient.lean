/-
Specification peer: a strict, standard-conformant SDO *client* (CiA 301 §7.2.4.3), written
independently of canopen's own client.  It uploads / downloads "by the book" against the server
model and checks every response it gets: exactly one frame, 8 bytes, the expected server
command specifier, echoed multiplexer, toggle alternating from 0, `n`/`c`/size consistent,
unused bytes zero.  The first thing it dislikes is reported as `protocol why`.
-/
import CanopenModel.Sdo.Server

namespace Canopen.Spec
open Canopen Canopen.Sdo

inductive XRes where
  | ok (data : Bytes)
  | aborted (code : Nat)
  | protocol (why : String)
deriving Repr

def mux (idx sub : Nat) : Bytes := [idx % 256, idx / 256 % 256, sub % 256]

/-! field decoders of a response command byte (CiA 301 figures 23–30) -/
def scs (c : Nat) : Nat := c &&& 0xE0
def segToggle (c : Nat) : Bool := c &&& 0x10 != 0
def segLast (c : Nat) : Bool := c &&& 0x01 != 0
def segUnused (c : Nat) : Nat := (c >>> 1) &&& 7
def iniExpedited (c : Nat) : Bool := c &&& 0x02 != 0
def iniSized (c : Nat) : Bool := c &&& 0x01 != 0
def iniUnused (c : Nat) : Nat := (c >>> 2) &&& 3
def iniReserved4 (c : Nat) : Bool := c &&& 0x10 != 0      -- bit 4 is reserved in initiate responses
def iniReservedN (c : Nat) : Bool := c &&& 0x0C != 0      -- n must be 0 unless e = s = 1

/-! request command bytes the reference client builds -/
def tbit (t : Bool) : Nat := if t then 0x10 else 0
def segUpReq (t : Bool) : Nat := 0x60 + tbit t
def segDownReq (t : Bool) (len : Nat) (last : Bool) : Nat := 0x00 + tbit t + (7 - len) * 2 + (if last then 1 else 0)
def expDownReq (len : Nat) : Nat := 0x23 + (4 - len) * 4

/-- exactly one 8-byte response, nothing raised -/
def oneResp (o : Out) : Option Bytes :=
  if o.raised then none
  else match o.sent with
    | [r] => if r.length = 8 then some r else none
    | _ => none

def allZero (bs : Bytes) : Bool := bs.all (· == 0)

/-- abort frame addressed to our transfer? -/
def asAbort (r : Bytes) (idx sub : Nat) : Option XRes :=
  match r with
  | c :: rest =>
    if c = 0x80 then
      some (if rest.take 3 = mux idx sub then .aborted (leVal (rest.drop 3))
            else .protocol "abort with wrong multiplexer")
    else none
  | [] => none

/-- what the client concludes from one upload segment response `c0 :: body` -/
inductive SegVerdict where
  | bad (why : String)
  | done (x : XRes)
  | more (acc : Bytes)

def judgeUpSeg (c0 : Nat) (body : Bytes) (t : Bool) (size : Nat) (acc : Bytes) : SegVerdict :=
  if scs c0 != 0x00 then .bad "wrong server command specifier"
  else if segToggle c0 != t then .bad "toggle bit does not alternate"
  else
    let seg := body.take (7 - segUnused c0)
    let pad := body.drop (7 - segUnused c0)
    if !allZero pad then .bad "unused bytes not zero"
    else if segLast c0 then
      .done (if (acc ++ seg).length = size then .ok (acc ++ seg) else .protocol "announced size differs from data")
    else if seg.length = 0 then .bad "empty segment that is not the last"
    else if size ≤ (acc ++ seg).length then .bad "all announced bytes delivered but the segment is not flagged as the last"
    else .more (acc ++ seg)

/-- upload segments: request with alternating toggle until the server flags the last one -/
def upSegT : Nat → Srv → Node → Nat → Nat → Nat → Bool → Bytes → Srv × Node × XRes
  | 0, s, n, _, _, _, _, _ => (s, n, .protocol "server never flagged the last segment")
  | fuel + 1, s, n, idx, sub, size, t, acc =>
    let o := srvStep s n (segUpReq t :: List.replicate 7 0)
    match oneResp o with
    | none => (o.srv, o.node, .protocol "not exactly one 8-byte response")
    | some r =>
      match asAbort r idx sub with
      | some x => (o.srv, o.node, x)
      | none =>
        match judgeUpSeg (r.headD 0) (r.drop 1) t size acc with
        | .bad why => (o.srv, o.node, .protocol why)
        | .done x => (o.srv, o.node, x)
        | .more acc' => upSegT fuel o.srv o.node idx sub size (!t) acc'

/-- what the client concludes from the initiate upload response -/
inductive IniVerdict where
  | bad (why : String)
  | done (data : Bytes)
  | segmented (size : Nat)

def judgeUpInit (r : Bytes) (idx sub : Nat) : IniVerdict :=
  let c0 := r.headD 0
  if scs c0 != 0x40 then .bad "wrong server command specifier"
  else if (r.drop 1).take 3 != mux idx sub then .bad "multiplexer not echoed"
  else if iniExpedited c0 then
    if iniReserved4 c0 then .bad "reserved bit set"
    else if iniSized c0 then
      if !allZero ((r.drop 4).drop (4 - iniUnused c0)) then .bad "unused bytes not zero"
      else .done ((r.drop 4).take (4 - iniUnused c0))
    else if iniReservedN c0 then .bad "n set without s"
    else .done (r.drop 4)
  else if iniReserved4 c0 || iniReservedN c0 then .bad "reserved bits set"
  else if !iniSized c0 then .bad "size not indicated"
  else .segmented (leVal (r.drop 4))

/-- a complete strict upload of `idx:sub` -/
def refUpload (s : Srv) (n : Node) (idx sub : Nat) : Srv × Node × XRes :=
  let o := srvStep s n (0x40 :: (mux idx sub ++ [0, 0, 0, 0]))
  match oneResp o with
  | none => (o.srv, o.node, .protocol "not exactly one 8-byte response")
  | some r =>
    match asAbort r idx sub with
    | some x => (o.srv, o.node, x)
    | none =>
      match judgeUpInit r idx sub with
      | .bad why => (o.srv, o.node, .protocol why)
      | .done d => (o.srv, o.node, .ok d)
      | .segmented size => upSegT (size / 7 + 2) o.srv o.node idx sub size false []

/-- download segments for a list of chunk sizes (each clamped to 1..7) -/
def downSegT : List Nat → Srv → Node → Nat → Nat → Bool → Bytes → Srv × Node × XRes
  | [], s, n, _, _, _, _ => (s, n, .protocol "chunk list exhausted")
  | k :: ks, s, n, idx, sub, t, rem =>
    let k' := min (max k 1) 7
    let chunk := rem.take k'
    let rest := rem.drop k'
    let o := srvStep s n (segDownReq t chunk.length rest.isEmpty :: padTo 7 chunk)
    match oneResp o with
    | none => (o.srv, o.node, .protocol "not exactly one 8-byte response")
    | some r =>
      match asAbort r idx sub with
      | some x => (o.srv, o.node, x)
      | none =>
        if r != (0x20 + tbit t) :: List.replicate 7 0 then
          (o.srv, o.node, .protocol "bad segment download response")
        else if rest.isEmpty then (o.srv, o.node, .ok [])
        else downSegT ks o.srv o.node idx sub (!t) rest

/-- a complete strict download; `expedited` is honoured only for 1..4 bytes -/
def refDownload (s : Srv) (n : Node) (idx sub : Nat) (data : Bytes) (expedited : Bool)
    (chunks : List Nat) : Srv × Node × XRes :=
  if expedited ∧ 1 ≤ data.length ∧ data.length ≤ 4 then
    let o := srvStep s n (expDownReq data.length :: (mux idx sub ++ padTo 4 data))
    match oneResp o with
    | none => (o.srv, o.node, .protocol "not exactly one 8-byte response")
    | some r =>
      match asAbort r idx sub with
      | some x => (o.srv, o.node, x)
      | none =>
        if r = 0x60 :: (mux idx sub ++ [0, 0, 0, 0]) then (o.srv, o.node, .ok [])
        else (o.srv, o.node, .protocol "bad download response")
  else
    let o := srvStep s n (0x21 :: (mux idx sub ++ leBytes 4 data.length))
    match oneResp o with
    | none => (o.srv, o.node, .protocol "not exactly one 8-byte response")
    | some r =>
      match asAbort r idx sub with
      | some x => (o.srv, o.node, x)
      | none =>
        if r != 0x60 :: (mux idx sub ++ [0, 0, 0, 0]) then (o.srv, o.node, .protocol "bad download response")
        else downSegT (chunks ++ List.replicate (data.length + 1) 7) o.srv o.node idx sub false data

/-! ## client styles

The client above makes one particular choice wherever CiA 301 leaves one.  A conformant client
has more freedom, and a server has to serve every such client alike:

* a download may be initiated in four ways: expedited with size indication (`e = 1, s = 1`,
  `0x23 | n << 2`), expedited without (`e = 1, s = 0`, `0x22`: "d contains unspecified number of
  bytes to be downloaded" — all four data bytes are the value), segmented with the size in `d`
  (`0x21`) and segmented without (`0x20`, `d` reserved);
* the bits of a command byte that the figures mark `x` / the `n` field where it is "not valid",
  the reserved bytes of initiate / segment requests and the bytes of a frame that "do not contain
  data" carry no information: `Rsv` says what this client writes there.

`refUploadS` / `refDownloadS` are the strict client again, with these choices as arguments. -/

inductive DownStyle where
  | expSized      -- 0x23 | n << 2, 1..4 bytes
  | expUnsized    -- 0x22, exactly the four data bytes
  | segSized      -- 0x21, size announced
  | segUnsized    -- 0x20, size not announced
deriving Repr, DecidableEq

/-- what the client writes where the server has to ignore it -/
structure Rsv where
  bits : Nat          -- bit k of `bits % 32` goes to bit k of a command byte where that bit is unused
  fill : Bytes        -- prefix of this goes to reserved / unused data bytes

def fillN (v : Rsv) (k : Nat) : Bytes := padTo k (v.fill.take k)

/-- unused bits 0..4 of an initiate upload request -/
def upInitReqS (v : Rsv) : Nat := 0x40 + v.bits % 32
/-- unused bits 0..3 of an upload segment request -/
def segUpReqS (v : Rsv) (t : Bool) : Nat := 0x60 + tbit t + v.bits % 16
/-- bits 2..4 (`x` and the `n` field where it is not valid) of an initiate download request -/
def rsvXN (v : Rsv) : Nat := v.bits % 32 / 4 * 4
/-- bit 4 (`x`) alone, where `n` is valid -/
def rsvX (v : Rsv) : Nat := v.bits % 32 / 16 * 16
def expDownReqS (v : Rsv) (len : Nat) : Nat := 0x23 + (4 - len) * 4 + rsvX v

/-- the style that can carry a payload of this length: expedited-with-size needs 1..4 bytes,
    expedited-without-size exactly 4; otherwise the segmented style of the same size indication -/
def effStyle (st : DownStyle) (len : Nat) : DownStyle :=
  match st with
  | .expSized => if 1 ≤ len ∧ len ≤ 4 then .expSized else .segSized
  | .expUnsized => if len = 4 then .expUnsized else .segUnsized
  | .segSized => .segSized
  | .segUnsized => .segUnsized

def DownStyle.isExp : DownStyle → Bool
  | .expSized => true
  | .expUnsized => true
  | _ => false

/-- the initiate download request of each style -/
def downInitFrame (v : Rsv) (st : DownStyle) (idx sub : Nat) (data : Bytes) : Bytes :=
  match st with
  | .expSized => expDownReqS v data.length :: (mux idx sub ++ (data ++ fillN v (4 - data.length)))
  | .expUnsized => (0x22 + rsvXN v) :: (mux idx sub ++ data)
  | .segSized => (0x21 + rsvXN v) :: (mux idx sub ++ leBytes 4 data.length)
  | .segUnsized => (0x20 + rsvXN v) :: (mux idx sub ++ fillN v 4)

/-- upload segments, styled requests -/
def upSegS (v : Rsv) : Nat → Srv → Node → Nat → Nat → Nat → Bool → Bytes → Srv × Node × XRes
  | 0, s, n, _, _, _, _, _ => (s, n, .protocol "server never flagged the last segment")
  | fuel + 1, s, n, idx, sub, size, t, acc =>
    let o := srvStep s n (segUpReqS v t :: fillN v 7)
    match oneResp o with
    | none => (o.srv, o.node, .protocol "not exactly one 8-byte response")
    | some r =>
      match asAbort r idx sub with
      | some x => (o.srv, o.node, x)
      | none =>
        match judgeUpSeg (r.headD 0) (r.drop 1) t size acc with
        | .bad why => (o.srv, o.node, .protocol why)
        | .done x => (o.srv, o.node, x)
        | .more acc' => upSegS v fuel o.srv o.node idx sub size (!t) acc'

/-- a complete strict upload, styled requests -/
def refUploadS (v : Rsv) (s : Srv) (n : Node) (idx sub : Nat) : Srv × Node × XRes :=
  let o := srvStep s n (upInitReqS v :: (mux idx sub ++ fillN v 4))
  match oneResp o with
  | none => (o.srv, o.node, .protocol "not exactly one 8-byte response")
  | some r =>
    match asAbort r idx sub with
    | some x => (o.srv, o.node, x)
    | none =>
      match judgeUpInit r idx sub with
      | .bad why => (o.srv, o.node, .protocol why)
      | .done d => (o.srv, o.node, .ok d)
      | .segmented size => upSegS v (size / 7 + 2) o.srv o.node idx sub size false []

/-- download segments, the bytes after the data filled from `v` -/
def downSegS (v : Rsv) : List Nat → Srv → Node → Nat → Nat → Bool → Bytes → Srv × Node × XRes
  | [], s, n, _, _, _, _ => (s, n, .protocol "chunk list exhausted")
  | k :: ks, s, n, idx, sub, t, rem =>
    let k' := min (max k 1) 7
    let chunk := rem.take k'
    let rest := rem.drop k'
    let o := srvStep s n (segDownReq t chunk.length rest.isEmpty :: (chunk ++ fillN v (7 - chunk.length)))
    match oneResp o with
    | none => (o.srv, o.node, .protocol "not exactly one 8-byte response")
    | some r =>
      match asAbort r idx sub with
      | some x => (o.srv, o.node, x)
      | none =>
        if r != (0x20 + tbit t) :: List.replicate 7 0 then
          (o.srv, o.node, .protocol "bad segment download response")
        else if rest.isEmpty then (o.srv, o.node, .ok [])
        else downSegS v ks o.srv o.node idx sub (!t) rest

/-- a complete strict download in the given style -/
def refDownloadS (v : Rsv) (s : Srv) (n : Node) (idx sub : Nat) (data : Bytes) (st : DownStyle)
    (chunks : List Nat) : Srv × Node × XRes :=
  let st' := effStyle st data.length
  let o := srvStep s n (downInitFrame v st' idx sub data)
  match oneResp o with
  | none => (o.srv, o.node, .protocol "not exactly one 8-byte response")
  | some r =>
    match asAbort r idx sub with
    | some x => (o.srv, o.node, x)
    | none =>
      if r != 0x60 :: (mux idx sub ++ [0, 0, 0, 0]) then (o.srv, o.node, .protocol "bad download response")
      else if st'.isExp then (o.srv, o.node, .ok [])
      else downSegS v (chunks ++ List.replicate (data.length + 1) 7) o.srv o.node idx sub false data

/-- A request frame that can make the server call `set_data`: a download segment with the
    last-segment flag, or an expedited initiate download.  No other frame transfers a value. -/
def mayWrite (f : Bytes) : Bool :=
  match f with
  | [] => false
  | c :: _ => (c &&& 0xE0 == 0x00 && c &&& 0x01 != 0) || (c &&& 0xE0 == 0x20 && c &&& 0x02 != 0)

/-- strict uploads of a list of addresses, one after the other -/
def refUploadsS (v : Rsv) (s : Srv) (n : Node) : List (Nat × Nat) → Srv × Node × List XRes
  | [] => (s, n, [])
  | (i, j) :: r =>
    let (s1, n1, x) := refUploadS v s n i j
    let (s2, n2, xs) := refUploadsS v s1 n1 r
    (s2, n2, x :: xs)

end Canopen.Spec
