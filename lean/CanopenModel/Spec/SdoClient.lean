/-
Specification peer: a strict, standard-conformant SDO *client* (CiA 301 §7.2.4.3), written
independently of canopen's own client.  It uploads / downloads "by the book" against the server
model and checks every response it gets: exactly one frame, 8 bytes, the expected server
command specifier, echoed multiplexer, toggle alternating from 0, `n`/`c`/size consistent,
unused bytes zero.  The first thing it dislikes is reported as `protocol why`.
-/
import CanopenModel.Sdo.Server

namespace Canopen.Spec
open Canopen Canopen.Sdo

inductive XRes where
  | ok (data : Bytes)
  | aborted (code : Nat)
  | protocol (why : String)
deriving Repr

def mux (idx sub : Nat) : Bytes := [idx % 256, idx / 256 % 256, sub % 256]

/-! field decoders of a response command byte (CiA 301 figures 23–30) -/
def scs (c : Nat) : Nat := c &&& 0xE0
def segToggle (c : Nat) : Bool := c &&& 0x10 != 0
def segLast (c : Nat) : Bool := c &&& 0x01 != 0
def segUnused (c : Nat) : Nat := (c >>> 1) &&& 7
def iniExpedited (c : Nat) : Bool := c &&& 0x02 != 0
def iniSized (c : Nat) : Bool := c &&& 0x01 != 0
def iniUnused (c : Nat) : Nat := (c >>> 2) &&& 3
def iniReserved4 (c : Nat) : Bool := c &&& 0x10 != 0      -- bit 4 is reserved in initiate responses
def iniReservedN (c : Nat) : Bool := c &&& 0x0C != 0      -- n must be 0 unless e = s = 1

/-! request command bytes the reference client builds -/
def tbit (t : Bool) : Nat := if t then 0x10 else 0
def segUpReq (t : Bool) : Nat := 0x60 + tbit t
def segDownReq (t : Bool) (len : Nat) (last : Bool) : Nat := 0x00 + tbit t + (7 - len) * 2 + (if last then 1 else 0)
def expDownReq (len : Nat) : Nat := 0x23 + (4 - len) * 4

/-- exactly one 8-byte response, nothing raised -/
def oneResp (o : Out) : Option Bytes :=
  if o.raised then none
  else match o.sent with
    | [r] => if r.length = 8 then some r else none
    | _ => none

def allZero (bs : Bytes) : Bool := bs.all (· == 0)

/-- abort frame addressed to our transfer? -/
def asAbort (r : Bytes) (idx sub : Nat) : Option XRes :=
  match r with
  | c :: rest =>
    if c = 0x80 then
      some (if rest.take 3 = mux idx sub then .aborted (leVal (rest.drop 3))
            else .protocol "abort with wrong multiplexer")
    else none
  | [] => none

/-- what the client concludes from one upload segment response `c0 :: body` -/
inductive SegVerdict where
  | bad (why : String)
  | done (x : XRes)
  | more (acc : Bytes)

def judgeUpSeg (c0 : Nat) (body : Bytes) (t : Bool) (size : Nat) (acc : Bytes) : SegVerdict :=
  if scs c0 != 0x00 then .bad "wrong server command specifier"
  else if segToggle c0 != t then .bad "toggle bit does not alternate"
  else
    let seg := body.take (7 - segUnused c0)
    let pad := body.drop (7 - segUnused c0)
    if !allZero pad then .bad "unused bytes not zero"
    else if segLast c0 then
      .done (if (acc ++ seg).length = size then .ok (acc ++ seg) else .protocol "announced size differs from data")
    else if seg.length = 0 then .bad "empty segment that is not the last"
    else .more (acc ++ seg)

/-- upload segments: request with alternating toggle until the server flags the last one -/
def upSegT : Nat → Srv → Node → Nat → Nat → Nat → Bool → Bytes → Srv × Node × XRes
  | 0, s, n, _, _, _, _, _ => (s, n, .protocol "server never flagged the last segment")
  | fuel + 1, s, n, idx, sub, size, t, acc =>
    let o := srvStep s n (segUpReq t :: List.replicate 7 0)
    match oneResp o with
    | none => (o.srv, o.node, .protocol "not exactly one 8-byte response")
    | some r =>
      match asAbort r idx sub with
      | some x => (o.srv, o.node, x)
      | none =>
        match judgeUpSeg (r.headD 0) (r.drop 1) t size acc with
        | .bad why => (o.srv, o.node, .protocol why)
        | .done x => (o.srv, o.node, x)
        | .more acc' => upSegT fuel o.srv o.node idx sub size (!t) acc'

/-- what the client concludes from the initiate upload response -/
inductive IniVerdict where
  | bad (why : String)
  | done (data : Bytes)
  | segmented (size : Nat)

def judgeUpInit (r : Bytes) (idx sub : Nat) : IniVerdict :=
  let c0 := r.headD 0
  if scs c0 != 0x40 then .bad "wrong server command specifier"
  else if (r.drop 1).take 3 != mux idx sub then .bad "multiplexer not echoed"
  else if iniExpedited c0 then
    if iniReserved4 c0 then .bad "reserved bit set"
    else if iniSized c0 then
      if !allZero ((r.drop 4).drop (4 - iniUnused c0)) then .bad "unused bytes not zero"
      else .done ((r.drop 4).take (4 - iniUnused c0))
    else if iniReservedN c0 then .bad "n set without s"
    else .done (r.drop 4)
  else if iniReserved4 c0 || iniReservedN c0 then .bad "reserved bits set"
  else if !iniSized c0 then .bad "size not indicated"
  else .segmented (leVal (r.drop 4))

/-- a complete strict upload of `idx:sub` -/
def refUpload (s : Srv) (n : Node) (idx sub : Nat) : Srv × Node × XRes :=
  let o := srvStep s n (0x40 :: (mux idx sub ++ [0, 0, 0, 0]))
  match oneResp o with
  | none => (o.srv, o.node, .protocol "not exactly one 8-byte response")
  | some r =>
    match asAbort r idx sub with
    | some x => (o.srv, o.node, x)
    | none =>
      match judgeUpInit r idx sub with
      | .bad why => (o.srv, o.node, .protocol why)
      | .done d => (o.srv, o.node, .ok d)
      | .segmented size => upSegT (size / 7 + 2) o.srv o.node idx sub size false []

/-- download segments for a list of chunk sizes (each clamped to 1..7) -/
def downSegT : List Nat → Srv → Node → Nat → Nat → Bool → Bytes → Srv × Node × XRes
  | [], s, n, _, _, _, _ => (s, n, .protocol "chunk list exhausted")
  | k :: ks, s, n, idx, sub, t, rem =>
    let k' := min (max k 1) 7
    let chunk := rem.take k'
    let rest := rem.drop k'
    let o := srvStep s n (segDownReq t chunk.length rest.isEmpty :: padTo 7 chunk)
    match oneResp o with
    | none => (o.srv, o.node, .protocol "not exactly one 8-byte response")
    | some r =>
      match asAbort r idx sub with
      | some x => (o.srv, o.node, x)
      | none =>
        if r != (0x20 + tbit t) :: List.replicate 7 0 then
          (o.srv, o.node, .protocol "bad segment download response")
        else if rest.isEmpty then (o.srv, o.node, .ok [])
        else downSegT ks o.srv o.node idx sub (!t) rest

/-- a complete strict download; `expedited` is honoured only for 1..4 bytes -/
def refDownload (s : Srv) (n : Node) (idx sub : Nat) (data : Bytes) (expedited : Bool)
    (chunks : List Nat) : Srv × Node × XRes :=
  if expedited ∧ 1 ≤ data.length ∧ data.length ≤ 4 then
    let o := srvStep s n (expDownReq data.length :: (mux idx sub ++ padTo 4 data))
    match oneResp o with
    | none => (o.srv, o.node, .protocol "not exactly one 8-byte response")
    | some r =>
      match asAbort r idx sub with
      | some x => (o.srv, o.node, x)
      | none =>
        if r = 0x60 :: (mux idx sub ++ [0, 0, 0, 0]) then (o.srv, o.node, .ok [])
        else (o.srv, o.node, .protocol "bad download response")
  else
    let o := srvStep s n (0x21 :: (mux idx sub ++ leBytes 4 data.length))
    match oneResp o with
    | none => (o.srv, o.node, .protocol "not exactly one 8-byte response")
    | some r =>
      match asAbort r idx sub with
      | some x => (o.srv, o.node, x)
      | none =>
        if r != 0x60 :: (mux idx sub ++ [0, 0, 0, 0]) then (o.srv, o.node, .protocol "bad download response")
        else downSegT (chunks ++ List.replicate (data.length + 1) 7) o.srv o.node idx sub false data

end Canopen.Spec
