/-
A *strict* CANopen device as far as one PDO's parameter objects are concerned: my reading of
CiA 301 §7.5.2.35–38 (objects 1400h–15FFh, 1600h–17FFh, 1800h–19FFh, 1A00h–1BFFh), written
independently of canopen/pdo/base.py.  It is the peer the property C09 talks about ("a strict
device", "refuses out-of-order writes"); the Python reference peer in harness/props/c09.py is a
second, independent writing of the same rules and the correspondence run compares the two.

One device = one communication parameter record and its mapping parameter object.

Rules (CiA 301):
* sub 1 of the communication record is a 32 bit word: bit 31 = 1 "PDO does not exist / is not
  valid", bit 30 = 1 "no RTR allowed", bit 29 frame format, bits 0..28 CAN-ID.  "Bits 0 to 29
  shall not be changed while the PDO exists and is valid": a write that leaves the PDO valid
  (old bit 31 = 0 and new bit 31 = 0) and differs in bits 0..29 is refused.
* transmission type (sub 2), inhibit time (sub 3), event timer (sub 5) and SYNC start value
  (sub 6) are refused while the PDO is valid.  (CiA 301 demands this for sub 3 and sub 6; a
  strict device may and here does demand it for all of them.)  Subs 3, 5, 6 are optional:
  absent ones answer "sub-index does not exist".
* mapping: "disable the PDO (bit 31), set sub 0 to 0, write the entries, set sub 0 to the number
  of entries, enable the PDO".  Any mapping write while the PDO is valid is refused; an entry
  write while sub 0 ≠ 0 is refused; an entry that the device cannot map is refused; sub 0 := n
  is refused when n exceeds the number of entries the object has, or when the mapped lengths of
  entries 1..n exceed 64 bits.
* a download whose byte count is not the entry's size is refused.

`fixedCount = true` is *not* a strict device: it is the "broken implementation" that
`PdoMap.save` has a work-around for (number of entries read-only, entries writable although the
count is not zero).  It exists for the correspondence run only; every theorem about the strict
device assumes `fixedCount = false`.
-/
namespace Canopen.Spec.StrictPdo

/-- SDO abort codes used by the device (CiA 301 table 22) -/
def abReadOnly : Nat := 0x06010002       -- attempt to write a read only object
def abUnsupported : Nat := 0x06010000    -- unsupported access to an object
def abNoObject : Nat := 0x06020000       -- object does not exist
def abNotMappable : Nat := 0x06040041    -- object cannot be mapped to the PDO
def abPdoLength : Nat := 0x06040042      -- mapped objects would exceed PDO length
def abLength : Nat := 0x06070010         -- data type does not match, length does not match
def abNoSub : Nat := 0x06090011          -- sub-index does not exist
def abInvalidValue : Nat := 0x06090030   -- invalid value for parameter
def abValueHigh : Nat := 0x06090031      -- value of parameter written too high
def abDeviceState : Nat := 0x08000022    -- cannot be transferred because of the present device state

structure PdoDev where
  comIdx : Nat
  mapIdx : Nat
  cobWord : Nat            -- communication sub 1
  tt : Nat                 -- sub 2
  inhibit : Option Nat     -- sub 3, `none` = entry not implemented
  event : Option Nat       -- sub 5
  sync : Option Nat        -- sub 6
  count : Nat              -- mapping sub 0
  entries : List Nat       -- mapping sub 1.. (its length is the number of entries the object has)
  mappable : List Nat      -- the mapping words this device is able to map
  fixedCount : Bool        -- see the header; `false` for a strict device
deriving Repr, DecidableEq

/-- the PDO exists and is valid -/
def PdoDev.valid (d : PdoDev) : Bool := !d.cobWord.testBit 31

/-- bit length carried by a mapping word -/
def entryBits (w : Nat) : Nat := w % 256

def mappedBits (ws : List Nat) : Nat := (ws.map entryBits).sum

/-- highest sub-index of the communication record -/
def PdoDev.comHighest (d : PdoDev) : Nat :=
  if d.sync.isSome then 6 else if d.event.isSome then 5 else if d.inhibit.isSome then 3 else 2

/-- write to an optional 16/8 bit parameter of the communication record -/
def writeOpt (valid : Bool) (cur : Option Nat) (want size v : Nat) : Option Nat × Option Nat :=
  match cur with
  | none => (cur, some abNoSub)
  | some _ =>
    if size ≠ want then (cur, some abLength)
    else if valid then (cur, some abDeviceState)
    else (some v, none)

/-- write to the communication record -/
def writeCom (d : PdoDev) (sub size v : Nat) : PdoDev × Option Nat :=
  if sub = 0 then (d, some abReadOnly)
  else if sub = 1 then
    if size ≠ 4 then (d, some abLength)
    else if d.valid && !v.testBit 31 && (v % 2 ^ 30 != d.cobWord % 2 ^ 30) then
      (d, some abInvalidValue)
    else ({ d with cobWord := v }, none)
  else if sub = 2 then
    if size ≠ 1 then (d, some abLength)
    else if d.valid then (d, some abDeviceState)
    else ({ d with tt := v }, none)
  else if sub = 3 then
    let r := writeOpt d.valid d.inhibit 2 size v
    ({ d with inhibit := r.1 }, r.2)
  else if sub = 5 then
    let r := writeOpt d.valid d.event 2 size v
    ({ d with event := r.1 }, r.2)
  else if sub = 6 then
    let r := writeOpt d.valid d.sync 1 size v
    ({ d with sync := r.1 }, r.2)
  else (d, some abNoSub)

/-- write to the mapping object -/
def writeMap (d : PdoDev) (sub size v : Nat) : PdoDev × Option Nat :=
  if sub = 0 then
    if size ≠ 1 then (d, some abLength)
    else if d.fixedCount then (d, some abReadOnly)
    else if d.valid then (d, some abDeviceState)
    else if v > d.entries.length then (d, some abValueHigh)
    else if mappedBits (d.entries.take v) > 64 then (d, some abPdoLength)
    else ({ d with count := v }, none)
  else if sub > d.entries.length then (d, some abNoSub)
  else if size ≠ 4 then (d, some abLength)
  else if d.valid then (d, some abDeviceState)
  else if d.count ≠ 0 && !d.fixedCount then (d, some abUnsupported)
  else if !d.mappable.contains v then (d, some abNotMappable)
  else ({ d with entries := d.entries.set (sub - 1) v }, none)

/-- SDO download of `size` bytes with little-endian value `v` to `idx:sub` -/
def write (d : PdoDev) (idx sub size v : Nat) : PdoDev × Option Nat :=
  if idx = d.comIdx then writeCom d sub size v
  else if idx = d.mapIdx then writeMap d sub size v
  else (d, some abNoObject)

def optRead : Option Nat → Except Nat Nat
  | some v => .ok v
  | none => .error abNoSub

/-- SDO upload of `idx:sub`: the value, or the abort code -/
def read (d : PdoDev) (idx sub : Nat) : Except Nat Nat :=
  if idx = d.comIdx then
    if sub = 0 then .ok d.comHighest
    else if sub = 1 then .ok d.cobWord
    else if sub = 2 then .ok d.tt
    else if sub = 3 then optRead d.inhibit
    else if sub = 5 then optRead d.event
    else if sub = 6 then optRead d.sync
    else .error abNoSub
  else if idx = d.mapIdx then
    if sub = 0 then .ok d.count
    else optRead d.entries[sub - 1]?
  else .error abNoObject

/-! ### a device with several PDOs

A CANopen device has up to 512 RPDOs and 512 TPDOs; each one is a `PdoDev` of its own (its own
communication record and mapping object, its own validity bit and count), and the parameter
objects of one PDO are never changed by a write to another.  An SDO access goes to the PDO that
owns the index; an index no PDO owns does not exist. -/

/-- `idx` is the communication record or the mapping object of this PDO -/
def PdoDev.owns (d : PdoDev) (idx : Nat) : Bool := idx == d.comIdx || idx == d.mapIdx

def writeMulti : List PdoDev → Nat → Nat → Nat → Nat → List PdoDev × Option Nat
  | [], _, _, _, _ => ([], some abNoObject)
  | d :: ds, idx, sub, size, v =>
    if d.owns idx then ((write d idx sub size v).1 :: ds, (write d idx sub size v).2)
    else (d :: (writeMulti ds idx sub size v).1, (writeMulti ds idx sub size v).2)

def readMulti : List PdoDev → Nat → Nat → Except Nat Nat
  | [], _, _ => .error abNoObject
  | d :: ds, idx, sub => if d.owns idx then read d idx sub else readMulti ds idx sub

end Canopen.Spec.StrictPdo
