/-
CiA 301 §7.2.7 (emergency object) written independently of the code: the frame layout of the
EMCY write protocol and the table of emergency error code *classes*.  This is the
specification the model of canopen/emcy.py is compared with.

Frame (8 bytes):  byte 0..1 emergency error code, least significant byte first;
                  byte 2    error register (object 1001h);
                  byte 3..7 manufacturer-specific error field.

Error code classes ("xx" = any low byte).  CiA 301 lists 00xx, 10xx, 20xx–23xx (current),
30xx–33xx (voltage), 40xx–42xx (temperature), 50xx, 60xx–63xx (device software), 70xx,
80xx–82xx (monitoring), 90xx, F0xx, FFxx.  The classes that have sub-classes are identified by
their leading hex digit (sub-classes not listed are reserved for that class); the classes
without sub-classes by their whole high byte.  Every other high byte has no class.
-/
namespace Canopen.Spec

/-- the 8 data bytes of an emergency object carrying `code` (< 2¹⁶), `reg` (< 2⁸) and the five
    manufacturer-specific bytes `mfr` -/
def emcyFrame (code reg : Nat) (mfr : List Nat) : List Nat :=
  [code % 256, code / 256 % 256, reg] ++ mfr

inductive ErrClass where
  | errorReset | generic | current | voltage | temperature | deviceHardware | deviceSoftware
  | additionalModules | monitoring | externalError | additionalFunctions | deviceSpecific
  | unclassified
deriving Repr, DecidableEq

/-- class of an emergency error code, by its high byte `hb = code / 256` (`hb < 256`) -/
def classOfHighByte (hb : Nat) : ErrClass :=
  if hb = 0x00 then .errorReset
  else if hb = 0x10 then .generic
  else if hb / 16 = 0x2 then .current
  else if hb / 16 = 0x3 then .voltage
  else if hb / 16 = 0x4 then .temperature
  else if hb = 0x50 then .deviceHardware
  else if hb / 16 = 0x6 then .deviceSoftware
  else if hb = 0x70 then .additionalModules
  else if hb / 16 = 0x8 then .monitoring
  else if hb = 0x90 then .externalError
  else if hb = 0xF0 then .additionalFunctions
  else if hb = 0xFF then .deviceSpecific
  else .unclassified

def classOfCode (code : Nat) : ErrClass := classOfHighByte (code / 256 % 256)

/-- the text by which each class is reported (CiA 301's wording, shortened as in the library's
    documentation; no text for a code without class) -/
def className : ErrClass → List Char
  | .errorReset => ['E','r','r','o','r',' ','R','e','s','e','t',' ','/',' ','N','o',' ','E','r','r','o','r']
  | .generic => ['G','e','n','e','r','i','c',' ','E','r','r','o','r']
  | .current => ['C','u','r','r','e','n','t']
  | .voltage => ['V','o','l','t','a','g','e']
  | .temperature => ['T','e','m','p','e','r','a','t','u','r','e']
  | .deviceHardware => ['D','e','v','i','c','e',' ','H','a','r','d','w','a','r','e']
  | .deviceSoftware => ['D','e','v','i','c','e',' ','S','o','f','t','w','a','r','e']
  | .additionalModules => ['A','d','d','i','t','i','o','n','a','l',' ','M','o','d','u','l','e','s']
  | .monitoring => ['M','o','n','i','t','o','r','i','n','g']
  | .externalError => ['E','x','t','e','r','n','a','l',' ','E','r','r','o','r']
  | .additionalFunctions => ['A','d','d','i','t','i','o','n','a','l',' ','F','u','n','c','t','i','o','n','s']
  | .deviceSpecific => ['D','e','v','i','c','e',' ','S','p','e','c','i','f','i','c']
  | .unclassified => []

/-- an error-reset frame is one whose code is in class 00xx -/
def isErrorReset (code : Nat) : Bool := decide (code / 256 % 256 = 0)

end Canopen.Spec
