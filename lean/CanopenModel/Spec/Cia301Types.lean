/-
CiA 301 (Table 44, "Object dictionary data types") written independently of the code:
data type index ↦ (bit width, kind).  This is the *specification* the generated
`STRUCT_TYPES` table is compared with.
-/
namespace Canopen.Spec

inductive NumKind where
  | boolean | signed | unsigned | real
deriving Repr, DecidableEq

/-- (data type index, width in bits, kind) for every fixed-size basic type of CiA 301 -/
def cia301Types : List (Nat × Nat × NumKind) := [
  (0x01, 8, .boolean),     -- BOOLEAN (one byte on the wire)
  (0x02, 8, .signed),      -- INTEGER8
  (0x03, 16, .signed),     -- INTEGER16
  (0x04, 32, .signed),     -- INTEGER32
  (0x05, 8, .unsigned),    -- UNSIGNED8
  (0x06, 16, .unsigned),   -- UNSIGNED16
  (0x07, 32, .unsigned),   -- UNSIGNED32
  (0x08, 32, .real),       -- REAL32
  (0x10, 24, .signed),     -- INTEGER24
  (0x11, 64, .real),       -- REAL64
  (0x12, 40, .signed),     -- INTEGER40
  (0x13, 48, .signed),     -- INTEGER48
  (0x14, 56, .signed),     -- INTEGER56
  (0x15, 64, .signed),     -- INTEGER64
  (0x16, 24, .unsigned),   -- UNSIGNED24
  (0x18, 40, .unsigned),   -- UNSIGNED40
  (0x19, 48, .unsigned),   -- UNSIGNED48
  (0x1A, 56, .unsigned),   -- UNSIGNED56
  (0x1B, 64, .unsigned)]   -- UNSIGNED64

def cia301Lookup (t : Nat) : Option (Nat × NumKind) :=
  (cia301Types.find? (·.1 = t)).map (·.2)

end Canopen.Spec
