/-
Specification peers for C12 / C13: standard-conformant SDO block-transfer servers
(CiA 301 §7.2.4.3.9–7.2.4.3.17), written as a literal, independent reading of the standard.
Literal command bytes on purpose (the client model uses the constants generated from the code).

`BlockDown.Srv`  — block *download* server.  Non-determinism of the standard is explicit:
  `blkOf : Nat → Nat` is the stream of block sizes the server will announce (k-th announcement =
  `blkOf k`, theorems assume `1 ≤ blkOf k ≤ 127`), `crcCapable` whether it supports CRC.
  Out-of-order segments are ignored; a sub-block is acknowledged when the segment carrying
  `seqno = blksize` or `c = 1` arrives (in order or not), or when the server's own time-out fires,
  always with the number of the last segment received in order.  Strictness: the first protocol
  illegality seen is recorded in `illegal`.
`BlockUp.Srv`    — block *upload* server holding `data`; numbering restarts at 1 after every
  acknowledge; resends from the first unacknowledged segment.
-/
import CanopenModel.Bytes
import CanopenModel.Crc
namespace Canopen.Spec
open Canopen Canopen.Crc

def abortFrame (idx sub code : Nat) : Bytes :=
  [0x80, idx % 256, idx / 256 % 256, sub] ++ leBytes 4 code

namespace BlockDown

inductive Phase | idle | recv | fin
deriving DecidableEq, Repr

structure Srv where
  crcCapable : Bool
  k : Nat := 0
  phase : Phase := .idle
  committed : Option Bytes := none
  illegal : Option Nat := none
  idx : Nat := 0
  sub : Nat := 0
  size : Option Nat := none
  crc : Bool := false
  blk : Nat := 0
  sseq : Nat := 0
  buf : Bytes := []
deriving DecidableEq, Repr

def flag (s : Srv) (code : Nat) : Srv :=
  match s.illegal with
  | none => { s with illegal := some code }
  | some _ => s

def flagIf (p : Prop) [Decidable p] (code : Nat) (s : Srv) : Srv := if p then flag s code else s

/-- acknowledge what arrived in order and open the next sub-block with the next block size -/
def ack (blkOf : Nat → Nat) (s : Srv) : Srv × List Bytes :=
  ({ s with k := s.k + 1, sseq := 0, blk := blkOf s.k }, [[0xA2, s.sseq, blkOf s.k, 0, 0, 0, 0, 0]])

def idleStep (blkOf : Nat → Nat) (s : Srv) (f : Bytes) : Srv × List Bytes :=
  let c := f.getD 0 0
  if c &&& 0xE0 = 0xC0 ∧ c &&& 1 = 0 then
    let s1 := flagIf (c &&& 0x18 ≠ 0) 2 s
    let s2 := flagIf (c &&& 2 = 0 ∧ f.drop 4 ≠ [0, 0, 0, 0]) 3 s1
    ({ s2 with idx := f.getD 1 0 + 256 * f.getD 2 0, sub := f.getD 3 0,
               size := if c &&& 2 ≠ 0 then some (leVal (f.drop 4)) else none,
               crc := decide (c &&& 4 ≠ 0) && s.crcCapable,
               blk := blkOf s.k, k := s.k + 1, sseq := 0, buf := [], phase := .recv },
     [[0xA0 ||| (if s.crcCapable then 4 else 0), f.getD 1 0, f.getD 2 0, f.getD 3 0, blkOf s.k, 0, 0, 0]])
  else (flagIf (c ≠ 0x80) 8 s, [])

def recvStep (blkOf : Nat → Nat) (s : Srv) (f : Bytes) : Srv × List Bytes :=
  let c := f.getD 0 0
  if c = 0x80 then ({ s with phase := .idle }, [])
  else if c &&& 0x7F = s.sseq + 1 then
    let s1 := { s with buf := s.buf ++ f.drop 1, sseq := s.sseq + 1 }
    if c &&& 0x80 ≠ 0 then ack blkOf { s1 with phase := .fin }
    else if s1.sseq = s1.blk then ack blkOf s1
    else (s1, [])
  else if c &&& 0x80 ≠ 0 ∨ c &&& 0x7F = s.blk then ack blkOf s
  else (s, [])

/-- end of transfer: `n` unused bytes, CRC when negotiated, declared size -/
def finStep (s0 : Srv) (f : Bytes) : Srv × List Bytes :=
  let c := f.getD 0 0
  let s := { s0 with phase := .idle }
  if c = 0x80 then (s, [])
  else if c &&& 0xE0 = 0xC0 ∧ c &&& 1 = 1 then
    let n := (c >>> 2) &&& 7
    let s1 := flagIf (c &&& 2 ≠ 0) 4 s
    let s2 := flagIf (f.drop 3 ≠ [0, 0, 0, 0, 0]) 5 s1
    let data := s.buf.take (s.buf.length - n)
    let s3 := flagIf ((s.buf.drop (s.buf.length - n)).any (· ≠ 0) = true) 6 s2
    if s.crc = true ∧ crcHqx data 0 ≠ f.getD 1 0 + 256 * f.getD 2 0 then
      (s3, [abortFrame s.idx s.sub 0x05040004])
    else if s.size.isSome = true ∧ s.size ≠ some data.length then
      (flag s3 7, [abortFrame s.idx s.sub 0x06070010])
    else ({ s3 with committed := some data }, [[0xA1, 0, 0, 0, 0, 0, 0, 0]])
  else (flag s 8, [abortFrame s.idx s.sub 0x05040001])

/-- one received frame -/
def step (blkOf : Nat → Nat) (s : Srv) (f : Bytes) : Srv × List Bytes :=
  if f.length ≠ 8 then (flag s 1, [])
  else match s.phase with
    | .idle => idleStep blkOf s f
    | .recv => recvStep blkOf s f
    | .fin => finStep s f

/-- the server's own time-out: inside a sub-block it acknowledges what it has -/
def timeout (blkOf : Nat → Nat) (s : Srv) : Srv × List Bytes :=
  match s.phase with
  | .recv => ack blkOf s
  | _ => (s, [])

end BlockDown

namespace BlockUp

inductive Phase | idle | start | ack | fin
deriving DecidableEq, Repr

/-- what the server holds and how it behaves; `crcXor` / `endB0` are disturbance knobs of the
    harness (announce a wrong CRC / a wrong first byte of the end response), 0 / none = conformant -/
structure Cfg where
  data : Bytes
  crcCapable : Bool
  sizeInd : Bool
  crcXor : Nat := 0
  endB0 : Option Nat := none
deriving DecidableEq, Repr

structure Srv where
  phase : Phase := .idle
  illegal : Option Nat := none
  confirmed : Bool := false
  idx : Nat := 0
  sub : Nat := 0
  crc : Bool := false
  blk : Nat := 0
  base : Nat := 0
  sent : Nat := 0
deriving DecidableEq, Repr

def flag (s : Srv) (code : Nat) : Srv :=
  match s.illegal with
  | none => { s with illegal := some code }
  | some _ => s

def flagIf (p : Prop) [Decidable p] (code : Nat) (s : Srv) : Srv := if p then flag s code else s

def nseg (cfg : Cfg) : Nat := (cfg.data.length + 6) / 7

/-- segment number `g` (0-based) of the value, sent with sequence number `seq` -/
def segment (cfg : Cfg) (g seq : Nat) : Bytes :=
  (seq ||| (if g + 1 = nseg cfg then 0x80 else 0)) :: padTo 7 ((cfg.data.drop (7 * g)).take 7)

def sendBlock (cfg : Cfg) (s : Srv) : Srv × List Bytes :=
  ({ s with sent := min s.blk (nseg cfg - s.base), phase := .ack },
   (List.range (min s.blk (nseg cfg - s.base))).map fun i => segment cfg (s.base + i) (i + 1))

def endFrame (cfg : Cfg) (s : Srv) : Bytes :=
  (match cfg.endB0 with
    | some b => b
    | none => 0xC1 ||| ((7 * nseg cfg - cfg.data.length) <<< 2))
  :: leBytes 2 ((if s.crc then crcHqx cfg.data 0 else 0) ^^^ cfg.crcXor) ++ [0, 0, 0, 0, 0]

def idleStep (cfg : Cfg) (s : Srv) (f : Bytes) : Srv × List Bytes :=
  let c := f.getD 0 0
  if c &&& 0xE0 = 0xA0 ∧ c &&& 3 = 0 then
    let s1 := flagIf (c &&& 0x18 ≠ 0) 2 s
    let s2 := flagIf (f.drop 6 ≠ [0, 0]) 3 s1
    let s3 := { s2 with idx := f.getD 1 0 + 256 * f.getD 2 0, sub := f.getD 3 0, blk := f.getD 4 0 }
    if 1 ≤ f.getD 4 0 ∧ f.getD 4 0 ≤ 127 then
      ({ s3 with crc := decide (c &&& 4 ≠ 0) && cfg.crcCapable, base := 0, phase := .start },
       [[0xC0 ||| (if cfg.crcCapable then 4 else 0) ||| (if cfg.sizeInd then 2 else 0),
         f.getD 1 0, f.getD 2 0, f.getD 3 0]
        ++ leBytes 4 (if cfg.sizeInd then cfg.data.length else 0)])
    else (flag s3 9, [abortFrame s3.idx s3.sub 0x05040002])
  else (flag s 8, [])

def startStep (cfg : Cfg) (s : Srv) (f : Bytes) : Srv × List Bytes :=
  let c := f.getD 0 0
  if c &&& 0xE0 = 0xA0 ∧ c &&& 3 = 3 then
    sendBlock cfg (flagIf (c &&& 0x1C ≠ 0 ∨ f.drop 1 ≠ [0, 0, 0, 0, 0, 0, 0]) 4 s)
  else ({ flag s 8 with phase := .idle }, [abortFrame s.idx s.sub 0x05040001])

def ackStep (cfg : Cfg) (s : Srv) (f : Bytes) : Srv × List Bytes :=
  let c := f.getD 0 0
  if c &&& 0xE0 = 0xA0 ∧ c &&& 3 = 2 then
    let s1 := flagIf (c &&& 0x1C ≠ 0 ∨ f.drop 3 ≠ [0, 0, 0, 0, 0]) 5 s
    let ackseq := f.getD 1 0
    let blk := f.getD 2 0
    if ackseq > s.sent ∨ ¬ (1 ≤ blk ∧ blk ≤ 127) then
      ({ flag s1 6 with phase := .idle },
       [abortFrame s.idx s.sub (if ackseq ≤ s.sent then 0x05040002 else 0x05040003)])
    else
      let s2 := { s1 with base := s.base + ackseq, blk := blk }
      if s2.base = nseg cfg then ({ s2 with phase := .fin }, [endFrame cfg s2])
      else sendBlock cfg s2
  else ({ flag s 8 with phase := .idle }, [abortFrame s.idx s.sub 0x05040001])

def finStep (s : Srv) (f : Bytes) : Srv × List Bytes :=
  let c := f.getD 0 0
  if c &&& 0xE0 = 0xA0 ∧ c &&& 3 = 1 then
    ({ flagIf (c &&& 0x1C ≠ 0 ∨ f.drop 1 ≠ [0, 0, 0, 0, 0, 0, 0]) 7 s with phase := .idle, confirmed := true }, [])
  else ({ flag s 8 with phase := .idle }, [abortFrame s.idx s.sub 0x05040001])

def step (cfg : Cfg) (s : Srv) (f : Bytes) : Srv × List Bytes :=
  if f.length ≠ 8 then (flag s 1, [])
  else if f.getD 0 0 = 0x80 then ({ s with phase := .idle }, [])
  else match s.phase with
    | .idle => idleStep cfg s f
    | .start => startStep cfg s f
    | .ack => ackStep cfg s f
    | .fin => finStep s f

end BlockUp
end Canopen.Spec
