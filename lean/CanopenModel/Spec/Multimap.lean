/-
Spec for C10: what "the callbacks currently subscribed to a CAN id" means, written without
looking at `Network.subscribe/unsubscribe/notify`.

* `MM κ` — a multimap CAN id → ordered list of callbacks, total (an id nobody subscribed to has
  the empty list; there is no notion of a "present but empty" key and no notion of failure:
  removing what is not there changes nothing).
* `subscribe` appends the callback **unless it is already there**, `unsubscribe` removes it,
  `unsubscribeAll` empties the id.
* `deliver` — what one received frame must cause: one invocation per subscribed callback, in
  list order, each with the frame's id, data and timestamp.
* `Active` — the *history* reading of "currently subscribed": one bit per (id, callback),
  set by the last `sub`, cleared by the last `unsub`/`unsubAll` (theorem
  `C10.spec_membership` shows the multimap is exactly that, `C10.spec_order_stable` that
  survivors keep their relative order and a newcomer goes last).
Import-free.
-/
namespace Canopen.Spec.Multimap

abbrev MM (κ : Type) := Nat → List κ

/-- a primitive subscription operation -/
inductive Prim (κ : Type) where
  | sub (id : Nat) (cb : κ)
  | unsub (id : Nat) (cb : κ)
  | unsubAll (id : Nat)
deriving Repr, DecidableEq

variable {κ : Type} [DecidableEq κ]

def empty : MM κ := fun _ => []

def subscribe (m : MM κ) (id : Nat) (cb : κ) : MM κ :=
  fun j => if j = id then (if cb ∈ m id then m id else m id ++ [cb]) else m j

def unsubscribe (m : MM κ) (id : Nat) (cb : κ) : MM κ :=
  fun j => if j = id then (m id).erase cb else m j

def unsubscribeAll (m : MM κ) (id : Nat) : MM κ :=
  fun j => if j = id then [] else m j

def step (m : MM κ) : Prim κ → MM κ
  | .sub id cb => subscribe m id cb
  | .unsub id cb => unsubscribe m id cb
  | .unsubAll id => unsubscribeAll m id

def run (m : MM κ) : List (Prim κ) → MM κ
  | [] => m
  | p :: r => run (step m p) r

/-- one invocation: callback, CAN id, data, timestamp -/
structure Call (κ : Type) where
  cb : κ
  id : Nat
  data : List Nat
  ts : Nat
deriving Repr, DecidableEq

/-- what a received frame must cause -/
def deliver (m : MM κ) (id : Nat) (data : List Nat) (ts : Nat) : List (Call κ) :=
  (m id).map fun cb => ⟨cb, id, data, ts⟩

/-- history reading of "currently subscribed", one bit per (id, callback) -/
def activeStep (id : Nat) (cb : κ) (b : Bool) : Prim κ → Bool
  | .sub i c => if i = id ∧ c = cb then true else b
  | .unsub i c => if i = id ∧ c = cb then false else b
  | .unsubAll i => if i = id then false else b

def Active (id : Nat) (cb : κ) (b : Bool) : List (Prim κ) → Bool
  | [] => b
  | p :: r => Active id cb (activeStep id cb b p) r

end Canopen.Spec.Multimap
