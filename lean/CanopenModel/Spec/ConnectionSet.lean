/-
Spec for the node scanner of C10: CiA 301 §7.3.5 "predefined connection set", the objects a
node *transmits* with a COB-ID of the form function-code base + node id (11-bit identifiers
only), written from the standard and not from `NodeScanner`.
Import-free.
-/
namespace Canopen.Spec.ConnectionSet

/-- function-code bases of the objects a node with id 1..127 transmits:
    EMCY, TPDO1..4, SDO (server → client), NMT error control (boot-up / heartbeat) -/
def txServices : List Nat := [0x080, 0x180, 0x280, 0x380, 0x480, 0x580, 0x700]

/-- the node id a CAN id names, if it is an 11-bit id of one of the services above -/
def nodeOf (services : List Nat) (canId : Nat) : Option Nat :=
  if canId ≤ 0x7FF then
    services.findSome? fun s => if s < canId ∧ canId ≤ s + 127 then some (canId - s) else none
  else none

/-- first occurrences, in order -/
def dedup : List Nat → List Nat
  | [] => []
  | x :: xs => x :: (dedup xs).filter (· ≠ x)

/-- what the scanner must list after seeing the CAN ids `ids` -/
def scanned (services : List Nat) (ids : List Nat) : List Nat :=
  dedup (ids.filterMap (nodeOf services))

end Canopen.Spec.ConnectionSet
