/-
CiA 305 (Layer setting services) written independently of `canopen/lss.py`: the request
grammar (command specifier, little-endian fields, reserved bytes zero, always 8 bytes on COB-ID
0x7E5) and a conformant LSS **slave** (answers on 0x7E4).

The slave is the peer the C18 property talks about:
* states *waiting* and *configuration*; switch state global (cs 0x04); switch state selective
  (cs 0x40..0x43, the four parts in order, confirmed with cs 0x44 after a matching serial number);
* fast scan (cs 0x51): only an unconfigured slave (node-ID 0xFF) in waiting state takes part;
  `BitChecked = 128` resets `LSSPos` and is answered by every participant; otherwise, if
  `LSSSub = LSSPos` and the bits ≥ `BitChecked` of `IDNumber` equal those of the slave's own
  `LSSSub`-th identity part, the slave answers (cs 0x4F) and moves `LSSPos` to `LSSNext`; when this
  happens with `BitChecked = 0` and `LSSNext < LSSSub` the whole address has been confirmed and the
  slave enters configuration state;
* configuration-state services: configure node-ID (cs 0x11; 1..127 and 0xFF admissible, else error
  code 1), configure bit timing (cs 0x13; table 0, index 0..8 except the reserved 5, else error
  code 1), activate bit timing (cs 0x15, unconfirmed), store configuration (cs 0x17; error code of
  the device when it cannot store), inquire identity parts / node-ID (cs 0x5A..0x5E);
* identify remote slave (cs 0x46..0x4B, confirmed with 0x4F when the address lies in the range) and
  identify non-configured remote slave (cs 0x4C, confirmed with 0x50).
Nothing here mentions the master implementation.
-/
import CanopenModel.Bytes

namespace Canopen.Spec.Lss
open Canopen

def masterCobId : Nat := 0x7E5
def slaveCobId : Nat := 0x7E4

/-! ### requests -/

inductive Req where
  | switchGlobal (mode : Nat)                 -- cs 0x04
  | configNodeId (nid : Nat)                  -- cs 0x11
  | configBitTiming (table idx : Nat)         -- cs 0x13
  | activateBitTiming (delay : Nat)           -- cs 0x15
  | store                                     -- cs 0x17
  | selective (part value : Nat)              -- cs 0x40 + part, part < 4
  | identifyRemote (part value : Nat)         -- cs 0x46 + part, part < 6
  | identifyNonConfigured                     -- cs 0x4C
  | fastScan (idn bitChecked sub next : Nat)  -- cs 0x51
  | inquire (what : Nat)                      -- cs 0x5A + what, what < 5 (4 = node-ID)
deriving DecidableEq, Repr

/-- every field fits the place the frame layout gives it -/
def Req.Valid : Req → Prop
  | .switchGlobal m => m < 256
  | .configNodeId n => n < 256
  | .configBitTiming t i => t < 256 ∧ i < 256
  | .activateBitTiming d => d < 2 ^ 16
  | .store => True
  | .selective k v => k < 4 ∧ v < 2 ^ 32
  | .identifyRemote k v => k < 6 ∧ v < 2 ^ 32
  | .identifyNonConfigured => True
  | .fastScan idn bc sub nxt => idn < 2 ^ 32 ∧ bc < 256 ∧ sub < 256 ∧ nxt < 256
  | .inquire k => k < 5

instance (r : Req) : Decidable r.Valid := by cases r <;> unfold Req.Valid <;> infer_instance

/-- the standard command specifier of a request -/
def Req.cs : Req → Nat
  | .switchGlobal _ => 0x04
  | .configNodeId _ => 0x11
  | .configBitTiming _ _ => 0x13
  | .activateBitTiming _ => 0x15
  | .store => 0x17
  | .selective k _ => 0x40 + k
  | .identifyRemote k _ => 0x46 + k
  | .identifyNonConfigured => 0x4C
  | .fastScan _ _ _ _ => 0x51
  | .inquire k => 0x5A + k

/-- the parameter bytes 1..7 of the frame (multi-byte fields little-endian, the rest reserved 0) -/
def Req.params : Req → Bytes
  | .switchGlobal m => [m, 0, 0, 0, 0, 0, 0]
  | .configNodeId n => [n, 0, 0, 0, 0, 0, 0]
  | .configBitTiming t i => [t, i, 0, 0, 0, 0, 0]
  | .activateBitTiming d => leBytes 2 d ++ [0, 0, 0, 0, 0]
  | .store => [0, 0, 0, 0, 0, 0, 0]
  | .selective _ v => leBytes 4 v ++ [0, 0, 0]
  | .identifyRemote _ v => leBytes 4 v ++ [0, 0, 0]
  | .identifyNonConfigured => [0, 0, 0, 0, 0, 0, 0]
  | .fastScan idn bc sub nxt => leBytes 4 idn ++ [bc, sub, nxt]
  | .inquire _ => [0, 0, 0, 0, 0, 0, 0]

/-- the frame data of a request -/
def encode (r : Req) : Bytes := r.cs :: r.params

/-- reading of the fields of an 8-byte frame by command specifier -/
def decodeFields (cs b1 b2 b3 b4 b5 b6 b7 : Nat) : Option Req :=
  if cs = 0x04 then some (.switchGlobal b1)
  else if cs = 0x11 then some (.configNodeId b1)
  else if cs = 0x13 then some (.configBitTiming b1 b2)
  else if cs = 0x15 then some (.activateBitTiming (leVal [b1, b2]))
  else if cs = 0x17 then some .store
  else if 0x40 ≤ cs ∧ cs ≤ 0x43 then some (.selective (cs - 0x40) (leVal [b1, b2, b3, b4]))
  else if 0x46 ≤ cs ∧ cs ≤ 0x4B then some (.identifyRemote (cs - 0x46) (leVal [b1, b2, b3, b4]))
  else if cs = 0x4C then some .identifyNonConfigured
  else if cs = 0x51 then some (.fastScan (leVal [b1, b2, b3, b4]) b5 b6 b7)
  else if 0x5A ≤ cs ∧ cs ≤ 0x5E then some (.inquire (cs - 0x5A))
  else none

/-- LSS frames are always 8 bytes; anything else is not an LSS request -/
def decode : Bytes → Option Req
  | [cs, b1, b2, b3, b4, b5, b6, b7] => decodeFields cs b1 b2 b3 b4 b5 b6 b7
  | _ => none

/-! ### the slave -/

structure Ident where
  vendor : Nat
  product : Nat
  revision : Nat
  serial : Nat
deriving DecidableEq, Repr

/-- the four 32-bit parts of the LSS address in fast-scan order -/
def Ident.part (i : Ident) : Nat → Nat
  | 0 => i.vendor
  | 1 => i.product
  | 2 => i.revision
  | _ => i.serial

structure Slave where
  ident : Ident
  /-- device property: 0 = can store; otherwise the error code it answers to store configuration
      (1 = not supported, 2 = storage media access problem) -/
  storeErr : Nat
  /-- LSS state: `false` waiting, `true` configuration -/
  config : Bool
  /-- active node-ID (0xFF: unconfigured) -/
  nodeId : Nat
  /-- pending node-ID -/
  pending : Nat
  /-- `LSSPos` of the fast-scan state machine -/
  pos : Nat
  /-- number of selective-switch parts matched so far, in order -/
  sel : Nat
  /-- number of identify-remote-slave parts matched so far, in order -/
  idr : Nat
  /-- pending bit timing table index -/
  bitIdx : Option Nat
  /-- last stored configuration (node-ID, bit timing index) -/
  stored : Option (Nat × Option Nat)
  /-- switch delay of the last activate bit timing -/
  activated : Option Nat
deriving DecidableEq, Repr

/-- a slave fresh from power-on without a node-ID -/
def Slave.fresh (i : Ident) : Slave :=
  { ident := i, storeErr := 0, config := false, nodeId := 0xFF, pending := 0xFF, pos := 0, sel := 0,
    idr := 0, bitIdx := none, stored := none, activated := none }

def Slave.unconfigured (s : Slave) : Bool := s.nodeId == 0xFF && s.pending == 0xFF

/-- a response frame's data: cs, parameters, zero padding to 8 bytes -/
def resp (cs : Nat) (params : Bytes) : Bytes := padTo 8 (cs :: params)

def nodeIdAdmissible (n : Nat) : Bool := (1 ≤ n && n ≤ 127) || n == 0xFF

def bitTimingAdmissible (table idx : Nat) : Bool := table == 0 && idx ≤ 8 && idx != 5

def onSwitchGlobal (s : Slave) (mode : Nat) : Slave × List Bytes :=
  if mode = 1 then ({ s with config := true, sel := 0 }, [])
  else if mode = 0 then ({ s with config := false, sel := 0 }, [])
  else (s, [])

def onSelective (s : Slave) (k v : Nat) : Slave × List Bytes :=
  if s.config then (s, [])
  else if k = 0 then ({ s with sel := if v = s.ident.vendor then 1 else 0 }, [])
  else if k = 1 then ({ s with sel := if s.sel = 1 ∧ v = s.ident.product then 2 else 0 }, [])
  else if k = 2 then ({ s with sel := if s.sel = 2 ∧ v = s.ident.revision then 3 else 0 }, [])
  else if s.sel = 3 ∧ v = s.ident.serial then ({ s with sel := 0, config := true }, [resp 0x44 []])
  else ({ s with sel := 0 }, [])

def onIdentifyRemote (s : Slave) (k v : Nat) : Slave × List Bytes :=
  if k = 0 then ({ s with idr := if v = s.ident.vendor then 1 else 0 }, [])
  else if k = 1 then ({ s with idr := if s.idr = 1 ∧ v = s.ident.product then 2 else 0 }, [])
  else if k = 2 then ({ s with idr := if s.idr = 2 ∧ v ≤ s.ident.revision then 3 else 0 }, [])
  else if k = 3 then ({ s with idr := if s.idr = 3 ∧ s.ident.revision ≤ v then 4 else 0 }, [])
  else if k = 4 then ({ s with idr := if s.idr = 4 ∧ v ≤ s.ident.serial then 5 else 0 }, [])
  else if s.idr = 5 ∧ s.ident.serial ≤ v then ({ s with idr := 0 }, [resp 0x4F []])
  else ({ s with idr := 0 }, [])

def onFastScan (s : Slave) (idn bc sub nxt : Nat) : Slave × List Bytes :=
  if s.config ∨ ¬ s.unconfigured then (s, [])
  else if bc = 128 then ({ s with pos := 0 }, [resp 0x4F []])
  else if bc < 32 ∧ sub < 4 ∧ nxt < 4 ∧ sub = s.pos ∧ idn >>> bc = s.ident.part sub >>> bc then
    ({ s with pos := nxt, config := decide (bc = 0 ∧ nxt < sub) }, [resp 0x4F []])
  else (s, [])

def onConfigNodeId (s : Slave) (n : Nat) : Slave × List Bytes :=
  if ¬ s.config then (s, [])
  else if nodeIdAdmissible n then ({ s with pending := n }, [resp 0x11 [0, 0]])
  else (s, [resp 0x11 [1, 0]])

def onConfigBitTiming (s : Slave) (table idx : Nat) : Slave × List Bytes :=
  if ¬ s.config then (s, [])
  else if bitTimingAdmissible table idx then ({ s with bitIdx := some idx }, [resp 0x13 [0, 0]])
  else (s, [resp 0x13 [1, 0]])

def onActivate (s : Slave) (delay : Nat) : Slave × List Bytes :=
  if ¬ s.config then (s, []) else ({ s with activated := some delay }, [])

def onStore (s : Slave) : Slave × List Bytes :=
  if ¬ s.config then (s, [])
  else if s.storeErr = 0 then ({ s with stored := some (s.pending, s.bitIdx) }, [resp 0x17 [0, 0]])
  else (s, [resp 0x17 [s.storeErr % 256, 0]])

def onInquire (s : Slave) (k : Nat) : Slave × List Bytes :=
  if ¬ s.config then (s, [])
  else if k < 4 then (s, [resp (0x5A + k) (leBytes 4 (s.ident.part k))])
  else (s, [resp 0x5E [s.nodeId % 256]])

def onIdentifyNonConfigured (s : Slave) : Slave × List Bytes :=
  if s.unconfigured then (s, [resp 0x50 []]) else (s, [])

def handle (s : Slave) : Req → Slave × List Bytes
  | .switchGlobal m => onSwitchGlobal s m
  | .configNodeId n => onConfigNodeId s n
  | .configBitTiming t i => onConfigBitTiming s t i
  | .activateBitTiming d => onActivate s d
  | .store => onStore s
  | .selective k v => onSelective s k v
  | .identifyRemote k v => onIdentifyRemote s k v
  | .identifyNonConfigured => onIdentifyNonConfigured s
  | .fastScan idn bc sub nxt => onFastScan s idn bc sub nxt
  | .inquire k => onInquire s k

/-- reaction of the slave to any frame on the bus -/
def step (s : Slave) (f : Nat × Bytes) : Slave × List (Nat × Bytes) :=
  if f.1 = masterCobId then
    match decode f.2 with
    | some r => ((handle s r).1, (handle s r).2.map fun d => (slaveCobId, d))
    | none => (s, [])
  else (s, [])

end Canopen.Spec.Lss
