/-
Specification peer: a strict, standard-conformant SDO *server* (CiA 301 §7.2.4.3), written
independently of canopen's own server.  It

  (i)  *checks* every request frame it receives against the standard — 8 bytes, a client command
       specifier legal in the current protocol step, reserved bits zero, `n`/`e`/`s` consistent,
       unused bytes zero, toggle alternating from 0, last-segment flag, declared size equal to the
       bytes actually received — and records the first illegality it sees;
  (ii) *answers* in any style the standard allows, chosen by a `Style` argument: upload size
       indicated or not, expedited with or without size for 1..4 bytes or segmented anyway, and
       upload segments cut anywhere from 1 to 7 bytes (a list of cut lengths).

Downloads are committed to `held`, from which uploads are served.
-/
import CanopenModel.Bytes

namespace Canopen.Spec
open Canopen

structure Style where
  sizeIndicated : Bool     -- segmented upload: announce the size in the initiate response
  expedited : Bool         -- answer expedited when the value has 1..4 bytes
  expSize : Bool           -- expedited with `s = 1` (n valid); `s = 0` leaves the length to the client
  cuts : List Nat          -- lengths of successive upload segments (clamped to 1..7; then 7s)
deriving Repr

inductive Phase where
  | idle
  | down (declared : Option Nat) (buf : Bytes) (toggle : Bool)
  | up (rest : Bytes) (toggle : Bool) (cuts : List Nat)
deriving Repr

structure SS where
  phase : Phase
  mux : Nat × Nat                              -- multiplexer of the running transfer
  held : List ((Nat × Nat) × Bytes)            -- object values, latest first
  commits : List ((Nat × Nat) × Bytes)         -- every committed download, in order
  illegal : Option String                      -- first illegal request seen
  style : Style
deriving Repr

def ssInit (held : List ((Nat × Nat) × Bytes)) (style : Style) : SS :=
  { phase := .idle, mux := (0, 0), held := held, commits := [], illegal := none, style := style }

def heldLookup (k : Nat × Nat) : List ((Nat × Nat) × Bytes) → Option Bytes
  | [] => none
  | (k', v) :: r => if k' = k then some v else heldLookup k r

def flag (s : SS) (why : String) : SS :=
  match s.illegal with
  | none => { s with illegal := some why }
  | some _ => s

def flagIf (s : SS) (c : Bool) (why : String) : SS := if c then flag s why else s

def allZeroB (bs : Bytes) : Bool := bs.all (· == 0)

def tb (t : Bool) : Nat := if t then 0x10 else 0

def abortResp (idx sub code : Nat) : Bytes :=
  [0x80, idx % 256, idx / 256 % 256, sub % 256] ++ leBytes 4 code

def clampCut (k : Nat) : Nat := min (max k 1) 7

/-- download initiate (ccs = 1) -/
def onDownInit (s : SS) (r : Bytes) : SS × List Bytes :=
  let c0 := r.headD 0
  let idx := r.getD 1 0 + 256 * r.getD 2 0
  let sub := r.getD 3 0
  let e := c0 &&& 0x02 != 0
  let sz := c0 &&& 0x01 != 0
  let n := (c0 >>> 2) &&& 3
  let s := flagIf s (c0 &&& 0x10 != 0) "download initiate: reserved bit set"
  let resp : Bytes := [0x60, idx % 256, idx / 256 % 256, sub % 256, 0, 0, 0, 0]
  if e then
    let s := flagIf s (!sz && n != 0) "download initiate: n set without s"
    let len := if sz then 4 - n else 4
    let data := (r.drop 4).take len
    let s := flagIf s (!allZeroB ((r.drop 4).drop len)) "download initiate: unused bytes not zero"
    ({ s with phase := .idle, mux := (idx, sub), held := ((idx, sub), data) :: s.held,
              commits := s.commits ++ [((idx, sub), data)] }, [resp])
  else
    let s := flagIf s (n != 0) "download initiate: n set in a segmented initiate"
    let s := flagIf s (!sz && !allZeroB (r.drop 4)) "download initiate: size bytes set without s"
    ({ s with phase := .down (if sz then some (leVal (r.drop 4)) else none) [] false, mux := (idx, sub) }, [resp])

/-- more bytes received than declared? -/
def exceeds (declared : Option Nat) (n : Nat) : Bool :=
  match declared with
  | some d => decide (d < n)
  | none => false

/-- transfer ended with a byte count different from the declared size? -/
def differs (declared : Option Nat) (n : Nat) : Bool :=
  match declared with
  | some d => decide (d ≠ n)
  | none => false

/-- download segment (ccs = 0) -/
def onDownSeg (s : SS) (r : Bytes) : SS × List Bytes :=
  match s.phase with
  | .down declared buf toggle =>
    let c0 := r.headD 0
    let t := c0 &&& 0x10 != 0
    let n := (c0 >>> 1) &&& 7
    let last := c0 &&& 0x01 != 0
    let seg := (r.drop 1).take (7 - n)
    let s := flagIf s (t != toggle) "download segment: toggle bit does not alternate from 0"
    let s := flagIf s (!allZeroB ((r.drop 1).drop (7 - n))) "download segment: unused bytes not zero"
    let buf' := buf ++ seg
    let s := flagIf s (exceeds declared buf'.length) "download segment: more bytes than the declared size"
    let resp : Bytes := (0x20 + tb t) :: List.replicate 7 0
    if last then
      let s := flagIf s (differs declared buf'.length) "download: declared size differs from the bytes sent"
      ({ s with phase := .idle, held := (s.mux, buf') :: s.held, commits := s.commits ++ [(s.mux, buf')] }, [resp])
    else
      let s := flagIf s (seg.length == 0) "download segment: empty segment that is not the last"
      ({ s with phase := .down declared buf' (!toggle) }, [resp])
  | _ => (flag s "download segment outside a segmented download", [abortResp s.mux.1 s.mux.2 0x05040001])

/-- upload initiate (ccs = 2) -/
def onUpInit (s : SS) (r : Bytes) : SS × List Bytes :=
  let c0 := r.headD 0
  let idx := r.getD 1 0 + 256 * r.getD 2 0
  let sub := r.getD 3 0
  let s := flagIf s (c0 &&& 0x1F != 0) "upload initiate: reserved bits set"
  let s := flagIf s (!allZeroB (r.drop 4)) "upload initiate: reserved bytes not zero"
  let m : Bytes := [idx % 256, idx / 256 % 256, sub % 256]
  match heldLookup (idx, sub) s.held with
  | none => ({ s with phase := .idle, mux := (idx, sub) }, [abortResp idx sub 0x06020000])
  | some data =>
    if s.style.expedited ∧ 1 ≤ data.length ∧ data.length ≤ 4 then
      let cmd := if s.style.expSize then 0x43 + (4 - data.length) * 4 else 0x42
      ({ s with phase := .idle, mux := (idx, sub) }, [cmd :: (m ++ padTo 4 data)])
    else
      let cmd := if s.style.sizeIndicated then 0x41 else 0x40
      let szb := if s.style.sizeIndicated then leBytes 4 data.length else [0, 0, 0, 0]
      ({ s with phase := .up data false s.style.cuts, mux := (idx, sub) }, [cmd :: (m ++ szb)])

/-- upload segment (ccs = 3) -/
def onUpSeg (s : SS) (r : Bytes) : SS × List Bytes :=
  match s.phase with
  | .up rest toggle cuts =>
    let c0 := r.headD 0
    let t := c0 &&& 0x10 != 0
    let s := flagIf s (c0 &&& 0x0F != 0) "upload segment request: reserved bits set"
    let s := flagIf s (!allZeroB (r.drop 1)) "upload segment request: reserved bytes not zero"
    let s := flagIf s (t != toggle) "upload segment request: toggle bit does not alternate from 0"
    let k := clampCut (cuts.headD 7)
    let seg := rest.take k
    let rest' := rest.drop k
    let last := rest'.isEmpty
    let cmd := 0x00 + tb t + (7 - seg.length) * 2 + (if last then 1 else 0)
    ({ s with phase := if last then .idle else .up rest' (!toggle) cuts.tail }, [cmd :: padTo 7 seg])
  | _ => (flag s "upload segment request outside a segmented upload", [abortResp s.mux.1 s.mux.2 0x05040001])

/-- one request frame -/
def ssStep (s : SS) (r : Bytes) : SS × List Bytes :=
  if r.length ≠ 8 then (flag s "request is not 8 bytes", [])
  else
    let ccs := r.headD 0 >>> 5
    if ccs = 1 then onDownInit s r
    else if ccs = 0 then onDownSeg s r
    else if ccs = 2 then onUpInit s r
    else if ccs = 3 then onUpSeg s r
    else if ccs = 4 then ({ s with phase := .idle }, [])        -- client abort: no response
    else (flag s "unknown client command specifier", [abortResp s.mux.1 s.mux.2 0x05040001])

end Canopen.Spec
