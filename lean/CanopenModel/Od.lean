/-
Model of object lookup in an object dictionary (canopen/objectdictionary/__init__.py):
`ObjectDictionary.__getitem__` (by index, by name, by 'Parent.Child'), `ODRecord.__getitem__`,
`ODArray.__getitem__` — including Python's `a.get(k) or b.get(k)` (an empty record is falsy).
-/
namespace Canopen.Od

structure OVar where
  index : Nat
  sub : Nat
  name : List Char
deriving Repr, DecidableEq

inductive OObj where
  | var (v : OVar)
  | group (isArray : Bool) (index : Nat) (name : List Char) (members : List OVar)
deriving Repr, DecidableEq

def OObj.index : OObj → Nat
  | .var v => v.index
  | .group _ i _ _ => i

def OObj.name : OObj → List Char
  | .var v => v.name
  | .group _ _ n _ => n

/-- Python truthiness: an `ODVariable` has `__len__` ≥ 8, a record/array has `len(subindices)` -/
def OObj.truthy : OObj → Bool
  | .var _ => true
  | .group _ _ _ ms => !ms.isEmpty

inductive Key where
  | idx (i : Nat)
  | name (s : List Char)
deriving Repr, DecidableEq

abbrev Dict := List OObj

def namesGet (od : Dict) (k : Key) : Option OObj :=
  match k with
  | .name s => od.reverse.find? (·.name = s)     -- a later `add_object` overwrites the entry
  | .idx _ => none

def indicesGet (od : Dict) (k : Key) : Option OObj :=
  match k with
  | .idx i => od.reverse.find? (·.index = i)
  | .name _ => none

/-- `x or y` on optional objects -/
def pyOr (a b : Option OObj) : Option OObj :=
  match a with
  | some o => if o.truthy then some o else b
  | none => b

/-- split at the first '.' -/
def splitDot : List Char → Option (List Char × List Char)
  | [] => none
  | c :: r => if c = '.' then some ([], r) else (splitDot r).map fun (a, b) => (c :: a, b)

/-- member lookup in a record / array: `names.get(k) or subindices.get(k)` (variables are truthy);
    an array makes up members 1..255 from member 1 -/
def memberGet (o : OObj) (k : Key) : Option OVar :=
  match o with
  | .var _ => none
  | .group isArray index _ ms =>
    let hit : Option OVar := match k with
      | .name s => ms.reverse.find? (fun (m : OVar) => m.name = s)
      | .idx i => ms.reverse.find? (fun (m : OVar) => m.sub = i)
    match hit with
    | some v => some v
    | none =>
      match k with
      | .idx i =>
        if isArray ∧ 0 < i ∧ i < 256 then
          (ms.reverse.find? (fun (m : OVar) => m.sub = 1)).map fun t => { index := index, sub := i, name := t.name ++ ['_'] ++ (Nat.toDigits 16 i) }
        else none
      | .name _ => none

/-- `od[key]` — the object, or (for a dotted name) the member variable -/
def getItem (od : Dict) (k : Key) : Option (OObj ⊕ OVar) :=
  match pyOr (namesGet od k) (indicesGet od k) with
  | some o => some (.inl o)
  | none =>
    match k with
    | .name s =>
      (match splitDot s with
       | some (a, b) =>
         (match pyOr (namesGet od (.name a)) (indicesGet od (.name a)) with
          | some o => (memberGet o (.name b)).map .inr
          | none => none)                       -- (a further dotted fallback on `a` is not modelled)
       | none => none)
    | .idx _ => none

end Canopen.Od
