/-
Shared conventions (DESIGN.md §4): bytes are `List Nat` (each < 256 where a numeric meaning is
taken), little-endian encoding/decoding, two's complement, hex line-protocol helpers.
Import-free: this file is part of the executable model and of the compiled driver.
-/
namespace Canopen

abbrev Bytes := List Nat

/-- every element is a byte -/
def AllBytes (bs : Bytes) : Prop := ∀ b ∈ bs, b < 256

instance (bs : Bytes) : Decidable (AllBytes bs) := by unfold AllBytes; infer_instance

/-- little-endian encoding of `n` into exactly `k` bytes (high part dropped, like slicing) -/
def leBytes : Nat → Nat → Bytes
  | 0, _ => []
  | k+1, n => (n % 256) :: leBytes k (n / 256)

/-- little-endian value of a byte string -/
def leVal : Bytes → Nat
  | [] => 0
  | b :: bs => b + 256 * leVal bs

/-- two's complement reading of an `w`-bit pattern -/
def toSigned (w : Nat) (n : Nat) : Int :=
  if n < 2 ^ (w - 1) then (n : Int) else (n : Int) - (2 ^ w : Nat)

/-- two's complement pattern of an integer, `w` bits -/
def ofSigned (w : Nat) (i : Int) : Nat := (i % ((2 ^ w : Nat) : Int)).toNat

/-- `lo ≤ v < hi` range of a `w`-bit integer type -/
def inRange (w : Nat) (signed : Bool) (v : Int) : Bool :=
  if signed then decide (-((2 ^ (w - 1) : Nat) : Int) ≤ v) && decide (v < ((2 ^ (w - 1) : Nat) : Int))
  else decide (0 ≤ v) && decide (v < ((2 ^ w : Nat) : Int))

/-- zero padding to a fixed length (never truncates) -/
def padTo (k : Nat) (bs : Bytes) : Bytes := bs ++ List.replicate (k - bs.length) 0

/-! ### line-protocol helpers (hex and decimal) -/

def hexVal (c : Char) : Option Nat :=
  if '0' ≤ c ∧ c ≤ '9' then some (c.toNat - 48)
  else if 'a' ≤ c ∧ c ≤ 'f' then some (c.toNat - 87)
  else if 'A' ≤ c ∧ c ≤ 'F' then some (c.toNat - 55) else none

def parseHexChars : List Char → Option Bytes
  | [] => some []
  | a :: b :: r => do
      let x ← hexVal a
      let y ← hexVal b
      let rest ← parseHexChars r
      pure ((x * 16 + y) :: rest)
  | _ => none

/-- `"-"` is the empty byte string, otherwise an even number of hex digits -/
def parseHex (s : String) : Option Bytes :=
  if s = "-" then some [] else parseHexChars s.toList

def hexDigit (n : Nat) : Char := if n < 10 then Char.ofNat (48 + n) else Char.ofNat (87 + n)

def toHex (bs : Bytes) : String :=
  if bs.isEmpty then "-" else String.ofList (bs.flatMap fun b => [hexDigit (b / 16), hexDigit (b % 16)])

def parseInt (s : String) : Option Int := s.toInt?

def parseNat (s : String) : Option Nat := s.toNat?

def parseBool (s : String) : Option Bool :=
  if s = "1" then some true else if s = "0" then some false else none

def showBool (b : Bool) : String := if b then "1" else "0"

/-- comma separated naturals; `"-"` is the empty list -/
def parseNatList (s : String) : Option (List Nat) :=
  if s = "-" then some [] else (s.splitOn ",").mapM (·.toNat?)

def showNatList (l : List Nat) : String :=
  if l.isEmpty then "-" else String.intercalate "," (l.map toString)

end Canopen
