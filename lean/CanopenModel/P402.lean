/-
Model of canopen/profiles/p402.py (C19): `State402` look-ups, the `state` getter, `_next_state`,
`next_state_indirect` (with Python's `in` on a str key = substring test, on a tuple key = membership),
`_change_state`, the `state` setter loop, `is_op_mode_supported` and the `op_mode` setter - as coded,
over the generated tables.

The setter is a small-step machine (`step`) whose every non-deterministic input is an explicit
`Choice`: whether the drive performs a pending automatic transition just before the library's next
access (`fire`), and whether a time-out test finds the time-out expired (`expired`).  The concrete
run used by the correspondence (`runConcrete`) only *computes* those choices from a schedule, a tick
counter and the two time-outs, and then calls `step`; hence every theorem that quantifies over all
choice lists covers every concrete run.

Program points (after the F11 repair: one reading of the state per loop iteration; after the
fault-reset repair: leaving FAULT first writes CW_DISABLE_VOLTAGE so that bit 7 rises):

    state.setter:  timeout = monotonic() + FINAL                       init
                   while True:
                       from = self.state                               aLoop, loop
                       if from == target: break                        -> done
                       next = self._next_state(target, from)           -> refused (ValueError)
                       # _change_state(next, from)
                       cw = TRANSITIONTABLE[(from, next)]              -> illegal (ValueError)
                       if from == 'FAULT': controlword = 0x0000        aWrite0, write0   (rising edge of bit 7 next)
                       controlword = cw                                aWrite, write
                       timeout1 = monotonic() + SINGLE                 setS
                       while self.state != next:                       aWait, wait   (equal -> aLoop)
                           if monotonic() > timeout1: -> False         chkS
                           self.check_statusword()                     aPollW, pollW
                       if monotonic() > timeout: raise RuntimeError    chkF -> timeout
                       self.check_statusword()                         aPollL, pollL

An `a…` point is the adversary's moment before the access that follows it.
-/
import CanopenModel.Generated.P402Tables
import CanopenModel.Spec.Drive402

namespace Canopen.P402
open Canopen.Gen.P402Tables Canopen.Spec.Drive402

/-! ## look-ups, as coded -/

def unknownName : Name := ['U', 'N', 'K', 'N', 'O', 'W', 'N']

def rowMatches (sw : Nat) (row : Name × Nat × Nat) : Bool := sw &&& row.2.1 == row.2.2

/-- `BaseNode402.state` getter on one reading `sw` of the statusword: first row of `SW_MASK`
    (dict order) that matches, else 'UNKNOWN'. -/
def getStateFrom (rows : List (Name × Nat × Nat)) (sw : Nat) : Name :=
  match rows.find? (rowMatches sw) with
  | some r => r.1
  | none => unknownName

def getState (sw : Nat) : Name := getStateFrom SW_MASK sw

def isPrefixB : Name → Name → Bool
  | [], _ => true
  | _ :: _, [] => false
  | a :: as, b :: bs => a == b && isPrefixB as bs

/-- Python `p in s` for two str -/
def isInfixB (p : Name) : Name → Bool
  | [] => p.isEmpty
  | b :: bs => isPrefixB p (b :: bs) || isInfixB p bs

/-- `_from in cond` for one key of NEXTSTATE2ANY -/
def condHolds (frm : Name) (row : Bool × List Name × Name) : Bool :=
  if row.1 then row.2.1.contains frm
  else match row.2.1 with
    | [s] => isInfixB frm s
    | _ => false

/-- `State402.next_state_indirect`: `none` is Python's implicit `return None` -/
def nextStateIndirect (frm : Name) : Option Name :=
  (NEXTSTATE2ANY.find? (condHolds frm)).map (·.2.2)

/-- `State402.TRANSITIONTABLE.get((frm, to))` -/
def ttLookup (frm to : Name) : Option Nat :=
  (TRANSITIONTABLE.find? fun r => r.1 == frm && r.2.1 == to).map (·.2.2)

/-- the tuple tested first in `_next_state` -/
def uncommandableNames : List Name :=
  [['N', 'O', 'T', ' ', 'R', 'E', 'A', 'D', 'Y', ' ', 'T', 'O', ' ', 'S', 'W', 'I', 'T', 'C', 'H', ' ', 'O', 'N'],
   ['F', 'A', 'U', 'L', 'T', ' ', 'R', 'E', 'A', 'C', 'T', 'I', 'O', 'N', ' ', 'A', 'C', 'T', 'I', 'V', 'E'],
   ['F', 'A', 'U', 'L', 'T']]

/-- the literal compared with `from_state` in `_change_state` -/
def faultName : Name := ['F', 'A', 'U', 'L', 'T']

/-! ## the library's universe of state values as small numbers

`0 … 7` = the keys of `SW_MASK` in dict order, `8` = 'UNKNOWN' (any other str), `9` = `None`. -/

def stateNames : List Name := SW_MASK.map (·.1)

def nameIdx (n : Name) : Nat := stateNames.idxOf n

def idxName (i : Nat) : Name := stateNames.getD i unknownName

def optIdx : Option Name → Nat
  | some n => min (nameIdx n) 8
  | none => 9

/-- the three look-ups of the setter, tabulated over the small numbers -/
structure Tables where
  /-- `next_state_indirect(from)`, from = 0 … 8 -/
  next : List Nat
  /-- `TRANSITIONTABLE.get((from, to))`, from = 0 … 8, to = 0 … 8 (a `None` target is never a key) -/
  tt : List (List (Option Nat))
  /-- `target in ('NOT READY TO SWITCH ON', 'FAULT REACTION ACTIVE', 'FAULT')`, target = 0 … 7 -/
  uncmd : List Bool
  /-- the `from_state` for which `_change_state` first lowers bit 7 (`from_state == 'FAULT'`) -/
  fault : Nat
  /-- … by writing this controlword (`State402.CW_DISABLE_VOLTAGE`) -/
  preCw : Nat
deriving Repr, DecidableEq

def Tables.nextOf (T : Tables) (f : Nat) : Nat := T.next.getD f 9
def Tables.ttOf (T : Tables) (f t : Nat) : Option Nat := (T.tt.getD f []).getD t none
def Tables.uncmdOf (T : Tables) (t : Nat) : Bool := T.uncmd.getD t false

/-- the tables of the code under test -/
def codeTables : Tables where
  next := (List.range 9).map fun f => optIdx (nextStateIndirect (idxName f))
  tt := (List.range 9).map fun f => (List.range 9).map fun t => ttLookup (idxName f) (idxName t)
  uncmd := (List.range 8).map fun t => uncommandableNames.contains (idxName t)
  fault := min (nameIdx faultName) 8
  preCw := CW_DISABLE_VOLTAGE

/-! ## the setter as a small-step machine -/

inductive Pc where
  | init | aLoop | loop | aWrite0 | write0 | aWrite | write | setS | aWait | wait | chkS | aPollW | pollW
  | chkF | aPollL | pollL | done | refused | illegal | timeout
deriving DecidableEq, Repr, Inhabited

structure Choice where
  fire : Bool
  expired : Bool
deriving DecidableEq, Repr

structure Cfg where
  /-- statusword by TPDO cache / controlword by RPDO (else both by SDO) -/
  pdo : Bool
  /-- the drive may leave QUICK STOP ACTIVE by itself -/
  auto12 : Bool
  /-- the assigned state, as a small number -/
  target : Nat
  /-- the drive: power state and bit 7 of the last controlword -/
  st : PState
  rst : Bool
  /-- state shown by the last TPDO (PDO transport) -/
  cache : PState
  pc : Pc
  /-- `from_state`, `next_state` of the current iteration -/
  frm : Nat
  nxt : Nat
deriving DecidableEq, Repr

def Pc.terminal : Pc → Bool
  | .done | .refused | .illegal | .timeout => true
  | _ => false

/-- the adversary's moments -/
def Pc.isAdv : Pc → Bool
  | .aLoop | .aWrite0 | .aWrite | .aWait | .aPollW | .aPollL => true
  | _ => false

/-- the drive may perform its pending automatic transition now -/
def advance (c : Cfg) (fire : Bool) (pc' : Pc) : Cfg :=
  match autoNext c.auto12 c.st with
  | some s => if fire then { c with st := s, pc := pc' } else { c with pc := pc' }
  | none => { c with pc := pc' }

/-- what the library sees when it evaluates `self.state` (`view` = decoding of the drive's statusword) -/
def seen (view : PState → Nat) (c : Cfg) : Nat := if c.pdo then view c.cache else view c.st

/-- `_next_state(target, from)` for a commandable target -/
def nextOf (T : Tables) (frm target : Nat) : Nat :=
  if (T.ttOf frm target).isSome then target else T.nextOf frm

/-- the controlword `_change_state` is about to write -/
def cwOf (T : Tables) (c : Cfg) : Option Nat := T.ttOf c.frm c.nxt

/-- the drive receives a controlword -/
def receive (c : Cfg) (cw : Nat) : Cfg :=
  let edge := cw.testBit 7 && !c.rst
  { c with st := (commandStates c.st edge cw).getLast?.getD c.st, rst := cw.testBit 7 }

/-- body of the `loop` point: the decisions of one iteration, taken on one reading -/
def decide1 (T : Tables) (c : Cfg) (v : Nat) : Cfg :=
  if v = c.target then { c with pc := .done }
  else if T.uncmdOf c.target then { c with pc := .refused }
  else
    let n := nextOf T v c.target
    match T.ttOf v n with
    | none => { c with pc := .illegal, frm := v, nxt := n }
    | some _ => { c with pc := if v = T.fault then .aWrite0 else .aWrite, frm := v, nxt := n }

def step (T : Tables) (view : PState → Nat) (c : Cfg) (ch : Choice) : Cfg :=
  match c.pc with
  | .init => { c with pc := .aLoop }
  | .aLoop => advance c ch.fire .loop
  | .loop => decide1 T c (seen view c)
  | .aWrite0 => advance c ch.fire .write0
  | .write0 => { receive c T.preCw with pc := .aWrite }
  | .aWrite => advance c ch.fire .write
  | .write =>
      match cwOf T c with
      | some cw => { receive c cw with pc := .setS }
      | none => { c with pc := .illegal }          -- unreachable: `loop` checked the key
  | .setS => { c with pc := .aWait }
  | .aWait => advance c ch.fire .wait
  | .wait => if seen view c = c.nxt then { c with pc := .aLoop } else { c with pc := .chkS }
  | .chkS => if ch.expired then { c with pc := .chkF } else { c with pc := .aPollW }
  | .aPollW => advance c ch.fire .pollW
  | .pollW => { c with cache := c.st, pc := .aWait }
  | .chkF => if ch.expired then { c with pc := .timeout } else { c with pc := .aPollL }
  | .aPollL => advance c ch.fire .pollL
  | .pollL => { c with cache := c.st, pc := .aLoop }
  | .done | .refused | .illegal | .timeout => c

/-- states the drive enters during this step, in order -/
def entered (T : Tables) (c : Cfg) (ch : Choice) : List PState :=
  if c.pc.isAdv then
    (match autoNext c.auto12 c.st with
     | some s => if ch.fire then [s] else []
     | none => [])
  else if c.pc = .write then
    (match cwOf T c with
     | some cw => commandStates c.st (cw.testBit 7 && !c.rst) cw
     | none => [])
  else if c.pc = .write0 then commandStates c.st (T.preCw.testBit 7 && !c.rst) T.preCw
  else []

def run (T : Tables) (view : PState → Nat) (c : Cfg) : List Choice → Cfg
  | [] => c
  | ch :: rest => run T view (step T view c ch) rest

def initCfg (pdo auto12 : Bool) (target : Nat) (start : PState) (rst : Bool) : Cfg :=
  { pdo, auto12, target, st := start, rst, cache := start, pc := .init, frm := 9, nxt := 9 }

/-! ## fairness vocabulary for the progress theorem

A *stall* is a step at which the environment withholds what the library is waiting for: the drive
postpones a pending mandatory automatic transition at one of the adversary's moments, or the
single-step time-out is found not yet expired although the drive is not in the awaited state and has
nothing left to do by itself.  A *fatal* step is the overall time-out found expired. -/

def isStall (view : PState → Nat) (c : Cfg) (ch : Choice) : Bool :=
  (c.pc.isAdv && mandatory c.st && !ch.fire) ||
  (c.pc == .chkS && !mandatory c.st && view c.st != c.nxt && !ch.expired)

def isFatal (c : Cfg) (ch : Choice) : Bool := c.pc == .chkF && ch.expired

def stallCount (T : Tables) (view : PState → Nat) : Cfg → List Choice → Nat
  | _, [] => 0
  | c, ch :: rest => (if isStall view c ch then 1 else 0) + stallCount T view (step T view c ch) rest

def noFatal (T : Tables) (view : PState → Nat) : Cfg → List Choice → Bool
  | _, [] => true
  | c, ch :: rest => !isFatal c ch && noFatal T view (step T view c ch) rest

/-! ## concrete runs: choices computed from a schedule, a tick counter and the two time-outs -/

structure Sched where
  /-- accesses (running number from 0) before which a pending automatic transition fires -/
  fireAt : List Nat
  /-- a pending mandatory transition fires at the latest after `d` accesses that left it pending -/
  d : Nat
  /-- time-outs, in ticks of the clock (`time.monotonic()` returns 0, 1, 2, …) -/
  tFinal : Nat
  tSingle : Nat

structure Conc where
  c : Cfg
  clock : Nat := 0
  dF : Nat := 0
  dS : Nat := 0
  acc : Nat := 0
  declined : Nat := 0
  cws : List Nat := []        -- reversed
  trace : List PState := []   -- reversed

/-- is the step taken at this point an access to the drive? -/
def isAccess (c : Cfg) : Bool :=
  match c.pc with
  | .aWrite0 | .aWrite | .aPollW | .aPollL => true
  | .aLoop | .aWait => !c.pdo
  | _ => false

def concStep (T : Tables) (view : PState → Nat) (s : Sched) (k : Conc) : Conc :=
  let c := k.c
  let acc := isAccess c
  let fire := acc && (s.fireAt.contains k.acc || (mandatory c.st && decide (k.declined ≥ s.d)))
  let usesClock := c.pc = .init ∨ c.pc = .setS ∨ c.pc = .chkS ∨ c.pc = .chkF
  let expired := if c.pc = .chkS then decide (k.clock > k.dS) else if c.pc = .chkF then decide (k.clock > k.dF) else false
  let ch : Choice := ⟨fire, expired⟩
  let ent := entered T c ch
  let c' := step T view c ch
  { c := c',
    clock := if usesClock then k.clock + 1 else k.clock,
    dF := if c.pc = .init then k.clock + s.tFinal else k.dF,
    dS := if c.pc = .setS then k.clock + s.tSingle else k.dS,
    acc := if acc then k.acc + 1 else k.acc,
    declined := if acc then
        (if (autoNext c.auto12 c.st).isSome && fire then 0
         else if mandatory c.st then k.declined + 1 else 0)
      else k.declined,
    cws := if c.pc = .write then (match cwOf T c with | some cw => cw :: k.cws | none => k.cws)
      else if c.pc = .write0 then T.preCw :: k.cws else k.cws,
    trace := ent.reverse ++ k.trace }

def runConcrete (T : Tables) (view : PState → Nat) (s : Sched) : Nat → Conc → Conc
  | 0, k => k
  | fuel + 1, k => if k.c.pc.terminal then k else runConcrete T view s fuel (concStep T view s k)

/-- decoding of the statusword a spec drive in state `s` reports, free bits from `extra` -/
def viewOf (extra : Nat) (s : PState) : Nat := min (nameIdx (getState (statusword s extra))) 8

/-- the view when the library decodes every state correctly: position of the standard's name among
    the keys of `SW_MASK` -/
def specIdx (s : PState) : Nat := min (nameIdx s.name) 8

/-! ## operation mode -/

def lookupN {α : Type} (tbl : List (Name × α)) (n : Name) : Option α := (tbl.find? fun r => r.1 == n).map (·.2)

inductive ModeResult where
  /-- KeyError / TypeError before anything is written -/
  | refused
  /-- the code written to 0x6060 -/
  | written (code : Int)
deriving DecidableEq, Repr

/-- `is_op_mode_supported(mode)`; `none` = KeyError -/
def isOpModeSupported (mask : Nat) (mode : Name) : Option Bool :=
  (lookupN SUPPORTED mode).map fun bits => mask &&& bits == bits

/-- `op_mode` setter up to and including the write -/
def opModeSet (mask : Nat) (mode : Name) : ModeResult :=
  match isOpModeSupported mask mode with
  | none => .refused
  | some false => .refused
  | some true =>
    match lookupN NAME2CODE mode with
    | none => .refused
    | some code => .written code

/-- number of reads of 0x6061 in the confirmation loop: the drive shows the new code from read
    `delay + 1` on (display 0 before); the loop gives up when `monotonic()` exceeds the time-out
    of `m` ticks -/
def opModeReads (code : Int) (delay m : Nat) : Nat :=
  if code = 0 then 1 else min delay m + 1

end Canopen.P402
