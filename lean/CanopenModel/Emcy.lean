/-
Model of canopen/emcy.py: `EMCY_STRUCT`, `EmcyConsumer` (`on_emcy`, `add_callback`, `reset`,
`wait`), `EmcyProducer` (`send`, `reset`) and `EmcyError` (`get_desc`, `__str__`), over the
generated `EMCY_STRUCT` format and `DESCRIPTIONS` table.

CPython's `struct` is *modelled* (trusted base) for the subset of formats understood by
`parseFmt`: `<`, then items `B H L I Q` (unsigned little-endian, range check on pack) and
`<n>s` (byte string, zero padded **and silently truncated** to `n` on pack); `unpack` demands
exactly `calcsize` bytes.  A format outside that subset makes `emcyFields = none` and every
theorem about the frame layout stops compiling.

`threading.Condition` and `time.time` are modelled by monitor semantics (DESIGN §3/§4): a call of
`EmcyConsumer.wait` is a function of the sequence of *wake-ups* of `Condition.wait`; each wake-up
carries what the rest of the program did to the consumer while the waiter did not hold the
lock (frames delivered, callbacks added, `reset()` called) and the clock reading afterwards.
Python exceptions are reduced to "raised".
-/
import CanopenModel.Bytes
import CanopenModel.Generated.Emcy

namespace Canopen.Emcy
open Canopen
open Canopen.Gen.Emcy

/-! ### the `struct` formats used by `EMCY_STRUCT` -/

inductive Field where
  | uint (n : Nat)      -- `B` `H` `L`/`I` `Q`: unsigned, `n` bytes, little-endian
  | bytes (n : Nat)     -- `<n>s`
deriving Repr, DecidableEq

def digitVal (c : Char) : Option Nat :=
  if '0' ≤ c ∧ c ≤ '9' then some (c.toNat - 48) else none

/-- one format item with its optional repeat count -/
def fmtItem (count : Option Nat) (c : Char) : Option (List Field) :=
  match c with
  | 's' => some [.bytes (count.getD 1)]
  | 'B' => some (List.replicate (count.getD 1) (.uint 1))
  | 'H' => some (List.replicate (count.getD 1) (.uint 2))
  | 'L' => some (List.replicate (count.getD 1) (.uint 4))
  | 'I' => some (List.replicate (count.getD 1) (.uint 4))
  | 'Q' => some (List.replicate (count.getD 1) (.uint 8))
  | _ => none

def parseItems : Option Nat → List Char → Option (List Field)
  | none, [] => some []
  | some _, [] => none
  | cnt, c :: rest =>
    match digitVal c with
    | some d => parseItems (some (cnt.getD 0 * 10 + d)) rest
    | none =>
      match fmtItem cnt c, parseItems none rest with
      | some f, some r => some (f ++ r)
      | _, _ => none

/-- only little-endian standard-size formats (`<…`) are understood -/
def parseFmt : List Char → Option (List Field)
  | '<' :: rest => parseItems none rest
  | _ => none

def fieldSize : Field → Nat
  | .uint n => n
  | .bytes n => n

def structSize (fs : List Field) : Nat := (fs.map fieldSize).sum

/-- argument of `Struct.pack` -/
inductive PVal where
  | num (v : Int)
  | bytes (bs : Bytes)
deriving Repr, DecidableEq

/-- result item of `Struct.unpack` -/
inductive UVal where
  | num (n : Nat)
  | bytes (bs : Bytes)
deriving Repr, DecidableEq

/-- `none` = `struct.error` -/
def packField : Field → PVal → Option Bytes
  | .uint n, .num v => if 0 ≤ v ∧ v < ((256 ^ n : Nat) : Int) then some (leBytes n v.toNat) else none
  | .bytes n, .bytes bs => some (padTo n (bs.take n))
  | _, _ => none

def structPack : List Field → List PVal → Option Bytes
  | [], [] => some []
  | f :: fs, v :: vs =>
    match packField f v, structPack fs vs with
    | some a, some b => some (a ++ b)
    | _, _ => none
  | _, _ => none

def unpackField : Field → Bytes → UVal
  | .uint n, bs => .num (leVal (bs.take n))
  | .bytes n, bs => .bytes (bs.take n)

def unpackFields : List Field → Bytes → List UVal
  | [], _ => []
  | f :: fs, bs => unpackField f bs :: unpackFields fs (bs.drop (fieldSize f))

/-- `none` = `struct.error` (buffer of the wrong size) -/
def structUnpack (fs : List Field) (bs : Bytes) : Option (List UVal) :=
  if bs.length = structSize fs then some (unpackFields fs bs) else none

/-- the fields of the generated `EMCY_STRUCT` format -/
def emcyFields : Option (List Field) := parseFmt EMCY_STRUCT_FORMAT

/-- the three values `on_emcy` expects from `EMCY_STRUCT.unpack` -/
def emcyTriple : List UVal → Option (Nat × Nat × Bytes)
  | [.num code, .num reg, .bytes d] => some (code, reg, d)
  | _ => none

/-- `code, register, data = EMCY_STRUCT.unpack(data)`; `none` = raised -/
def decode (data : Bytes) : Option (Nat × Nat × Bytes) :=
  match emcyFields with
  | none => none
  | some fs => (structUnpack fs data).bind emcyTriple

/-- `EMCY_STRUCT.pack(code, register, data)`; `none` = raised -/
def encode (code reg : Int) (data : Bytes) : Option Bytes :=
  match emcyFields with
  | none => none
  | some fs => structPack fs [.num code, .num reg, .bytes data]

/-! ### `EmcyError` -/

/-- an `EmcyError` object: the four attributes the API exposes -/
structure Entry where
  code : Nat
  register : Nat
  data : Bytes
  timestamp : Nat
deriving Repr, DecidableEq

def rowMatches (code : Nat) (r : DescRow) : Bool := code &&& r.mask == r.code

/-- `get_desc` over an arbitrary table: first row with `code & mask == row.code`, else `""` -/
def descIn (rows : List DescRow) (code : Nat) : List Char :=
  match rows.find? (rowMatches code) with
  | some r => r.desc
  | none => []

def getDesc (code : Nat) : List Char := descIn DESCRIPTIONS code

def hexUpper (n : Nat) : List Char := (Nat.toDigits 16 n).map Char.toUpper

/-- `f"{code:04X}"` -/
def hex04 (n : Nat) : List Char :=
  let d := hexUpper n
  List.replicate (4 - d.length) '0' ++ d

/-- `EmcyError.__str__` -/
def strOf (code : Nat) : List Char :=
  let text := "Code 0x".toList ++ hex04 code
  let d := getDesc code
  if d.isEmpty then text else text ++ [',', ' '] ++ d

/-! ### `EmcyConsumer` -/

/-- callbacks are identified by the number the harness gave them -/
structure Consumer where
  log : List Entry
  active : List Entry
  callbacks : List Nat
deriving Repr, DecidableEq

def Consumer.init : Consumer := ⟨[], [], []⟩

/-- `code & 0xFF00 == 0` -/
def isResetCode (code : Nat) : Bool := code &&& 0xFF00 == 0

/-- the `EmcyError` built from a frame and the time stamp handed to `on_emcy` -/
def entryOfFrame (data : Bytes) (ts : Nat) : Option Entry :=
  match decode data with
  | some (code, reg, d) => some ⟨code, reg, d, ts⟩
  | none => none

/-- the list maintenance inside the `with self.emcy_received:` block -/
def record (c : Consumer) (e : Entry) : Consumer :=
  { c with active := if isResetCode e.code then [] else c.active ++ [e], log := c.log ++ [e] }

/-- what one API call / delivered frame did, as far as a caller can see -/
structure StepOut where
  raised : Bool
  invoked : List (Nat × Entry)      -- (callback, argument) in invocation order
deriving Repr, DecidableEq

/-- `on_emcy(can_id, data, timestamp)`: a frame that does not unpack raises before anything
    changes -/
def onEmcy (c : Consumer) (data : Bytes) (ts : Nat) : Consumer × StepOut :=
  match entryOfFrame data ts with
  | none => (c, ⟨true, []⟩)
  | some e => (record c e, ⟨false, c.callbacks.map fun k => (k, e)⟩)

/-- things that happen to a consumer owned by the `RemoteNode` with id `nid` -/
inductive Ev where
  | frame (data : Bytes) (ts : Nat)                   -- `emcy.on_emcy(0x80 + nid, data, ts)`
  | notify (canId : Nat) (data : Bytes) (ts : Nat)    -- `network.notify(canId, data, ts)`
  | addCb (k : Nat)                                   -- `emcy.add_callback(cb_k)`
  | reset                                             -- `emcy.reset()`
deriving Repr, DecidableEq

/-- `RemoteNode.associate_network`: `network.subscribe(0x80 + self.id, self.emcy.on_emcy)` -/
def emcyCobId (nid : Nat) : Nat := 0x80 + nid

def step (nid : Nat) (c : Consumer) : Ev → Consumer × StepOut
  | .frame d ts => onEmcy c d ts
  | .notify id d ts => if id = emcyCobId nid then onEmcy c d ts else (c, ⟨false, []⟩)
  | .addCb k => ({ c with callbacks := c.callbacks ++ [k] }, ⟨false, []⟩)
  | .reset => ({ c with log := [], active := [] }, ⟨false, []⟩)

/-- state after a history -/
def run (nid : Nat) (c : Consumer) (evs : List Ev) : Consumer :=
  evs.foldl (fun c e => (step nid c e).1) c

/-- what every event of a history did, one `StepOut` per event -/
def trace (nid : Nat) : Consumer → List Ev → List StepOut
  | _, [] => []
  | c, e :: evs => (step nid c e).2 :: trace nid (step nid c e).1 evs

/-- `len(active)` after every event (driver output) -/
def activeLens (nid : Nat) : Consumer → List Ev → List Nat
  | _, [] => []
  | c, e :: evs => (step nid c e).1.active.length :: activeLens nid (step nid c e).1 evs

/-! ### `EmcyConsumer.wait` -/

/-- one return of `self.emcy_received.wait(timeout)`: what happened to the consumer while the
    waiter did not hold the lock, and what `time.time()` says afterwards.  `evs = []` is a
    time-out of the condition variable (or a spurious wake-up). -/
structure Wake where
  now : Nat
  evs : List Ev
deriving Repr, DecidableEq

inductive WaitRes where
  | nothing                  -- `return None`
  | entry (e : Entry)        -- `return emcy`
  | raised                   -- an exception out of `wait` (not reachable in the repaired code)
deriving Repr, DecidableEq

/-- `emcy_code is None or emcy.code == emcy_code` -/
def matchesFilter (filter : Option Nat) (e : Entry) : Bool :=
  match filter with
  | none => true
  | some code => e.code == code

structure WaitOut where
  state : Consumer
  res : WaitRes
  waits : Nat               -- number of `Condition.wait` calls made
deriving Repr, DecidableEq

/-- the `while True:` loop of `wait` with `end_time = deadline` (after the repair of the burst
    defect: every entry logged since the previous look is examined, oldest first).  When the
    script of wake-ups is exhausted the next `Condition.wait` times out with nothing new in the
    log. -/
def waitLoop (nid : Nat) (filter : Option Nat) (deadline : Nat) :
    Consumer → List Wake → WaitOut
  | c, [] => ⟨c, .nothing, 1⟩
  | c, w :: ws =>
    let c' := run nid c w.evs
    if c'.log.length = c.log.length then ⟨c', .nothing, 1⟩
    else if w.now > deadline then ⟨c', .nothing, 1⟩
    else match (c'.log.drop c.log.length).find? (matchesFilter filter) with
      | some e => ⟨c', .entry e, 1⟩
      | none =>
        let r := waitLoop nid filter deadline c' ws
        ⟨r.state, r.res, r.waits + 1⟩

/-- `wait(emcy_code, timeout)` entered at clock reading `t0` -/
def wait (nid : Nat) (filter : Option Nat) (t0 timeout : Nat) (c : Consumer) (ws : List Wake) :
    WaitOut :=
  waitLoop nid filter (t0 + timeout) c ws

/-! ### several threads in `wait` at once: the condition variable made explicit

`on_emcy` calls `self.emcy_received.notify_all()` after it recorded an entry.  Here the threads
blocked in `Condition.wait` are a list; `notify_all` marks every one of them runnable; a marked
(or timed-out) thread later gets the lock and executes the rest of the loop body of `wait`. -/

/-- a thread that called `wait(filter, timeout)` -/
structure Waiter where
  id : Nat                  -- the harness's name for the thread
  filter : Option Nat
  deadline : Nat            -- `end_time`
  prev : Nat                -- `prev_log_size` of the current loop iteration
  notified : Bool           -- released by `notify_all`, has not run yet
  res : Option WaitRes      -- `some r` once `wait` has returned `r`
deriving Repr, DecidableEq

/-- the thread takes the lock, reads `len(self.log)` and blocks in `Condition.wait` -/
def Waiter.enter (id : Nat) (filter : Option Nat) (deadline : Nat) (c : Consumer) : Waiter :=
  ⟨id, filter, deadline, c.log.length, false, none⟩

/-- what `notify_all` does to one thread: a blocked thread becomes runnable, a thread that has
    left `wait` is not on the condition variable -/
def Waiter.mark (w : Waiter) : Waiter :=
  if w.res.isNone then { w with notified := true } else w

/-- `Condition.notify_all()` -/
def notifyAll (ws : List Waiter) : List Waiter := ws.map Waiter.mark

/-- does this event make `on_emcy` reach its `notify_all()` (the frame unpacked) -/
def notifies (nid : Nat) : Ev → Bool
  | .frame d ts => (entryOfFrame d ts).isSome
  | .notify id d ts => decide (id = emcyCobId nid) && (entryOfFrame d ts).isSome
  | .addCb _ => false
  | .reset => false

/-- the `for emcy in self.log[prev_log_size:]` loop: hand over the first match or go round again -/
def Waiter.look (c : Consumer) (w : Waiter) : Option Entry → Waiter
  | some e => { w with notified := false, res := some (.entry e) }
  | none => { w with notified := false, prev := c.log.length }

/-- `Condition.wait` of this thread returned (notification or time-out — the code does not ask
    which) and the thread has the lock again; `time.time()` reads `now` -/
def Waiter.resume (c : Consumer) (now : Nat) (w : Waiter) : Waiter :=
  if w.res.isSome then w
  else if c.log.length = w.prev then { w with notified := false, res := some .nothing }
  else if now > w.deadline then { w with notified := false, res := some .nothing }
  else w.look c ((c.log.drop w.prev).find? (matchesFilter w.filter))

/-- what can happen in a program with one consumer and several waiting threads -/
inductive SEv where
  | ev (e : Ev)                  -- the rest of the program does something to the consumer
  | runs (id : Nat) (now : Nat)  -- thread `id` comes back from `Condition.wait` at clock `now`
deriving Repr, DecidableEq

def sysStep (nid : Nat) (s : Consumer × List Waiter) : SEv → Consumer × List Waiter
  | .ev e => ((step nid s.1 e).1, if notifies nid e then notifyAll s.2 else s.2)
  | .runs id now => (s.1, s.2.map fun w => if w.id = id then w.resume s.1 now else w)

def sysRun (nid : Nat) (s : Consumer × List Waiter) (sched : List SEv) : Consumer × List Waiter :=
  sched.foldl (sysStep nid) s

/-- the threads of a program: thread `i` waits with filter `specs[i].1` until `specs[i].2`; all of
    them enter `wait` while the consumer is in state `c` -/
def enterAll (c : Consumer) (specs : List (Option Nat × Nat)) : List Waiter :=
  specs.zipIdx.map fun (sp, i) => Waiter.enter i sp.1 sp.2 c

/-- the schedule the harness produces: every batch is delivered while the feeder holds the lock
    (clock set to the batch's `now`); if it notified, every thread still waiting runs, in the
    order `ids`; at the end the clock jumps to `tEnd` and every `Condition.wait` times out -/
def rigSchedule (nid : Nat) (ids : List Nat) (wakes : List Wake) (tEnd : Nat) : List SEv :=
  wakes.flatMap (fun w => w.evs.map SEv.ev ++
    (if w.evs.any (notifies nid) then ids.map (SEv.runs · w.now) else [])) ++
  ids.map (SEv.runs · tEnd)

/-! ### long histories: run-length frames, and a runner that is linear in the history -/

/-- the `i`-th frame of a run: code `(code0 + i·cstep) mod 2¹⁶`, register `(reg0 + i) mod 256`,
    manufacturer bytes `i` (32 bit, LSB first) and `(7·i + 3) mod 256` -/
def repFrame (code0 cstep reg0 i : Nat) : Bytes :=
  [(code0 + i * cstep) % 256, (code0 + i * cstep) / 256 % 256, (reg0 + i) % 256,
   i % 256, i / 256 % 256, i / 65536 % 256, i / 16777216 % 256, (7 * i + 3) % 256]

/-- `n` frames handed to `on_emcy`, the `i`-th stamped `ts0 + i` -/
def repEvs (n code0 cstep reg0 ts0 : Nat) : List Ev :=
  (List.range n).map fun i => Ev.frame (repFrame code0 cstep reg0 i) (ts0 + i)

/-- consumer with its lists kept newest-first, plus everything the driver prints about a history -/
structure Fast where
  rlog : List Entry
  ractive : List Entry
  callbacks : List Nat
  nactive : Nat                     -- `len(active)`
  rinv : List (Nat × Entry)         -- callback invocations, newest first
  nraised : Nat                     -- events that raised
  ralens : List Nat                 -- `len(active)` after every event, newest first
deriving Repr, DecidableEq

def Fast.ofConsumer (c : Consumer) : Fast :=
  ⟨c.log.reverse, c.active.reverse, c.callbacks, c.active.length, [], 0, []⟩

def Fast.consumer (s : Fast) : Consumer := ⟨s.rlog.reverse, s.ractive.reverse, s.callbacks⟩

def Fast.onEmcy (s : Fast) (data : Bytes) (ts : Nat) : Fast :=
  match entryOfFrame data ts with
  | none => { s with nraised := s.nraised + 1, ralens := s.nactive :: s.ralens }
  | some e =>
    if isResetCode e.code then
      { s with rlog := e :: s.rlog, ractive := [], nactive := 0,
               rinv := (s.callbacks.map fun k => (k, e)).reverse ++ s.rinv, ralens := 0 :: s.ralens }
    else
      { s with rlog := e :: s.rlog, ractive := e :: s.ractive, nactive := s.nactive + 1,
               rinv := (s.callbacks.map fun k => (k, e)).reverse ++ s.rinv,
               ralens := (s.nactive + 1) :: s.ralens }

def Fast.step (nid : Nat) (s : Fast) : Ev → Fast
  | .frame d ts => s.onEmcy d ts
  | .notify id d ts =>
    if id = emcyCobId nid then s.onEmcy d ts else { s with ralens := s.nactive :: s.ralens }
  | .addCb k => { s with callbacks := s.callbacks ++ [k], ralens := s.nactive :: s.ralens }
  | .reset => { s with rlog := [], ractive := [], nactive := 0, ralens := 0 :: s.ralens }

def runFast (nid : Nat) (s : Fast) (evs : List Ev) : Fast := evs.foldl (Fast.step nid) s

/-- number of events of a trace that raised -/
def countRaised (tr : List StepOut) : Nat := (tr.filter (·.raised)).length

/-! ### `EmcyProducer` -/

/-- `LocalNode.__init__`: `EmcyProducer(0x80 + self.id)` -/
def producerCobId (nid : Nat) : Nat := 0x80 + nid

inductive PCall where
  | send (code reg : Int) (data : Bytes)     -- `emcy.send(code, register, data)`
  | reset (reg : Int) (data : Bytes)         -- `emcy.reset(register, data)`
deriving Repr, DecidableEq

/-- the payload handed to `network.send_message(cob_id, payload)`; `none` = raised, nothing sent -/
def producerFrame : PCall → Option Bytes
  | .send code reg data => encode code reg data
  | .reset reg data => encode 0 reg data

/-- producer on node `lnid` and the consumer of `RemoteNode rnid` on one bus; the harness's bus
    stamps the k-th frame with time `ts0 + k`.  Returns the frames on the bus (newest last),
    the consumer and the per-call raised flags. -/
def produceConsume (lnid rnid ts0 : Nat) :
    Consumer → List Bytes → List PCall → Consumer × List Bytes × List Bool
  | c, sent, [] => (c, sent, [])
  | c, sent, p :: ps =>
    match producerFrame p with
    | none =>
      let r := produceConsume lnid rnid ts0 c sent ps
      (r.1, r.2.1, true :: r.2.2)
    | some f =>
      let c' := (step rnid c (.notify (producerCobId lnid) f (ts0 + sent.length))).1
      let r := produceConsume lnid rnid ts0 c' (sent ++ [f]) ps
      (r.1, r.2.1, false :: r.2.2)

end Canopen.Emcy
