/-
Model of `canopen/nmt.py` (`NmtBase`, `NmtMaster`, `NmtSlave`) as attached to the bus by
`RemoteNode.associate_network` / `LocalNode.associate_network`, over the generated tables
`NMT_STATES`, `NMT_COMMANDS`, `COMMAND_TO_STATE`.

Conventions (DESIGN §4): a Python call that may raise returns an `Option`/`Res`; the simulated bus
hands a frame sent by one network to the other network only, third-party frames to both.
The master side is the `RemoteNode.nmt` of network M plus `Network.nmt` of M (the broadcast
master, node id 0, subscribed to nothing); the slave side is the `LocalNode.nmt` of network S.

Modelled, not verified: `threading.Condition` (a wait = the list of heartbeat frames processed
before the waiter resumes; empty = time-out) and `time.time` (one "deadline passed" bit per loop
iteration of `wait_for_bootup`).  Logging calls are modelled only where their *arguments* can
raise (`NMT_STATES[new_state]`).
-/
import CanopenModel.Bytes
import CanopenModel.Generated.Nmt

namespace Canopen.Nmt
open Canopen
open Canopen.Gen.Nmt

/-! ### tables -/

/-- `dict.get(k)` for an `int`-keyed table kept in dict order -/
def lookupNat {α : Type} : List (Nat × α) → Nat → Option α
  | [], _ => none
  | (a, b) :: r, k => if k = a then some b else lookupNat r k

/-- `dict.get(k)` for a `str`-keyed table -/
def lookupName {α : Type} : List (List Char × α) → List Char → Option α
  | [], _ => none
  | (a, b) :: r, k => if k = a then some b else lookupName r k

/-- what the `state` getter returns: `NMT_STATES[self._state]` or `"UNKNOWN STATE '<n>'"` -/
inductive View where
  | known (name : List Char)
  | unknown (n : Nat)
deriving Repr, DecidableEq

def stateView (st : Nat) : View :=
  match lookupNat NMT_STATES st with
  | some n => .known n
  | none => .unknown st

/-- outcome of one API call / one injected frame, no finer than the property -/
inductive Res where
  | ok
  | okState (v : View)          -- `wait_for_heartbeat` returned this state
  | err                         -- any exception other than `NmtError`
  | errNmt                      -- `NmtError`
  | errRx (m s : Bool)          -- `Network.notify` of M / of S raised while handling the frame
  | waiting                     -- `wait_for_bootup` still looping when the script ended
deriving Repr, DecidableEq

structure Frame where
  id : Nat
  data : Bytes
deriving Repr, DecidableEq

/-! ### NmtBase -/

/-- `NmtBase.send_command`: the new `_state`; `none` = `KeyError` out of the logging call
    (`NMT_STATES[new_state]`), state left as it was -/
def baseSendCommand (st code : Nat) : Option Nat :=
  match lookupNat COMMAND_TO_STATE code with
  | none => some st
  | some ns => if (lookupNat NMT_STATES ns).isSome then some ns else none

/-- the table part of `NmtBase.on_command` for a frame that addresses the node -/
def baseAddressed (st cmd : Nat) : Option Nat :=
  match lookupNat COMMAND_TO_STATE cmd with
  | none => some st
  | some ns => if ns ≠ st ∧ (lookupNat NMT_STATES ns).isNone then none else some ns

/-- `NmtBase.on_command`: `struct.unpack_from("BB", data)`, addressing filter, table.
    `none` = raised (`struct.error` for a short frame, `KeyError` from the logging call) -/
def baseOnCommand (id st : Nat) (data : Bytes) : Option Nat :=
  match data with
  | cmd :: nid :: _ => if nid = id ∨ nid = 0 then baseAddressed st cmd else some st
  | _ => none

/-- `network.send_message(can_id, data)` builds a `can.Message`; the `bytearray` conversion rejects
    anything that is not a byte -/
def sendable (data : Bytes) : Bool := data.all (· < 256)

/-! ### NmtMaster -/

structure Master where
  id : Nat
  state : Nat                    -- `_state`
  received : Option Nat          -- `_state_received`
deriving Repr, DecidableEq

def Master.onCommand (m : Master) (data : Bytes) : Option Master :=
  (baseOnCommand m.id m.state data).map fun s => { m with state := s }

/-- the `_state` a heartbeat value leads to (boot-up ↦ PRE-OPERATIONAL) -/
def hbState (v : Nat) : Nat := if v = 0 then 127 else v

/-- `NmtMaster.on_heartbeat`: new master and the argument every registered callback is called
    with; `none` = `struct.error` (empty frame), nothing changed, nobody notified -/
def Master.onHeartbeat (m : Master) (data : Bytes) : Option (Master × Nat) :=
  match data with
  | [] => none
  | b :: _ =>
    let v := b &&& 0x7F
    some ({ m with state := hbState v, received := some v }, v)

/-- `NmtMaster.send_command`: table update, then the frame `[code, id]` on CAN id 0 -/
def Master.sendCommand (m : Master) (code : Nat) : Master × Res × List Frame :=
  match baseSendCommand m.state code with
  | none => (m, .err, [])
  | some s =>
    let m' := { m with state := s }
    if sendable [code, m.id] then (m', .ok, [⟨0, [code, m.id]⟩]) else (m', .err, [])

/-- `state` setter: `NMT_COMMANDS` lookup, `ValueError` before anything else happens -/
def Master.setState (m : Master) (name : List Char) : Master × Res × List Frame :=
  match lookupName NMT_COMMANDS name with
  | none => (m, .err, [])
  | some code => m.sendCommand code

/-! ### NmtSlave -/

/-- the periodic task `start_heartbeat` creates -/
structure HbTask where
  canId : Nat
  payload : Bytes
  periodMs : Nat
deriving Repr, DecidableEq

structure Slave where
  id : Nat
  state : Nat
  task : Option HbTask           -- `_send_task`
  od1017 : Option Nat            -- value `local_node.sdo[0x1017].raw` reads; `none` = no such object
deriving Repr, DecidableEq

def Slave.updateHeartbeat (s : Slave) : Slave :=
  { s with task := s.task.map fun t => { t with payload := [s.state] } }

/-- `start_heartbeat`: stop a running task, start a new one when the time is positive -/
def Slave.startHeartbeat (s : Slave) (ms : Nat) : Slave :=
  { s with task := if ms > 0 then some ⟨0x700 + s.id, [s.state], ms⟩ else none }

def Slave.onCommand (s : Slave) (data : Bytes) : Option Slave :=
  (baseOnCommand s.id s.state data).map fun st => ({ s with state := st }).updateHeartbeat

/-- `NmtSlave.send_command` (local application API): table update, boot-up frame when the new
    state is 0, heartbeat start on 0 → 127 (reads object 0x1017), otherwise payload update -/
def Slave.sendCommand (s : Slave) (code : Nat) : Slave × Res × List Frame :=
  match baseSendCommand s.state code with
  | none => (s, .err, [])
  | some ns =>
    let s1 := { s with state := ns }
    let boot : List Frame := if ns = 0 then [⟨0x700 + s.id, [0]⟩] else []
    if s.state = 0 ∧ ns = 127 then
      match s.od1017 with
      | none => (s1, .err, boot)
      | some ms => (s1.startHeartbeat ms, .ok, boot)
    else (s1.updateHeartbeat, .ok, boot)

def Slave.setState (s : Slave) (name : List Char) : Slave × Res × List Frame :=
  match lookupName NMT_COMMANDS name with
  | none => (s, .err, [])
  | some code => s.sendCommand code

/-- `local_node.sdo[0x1017].raw = ms`: encode as UNSIGNED16, `on_write` callback, store -/
def Slave.writeHbTime (s : Slave) (ms : Nat) : Slave × Res :=
  match s.od1017 with
  | none => (s, .err)
  | some _ => if ms < 65536 then (({ s with od1017 := some ms }).startHeartbeat ms, .ok) else (s, .err)

/-! ### the two networks on one simulated bus -/

structure Sys where
  master : Master                -- `RemoteNode(own).nmt` on network M
  bcast : Nat                    -- `_state` of M's `Network.nmt` (node id 0)
  slave : Slave                  -- `LocalNode(own).nmt` on network S
deriving Repr, DecidableEq

def Sys.init (own : Nat) (od1017 : Option Nat) : Sys :=
  { master := ⟨own, 0, none⟩, bcast := 0, slave := ⟨own, 0, none, od1017⟩ }

inductive Sender where
  | M | S | X
deriving Repr, DecidableEq

/-- network M handles a frame: `(master', callback arguments, raised)` -/
def toMaster (m : Master) (f : Frame) : Master × List Nat × Bool :=
  if f.id = 0 then
    match m.onCommand f.data with
    | some m' => (m', [], false)
    | none => (m, [], true)
  else if f.id = 0x700 + m.id then
    match m.onHeartbeat f.data with
    | some (m', c) => (m', [c], false)
    | none => (m, [], true)
  else (m, [], false)

/-- network S handles a frame: `(slave', raised)` -/
def toSlave (s : Slave) (f : Frame) : Slave × Bool :=
  if f.id = 0 then
    match s.onCommand f.data with
    | some s' => (s', false)
    | none => (s, true)
  else (s, false)

def toMasterAll (m : Master) : List Frame → Master × List Nat × Bool
  | [] => (m, [], false)
  | f :: r =>
    let a := toMaster m f
    let b := toMasterAll a.1 r
    (b.1, a.2.1 ++ b.2.1, a.2.2 || b.2.2)

def toSlaveAll (s : Slave) : List Frame → Slave × Bool
  | [] => (s, false)
  | f :: r =>
    let a := toSlave s f
    let b := toSlaveAll a.1 r
    (b.1, a.2 || b.2)

/-- what one step shows besides the views -/
structure Out where
  res : Res
  tx : List (Sender × Frame)
  cb : List Nat
deriving Repr, DecidableEq

/-- the call's own result, or which receive path raised -/
def combine (r : Res) (em es : Bool) : Res :=
  match r with
  | .ok => if em || es then .errRx em es else .ok
  | r => r

inductive Op where
  | api (code : Nat)                       -- `remote.nmt.send_command(code)`
  | setName (name : List Char)             -- `remote.nmt.state = name`
  | bcast (code : Nat)                     -- `M.nmt.send_command(code)`
  | bcastName (name : List Char)           -- `M.nmt.state = name`
  | bus (data : Bytes)                     -- third-party frame on CAN id 0
  | hb (node : Nat) (data : Bytes)         -- third-party frame on 0x700 + node
  | sapi (code : Nat)                      -- `local.nmt.send_command(code)`
  | sname (name : List Char)               -- `local.nmt.state = name`
  | hbTime (ms : Nat)                      -- `local.sdo[0x1017].raw = ms`
  | tick                                   -- the live heartbeat task transmits once
  | waitHb (arrivals : List Bytes)         -- `remote.nmt.wait_for_heartbeat()`
  | waitBoot (iters : List (Bool × List Bytes))   -- `remote.nmt.wait_for_bootup()`
deriving Repr, DecidableEq

/-- master-side call whose frames go to the slave's network -/
def fromMaster (sys : Sys) (m' : Master) (b' : Nat) (r : Res) (fs : List Frame) : Sys × Out :=
  let d := toSlaveAll sys.slave fs
  ({ master := m', bcast := b', slave := d.1 }, ⟨combine r false d.2, fs.map (Sender.M, ·), []⟩)

/-- slave-side call (or tick) whose frames go to the master's network -/
def fromSlave (sys : Sys) (s' : Slave) (r : Res) (fs : List Frame) : Sys × Out :=
  let d := toMasterAll sys.master fs
  ({ master := d.1, bcast := sys.bcast, slave := s' },
   ⟨combine r d.2.2 false, fs.map (Sender.S, ·), d.2.1⟩)

/-- third-party frames: both networks see them; `(system, callback arguments, M raised, S raised)` -/
def fromThird (sys : Sys) (fs : List Frame) : Sys × List Nat × Bool × Bool :=
  let dm := toMasterAll sys.master fs
  let ds := toSlaveAll sys.slave fs
  ({ master := dm.1, bcast := sys.bcast, slave := ds.1 }, dm.2.1, dm.2.2, ds.2)

def hbFrames (own : Nat) (arrivals : List Bytes) : List Frame := arrivals.map (Frame.mk (0x700 + own))

/-- the master forgets the last heartbeat value (`self._state_received = None`) -/
def Sys.forget (sys : Sys) : Sys := { sys with master := { sys.master with received := none } }

/-- what `wait_for_heartbeat` concludes once it has been woken or has timed out -/
def hbVerdict (m : Master) : Res :=
  match m.received with
  | none => .errNmt
  | some _ => .okState (stateView m.state)

/-- `wait_for_heartbeat`: reset `_state_received`, let the arrivals be processed, then look -/
def waitHeartbeat (sys : Sys) (arrivals : List Bytes) : Sys × Out :=
  let fs := hbFrames sys.master.id arrivals
  let d := fromThird sys.forget fs
  (d.1, ⟨hbVerdict d.1.master, fs.map (Sender.X, ·), d.2.1⟩)

/-- `wait_for_bootup`: one list element per loop iteration: (clock read at its top is past the
    deadline, frames processed during its wait) -/
def waitBootup (sys : Sys) : List (Bool × List Bytes) → Sys × Out
  | [] => (sys, ⟨.waiting, [], []⟩)
  | it :: rest =>
    let fs := hbFrames sys.master.id it.2
    let d := fromThird sys.forget fs
    if it.1 then (d.1, ⟨.errNmt, fs.map (Sender.X, ·), d.2.1⟩)
    else if d.1.master.received = some 0 then (d.1, ⟨.ok, fs.map (Sender.X, ·), d.2.1⟩)
    else
      let w := waitBootup d.1 rest
      (w.1, ⟨w.2.res, fs.map (Sender.X, ·) ++ w.2.tx, d.2.1 ++ w.2.cb⟩)

/-- the broadcast master `Network.nmt` of M as an `NmtMaster` with node id 0 -/
def Sys.bcastMaster (sys : Sys) : Master := ⟨0, sys.bcast, none⟩

def step (sys : Sys) : Op → Sys × Out
  | .api code =>
    let d := sys.master.sendCommand code
    fromMaster sys d.1 sys.bcast d.2.1 d.2.2
  | .setName name =>
    let d := sys.master.setState name
    fromMaster sys d.1 sys.bcast d.2.1 d.2.2
  | .bcast code =>
    let d := sys.bcastMaster.sendCommand code
    fromMaster sys sys.master d.1.state d.2.1 d.2.2
  | .bcastName name =>
    let d := sys.bcastMaster.setState name
    fromMaster sys sys.master d.1.state d.2.1 d.2.2
  | .bus data =>
    let d := fromThird sys [⟨0, data⟩]
    (d.1, ⟨combine .ok d.2.2.1 d.2.2.2, [(.X, ⟨0, data⟩)], d.2.1⟩)
  | .hb node data =>
    let d := fromThird sys [⟨0x700 + node, data⟩]
    (d.1, ⟨combine .ok d.2.2.1 d.2.2.2, [(.X, ⟨0x700 + node, data⟩)], d.2.1⟩)
  | .sapi code =>
    let d := sys.slave.sendCommand code
    fromSlave sys d.1 d.2.1 d.2.2
  | .sname name =>
    let d := sys.slave.setState name
    fromSlave sys d.1 d.2.1 d.2.2
  | .hbTime ms =>
    let d := sys.slave.writeHbTime ms
    ({ sys with slave := d.1 }, ⟨d.2, [], []⟩)
  | .tick =>
    match sys.slave.task with
    | none => (sys, ⟨.ok, [], []⟩)
    | some t => fromSlave sys sys.slave .ok [⟨t.canId, t.payload⟩]
  | .waitHb arrivals => waitHeartbeat sys arrivals
  | .waitBoot iters => waitBootup sys iters

/-- the system after a history -/
def runFrom (sys : Sys) (ops : List Op) : Sys := ops.foldl (fun s o => (step s o).1) sys

/-- the API-visible views after a step -/
def Sys.masterView (sys : Sys) : View := stateView sys.master.state
def Sys.slaveView (sys : Sys) : View := stateView sys.slave.state
def Sys.bcastView (sys : Sys) : View := stateView sys.bcast

end Canopen.Nmt
