/-
Model of `canopen/lss.py` (`LssMaster`) as wired by `Network.__init__`
(`subscribe(LSS_RX_COBID, lss.on_message_received)`), branch by branch, error paths included.

The master talks to an arbitrary *peer* (everything else on the bus): `step : σ → Frame → σ × List Frame`
receives the frame the master sends and returns the frames that are on the bus before the master
looks at its queue (synchronous bus; an empty list is silence, which the blocking `queue.get` turns
into `queue.Empty` → `LssError`).  The peer is an explicit argument of every function, so theorems
quantify over all peers or instantiate it with the CiA 305 slave of `Spec/LssSlave.lean`.

Exceptions: `Err.lss` = `LssError`, `Err.other` = anything else (`struct.error` of a `pack` with an
out-of-range field or of `unpack_from` on a short reply, `ValueError` of a bytearray item
assignment, `TypeError` of unpacking `None`).
`time.sleep` calls are pacing only and have no counterpart here (trusted base).
Reply latency against `RESPONSE_TIMEOUT` (`awaitReply`, `delayedStep`, `settle`) is the last section.
-/
import CanopenModel.Bytes
import CanopenModel.Generated.Lss

namespace Canopen.Lss
open Canopen Canopen.Gen.Lss

/-- a CAN data frame: (COB-ID, data bytes) -/
abbrev Frame := Nat × Bytes

inductive Err where
  | lss | other
deriving DecidableEq, Repr

/-- master state: the peer, `LssMaster.responses` (FIFO), and the log of frames handed to
    `network.send_message` -/
structure MSt (σ : Type) where
  peer : σ
  queue : List Bytes
  sent : List Frame

abbrev PeerStep (σ : Type) := σ → Frame → σ × List Frame

/-- `Network.notify` for frames that arrive from the bus: only frames on `LSS_RX_COBID` reach
    `on_message_received`, which appends `bytes(data)` to the queue -/
def received (frames : List Frame) : List Bytes :=
  (frames.filter (fun f => f.1 == LSS_RX_COBID)).map (·.2)

/-- frames arriving while the master is idle (unsolicited / third party) -/
def deliver {σ : Type} (st : MSt σ) (frames : List Frame) : MSt σ :=
  { st with queue := st.queue ++ received frames }

def needsResponse (cs : Nat) : Bool := ListMessageNeedResponse.contains cs

/-- what `__send_command` does after the frame is out: `None` for the services without response,
    else the first queued frame, else `LssError` -/
def takeResponse (need : Bool) (q : List Bytes) : List Bytes × Except Err (Option Bytes) :=
  if need then
    match q with
    | [] => ([], .error .lss)
    | r :: rest => (rest, .ok (some r))
  else (q, .ok none)

/-- `LssMaster.__send_command`: a non-empty queue is replaced by a fresh one, the frame goes out on
    `LSS_TX_COBID`, then (only for the specifiers in `ListMessageNeedResponse`) one response is
    taken from the queue. -/
def sendCommand {σ : Type} (step : PeerStep σ) (st : MSt σ) (msg : Bytes) :
    MSt σ × Except Err (Option Bytes) :=
  let r := step st.peer (LSS_TX_COBID, msg)
  let t := takeResponse (needsResponse (msg.headD 0)) (received r.2)
  ({ peer := r.1, queue := t.1, sent := st.sent ++ [(LSS_TX_COBID, msg)] }, t.2)

/-! ### request builders (`bytearray(8)` plus item / slice assignment, `struct.pack`) -/

/-- `message[0] = cs; message[1] = v1; message[2] = v2` (`ValueError` unless each is in 0..255) -/
def msg3 (cs v1 v2 : Nat) : Option Bytes :=
  if cs < 256 ∧ v1 < 256 ∧ v2 < 256 then some [cs, v1, v2, 0, 0, 0, 0, 0] else none

/-- `message[0] = cs; message[1:5] = struct.pack('<I', number)` -/
def msgAddr (cs number : Nat) : Option Bytes :=
  if cs < 256 ∧ number < 2 ^ 32 then some (cs :: (leBytes 4 number ++ [0, 0, 0])) else none

/-- `struct.pack('<BIBBB', CS_FAST_SCAN, id_number, bit_checker, lss_sub, lss_next)` -/
def msgFastScan (idn bc sub nxt : Nat) : Option Bytes :=
  if CS_FAST_SCAN < 256 ∧ idn < 2 ^ 32 ∧ bc < 256 ∧ sub < 256 ∧ nxt < 256 then
    some (CS_FAST_SCAN :: (leBytes 4 idn ++ [bc, sub, nxt]))
  else none

/-- `message[0] = CS_ACTIVATE_BIT_TIMING; message[1:3] = struct.pack('<H', delay)` -/
def msgActivate (delay : Nat) : Option Bytes :=
  if CS_ACTIVATE_BIT_TIMING < 256 ∧ delay < 2 ^ 16 then
    some (CS_ACTIVATE_BIT_TIMING :: (leBytes 2 delay ++ [0, 0, 0, 0, 0]))
  else none

/-- build, send, hand the outcome to a decoder; a failing builder raises before anything is sent -/
def request {σ α : Type} (step : PeerStep σ) (st : MSt σ) (msg : Option Bytes)
    (decode : Except Err (Option Bytes) → Except Err α) : MSt σ × Except Err α :=
  match msg with
  | none => (st, .error .other)
  | some m =>
    let r := sendCommand step st m
    (r.1, decode r.2)

/-! ### response decoders (one per caller of `__send_command`) -/

/-- callers that ignore the return value of `__send_command` -/
def decIgnore : Except Err (Option Bytes) → Except Err Unit
  | .error e => .error e
  | .ok _ => .ok ()

/-- `__send_fast_scan_message`: `LssError` → False; `unpack_from("<B")`; cs == CS_IDENTIFY_SLAVE -/
def decFastScan : Except Err (Option Bytes) → Except Err Bool
  | .error .lss => .ok false
  | .error .other => .error .other
  | .ok none => .error .other                 -- unpack_from(None): TypeError
  | .ok (some []) => .error .other            -- struct.error
  | .ok (some (c :: _)) => .ok (c == CS_IDENTIFY_SLAVE)

/-- `send_switch_state_selective` after the fourth frame -/
def decSelective : Except Err (Option Bytes) → Except Err Bool
  | .error e => .error e
  | .ok none => .error .other
  | .ok (some []) => .error .other
  | .ok (some (c :: _)) => .ok (c == CS_SWITCH_STATE_SELECTIVE_RESPONSE)

/-- `__send_inquire_node_id`: `unpack_from("<BB")`, cs check -/
def decInquireNodeId : Except Err (Option Bytes) → Except Err Nat
  | .error e => .error e
  | .ok none => .error .other
  | .ok (some (c :: n :: _)) => if c ≠ CS_INQUIRE_NODE_ID then .error .lss else .ok n
  | .ok (some _) => .error .other

/-- `__send_inquire_lss_address`: `unpack_from("<BI")`, cs check -/
def decInquireAddress (reqCs : Nat) : Except Err (Option Bytes) → Except Err Nat
  | .error e => .error e
  | .ok none => .error .other
  | .ok (some (c :: b1 :: b2 :: b3 :: b4 :: _)) =>
      if c ≠ reqCs then .error .lss else .ok (leVal [b1, b2, b3, b4])
  | .ok (some _) => .error .other

/-- `__send_configure`: `unpack_from("<BB")`, cs check, error code check -/
def decConfigure (reqCs : Nat) : Except Err (Option Bytes) → Except Err Unit
  | .error e => .error e
  | .ok none => .error .other
  | .ok (some (c :: e :: _)) =>
      if c ≠ reqCs then .error .lss else if e ≠ ERROR_NONE then .error .lss else .ok ()
  | .ok (some _) => .error .other

/-! ### the public methods -/

/-- `__send_lss_address` (the response is returned to the caller) -/
def sendLssAddress {σ : Type} (step : PeerStep σ) (st : MSt σ) (cs number : Nat) :
    MSt σ × Except Err (Option Bytes) :=
  request step st (msgAddr cs number) id

def sendSwitchStateGlobal {σ : Type} (step : PeerStep σ) (st : MSt σ) (mode : Nat) :=
  request step st (msg3 CS_SWITCH_STATE_GLOBAL mode 0) decIgnore

/-- sequencing of calls whose value is ignored: an exception ends the method -/
def andThen {σ α : Type} (r : MSt σ × Except Err (Option Bytes))
    (k : MSt σ → MSt σ × Except Err α) : MSt σ × Except Err α :=
  match r.2 with
  | .error e => (r.1, .error e)
  | .ok _ => k r.1

def sendSwitchStateSelective {σ : Type} (step : PeerStep σ) (st : MSt σ) (v p r s : Nat) :
    MSt σ × Except Err Bool :=
  andThen (sendLssAddress step st CS_SWITCH_STATE_SELECTIVE_VENDOR_ID v) fun st1 =>
  andThen (sendLssAddress step st1 CS_SWITCH_STATE_SELECTIVE_PRODUCT_CODE p) fun st2 =>
  andThen (sendLssAddress step st2 CS_SWITCH_STATE_SELECTIVE_REVISION_NUMBER r) fun st3 =>
  request step st3 (msgAddr CS_SWITCH_STATE_SELECTIVE_SERIAL_NUMBER s) decSelective

def inquireNodeId {σ : Type} (step : PeerStep σ) (st : MSt σ) :=
  request step st (msg3 CS_INQUIRE_NODE_ID 0 0) decInquireNodeId

def inquireLssAddress {σ : Type} (step : PeerStep σ) (st : MSt σ) (reqCs : Nat) :=
  request step st (msg3 reqCs 0 0) (decInquireAddress reqCs)

def sendConfigure {σ : Type} (step : PeerStep σ) (st : MSt σ) (reqCs v1 v2 : Nat) :=
  request step st (msg3 reqCs v1 v2) (decConfigure reqCs)

def configureNodeId {σ : Type} (step : PeerStep σ) (st : MSt σ) (n : Nat) :=
  sendConfigure step st CS_CONFIGURE_NODE_ID n 0

def configureBitTiming {σ : Type} (step : PeerStep σ) (st : MSt σ) (b : Nat) :=
  sendConfigure step st CS_CONFIGURE_BIT_TIMING 0 b

def storeConfiguration {σ : Type} (step : PeerStep σ) (st : MSt σ) :=
  sendConfigure step st CS_STORE_CONFIGURATION 0 0

def activateBitTiming {σ : Type} (step : PeerStep σ) (st : MSt σ) (delay : Nat) :=
  request step st (msgActivate delay) decIgnore

def sendIdentifyRemoteSlave {σ : Type} (step : PeerStep σ) (st : MSt σ)
    (v p rl rh sl sh : Nat) : MSt σ × Except Err Unit :=
  andThen (sendLssAddress step st CS_IDENTIFY_REMOTE_SLAVE_VENDOR_ID v) fun st1 =>
  andThen (sendLssAddress step st1 CS_IDENTIFY_REMOTE_SLAVE_PRODUCT_CODE p) fun st2 =>
  andThen (sendLssAddress step st2 CS_IDENTIFY_REMOTE_SLAVE_REVISION_NUMBER_LOW rl) fun st3 =>
  andThen (sendLssAddress step st3 CS_IDENTIFY_REMOTE_SLAVE_REVISION_NUMBER_HIGH rh) fun st4 =>
  andThen (sendLssAddress step st4 CS_IDENTIFY_REMOTE_SLAVE_SERIAL_NUMBER_LOW sl) fun st5 =>
  request step st5 (msgAddr CS_IDENTIFY_REMOTE_SLAVE_SERIAL_NUMBER_HIGH sh) decIgnore

def sendIdentifyNonConfiguredRemoteSlave {σ : Type} (step : PeerStep σ) (st : MSt σ) :=
  request step st (msg3 CS_IDENTIFY_NON_CONFIGURED_REMOTE_SLAVE 0 0) decIgnore

/-! ### fast scan -/

/-- `__send_fast_scan_message` -/
def fastScanMessage {σ : Type} (step : PeerStep σ) (st : MSt σ) (idn bc sub nxt : Nat) :
    MSt σ × Except Err Bool :=
  request step st (msgFastScan idn bc sub nxt) decFastScan

/-- the new value of `lss_id[lss_sub]` after one probe: unchanged on an answer, bit set otherwise -/
def afterProbe (idn b : Nat) (answered : Bool) : Nat :=
  if answered then idn else idn ||| (1 <<< b)

/-- the inner loop `while lss_bit_check > 0: lss_bit_check -= 1; …`, entered with
    `lss_bit_check = n`; returns the final `lss_id[lss_sub]` -/
def scanBits {σ : Type} (step : PeerStep σ) : Nat → MSt σ → Nat → Nat → Nat → MSt σ × Except Err Nat
  | 0, st, idn, _, _ => (st, .ok idn)
  | b + 1, st, idn, sub, nxt =>
    match fastScanMessage step st idn b sub nxt with
    | (st1, .error e) => (st1, .error e)
    | (st1, .ok a) => scanBits step b st1 (afterProbe idn b a) sub nxt

/-- the outer loop `while lss_sub < 4`, entered with `lss_sub = sub`, `4 - sub = fuel` iterations
    left; `ids` is `lss_id`.  After the 32 probes `lss_bit_check` is 0, which is what the
    confirmation frame carries. -/
def scanParts {σ : Type} (step : PeerStep σ) :
    Nat → MSt σ → List Nat → Nat → Nat → MSt σ × Except Err (Bool × Option (List Nat))
  | 0, st, ids, _, _ => (st, .ok (true, some ids))
  | k + 1, st, ids, sub, nxt =>
    match scanBits step 32 st (ids.getD sub 0) sub nxt with
    | (st1, .error e) => (st1, .error e)
    | (st1, .ok idv) =>
      let nxt1 := (sub + 1) &&& 3
      match fastScanMessage step st1 idv 0 sub nxt1 with
      | (st2, .error e) => (st2, .error e)
      | (st2, .ok false) => (st2, .ok (false, none))
      | (st2, .ok true) => scanParts step k st2 (ids.set sub idv) (sub + 1) nxt1

/-- `LssMaster.fast_scan` -/
def fastScan {σ : Type} (step : PeerStep σ) (st : MSt σ) :
    MSt σ × Except Err (Bool × Option (List Nat)) :=
  match fastScanMessage step st 0 128 0 0 with
  | (st1, .error e) => (st1, .error e)
  | (st1, .ok false) => (st1, .ok (false, none))
  | (st1, .ok true) => scanParts step 4 st1 [0, 0, 0, 0] 0 0

/-! ### the API as data (driver histories, `frames_wellformed`) -/

inductive Call where
  | switchGlobal (mode : Nat)
  | selective (v p r s : Nat)
  | inquireNodeId
  | inquireAddress (cs : Nat)
  | configureNodeId (n : Nat)
  | configureBitTiming (b : Nat)
  | activateBitTiming (delay : Nat)
  | store
  | identifyRemote (v p rl rh sl sh : Nat)
  | identifyNonConfigured
  | fastScan
deriving Repr

inductive Ret where
  | unit
  | nat (n : Nat)
  | bool (b : Bool)
  | scan (found : Bool) (ids : Option (List Nat))
deriving DecidableEq, Repr

def mapRet {σ α : Type} (f : α → Ret) (r : MSt σ × Except Err α) : MSt σ × Except Err Ret :=
  (r.1, match r.2 with | .ok a => .ok (f a) | .error e => .error e)

def runCall {σ : Type} (step : PeerStep σ) (st : MSt σ) : Call → MSt σ × Except Err Ret
  | .switchGlobal m => mapRet (fun _ => .unit) (sendSwitchStateGlobal step st m)
  | .selective v p r s => mapRet .bool (sendSwitchStateSelective step st v p r s)
  | .inquireNodeId => mapRet .nat (inquireNodeId step st)
  | .inquireAddress cs => mapRet .nat (inquireLssAddress step st cs)
  | .configureNodeId n => mapRet (fun _ => .unit) (configureNodeId step st n)
  | .configureBitTiming b => mapRet (fun _ => .unit) (configureBitTiming step st b)
  | .activateBitTiming d => mapRet (fun _ => .unit) (activateBitTiming step st d)
  | .store => mapRet (fun _ => .unit) (storeConfiguration step st)
  | .identifyRemote v p rl rh sl sh =>
      mapRet (fun _ => .unit) (sendIdentifyRemoteSlave step st v p rl rh sl sh)
  | .identifyNonConfigured => mapRet (fun _ => .unit) (sendIdentifyNonConfiguredRemoteSlave step st)
  | .fastScan => mapRet (fun r => .scan r.1 r.2) (fastScan step st)

/-! ### reply latency against `RESPONSE_TIMEOUT`

`__send_command` waits with `self.responses.get(block=True, timeout=self.RESPONSE_TIMEOUT)` — the same
time-out for every service, fast scan included, looked up on the instance at the time of the call.
Time is counted in ticks from the moment the request went out; `T` is `RESPONSE_TIMEOUT` in ticks.
A reaction of the peer reaches the queue after its *latency* (`none`: never, the frame is lost).
The functions above are the master on a bus without latency; `delayedStep T lats step` is the same
peer seen through the master's time-out: a reaction that is not there in time is silence for the
request it belongs to, and what arrives too late is in the queue when the next request goes out
(it came in after `__send_command` looked for left-overs) or, after the last request of a call,
when the call has returned (`settle`). -/

/-- the blocking `get` with time-out `T` against a reaction `latency` ticks away: it is obtained iff
    `latency < T` -/
def awaitReply {α : Type} (T : Nat) (latency : Option Nat) (reaction : α) : Option α :=
  match latency with
  | some l => if l < T then some reaction else none
  | none => none

def inTime (T : Nat) (latency : Option Nat) : Bool := (awaitReply T latency ()).isSome

/-- latency of the reaction to the k-th request (requests numbered from 0 over the whole history);
    requests that are not listed are answered without latency (before `send_message` returns) -/
abbrev Latencies := List (Nat × Option Nat)

def latencyOf : Latencies → Nat → Option (Option Nat)
  | [], _ => none
  | (k, l) :: rest, n => if k = n then some l else latencyOf rest n

/-- a peer behind a channel with latency: the peer itself, the number of requests so far, and the
    frames that missed the wait they were meant for and are still on their way -/
structure Delayed (σ : Type) where
  inner : σ
  count : Nat
  late : List Frame

/-- what was too late: on its way if it arrives at all -/
def missed (latency : Option Nat) (reaction : List Frame) : List Frame :=
  if latency.isSome then reaction else []

def delayedStep {σ : Type} (T : Nat) (lats : Latencies) (step : PeerStep σ) : PeerStep (Delayed σ) :=
  fun d f =>
    let r := step d.inner f
    match latencyOf lats d.count with
    | none => ({ inner := r.1, count := d.count + 1, late := [] }, d.late ++ r.2)
    | some l =>
      match awaitReply T l r.2 with
      | some fs => ({ inner := r.1, count := d.count + 1, late := [] }, d.late ++ fs)
      | none => ({ inner := r.1, count := d.count + 1, late := missed l r.2 }, d.late)

/-- the call has returned: whatever is still on its way reaches the queue before the next call -/
def settle {σ : Type} (st : MSt (Delayed σ)) : MSt (Delayed σ) :=
  { peer := { st.peer with late := [] }, queue := st.queue ++ received st.peer.late, sent := st.sent }

end Canopen.Lss
