/-
Model of the data type codec: `ODVariable.encode_raw` / `decode_raw` / `__len__`
(canopen/objectdictionary/__init__.py) and `UnsignedN` / `IntegerN`
(canopen/objectdictionary/datatypes.py), over the generated `STRUCT_TYPES` table.

CPython's `struct` is *modelled* (trusted base): integer formats are little-endian two's
complement with a range check (`struct.error`) on pack and a length check on unpack; `?`
packs truthiness and unpacks "any non-zero byte"; `f`/`d` are carried as IEEE-754 bit
patterns (the float <-> pattern conversion itself is opaque to the model).
Every Python exception is an `none` here: the property only distinguishes "a value" from
"an error".
-/
import CanopenModel.Bytes
import CanopenModel.Generated.Datatypes

namespace Canopen.Codec
open Canopen
open Canopen.Gen.Datatypes

/-- values handed to / returned by the typed API -/
inductive Val where
  | int (i : Int)
  | bool (b : Bool)
  | real (bits : Nat)          -- IEEE-754 pattern of the float
  | str (cps : List Nat)       -- Python str as code points
  | bytes (bs : Bytes)
deriving Repr, DecidableEq

/-- what a `struct` format character denotes -/
inductive FmtKind where
  | sint (nbytes : Nat)
  | uint (nbytes : Nat)
  | boolean
  | float (nbytes : Nat)
deriving Repr, DecidableEq

def fmtChar : Char → Option FmtKind
  | 'b' => some (.sint 1) | 'B' => some (.uint 1)
  | 'h' => some (.sint 2) | 'H' => some (.uint 2)
  | 'l' => some (.sint 4) | 'L' => some (.uint 4)
  | 'q' => some (.sint 8) | 'Q' => some (.uint 8)
  | '?' => some .boolean
  | 'f' => some (.float 4) | 'd' => some (.float 8)
  | _ => none

/-- only the spellings the model understands: `<x`, or a bare one-byte code -/
def fmtKind (fmt : List Char) : Option FmtKind :=
  match fmt with
  | ['<', c] => fmtChar c
  | [c] => match fmtChar c with
    | some (.sint 1) => some (.sint 1)
    | some (.uint 1) => some (.uint 1)
    | some .boolean => some .boolean
    | _ => none
  | _ => none

/-- `struct.Struct(fmt).pack(v)` for an integer format; `none` = `struct.error` -/
def packInt (nbytes : Nat) (signed : Bool) (v : Int) : Option Bytes :=
  if inRange (8 * nbytes) signed v then some (leBytes nbytes (ofSigned (8 * nbytes) v)) else none

/-- `struct.Struct(fmt).unpack(bs)` for an integer format -/
def unpackInt (nbytes : Nat) (signed : Bool) (bs : Bytes) : Option Int :=
  if bs.length = nbytes then
    some (if signed then toSigned (8 * nbytes) (leVal bs) else (leVal bs : Int))
  else none

/-- `Struct.pack` of the row's class on a Python int -/
def rowPackInt (r : StructRow) (v : Int) : Option Bytes :=
  match fmtKind r.fmt with
  | some (.sint n) =>
    if r.cls = 0 then packInt n true v
    else if r.cls = 2 then
      -- IntegerN.pack: range check on the declared width, pack wide, slice
      if inRange r.width true v then (packInt n true v).map (·.take r.size) else none
    else none
  | some (.uint n) =>
    if r.cls = 0 then packInt n false v
    else if r.cls = 1 then
      if inRange r.width false v then (packInt n false v).map (·.take r.size) else none
    else none
  | some .boolean => if r.cls = 0 then some [if v = 0 then 0 else 1] else none
  | _ => none

/-- `IntegerN.unpack`: `buffer[size-1]` (IndexError when short), sign padding, wide unpack -/
def intNUnpack (n k : Nat) (bs : Bytes) : Option Val :=
  match bs[k - 1]? with
  | none => none
  | some top =>
    let fill := if top &&& 0x80 > 0 then 0xFF else 0
    (unpackInt n true (bs ++ List.replicate (n - k) fill)).map .int

/-- `Struct.unpack` of the row's class, integer and boolean formats -/
def rowUnpack (r : StructRow) (bs : Bytes) : Option Val :=
  match fmtKind r.fmt with
  | some (.sint n) =>
    if r.cls = 0 then (unpackInt n true bs).map .int
    else if r.cls = 2 then intNUnpack n r.size bs
    else none
  | some (.uint n) =>
    if r.cls = 0 then (unpackInt n false bs).map .int
    else if r.cls = 1 then (unpackInt n false (bs ++ List.replicate (n - r.size) 0)).map .int
    else none
  | some .boolean =>
    if r.cls = 0 then (match bs with | [b] => some (.bool (b != 0)) | _ => none) else none
  | some (.float n) =>
    if r.cls = 0 then (if bs.length = n then some (.real (leVal bs)) else none) else none
  | none => none

def findRow (t : Nat) : Option StructRow := STRUCT_TYPES.find? (·.dtype = t)

/-- `len(ODVariable)`: bit length -/
def bitLen (t : Option Nat) : Nat :=
  match t with
  | none => 8
  | some t => match findRow t with
    | some r => r.size * 8
    | none => 8

/-! ### strings -/

def isSurrogate (c : Nat) : Bool := 0xD800 ≤ c && c ≤ 0xDFFF

/-- `str.encode("ascii")` -/
def encodeAscii (cps : List Nat) : Option Bytes :=
  if cps.all (· < 128) then some cps else none

/-- `str.encode("utf_16_le")`; lone surrogates raise -/
def encodeUtf16 : List Nat → Option Bytes
  | [] => some []
  | c :: r =>
    if isSurrogate c || c > 0x10FFFF then none
    else if c < 0x10000 then (encodeUtf16 r).map fun t => (c % 256) :: (c / 256) :: t
    else
      let v := c - 0x10000
      let hi := 0xD800 + v / 1024
      let lo := 0xDC00 + v % 1024
      (encodeUtf16 r).map fun t => (hi % 256) :: (hi / 256) :: (lo % 256) :: (lo / 256) :: t

/-- `rstrip("\x00")` -/
def rstripNul (cps : List Nat) : List Nat := (cps.reverse.dropWhile (· = 0)).reverse

/-- `bytes.decode("ascii", errors="ignore")` -/
def decodeAsciiIgnore (bs : Bytes) : List Nat := bs.filter (· < 128)

/-- `bytes.decode("utf_16_le", errors="ignore")`: ill-formed units are dropped -/
def decodeUtf16Ignore : Bytes → List Nat
  | a :: b :: r =>
    let u := a + 256 * b
    if 0xD800 ≤ u && u ≤ 0xDBFF then
      match r with
      | c :: d :: r' =>
        let l := c + 256 * d
        if 0xDC00 ≤ l && l ≤ 0xDFFF then
          (0x10000 + (u - 0xD800) * 1024 + (l - 0xDC00)) :: decodeUtf16Ignore r'
        else decodeUtf16Ignore (c :: d :: r')      -- lone high surrogate dropped
      | _ => []                                    -- truncated pair dropped
    else if 0xDC00 ≤ u && u ≤ 0xDFFF then decodeUtf16Ignore r   -- lone low surrogate dropped
    else u :: decodeUtf16Ignore r
  | _ => []                                        -- nothing, or one trailing byte (dropped)
termination_by bs => bs.length

/-! ### `ODVariable.decode_raw` / `encode_raw` -/

/-- `decode_raw(data)` for a variable of data type `t` (`none` = data_type is None) -/
def decodeRaw (t : Option Nat) (data : Bytes) : Option Val :=
  if t = some VISIBLE_STRING then some (.str (rstripNul (decodeAsciiIgnore data)))
  else if t = some UNICODE_STRING then some (.str (rstripNul (decodeUtf16Ignore data)))
  else match t.bind findRow with
    | some r => rowUnpack r data
    | none => some (.bytes data)

/-- `encode_raw(value)`; combinations of value kind and data type outside the property's
    domain (for example a str handed to an integer type) are not modelled: `none`, and the
    generator never produces them. -/
def encodeRaw (t : Option Nat) (v : Val) : Option Bytes :=
  match v with
  | .bytes bs => some bs
  | _ =>
    if t = some VISIBLE_STRING then (match v with | .str c => encodeAscii c | _ => none)
    else if t = some UNICODE_STRING then (match v with | .str c => encodeUtf16 c | _ => none)
    else if t = some DOMAIN || t = some OCTET_STRING then none
    else match t.bind findRow with
      | some r =>
        match v with
        | .int i => rowPackInt r i
        | .bool b => rowPackInt r (if b then 1 else 0)
        | .real bits =>
          (match fmtKind r.fmt with
           | some (.float n) => if r.cls = 0 ∧ bits < 2 ^ (8 * n) then some (leBytes n bits) else none
           | _ => none)
        | _ => none
      | none => none

end Canopen.Codec
