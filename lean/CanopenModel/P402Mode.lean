/-
Operation modes of `BaseNode402` over an unreliable link: the attribute `_op_mode_support` of
`is_op_mode_supported` threaded through a history of steps on one node object (C19).
Transcribes `BaseNode402.is_op_mode_supported`, the `op_mode` setter's exception handling and the
`op_mode` getter of canopen/profiles/p402.py.
-/
import CanopenModel.P402
namespace Canopen.P402
open Canopen.Gen.P402Tables

/-! ## operation mode over an unreliable link: a history of steps on one node object

`is_op_mode_supported` reads 0x6502 by SDO on its first call and keeps the value in the attribute
`_op_mode_support`; an exception raised by that read leaves the attribute unset, so the next call reads
again.  The link to the drive is chosen per step: `up` (every request answered), `down` (nothing gets
through: SDO requests time out with `SdoCommunicationError`, RPDOs are lost, no TPDO arrives), `noObj`
(the drive aborts the upload of 0x6502 with "object does not exist" and serves everything else). -/

inductive Link where
  | up | down | noObj
deriving DecidableEq, Repr

inductive MStep where
  /-- `node.op_mode = mode` -/
  | assign (mode : Name)
  /-- `node.is_op_mode_supported(mode)` -/
  | query (mode : Name)
  /-- `node.op_mode` -/
  | read
deriving DecidableEq, Repr

/-- what the caller sees of one step (plus, for `set`, what reached 0x6060) -/
inductive MOut where
  /-- the assignment returned, `code` was written to 0x6060 -/
  | set (code : Int)
  /-- the assignment returned without exception and nothing reached the drive: the setter catches
      `SdoCommunicationError` (and the `RuntimeError` of a TPDO that does not come) and logs it -/
  | dropped
  /-- TypeError (not supported) / KeyError (unknown name) -/
  | refused
  /-- `SdoCommunicationError` reaches the caller -/
  | commErr
  /-- `SdoAbortedError` reaches the caller -/
  | aborted
  /-- `RuntimeError`: the periodic TPDO carrying 0x6061 did not come -/
  | noTpdo
  /-- value returned by `is_op_mode_supported` -/
  | answer (b : Bool)
  /-- `op_mode` getter: the code the drive displays in 0x6061 -/
  | shows (code : Int)
deriving DecidableEq, Repr

/-- the node object (attribute `_op_mode_support`: `none` = not set) and the drive's 0x6061 -/
structure MNode where
  cache : Option Nat
  disp : Int
deriving DecidableEq, Repr

def MNode.fresh : MNode := { cache := none, disp := 0 }

inductive Lookup where
  | got (m : Nat) | commErr | aborted
deriving DecidableEq, Repr

/-- first lines of `is_op_mode_supported`: the value used and the attribute afterwards -/
def supportLookup (mask : Nat) (l : Link) (cache : Option Nat) : Lookup × Option Nat :=
  match cache with
  | some m => (.got m, some m)
  | none =>
    match l with
    | .up => (.got mask, some mask)
    | .down => (.commErr, none)
    | .noObj => (.aborted, none)

/-- the `op_mode` setter once the supported-modes value `m` is at hand -/
def assignWith (l : Link) (m : Nat) (disp : Int) (mode : Name) : Int × MOut :=
  match opModeSet m mode with
  | .refused => (disp, .refused)
  | .written code =>
    -- down: by SDO the download of 0x6060 times out; by PDO the RPDO is lost and the TPDO awaited by
    -- the confirmation loop does not come; either exception is caught and logged by the setter
    if l = .down then (disp, .dropped) else (code, .set code)

def assignStep (mask : Nat) (l : Link) (n : MNode) (mode : Name) : MNode × MOut :=
  match supportLookup mask l n.cache with
  | (.commErr, c) => ({ cache := c, disp := n.disp }, .dropped)
  | (.aborted, c) => ({ cache := c, disp := n.disp }, .aborted)
  | (.got m, c) => ({ cache := c, disp := (assignWith l m n.disp mode).1 }, (assignWith l m n.disp mode).2)

def answerOf (m : Nat) (mode : Name) : MOut :=
  match isOpModeSupported m mode with
  | none => .refused
  | some b => .answer b

def queryStep (mask : Nat) (l : Link) (n : MNode) (mode : Name) : MNode × MOut :=
  match supportLookup mask l n.cache with
  | (.commErr, c) => ({ cache := c, disp := n.disp }, .commErr)
  | (.aborted, c) => ({ cache := c, disp := n.disp }, .aborted)
  | (.got m, c) => ({ cache := c, disp := n.disp }, answerOf m mode)

/-- `op_mode` getter: SDO upload of 0x6061, or the next periodic TPDO -/
def readStep (pdo : Bool) (l : Link) (n : MNode) : MNode × MOut :=
  (n, if l = .down then (if pdo then .noTpdo else .commErr) else .shows n.disp)

def mstep (pdo : Bool) (mask : Nat) (n : MNode) (x : Link × MStep) : MNode × MOut :=
  match x.2 with
  | .assign mode => assignStep mask x.1 n mode
  | .query mode => queryStep mask x.1 n mode
  | .read => readStep pdo x.1 n

/-- the node after a history -/
def stateAfter (pdo : Bool) (mask : Nat) (n : MNode) : List (Link × MStep) → MNode
  | [] => n
  | x :: rest => stateAfter pdo mask (mstep pdo mask n x).1 rest

/-- what the caller saw, step by step -/
def runHist (pdo : Bool) (mask : Nat) (n : MNode) : List (Link × MStep) → List MOut
  | [] => []
  | x :: rest => (mstep pdo mask n x).2 :: runHist pdo mask (mstep pdo mask n x).1 rest

end Canopen.P402
