/-
Model of `import_eds`, `build_variable`, `copy_variable`, `_convert_variable`,
`_signed_int_from_hex`, `_calc_bit_length` (canopen/objectdictionary/eds.py) and of the suffix
dispatch of `import_od`, over the **parsed document**: what `RawConfigParser` hands to
`import_eds` (sections in file order, each with its options in file order, values stripped).
The text layer (`configparser`) is outside the model (trusted base, differential only).

Every Python exception that leaves `import_eds` is `none`: the property only distinguishes
"a dictionary" from "an error".  Exceptions that the code catches are modelled where it catches
them (`except ValueError: pass`, `except NoOptionError`, `except NoSectionError`).
-/
import CanopenModel.Eds.Od
import CanopenModel.Generated.EdsTables

namespace Canopen.Eds
open Canopen.Gen.Datatypes Canopen.Gen.EdsTables

/-! ### the parsed document -/

structure Sec where
  name : Str
  opts : List (Str × Str)
deriving Repr, DecidableEq

abbrev Doc := List Sec

/-- `eds.has_section(name)` / the section itself -/
def Doc.sec (d : Doc) (name : Str) : Option Sec :=
  match d with
  | [] => none
  | s :: r => if s.name = name then some s else Doc.sec r name

/-- `eds.get(section, key)`; `none` = NoOptionError -/
def Sec.get (s : Sec) (k : Str) : Option Str := dictGet k s.opts

def Sec.has (s : Sec) (k : Str) : Bool := dictHas k s.opts

/-! ### keys -/

def kParameterName : Str := c!"ParameterName"
def kObjectType : Str := c!"ObjectType"
def kStorageLocation : Str := c!"StorageLocation"
def kDataType : Str := c!"DataType"
def kAccessType : Str := c!"AccessType"
def kPDOMapping : Str := c!"PDOMapping"
def kLowLimit : Str := c!"LowLimit"
def kHighLimit : Str := c!"HighLimit"
def kDefaultValue : Str := c!"DefaultValue"
def kParameterValue : Str := c!"ParameterValue"
def kFactor : Str := c!"Factor"
def kDescription : Str := c!"Description"
def kUnit : Str := c!"Unit"
def kCompactSubObj : Str := c!"CompactSubObj"
def kNrOfEntries : Str := c!"NrOfEntries"
def kLines : Str := c!"Lines"
def kBaudrate : Str := c!"Baudrate"
def kNodeID : Str := c!"NodeID"
def sFileInfo : Str := c!"FileInfo"
def sComments : Str := c!"Comments"
def sDeviceInfo : Str := c!"DeviceInfo"
def sDeviceComissioning : Str := c!"DeviceComissioning"
def numberOfEntries : Str := c!"Number of entries"

/-! ### numbers, limits, values -/

/-- `_calc_bit_length(data_type)`; `none` = ValueError -/
def calcBitLength (t : Int) : Option Nat :=
  if t < 0 then none else dictGet t.toNat CALC_BIT_LENGTH

/-- `_signed_int_from_hex(hex_str, bit_length)` -/
def signedFromHex (s : Str) (bl : Nat) : Option Int :=
  (pyInt0 s).map fun n =>
    if n > ((2 ^ (bl - 1) : Nat) : Int) - 1 then n - ((2 ^ bl : Nat) : Int) else n

def isSignedType (t : Int) : Bool := 0 ≤ t && SIGNED_TYPES.contains t.toNat
def isFloatType (t : Int) : Bool := 0 ≤ t && FLOAT_TYPES.contains t.toNat

/-- the `LowLimit` / `HighLimit` blocks of `build_variable` (`except ValueError: pass`) -/
def limitOf (t : Int) (o : Option Str) : Option Int :=
  match o with
  | none => none
  | some s =>
    if isSignedType t then (calcBitLength t).bind (signedFromHex s)
    else pyInt0 s

/-- the integer branch of `_convert_variable` -/
def convertInt (nodeId : Option Int) (value : Str) : Option Int :=
  let v := upper (removeBlanks value)
  match nodeId with
  | some nid => if containsNodeid v then (pyInt0 (removeNodeid v)).map (· + nid) else pyInt0 v
  | none => pyInt0 v

/-- `_convert_variable(node_id, var_type, value)`; `none` = ValueError -/
def convertVariable (nodeId : Option Int) (t : Int) (value : Str) : Option Value :=
  if t = (OCTET_STRING : Int) ∨ t = (DOMAIN : Int) then (fromHex value).map .bytes
  else if t = (VISIBLE_STRING : Int) ∨ t = (UNICODE_STRING : Int) then some (.str value)
  else if isFloatType t then (if floatOk value then some (.real value) else none)
  else (convertInt nodeId value).map .int

/-- `f"{data_type:X}sub1"` -/
def customTypeSection (t : Int) : Str := natStr 16 true t.toNat ++ c!"sub1"

/-- the `if var.data_type > 0x1B` block: `none` = an exception leaves `build_variable` -/
def resolveDataType (doc : Doc) (t : Int) : Option Int :=
  if t > (CUSTOM_TYPE_ABOVE : Int) then
    match doc.sec (customTypeSection t) with
    | none => some (DOMAIN : Int)                              -- NoSectionError caught
    | some s => (s.get kDefaultValue).bind pyInt0             -- NoOptionError / ValueError leave
  else some t

/-- `float(text)` guarded by `except ValueError: pass` -/
def factorOf (o : Option Str) : Option Str :=
  match o with
  | some s => if floatOk s then some s else none
  | none => none

/-- `build_variable(eds, section, node_id, index, subindex)` -/
def buildVariable (doc : Doc) (sec : Sec) (nodeId : Option Int) (index subindex : Nat) : Option Var :=
  match sec.get kParameterName, (sec.get kDataType).bind pyInt0, sec.get kAccessType with
  | some name, some dt0, some access =>
    match resolveDataType doc dt0, pyInt0 ((sec.get kPDOMapping).getD c!"0") with
    | some dt, some pdo =>
      some { name := name, index := index, subindex := subindex,
             storage := sec.get kStorageLocation,
             dataType := dt,
             accessType := lower access,
             pdoMappable := decide (pdo ≠ 0),
             min := limitOf dt (sec.get kLowLimit),
             max := limitOf dt (sec.get kHighLimit),
             defaultRaw := sec.get kDefaultValue,
             relative := (sec.get kDefaultValue).any containsNodeid,
             default := (sec.get kDefaultValue).bind (convertVariable nodeId dt),
             valueRaw := sec.get kParameterValue,
             value := (sec.get kParameterValue).bind (convertVariable nodeId dt),
             factor := factorOf (sec.get kFactor),
             description := (sec.get kDescription).getD [],
             unit := (sec.get kUnit).getD [] }
    | _, _ => none
  | _, _, _ => none

/-! ### section classification: the four regular expressions of `import_eds` -/

/-- `^[Dd]ummy[Uu]sage$` -/
def isDummySection (n : Str) : Bool :=
  match n with
  | [d, u, m1, m2, y, u2, s, a, g, e] =>
    (d = 'D' || d = 'd') && u = 'u' && m1 = 'm' && m2 = 'm' && y = 'y' && (u2 = 'U' || u2 = 'u')
      && s = 's' && a = 'a' && g = 'g' && e = 'e'
  | _ => false

/-- `^[0-9A-Fa-f]{4}$` → `int(section, 16)` -/
def matchIndex (n : Str) : Option Nat :=
  if n.length = 4 ∧ n.all isHexDigit then some (hexVal n) else none

/-- `^([0-9A-Fa-f]{4})[S|s]ub([0-9A-Fa-f]+)$` (the class `[S|s]` contains `|`) -/
def matchSub (n : Str) : Option (Nat × Nat) :=
  let h := n.take 4
  match n.drop 4 with
  | s :: u :: b :: rest =>
    if h.length = 4 ∧ h.all isHexDigit ∧ (s = 'S' ∨ s = '|' ∨ s = 's') ∧ u = 'u' ∧ b = 'b'
        ∧ rest ≠ [] ∧ rest.all isHexDigit
    then some (hexVal h, hexVal rest) else none
  | _ => none

/-- `^([0-9A-Fa-f]{4})Name` (no `$`: anything may follow) -/
def matchName (n : Str) : Option Nat :=
  let h := n.take 4
  if h.length = 4 ∧ h.all isHexDigit ∧ (c!"Name").isPrefixOf (n.drop 4) then some (hexVal h) else none

/-! ### header sections -/

/-- `eds.get("Comments", f"Line{line}")` for `line` = `k`, `k+1`, … (`n` of them); `none` = NoOptionError -/
def commentLines (s : Sec) : Nat → Nat → Option (List Str)
  | 0, _ => some []
  | n + 1, k =>
    match s.get (c!"Line" ++ natStr 10 false k) with
    | none => none
    | some l => (commentLines s n (k + 1)).map (l :: ·)

/-- the `[Comments]` block; outer `none` = exception -/
def importComments (doc : Doc) : Option Str :=
  match doc.sec sComments with
  | none => some []
  | some s =>
    match (s.get kLines).bind pyInt0 with
    | none => none
    | some n => (commentLines s n.toNat 1).map (joinWith c!"\n")

/-- one row of the DeviceInfo table: `none` = exception, `some none` = option absent -/
def importDevProp (s : Sec) (row : Nat × Str × Str) : Option (Option (Str × DevVal)) :=
  match s.get row.2.1 with
  | none => some none
  | some txt =>
    if row.1 = 0 then some (some (row.2.2, .str txt))
    else match pyInt0 txt with
      | none => none
      | some i => some (some (row.2.2, if row.1 = 1 then .int i else .bool (decide (i ≠ 0))))

def importBaud (s : Sec) (rate : Nat) : Option (Option Nat) :=
  match pyInt0 ((s.get (c!"BaudRate_" ++ natStr 10 false rate)).getD c!"0") with
  | none => none
  | some v => some (if v ≠ 0 then some (rate * BAUD_UNIT) else none)

/-- the `[DeviceInfo]` block: (allowed_baudrates, other attributes) -/
def importDeviceInfo (doc : Doc) : Option (List Nat × List (Str × DevVal)) :=
  match doc.sec sDeviceInfo with
  | none => some ([], [])
  | some s =>
    match BAUD_RATES.mapM (importBaud s), DEVINFO_IMPORT.mapM (importDevProp s) with
    | some b, some p => some (b.filterMap id, p.filterMap id)
    | _, _ => none

/-- the `[DeviceComissioning]` block: (od.bitrate, od.node_id, node id in force) -/
def importCommissioning (doc : Doc) (nodeId : Option Int) : Option (Option Int × Option Int × Option Int) :=
  match doc.sec sDeviceComissioning with
  | none => some (none, none, nodeId)
  | some s =>
    -- `eds.getint(..., "Baudrate", fallback=None)`: int() of a present value may raise
    let br : Option (Option Int) := match s.get kBaudrate with
      | none => some none
      | some t => (pyInt10 t).map fun v => if v ≠ 0 then some (v * 1000) else none
    -- `if node_id is None: if val := eds.get(..., "NodeID", fallback=None): node_id = int(val, 0)`
    let nid : Option (Option Int) := match nodeId with
      | some n => some (some n)
      | none => match s.get kNodeID with
        | none => some none
        | some t => if t.isEmpty then some none else (pyInt0 t).map some
    match br, nid with
    | some b, some n => some (b, n, n)
    | _, _ => none

/-! ### the section loop -/

def dummyKey (i : Nat) : Str := c!"Dummy" ++ zpad 4 (natStr 10 false i)

/-- the body of the `DummyUsage` branch for one `i` -/
def addDummy (s : Sec) (od : OD) (i : Nat) : Option OD :=
  match (s.get (dummyKey i)).bind pyInt10 with
  | none => none
  | some v =>
    if v = 1 then
      some (od.addObject (.var { name := dummyKey i, index := i, subindex := 0,
                                 dataType := (i : Int), accessType := c!"const" }))
    else some od

def processDummy (s : Sec) (od : OD) : Option OD :=
  (List.range (DUMMY_HI - DUMMY_LO)).foldlM (fun od k => addDummy s od (DUMMY_LO + k)) od

/-- `int(eds.get(section, "ObjectType"), 0)`, a missing key meaning VAR (`except NoOptionError`) -/
def objectTypeOf (o : Option Str) : Option Int :=
  match o with
  | none => some (OT_VAR : Int)
  | some t => pyInt0 t

/-- the branch of a section whose name is four hex digits -/
def processIndex (doc : Doc) (nodeId : Option Int) (od : OD) (s : Sec) (index : Nat) : Option OD :=
  match s.get kParameterName, objectTypeOf (s.get kObjectType) with
  | some name, some ot =>
    let storage := s.get kStorageLocation
    if ot = (OT_VAR : Int) ∨ ot = (OT_DOMAIN : Int) then
      (buildVariable doc s nodeId index 0).map fun v => od.addObject (.var v)
    else if ot = (OT_ARR : Int) ∧ s.has kCompactSubObj then
      let last : Var := { name := numberOfEntries, index := index, subindex := 0,
                          dataType := (UNSIGNED8 : Int) }
      (buildVariable doc s nodeId index 1).map fun v =>
        let arr : Coll := { isArray := true, name := name, index := index }
        od.addObject (.coll { (arr.addMember last).addMember v with storage := storage })
    else if ot = (OT_ARR : Int) then
      some (od.addObject (.coll { isArray := true, name := name, index := index, storage := storage }))
    else if ot = (OT_RECORD : Int) then
      some (od.addObject (.coll { isArray := false, name := name, index := index, storage := storage }))
    else some od
  | _, _ => none

/-- the branch of a `…sub…` section -/
def processSub (doc : Doc) (nodeId : Option Int) (od : OD) (s : Sec) (index sub : Nat) : Option OD :=
  match dictGet index od.indices with
  | none => none                                            -- KeyError from `od[index]`
  | some id =>
    match od.deref id with
    | some (.coll c) =>
      (buildVariable doc s nodeId index sub).map fun v => od.setHeap id (.coll (c.addMember v))
    | some (.var _) => some od
    | none => none

/-- `copy_variable` + `add_member` for sub-indices `k+1 … ` of a name list -/
def copyNames (s : Sec) (src : Var) : Nat → Nat → Coll → Option Coll
  | 0, _, c => some c
  | n + 1, k, c =>
    match s.get (natStr 10 false k) with
    | none => none                                          -- NoOptionError
    | some name => copyNames s src n (k + 1) (c.addMember { src with name := name, subindex := k })

/-- the branch of a `…Name…` section -/
def processName (od : OD) (s : Sec) (index : Nat) : Option OD :=
  match (s.get kNrOfEntries).bind pyInt10, dictGet index od.indices with
  | some n, some id =>
    match od.deref id with
    | some (.coll c) =>
      match dictGet 1 c.subs with                          -- `od[index][1]`
      | none => none
      | some src => (copyNames s src n.toNat 1 c).map fun c' => od.setHeap id (.coll c')
    | _ => none                                             -- a variable is not subscriptable
  | _, _ => none

/-- one iteration of `for section in eds.sections()` -/
def processSection (doc : Doc) (nodeId : Option Int) (od : OD) (s : Sec) : Option OD :=
  match (if isDummySection s.name then processDummy s od else some od) with
  | none => none
  | some od1 =>
    match matchIndex s.name with
    | some index => processIndex doc nodeId od1 s index      -- `continue`
    | none =>
      match (match matchSub s.name with
             | some (index, sub) => processSub doc nodeId od1 s index sub
             | none => some od1) with
      | none => none
      | some od2 =>
        match matchName s.name with
        | some index => processName od2 s index
        | none => some od2

/-- `import_eds(source, node_id)` from the parsed document on -/
def importEds (doc : Doc) (nodeId : Option Int) : Option OD :=
  match importComments doc, importDeviceInfo doc, importCommissioning doc nodeId with
  | some com, some (bauds, props), some (br, odNid, nid) =>
    let od0 : OD := { comments := com, bauds := bauds, devInfo := props, bitrate := br,
                      nodeId := odNid, fileInfo := (doc.sec sFileInfo).map (·.opts) }
    doc.foldlM (processSection doc nid) od0
  | _, _, _ => none

/-- suffix dispatch of `import_od` for a file-like source called `fileName`: only `.eds` and
    `.dcf` reach `import_eds`; `.epf` (an XML format) and anything else is an error for EDS text -/
def suffixOf (fileName : Str) : Str :=
  -- `filename[filename.rfind("."):].lower()`; rfind = -1 gives the last character
  let rev := fileName.reverse
  let tail := rev.takeWhile (· ≠ '.')
  if tail.length = rev.length then lower (fileName.drop (fileName.length - 1))
  else lower ('.' :: tail.reverse)

def importOd (fileName : Str) (doc : Doc) (nodeId : Option Int) : Option OD :=
  let sfx := suffixOf fileName
  if sfx = c!".eds" ∨ sfx = c!".dcf" then importEds doc nodeId else none

/-! ### histories: importing from paths of a file system that is rewritten in between

`import_eds(source, node_id)` with a path opens the file and parses what is in it *now*: the
imported dictionary is a function of the current content of that path and of nothing that
happened before (no state survives a call).  The file system is a dictionary path → parsed
document; writing replaces the content of one path. -/

abbrev Files := List (Str × Doc)

/-- the file at `path` is (re)written with the text of `doc` -/
def Files.write (fs : Files) (path : Str) (doc : Doc) : Files := dictSet path doc fs

/-- `import_od(path, node_id)`; `none` = exception (FileNotFoundError included) -/
def importPath (fs : Files) (path : Str) (nodeId : Option Int) : Option OD :=
  match dictGet path fs with
  | none => none
  | some doc => importOd path doc nodeId

/-- one step of a history: the file `path` is written, then imported under `nodeId` -/
structure ImportStep where
  path : Str
  doc : Doc
  nodeId : Option Int
deriving Repr, DecidableEq

/-- the results of a whole history, step by step, from the file system `fs` on -/
def importHistory (fs : Files) : List ImportStep → List (Option OD)
  | [] => []
  | s :: r =>
    let fs' := fs.write s.path s.doc
    importPath fs' s.path s.nodeId :: importHistory fs' r

end Canopen.Eds
