/-
Model of `export_eds` / `export_dcf` and `_revert_variable` (canopen/objectdictionary/eds.py) up to
the **document** handed to `RawConfigParser.write` (sections → ordered key/value strings; every
non-string value through `str()`), composed with the importer of C08 for the round trip of C14.
`configparser`'s writing and re-reading of the text is outside the model (trusted base: identity
on documents whose strings have no leading/trailing blanks, line breaks or `;`).

Not modelled: the `[FileInfo]` section (creation/modification time stamps and the mutable default
argument `file_info={}` make it depend on the clock and on earlier calls; no property of C14 talks
about it); the iteration order of the Python `set` of bit rates (the `BaudRate_*` lines are
compared as a set); float printing (`str(float)`): a real value is carried as a text that denotes it.
-/
import CanopenModel.Eds.Import

namespace Canopen.Eds
open Canopen.Gen.Datatypes Canopen.Gen.EdsTables

def kSubNumberX : Str := c!"SubNumber"
def kSupportedObjects : Str := c!"SupportedObjects"
def sDummyUsage : Str := c!"DummyUsage"
def sMandatoryObjects : Str := c!"MandatoryObjects"
def sOptionalObjects : Str := c!"OptionalObjects"
def sManufacturerObjects : Str := c!"ManufacturerObjects"

/-- `f"0x{value:02X}"` and, for a negative value, the form `int(x, 0)` accepts -/
def revertInt (i : Int) : Str :=
  if i < 0 then c!"-0x" ++ zpad 2 (natStr 16 true (-i).toNat) else c!"0x" ++ zpad 2 (natStr 16 true i.toNat)

/-- `_revert_variable(var_type, value)` followed by `str()`; `none` = an exception, or a pairing of
    value kind and data type outside the property's domain (not modelled, never generated) -/
def revertVariable (t : Int) (v : Value) : Option Str :=
  if t = (OCTET_STRING : Int) ∨ t = (DOMAIN : Int) then
    (match v with | .bytes bs => some (toHexStr bs) | _ => none)
  else if t = (VISIBLE_STRING : Int) ∨ t = (UNICODE_STRING : Int) then
    (match v with | .str s => some s | _ => none)
  else if isFloatType t then
    (match v with | .real txt => some txt | .int i => some (intStr i) | _ => none)
  else
    (match v with | .int i => some (revertInt i) | _ => none)

/-- `eds.set(section, key, str(value))` for an optional value -/
def setOpt (k : Str) (o : Option Str) (opts : List (Str × Str)) : List (Str × Str) :=
  match o with
  | some v => dictSet k v opts
  | none => opts

/-- Python truthiness of an optional string -/
def truthyStr : Option Str → Option Str
  | some s => if s.isEmpty then none else some s
  | none => none

def nonEmpty (s : Str) : Option Str := if s.isEmpty then none else some s

/-- `f"0x{n:04X}"` -/
def hex04 (i : Int) : Str := c!"0x" ++ fmtHexPad 4 i

/-- the text of `DefaultValue` / `ParameterValue`: the raw text when present, else the value
    reverted; outer `none` = exception -/
def valueText (t : Int) (raw : Option Str) (v : Option Value) : Option (Option Str) :=
  match raw with
  | some r => some (some r)
  | none => match v with
    | none => some none
    | some x => (revertVariable t x).map some

/-- the `eds.set` calls of `export_variable`, in the order the code makes them (a key set twice keeps
    its first position) -/
def varSecOpts (v : Var) (dflt pval : Option Str) : List (Str × Str) :=
  let o1 := dictSet kParameterName v.name []
  let o2 := setOpt kStorageLocation (truthyStr v.storage) o1
  let o3 := dictSet kObjectType c!"0x7" o2
  let o4 := if v.dataType ≠ 0 then dictSet kDataType (hex04 v.dataType) o3 else o3
  let o5 := setOpt kAccessType (nonEmpty v.accessType) o4
  let o6 := setOpt kDefaultValue dflt o5
  let o7 := setOpt kParameterValue pval o6
  let o8 := dictSet kDataType (hex04 v.dataType) o7
  let o9 := dictSet kPDOMapping (if v.pdoMappable then c!"0x1" else c!"0x0") o8
  let o10 := setOpt kLowLimit (v.min.map intStr) o9
  let o11 := setOpt kHighLimit (v.max.map intStr) o10
  let o12 := setOpt kDescription (nonEmpty v.description) o11
  let o13 := setOpt kFactor v.factor o12
  setOpt kUnit (nonEmpty v.unit) o13

def varSecName (nested : Bool) (v : Var) : Str :=
  if nested then fmtHexPad 4 v.index ++ c!"sub" ++ natStr 16 true v.subindex else fmtHexPad 4 v.index

/-- `export_variable(var, eds)`; `nested`: the variable belongs to a record/array; `none` = exception -/
def exportVariable (dcf : Bool) (nested : Bool) (v : Var) : Option Sec :=
  match valueText v.dataType v.defaultRaw v.default,
        (if dcf then valueText v.dataType v.valueRaw v.value else some none) with
  | some dflt, some pval => some { name := varSecName nested v, opts := varSecOpts v dflt pval }
  | _, _ => none

/-- the section of the record/array itself -/
def collMainSec (c : Coll) : Sec :=
  { name := fmtHexPad 4 c.index,
    opts := dictSet kObjectType (if c.isArray then c!"0x8" else c!"0x9")
              (dictSet kSubNumberX (c!"0x" ++ natStr 16 true c.subs.length)
                (setOpt kStorageLocation (truthyStr c.storage) (dictSet kParameterName c.name []))) }

/-- `export_record(var, eds)` (also used for arrays): the main section, then the members in the
    order of their sub-indices -/
def exportColl (dcf : Bool) (c : Coll) : Option (List Sec) :=
  (c.iter.mapM fun s => (dictGet s c.subs).bind (exportVariable dcf true)).map (collMainSec c :: ·)

def exportObject (dcf : Bool) : Obj → Option (List Sec)
  | .var v => (exportVariable dcf false v).map ([·])
  | .coll c => exportColl dcf c

def isMandatory (i : Nat) : Bool := MANDATORY.contains i
def isManufacturer (i : Nat) : Bool := MANUFACTURER_LO ≤ i && i < MANUFACTURER_HI
def isOptional (i : Nat) : Bool := OPTIONAL_ABOVE < i && !isMandatory i && !isManufacturer i

/-- the numbered entries `1=0x1000`, … of an object list -/
def listEntries : Nat → List Nat → List (Str × Str)
  | _, [] => []
  | k, i :: r => (natStr 10 false k, hex04 i) :: listEntries (k + 1) r

/-- `add_list(section, list)`: the list section, then the sections of the listed objects -/
def addList (dcf : Bool) (od : OD) (secName : Str) (l : List Nat) : Option (List Sec) :=
  (l.mapM fun i => (od.byIndex i).bind (exportObject dcf)).map fun ss =>
    ({ name := secName, opts := (kSupportedObjects, natStr 10 false l.length) :: listEntries 1 l } : Sec)
      :: ss.flatten

def devValText : DevVal → Str
  | .str s => s
  | .int i => intStr i
  | .bool b => if b then c!"1" else c!"0"

/-- the `[DeviceInfo]` lines: attributes in table order, then the rates (allowed ones as
    `BaudRate_<n>=1`, the other standard ones as `BaudRate_<n>.0=0`: the set union keeps the
    library's floats for those) -/
def deviceInfoOpts (od : OD) : List (Str × Str) :=
  (DEVINFO_EXPORT.filterMap fun row => (dictGet row.2 od.devInfo).map fun v => (row.1, devValText v)) ++
  (od.bauds.map fun r => (c!"BaudRate_" ++ natStr 10 false (r / 1000), c!"1")) ++
  ((EXPORT_BAUDS.filter fun r => !od.bauds.contains r).map fun r =>
    (c!"BaudRate_" ++ natStr 10 false (r / 1000) ++ c!".0", c!"0"))

def commentOptsX : Nat → List Str → List (Str × Str)
  | _, [] => []
  | k, l :: r => (c!"Line" ++ natStr 10 false k, l) :: commentOptsX (k + 1) r

def truthyInt : Option Int → Option Int
  | some i => if i = 0 then none else some i
  | none => none

/-- `Baudrate=int(od.bitrate / 1000)` and `NodeID=int(od.node_id)`, each only for a truthy value -/
def commissioningOptsX (od : OD) : List (Str × Str) :=
  (match truthyInt od.bitrate with
   | some b => [(kBaudrate, intStr (b.tdiv 1000))] | none => []) ++
  (match truthyInt od.nodeId with
   | some n => [(kNodeID, intStr n)] | none => [])

/-- `Line1=…`, …, `Lines=n` -/
def commentsOptsX (od : OD) : List (Str × Str) :=
  commentOptsX 1 (splitLines od.comments) ++ [(kLines, natStr 10 false (splitLines od.comments).length)]

/-- `[DeviceInfo]`, `[DeviceComissioning]` (DCF, when a bit rate or node id is set), `[Comments]`,
    `[DummyUsage]` -/
def exportHeader (od : OD) (dcf : Bool) : List Sec :=
  let devInfo : Sec := { name := sDeviceInfo, opts := deviceInfoOpts od }
  let comm : List Sec :=
    if dcf ∧ ((truthyInt od.bitrate).isSome ∨ (truthyInt od.nodeId).isSome) then
      [{ name := sDeviceComissioning, opts := commissioningOptsX od }]
    else []
  let comments : Sec := { name := sComments, opts := commentsOptsX od }
  let dummy : Sec := { name := sDummyUsage,
                       opts := (List.range 7).map fun k =>
                         (dummyKey (k + 1), if od.contains (.name (dummyKey (k + 1))) then c!"1" else c!"0") }
  [devInfo] ++ comm ++ [comments, dummy]

/-- all sections in file order, before the check for duplicates -/
def exportSections (od : OD) (dcf : Bool) : Option (List Sec) :=
  let idx := od.iter
  match addList dcf od sMandatoryObjects (idx.filter isMandatory),
        addList dcf od sOptionalObjects (idx.filter isOptional),
        addList dcf od sManufacturerObjects (idx.filter isManufacturer) with
  | some a, some b, some c => some (exportHeader od dcf ++ a ++ b ++ c)
  | _, _, _ => none

def namesOk (d : Doc) : Bool :=
  decide ((d.map (·.name)).Nodup) && !(d.map (·.name)).contains c!"DEFAULT" &&
  !(d.map (·.name)).contains sFileInfo

/-- `export_eds(od, dest, file_info, device_commisioning)` without `[FileInfo]`: `add_section` raises
    DuplicateSectionError for a repeated name and ValueError for `DEFAULT` -/
def exportDoc (od : OD) (dcf : Bool) : Option Doc :=
  match exportSections od dcf with
  | some d => if namesOk d then some d else none
  | none => none

/-- export, (text layer), import again with the given node id -/
def roundTrip (od : OD) (dcf : Bool) (nodeId : Option Int) : Option (Doc × Option OD) :=
  (exportDoc od dcf).map fun d => (d, importEds d nodeId)

/-! ### histories: several export/import rounds within one process

`export_od(od, dest)` with a file name (re)writes that file, with a text stream or standard output
it leaves the file system alone; `import_od(path)` reads what the path holds now.  Nothing else
survives a call (`Files`, `importPath`: Import.lean). -/

/-- where a step exports to: a file name (the re-import reads that file), or a stream / standard
    output (the re-import reads the text that was written) -/
inductive Dest where
  | file (path : Str)
  | stream
deriving Repr, DecidableEq

structure RoundStep where
  od : OD
  dcf : Bool
  dest : Dest
  nodeId : Option Int
deriving Repr, DecidableEq

/-- one round: (new file system, exported document and re-imported dictionary); `none` = the export
    raised (the file system is then left as it was: the step is not followed by an import) -/
def roundStep (fs : Files) (s : RoundStep) : Files × Option (Doc × Option OD) :=
  match exportDoc s.od s.dcf with
  | none => (fs, none)
  | some d =>
    match s.dest with
    | .file p => let fs' := fs.write p d; (fs', some (d, importPath fs' p s.nodeId))
    | .stream => (fs, some (d, importEds d s.nodeId))

/-- the results of a whole history, step by step -/
def roundHistory (fs : Files) : List RoundStep → List (Option (Doc × Option OD))
  | [] => []
  | s :: r => (roundStep fs s).2 :: roundHistory (roundStep fs s).1 r

end Canopen.Eds
