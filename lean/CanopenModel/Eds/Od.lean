/-
Model of the object dictionary containers of canopen/objectdictionary/__init__.py as far as
EDS import/export and the lookups of C08 need them: `ODVariable` (attributes only),
`ODRecord`/`ODArray` (`add_member`, `__getitem__`, `__len__`), `ObjectDictionary`
(`add_object`, `__getitem__`, `__contains__`, `__iter__`).

Python dictionaries are association lists with "replace in place or append" (`dictSet`).
Top-level objects live in a heap (`OD.heap`, append-only) and the two tables `indices` and
`names` hold heap positions: a record added once is *one* object reachable through both tables,
and `add_member` on it is seen through both (Python object identity).  Variables are never
mutated after they have been added, so members are stored by value.
-/
import CanopenModel.Eds.Text
import CanopenModel.Generated.Datatypes

namespace Canopen.Eds
open Canopen.Gen.Datatypes

/-! ### dictionaries -/

def dictGet {κ β : Type} [DecidableEq κ] (k : κ) : List (κ × β) → Option β
  | [] => none
  | (k', v) :: r => if k' = k then some v else dictGet k r

def dictSet {κ β : Type} [DecidableEq κ] (k : κ) (v : β) : List (κ × β) → List (κ × β)
  | [] => [(k, v)]
  | (k', v') :: r => if k' = k then (k, v) :: r else (k', v') :: dictSet k v r

def dictHas {κ β : Type} [DecidableEq κ] (k : κ) (d : List (κ × β)) : Bool := (dictGet k d).isSome

/-! ### values and variables -/

/-- a default / parameter value.  `real` carries the *text* handed to `float()`: the float itself
    is opaque to the model (trusted base), two reals are the same when their texts are -/
inductive Value where
  | int (i : Int)
  | bytes (bs : List Nat)
  | str (s : Str)
  | real (txt : Str)
deriving Repr, DecidableEq

/-- the attributes of an `ODVariable` that EDS import sets and EDS export reads -/
structure Var where
  name : Str
  index : Nat
  subindex : Nat
  dataType : Int := 0
  accessType : Str := c!"rw"
  pdoMappable : Bool := false
  min : Option Int := none
  max : Option Int := none
  default : Option Value := none
  value : Option Value := none
  relative : Bool := false
  defaultRaw : Option Str := none      -- attribute absent = `none`
  valueRaw : Option Str := none
  storage : Option Str := none
  factor : Option Str := none          -- text handed to `float()`; `none` = the initial `1`
  description : Str := []
  unit : Str := []
deriving Repr, DecidableEq

/-- `ODRecord` / `ODArray` -/
structure Coll where
  isArray : Bool
  name : Str
  index : Nat
  storage : Option Str := none
  subs : List (Nat × Var) := []
  names : List (Str × Var) := []
deriving Repr, DecidableEq

/-- `add_member` -/
def Coll.addMember (c : Coll) (v : Var) : Coll :=
  { c with subs := dictSet v.subindex v c.subs, names := dictSet v.name v c.names }

inductive Obj where
  | var (v : Var)
  | coll (c : Coll)
deriving Repr, DecidableEq

def Obj.index : Obj → Nat
  | .var v => v.index
  | .coll c => c.index

def Obj.name : Obj → Str
  | .var v => v.name
  | .coll c => c.name

/-- Python truthiness: records and arrays define `__len__` (number of sub-indices), variables
    define `__len__` as their bit length, which is never 0 -/
def Obj.truthy : Obj → Bool
  | .var _ => true
  | .coll c => !c.subs.isEmpty

/-- a key of `__getitem__` -/
inductive Key where
  | idx (i : Nat)
  | name (s : Str)
deriving Repr, DecidableEq

/-- lower-case hex without prefix, `f"{n:x}"` -/
def hexLower (n : Nat) : Str := natStr 16 false n

/-- the variable `ODArray.__getitem__` makes up for a sub-index that is not stored -/
def arrayTemplateVar (c : Coll) (template : Var) (sub : Nat) : Var :=
  { name := template.name ++ '_' :: hexLower sub, index := c.index, subindex := sub,
    dataType := template.dataType, unit := template.unit, factor := template.factor,
    min := template.min, max := template.max, default := template.default,
    accessType := template.accessType, description := template.description,
    storage := template.storage, pdoMappable := template.pdoMappable }

/-- `coll[key]`; `none` = KeyError -/
def Coll.getItem (c : Coll) : Key → Option Var
  | .name s => dictGet s c.names           -- `subindices.get(str)` is always None
  | .idx i =>
    match dictGet i c.subs with            -- `names.get(int)` is always None
    | some v => some v
    | none =>
      if c.isArray ∧ 0 < i ∧ i < 256 then (dictGet 1 c.subs).map fun t => arrayTemplateVar c t i
      else none

/-! ### the dictionary -/

inductive DevVal where
  | str (s : Str)
  | int (i : Int)
  | bool (b : Bool)
deriving Repr, DecidableEq

structure OD where
  heap : List Obj := []
  indices : List (Nat × Nat) := []
  names : List (Str × Nat) := []
  comments : Str := []
  bitrate : Option Int := none
  nodeId : Option Int := none
  /-- `device_information.allowed_baudrates` (a set; kept in the order of the rate table) -/
  bauds : List Nat := []
  /-- the other attributes of `device_information` that are not `None`, by attribute name -/
  devInfo : List (Str × DevVal) := []
  /-- `od.__edsFileInfo`; `none` = attribute absent -/
  fileInfo : Option (List (Str × Str)) := none
deriving Repr, DecidableEq

/-- `add_object` -/
def OD.addObject (od : OD) (o : Obj) : OD :=
  { od with heap := od.heap ++ [o],
            indices := dictSet o.index od.heap.length od.indices,
            names := dictSet o.name od.heap.length od.names }

def OD.deref (od : OD) (id : Nat) : Option Obj := od.heap[id]?

def OD.byIndex (od : OD) (i : Nat) : Option Obj := (dictGet i od.indices).bind od.deref
def OD.byName (od : OD) (s : Str) : Option Obj := (dictGet s od.names).bind od.deref

/-- `s.split('.', maxsplit=1)` for a string that contains a dot -/
def splitDot : Str → Option (Str × Str)
  | [] => none
  | c :: r => if c = '.' then some ([], r) else (splitDot r).map fun p => (c :: p.1, p.2)

/-- `obj[key]` for whatever `od[...]` returned; a variable is not subscriptable (TypeError) -/
def Obj.getItem : Obj → Key → Option Var
  | .var _, _ => none
  | .coll c, k => c.getItem k

/-- `od[name]` for a name without the dotted fallback: `names.get(name) or indices.get(name)`,
    where the second operand is always None for a str key: a falsy hit (an empty record) is lost -/
def OD.byNameTruthy (od : OD) (s : Str) : Option Obj :=
  match od.byName s with
  | some o => if o.truthy then some o else none
  | none => none

/-- `od[key]`; `none` = KeyError/TypeError.  A member reached by `'Parent.Child'` is returned as
    `Obj.var` -/
def OD.getItem (od : OD) : Key → Option Obj
  | .idx i => od.byIndex i
  | .name s =>
    match od.byNameTruthy s with
    | some o => some o
    | none =>
      match splitDot s with
      | some (p, ch) => ((od.byNameTruthy p).bind (·.getItem (.name ch))).map .var
      | none => none

/-- `key in od` -/
def OD.contains (od : OD) : Key → Bool
  | .idx i => dictHas i od.indices
  | .name s => dictHas s od.names

/-- insertion sort of keys, for `sorted(dict)` -/
def insertSorted (x : Nat) : List Nat → List Nat
  | [] => [x]
  | y :: r => if x ≤ y then x :: y :: r else y :: insertSorted x r

def sortNat (l : List Nat) : List Nat := l.foldr insertSorted []

/-- `iter(od)`: sorted indexes -/
def OD.iter (od : OD) : List Nat := sortNat (od.indices.map (·.1))

def Coll.iter (c : Coll) : List Nat := sortNat (c.subs.map (·.1))

/-- replace the object at a heap position (mutation of a record/array through a reference) -/
def OD.setHeap (od : OD) (id : Nat) (o : Obj) : OD := { od with heap := od.heap.set id o }

end Canopen.Eds
