/-
Text-level helpers of the EDS/DCF models (C08, C14): strings are `List Char` so that kernel
evaluation and proofs about number spellings work (`String` is used only at the driver boundary).

Transcribed Python primitives (CPython 3.12, ASCII input; see the property modules' ASSUMPTIONS):
`int(s, 0)`, `int(s)`, `int(s, 16)` on a pure hex-digit string, `bytes.fromhex`, `bytes.hex`,
`str.strip/lower/upper/replace(" ", "")`, `'$NODEID' in s`, `re.sub(r'\+?\$NODEID\+?', '', s)`,
`str.splitlines`, `'\n'.join`, the format specs `X`, `04X`, `02X`, `04d`, `str(int)`, and the *syntax*
accepted by `float(s)` (the float value itself is opaque to the model: it is carried as its text).
-/
namespace Canopen.Eds

abbrev Str := List Char

open Lean in
/-- `c!"abc"` is the literal `['a', 'b', 'c']` -/
macro:max "c!" s:str : term => do
  let elems := s.getString.toList.map fun c => Syntax.mkCharLit c
  `(([$(elems.toArray),*] : List Char))

/-! ### whitespace, case -/

/-- `Py_ISSPACE`: the ASCII white space `int()`, `float()` and `bytes.fromhex` skip -/
def isSpace (c : Char) : Bool :=
  c = ' ' || c = '\t' || c = '\n' || c = '\r' || c = Char.ofNat 11 || c = Char.ofNat 12

def lstrip (s : Str) : Str := s.dropWhile isSpace
def rstrip (s : Str) : Str := (s.reverse.dropWhile isSpace).reverse
def strip (s : Str) : Str := rstrip (lstrip s)

/-- `str.lower()` / `str.upper()` on ASCII text -/
def lower (s : Str) : Str := s.map Char.toLower
def upper (s : Str) : Str := s.map Char.toUpper

/-- `s.replace(" ", "")` -/
def removeBlanks (s : Str) : Str := s.filter (· ≠ ' ')

/-- `needle in s` -/
def isInfix (needle : Str) : Str → Bool
  | [] => needle.isEmpty
  | c :: r => needle.isPrefixOf (c :: r) || isInfix needle r

/-! ### digits -/

def digitsLower : Str := c!"0123456789abcdef"
def digitsUpper : Str := c!"0123456789ABCDEF"

/-- the digit character of `d < 16` -/
def digitChar (up : Bool) (d : Nat) : Char := (if up then digitsUpper else digitsLower).getD d '?'

/-- value of a character as a digit (bases up to 16) -/
def digitVal (c : Char) : Option Nat :=
  if '0' ≤ c ∧ c ≤ '9' then some (c.toNat - 48)
  else if 'a' ≤ c ∧ c ≤ 'f' then some (c.toNat - 87)
  else if 'A' ≤ c ∧ c ≤ 'F' then some (c.toNat - 55) else none

def isHexDigit (c : Char) : Bool := (digitVal c).isSome

/-- digits of `n`, most significant first (`fuel` > `n` is always enough for `base ≥ 2`) -/
def natDigitsF (base : Nat) : Nat → Nat → List Nat
  | 0, _ => []
  | fuel + 1, n => if n < base then [n] else natDigitsF base fuel (n / base) ++ [n % base]

def natDigits (base n : Nat) : List Nat := natDigitsF base (n + 1) n

/-- `format(n, 'X')` / `'x'` / `'d'` / `'o'` / `'b'` for a natural number -/
def natStr (base : Nat) (up : Bool) (n : Nat) : Str := (natDigits base n).map (digitChar up)

/-- zero padding on the left to at least `w` characters -/
def zpad (w : Nat) (s : Str) : Str := List.replicate (w - s.length) '0' ++ s

/-- `str(i)` -/
def intStr (i : Int) : Str :=
  if i < 0 then '-' :: natStr 10 false (-i).toNat else natStr 10 false i.toNat

/-- `format(i, '0{w}X')`: sign, then zero padding up to total width `w` -/
def fmtHexPad (w : Nat) (i : Int) : Str :=
  if i < 0 then '-' :: zpad (w - 1) (natStr 16 true (-i).toNat) else zpad w (natStr 16 true i.toNat)

/-- value of a string of hex digits (`int(s, 16)` where a regular expression has already
    guaranteed `[0-9A-Fa-f]+`) -/
def hexVal (s : Str) : Nat := s.foldl (fun a c => a * 16 + (digitVal c).getD 0) 0

/-! ### `int(s, 0)` and `int(s)` -/

/-- digit run of `base` with single underscores between digits; `prevUs`: previous character was
    an underscore -/
def scanDigits (base : Nat) : Nat → Bool → Str → Option Nat
  | acc, prevUs, [] => if prevUs then none else some acc
  | acc, prevUs, c :: r =>
    if c = '_' then (if prevUs then none else scanDigits base acc true r)
    else match digitVal c with
      | some d => if d < base then scanDigits base (acc * base + d) false r else none
      | none => none

/-- the digits after sign and prefix: non-empty and not starting with an underscore -/
def parseBody (base : Nat) (s : Str) : Option Nat :=
  match s with
  | [] => none
  | c :: r => if c = '_' then none else scanDigits base 0 false (c :: r)

/-- one underscore is allowed after a base prefix -/
def dropUs : Str → Str
  | c :: r => if c = '_' then r else c :: r
  | [] => []

/-- base 0, "old octal" rule: a literal with a leading zero must be zero -/
def zeroOnly : Option Nat → Option Nat
  | some 0 => some 0
  | _ => none

def unsignedBase0 (s : Str) : Option Nat :=
  match s with
  | c0 :: c1 :: r =>
    if c0 = '0' then
      if c1 = 'x' ∨ c1 = 'X' then parseBody 16 (dropUs r)
      else if c1 = 'o' ∨ c1 = 'O' then parseBody 8 (dropUs r)
      else if c1 = 'b' ∨ c1 = 'B' then parseBody 2 (dropUs r)
      else zeroOnly (parseBody 10 (c0 :: c1 :: r))
    else parseBody 10 (c0 :: c1 :: r)
  | s => parseBody 10 s

/-- optional sign -/
def splitSign : Str → Bool × Str
  | c :: r => if c = '-' then (true, r) else if c = '+' then (false, r) else (false, c :: r)
  | [] => (false, [])

def applySign (neg : Bool) (n : Nat) : Int := if neg then -(n : Int) else (n : Int)

/-- `int(s, 0)`; `none` = ValueError -/
def pyInt0 (s : Str) : Option Int :=
  let p := splitSign (strip s)
  (unsignedBase0 p.2).map (applySign p.1)

/-- `int(s)` (base 10) -/
def pyInt10 (s : Str) : Option Int :=
  let p := splitSign (strip s)
  (parseBody 10 p.2).map (applySign p.1)

/-! ### `bytes.fromhex`, `bytes.hex` -/

def fromHexF : Nat → Str → Option (List Nat)
  | 0, _ => none
  | _ + 1, [] => some []
  | fuel + 1, c :: r =>
    if isSpace c then fromHexF fuel r
    else match r with
      | d :: r' => match digitVal c, digitVal d with
        | some x, some y => (fromHexF fuel r').map ((x * 16 + y) :: ·)
        | _, _ => none
      | [] => none

/-- `bytes.fromhex(s)`; `none` = ValueError -/
def fromHex (s : Str) : Option (List Nat) := fromHexF (s.length + 1) s

/-- `bytes.hex(b)` -/
def toHexStr (bs : List Nat) : Str := bs.flatMap fun b => [digitChar false (b / 16), digitChar false (b % 16)]

/-! ### `$NODEID` -/

def nodeidTok : Str := c!"$NODEID"

/-- `'$NODEID' in s` -/
def containsNodeid (s : Str) : Bool := isInfix nodeidTok s

def dropPlus : Str → Str
  | c :: r => if c = '+' then r else c :: r
  | [] => []

/-- `re.sub(r'\+?\$NODEID\+?', '', s)`: leftmost non-overlapping matches, greedy optional `+` -/
def removeNodeidF : Nat → Str → Str
  | 0, s => s
  | _ + 1, [] => []
  | fuel + 1, c :: r =>
    if c = '+' ∧ nodeidTok.isPrefixOf r then removeNodeidF fuel (dropPlus (r.drop 7))
    else if nodeidTok.isPrefixOf (c :: r) then removeNodeidF fuel (dropPlus (r.drop 6))
    else c :: removeNodeidF fuel r

def removeNodeid (s : Str) : Str := removeNodeidF (s.length + 1) s

/-! ### lines -/

/-- the line boundaries of `str.splitlines` -/
def isLineBreak (c : Char) : Bool :=
  c = '\n' || c = '\r' || c = Char.ofNat 11 || c = Char.ofNat 12 || c = Char.ofNat 0x1c ||
  c = Char.ofNat 0x1d || c = Char.ofNat 0x1e || c = Char.ofNat 0x85 || c = Char.ofNat 0x2028 ||
  c = Char.ofNat 0x2029

/-- `s.splitlines()`: `cur` is the current line, reversed -/
def splitLinesAux : Str → Str → List Str
  | [], cur => if cur.isEmpty then [] else [cur.reverse]
  | c :: r, cur =>
    if c = '\r' then
      match r with
      | d :: r' => if d = '\n' then cur.reverse :: splitLinesAux r' [] else cur.reverse :: splitLinesAux (d :: r') []
      | [] => [cur.reverse]
    else if isLineBreak c then cur.reverse :: splitLinesAux r []
    else splitLinesAux r (c :: cur)

def splitLines (s : Str) : List Str := splitLinesAux s []

/-- `sep.join(parts)` -/
def joinWith (sep : Str) : List Str → Str
  | [] => []
  | [a] => a
  | a :: b :: r => a ++ sep ++ joinWith sep (b :: r)

/-! ### syntax accepted by `float(s)` (value opaque) -/

def isDigit (c : Char) : Bool := '0' ≤ c && c ≤ '9'

/-- underscores only between digits (`_Py_string_to_number_with_underscores`) -/
def floatUsOk : Char → Str → Bool
  | prev, [] => prev ≠ '_'
  | prev, c :: r =>
    if c = '_' then isDigit prev && floatUsOk c r
    else (prev ≠ '_' || isDigit c) && floatUsOk c r

/-- digits* [ '.' digits* ] with at least one digit, then optional exponent, then end -/
def floatNumber (s : Str) : Bool :=
  let ip := s.takeWhile isDigit
  let r1 := s.dropWhile isDigit
  let (fp, r2) := match r1 with
    | c :: r => if c = '.' then (r.takeWhile isDigit, r.dropWhile isDigit) else ([], c :: r)
    | [] => ([], [])
  if ip.isEmpty && fp.isEmpty then false
  else match r2 with
    | [] => true
    | e :: r =>
      if e = 'e' ∨ e = 'E' then
        let r3 := match r with
          | c :: r' => if c = '+' ∨ c = '-' then r' else c :: r'
          | [] => []
        !r3.isEmpty && r3.all isDigit
      else false

def floatCore (s : Str) : Bool :=
  let body := (splitSign s).2
  let l := lower body
  l = c!"inf" || l = c!"infinity" || l = c!"nan" || floatNumber body

/-- does `float(s)` return (rather than raise ValueError)? -/
def floatOk (s : Str) : Bool :=
  let t := strip s
  if t.contains '_' then floatUsOk 'x' t && floatCore (t.filter (· ≠ '_')) else floatCore t

end Canopen.Eds
