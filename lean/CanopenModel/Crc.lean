/-
CRC used by SDO block transfers: `canopen.sdo.base.CrcXmodem` = `binascii.crc_hqx`, i.e.
CRC-16/XMODEM (polynomial x^16 + x^12 + x^5 + 1 = 0x1021, initial value 0, no reflection, no final
XOR).  Modelled bit by bit (CPython uses a 256-entry table; the differential run compares this
definition with `binascii.crc_hqx` on every `crc` operation and through every block transfer).
-/
import CanopenModel.Bytes
namespace Canopen.Crc
open Canopen

/-- one shift of the 16-bit register, feeding a zero bit -/
def step1 (s : Nat) : Nat :=
  if s &&& 0x8000 ≠ 0 then ((s <<< 1) &&& 0xFFFF) ^^^ 0x1021 else (s <<< 1) &&& 0xFFFF

def stepN : Nat → Nat → Nat
  | 0, s => s
  | n+1, s => stepN n (step1 s)

/-- feed one byte: XOR it into the high byte of the register, then eight shifts -/
def crcByte (s b : Nat) : Nat := stepN 8 (s ^^^ (b <<< 8))

/-- `binascii.crc_hqx(data, init)` -/
def crcHqx (data : Bytes) (init : Nat) : Nat := data.foldl crcByte init

end Canopen.Crc
