/-
Model of canopen/network.py (C10): `Network.subscribe / unsubscribe / notify`,
`Network.__setitem__ / __delitem__` with `RemoteNode/LocalNode.associate_network /
remove_network`, `RemoteNode.add_sdo`, `Network.send_message` / `PeriodicMessageTask.__init__`
(frame construction), `MessageListener.on_message_received`, `NodeScanner`, and the
`MutableMapping` mix-in methods `Network` inherits (`pop`, `popitem`, `clear`, `update`,
`setdefault`; `len` / `in` / iteration through `Net.keys`).

Conventions
* `Network.subscribers` (a dict CAN id → list) is a function `Nat → Option (List Cb)`: `none` is
  an absent key, `some []` a key whose list became empty — the difference decides
  `KeyError`/`ValueError`/success in `unsubscribe`.  Dict iteration order is never observed.
* A callback is a *tag*: `user k` (a plain function of the caller), `lss` (the LSS master's
  handler that `Network.__init__` subscribes), `node o h` (bound method `h` of node **object**
  `o`; Python compares bound methods by (`__self__` identity, `__func__`)).  Node objects are
  numbered; their immutable attributes (node id, local/remote) come from the environment `Env`.
* An exception raised by a callback leaves `notify` at once: later callbacks are not invoked
  and the scanner does not see the frame; `Env.raises` says which callbacks do that.
* The (un)registration call lists are the **generated** rows recorded from the live
  `associate_network` / `remove_network` (Generated/Network.lean), executed in their coded
  order; a failing `unsubscribe` aborts the removal half-way, as in Python.
-/
import CanopenModel.Bytes
import CanopenModel.Spec.Multimap
import CanopenModel.Generated.Network

namespace Canopen.Net
open Canopen Canopen.Gen.Network
open Canopen.Spec.Multimap (Call)

/-- which bound method of a node object -/
inductive Handler where
  | sdoResponse (chan : Nat)   -- `sdo_channels[chan].on_response` (RemoteNode)
  | heartbeat                  -- `nmt.on_heartbeat` (RemoteNode)
  | emcy                       -- `emcy.on_emcy` (RemoteNode)
  | nmtCommand                 -- `nmt.on_command`
  | sdoRequest                 -- `sdo.on_request` (LocalNode)
  | other (code : Nat)
deriving DecidableEq, Repr

inductive Cb where
  | user (k : Nat)
  | lss
  | node (obj : Nat) (h : Handler)
deriving DecidableEq, Repr

/-- immutable facts about the objects a history talks about -/
structure Env where
  nid : Nat → Nat          -- node id of node object `o`
  isLocal : Nat → Bool     -- LocalNode (true) or RemoteNode (false)
  raises : Cb → Bool       -- the callback raises when invoked

/-- `Network.subscribers`.  (A structure around the function, so that the compiled driver builds
    each updated map once instead of re-running the update on every lookup.) -/
structure Subs where
  get : Nat → Option (List Cb)

def Subs.set (s : Subs) (id : Nat) (v : Option (List Cb)) : Subs :=
  ⟨fun j => if j = id then v else s.get j⟩

/-- `Network.subscribe`: `setdefault(can_id, [])`, append unless already in the list -/
def subscribe (s : Subs) (id : Nat) (cb : Cb) : Subs :=
  let l := (s.get id).getD []
  s.set id (some (if cb ∈ l then l else l ++ [cb]))

/-- `Network.unsubscribe`; `none` = the call raised (KeyError / ValueError), nothing changed -/
def unsubscribe (s : Subs) (id : Nat) (cb : Option Cb) : Option Subs :=
  match cb with
  | none =>
    match s.get id with
    | none => none                                   -- del d[k]: KeyError
    | some _ => some (s.set id none)
  | some c =>
    match s.get id with
    | none => none                                   -- d[k]: KeyError
    | some l => if c ∈ l then some (s.set id (some (l.erase c))) else none   -- list.remove: ValueError

/-! ### node (de)registration -/

def handlerOfCode : Nat → Handler
  | 1 => .heartbeat
  | 2 => .emcy
  | 3 => .nmtCommand
  | 4 => .sdoRequest
  | n => .other n

/-- `(sdo.tx_cobid, sdo.on_response)` for the channels from index `k` on -/
def chanCalls (o : Nat) : Nat → List Nat → List (Nat × Cb)
  | _, [] => []
  | k, tx :: r => (tx, .node o (.sdoResponse k)) :: chanCalls o (k + 1) r

/-- tx COB-IDs of `sdo_channels` of remote node object `o`: the default channel made by
    `__init__`, then one per `add_sdo` call so far (`extra`, oldest first) -/
def chans (E : Env) (extra : List (Nat × Nat)) (o : Nat) : List Nat :=
  (REMOTE_SDO_TX_BASE + E.nid o) :: (extra.filter (fun p => p.1 = o)).map (·.2)

def expandRow (E : Env) (extra : List (Nat × Nat)) (o : Nat) (row : Nat × Nat × Bool × Nat) :
    List (Nat × Cb) :=
  if row.1 = 1 then chanCalls o 0 (chans E extra o)
  else [(row.2.1 + (if row.2.2.1 then E.nid o else 0), .node o (handlerOfCode row.2.2.2))]

def expand (E : Env) (extra : List (Nat × Nat)) (o : Nat) (rows : List (Nat × Nat × Bool × Nat)) :
    List (Nat × Cb) :=
  rows.flatMap (expandRow E extra o)

/-- the `network.subscribe` calls of `associate_network`, in order -/
def assocCalls (E : Env) (extra : List (Nat × Nat)) (o : Nat) : List (Nat × Cb) :=
  expand E extra o (if E.isLocal o then localAssociate else remoteAssociate)

/-- the `network.unsubscribe` calls of `remove_network`, in order -/
def removeCalls (E : Env) (extra : List (Nat × Nat)) (o : Nat) : List (Nat × Cb) :=
  expand E extra o (if E.isLocal o then localRemove else remoteRemove)

def subscribeMany (s : Subs) : List (Nat × Cb) → Subs
  | [] => s
  | p :: r => subscribeMany (subscribe s p.1 p.2) r

/-- unsubscribe one after the other; the first failure aborts (what was removed stays removed) -/
def unsubscribeMany (s : Subs) : List (Nat × Cb) → Subs × Bool
  | [] => (s, true)
  | p :: r =>
    match unsubscribe s p.1 (some p.2) with
    | none => (s, false)
    | some s' => unsubscribeMany s' r

/-! ### frames -/

structure Frame where
  id : Nat
  data : Bytes
  ts : Nat
deriving Repr, DecidableEq

/-- a `can.Message` as received from the bus: what the dispatch may use (`arbitration_id`, `data`,
    `timestamp`, `is_error_frame`, `is_remote_frame`) and everything else the object carries and a
    listener could look at (`is_rx` — false for the interface's echo of an own transmission —,
    `is_extended_id`, `is_fd`, `bitrate_switch`, `error_state_indicator`, `dlc`, which need not be
    the data length, `channel`: 0 = None, else a code for an int / a string) -/
structure BusMsg where
  id : Nat
  data : Bytes
  ts : Nat
  isError : Bool
  isRemote : Bool
  isRx : Bool := true
  isExtended : Bool := false
  isFd : Bool := false
  brs : Bool := false
  esi : Bool := false
  dlc : Nat := 0
  channel : Nat := 0
deriving Repr, DecidableEq

/-- a `can.Message` as built for sending -/
structure CanMsg where
  id : Nat
  extended : Bool
  data : Bytes
  remote : Bool
deriving Repr, DecidableEq

/-- `can.Message(is_extended_id=can_id > 0x7FF, arbitration_id=can_id, data=data,
    is_remote_frame=remote)`; python-can stores no data for a remote frame -/
def mkMessage (id : Nat) (data : Bytes) (remote : Bool) : CanMsg :=
  ⟨id, decide (id > 0x7FF), if remote then [] else data, remote⟩

/-- `Network.send_message`: the message handed to `bus.send`, `none` = RuntimeError (no bus) -/
def sendMessage (connected : Bool) (id : Nat) (data : Bytes) (remote : Bool) : Option CanMsg :=
  if connected then some (mkMessage id data remote) else none

/-- `PeriodicMessageTask.__init__`: the message handed to `bus.send_periodic` -/
def periodicMessage (id : Nat) (data : Bytes) (remote : Bool) : CanMsg := mkMessage id data remote

/-- `PeriodicMessageTask.update(data)`: the same message object with a new payload (id, format
    and remote flag untouched), handed to `modify_data` or to a fresh `send_periodic` -/
def periodicUpdate (m : CanMsg) (data : Bytes) : CanMsg := { m with data := data }

/-! ### scanner -/

/-- the node id `NodeScanner.on_message_received` extracts, if it accepts the CAN id
    (ids above 0x7FF are ignored — repair of finding F8) -/
def scanNodeOf (canId : Nat) : Option Nat :=
  let service := canId &&& 0x780
  let nodeId := canId &&& 0x7F
  if nodeId ≠ 0 ∧ service ∈ SERVICES ∧ canId ≤ 0x7FF then some nodeId else none

/-- `NodeScanner.on_message_received` -/
def scanStep (nodes : List Nat) (canId : Nat) : List Nat :=
  match scanNodeOf canId with
  | some n => if n ∈ nodes then nodes else nodes ++ [n]
  | none => nodes

def scanFeed (nodes : List Nat) : List Nat → List Nat
  | [] => nodes
  | id :: r => scanFeed (scanStep nodes id) r

/-! ### network state and operations -/

structure Net where
  subs : Subs
  nodes : Nat → Option Nat          -- `Network.nodes`: node id → node object
  extra : List (Nat × Nat)          -- `add_sdo` calls so far: (node object, tx COB-ID)
  scan : List Nat                   -- `NodeScanner.nodes`
  keys : List Nat                   -- iteration order of the dict `Network.nodes` (insertion order)

/-- the state `Network.__init__` builds: the LSS master's handler already subscribed -/
def init : Net :=
  { subs := ⟨fun j => if j ∈ initLssIds then some [Cb.lss] else none⟩
    nodes := fun _ => none
    extra := []
    scan := []
    keys := [] }

structure Out where
  ok : Bool
  calls : List (Call Cb)
deriving Repr, DecidableEq

/-- callbacks invoked by the dispatch loop: up to and including the first one that raises -/
def invoked (raises : Cb → Bool) : List Cb → List Cb
  | [] => []
  | c :: r => if raises c then [c] else c :: invoked raises r

/-- `Network.notify` -/
def notify (E : Env) (n : Net) (f : Frame) : Net × Out :=
  let cbs := (n.subs.get f.id).getD []
  let calls : List (Call Cb) := (invoked E.raises cbs).map fun cb => ⟨cb, f.id, f.data, f.ts⟩
  if cbs.any E.raises then (n, ⟨false, calls⟩)
  else ({ n with scan := scanStep n.scan f.id }, ⟨true, calls⟩)

/-- `MessageListener.on_message_received`: error and remote frames are dropped, exceptions of
    callbacks are logged and swallowed; no other attribute of the message is looked at -/
def receive (E : Env) (n : Net) (m : BusMsg) : Net × Out :=
  if m.isError || m.isRemote then (n, ⟨true, []⟩)
  else
    let r := notify E n ⟨m.id, m.data, m.ts⟩
    (r.1, ⟨true, r.2.calls⟩)

def setNodes (nodes : Nat → Option Nat) (nid : Nat) (v : Option Nat) : Nat → Option Nat :=
  fun j => if j = nid then v else nodes j

/-- `old.remove_network()` as far as the subscriptions go -/
def detach (E : Env) (n : Net) (old : Nat) : Subs × Bool :=
  unsubscribeMany n.subs (removeCalls E n.extra old)

/-- when `unsubscribeMany` raises: is the exception a `KeyError` (the CAN id is not a key of
    `subscribers`) rather than the `ValueError` of `list.remove`?  (`false` when nothing raises) -/
def unsubscribeManyKeyErr (s : Subs) : List (Nat × Cb) → Bool
  | [] => false
  | p :: r =>
    match unsubscribe s p.1 (some p.2) with
    | none => (s.get p.1).isNone
    | some s' => unsubscribeManyKeyErr s' r

def detachKeyErr (E : Env) (n : Net) (old : Nat) : Bool :=
  unsubscribeManyKeyErr n.subs (removeCalls E n.extra old)

/-- a dict keeps the position of a key that is assigned again; a new key goes last -/
def insertKey (keys : List Nat) (nid : Nat) : List Nat :=
  if nid ∈ keys then keys else keys ++ [nid]

/-- `Network.__setitem__(node.id, node)` (`add_node`, `create_node`) -/
def setNode (E : Env) (n : Net) (o : Nat) : Net × Bool :=
  match n.nodes (E.nid o) with
  | some old =>
    let r := detach E n old
    if r.2 then
      ({ n with subs := subscribeMany r.1 (assocCalls E n.extra o)
                nodes := setNodes n.nodes (E.nid o) (some o)
                keys := insertKey n.keys (E.nid o) }, true)
    else ({ n with subs := r.1 }, false)
  | none =>
    ({ n with subs := subscribeMany n.subs (assocCalls E n.extra o)
              nodes := setNodes n.nodes (E.nid o) (some o)
              keys := insertKey n.keys (E.nid o) }, true)

/-- `Network.__delitem__(node_id)` -/
def delNode (E : Env) (n : Net) (nid : Nat) : Net × Bool :=
  match n.nodes nid with
  | none => (n, false)                                            -- KeyError
  | some old =>
    let r := detach E n old
    if r.2 then ({ n with subs := r.1, nodes := setNodes n.nodes nid none
                          keys := n.keys.erase nid }, true)
    else ({ n with subs := r.1 }, false)

/-- a failing `del network[nid]` raises a `KeyError` (absent node id, or `unsubscribe` of a CAN id
    that is no key of `subscribers`) — the one exception `MutableMapping.clear` swallows -/
def delKeyErr (E : Env) (n : Net) (nid : Nat) : Bool :=
  match n.nodes nid with
  | none => true
  | some old => detachKeyErr E n old

/-! ### the `MutableMapping` mix-in methods `Network` inherits (they only go through
    `__getitem__` / `__setitem__` / `__delitem__` / `__iter__`) -/

/-- `network.pop(nid)` / `network.pop(nid, default)`: `value = self[key]` (KeyError → the default,
    if one was given), else `del self[key]` (whose exceptions propagate) -/
def popNode (E : Env) (n : Net) (nid : Nat) (dflt : Bool) : Net × Bool :=
  match n.nodes nid with
  | none => (n, dflt)
  | some _ => delNode E n nid

/-- `network.popitem()`: `key = next(iter(self))` (empty: KeyError), `del self[key]` -/
def popItem (E : Env) (n : Net) : Net × Bool :=
  match n.keys with
  | [] => (n, false)
  | k :: _ => delNode E n k

def popItemKeyErr (E : Env) (n : Net) : Bool :=
  match n.keys with
  | [] => true
  | k :: _ => delKeyErr E n k

/-- `network.clear()`: `popitem()` until it raises `KeyError`, which is swallowed — the `KeyError`
    of the empty mapping, but also one coming out of `remove_network`; any other exception
    propagates.  `fuel` bounds the loop (`clear_fuel` in the proofs: `keys.length + 1` is enough). -/
def clearLoop (E : Env) : Nat → Net → Net × Bool
  | 0, n => (n, true)
  | fuel + 1, n =>
    let r := popItem E n
    if r.2 then clearLoop E fuel r.1
    else (r.1, popItemKeyErr E n)

def clearNodes (E : Env) (n : Net) : Net × Bool := clearLoop E (n.keys.length + 1) n

/-- `network.update(other)`: `self[node.id] = node` for the items in turn; the first one that
    raises ends it -/
def updateNodes (E : Env) : Net → List Nat → Net × Bool
  | n, [] => (n, true)
  | n, o :: r =>
    let a := setNode E n o
    if a.2 then updateNodes E a.1 r else (a.1, false)

/-- number of items of `update` stored before it returned or raised -/
def updateDone (E : Env) : Net → List Nat → Nat
  | _, [] => 0
  | n, o :: r =>
    let a := setNode E n o
    if a.2 then updateDone E a.1 r + 1 else 0

/-- `network.setdefault(node.id, node)`: an occupied node id keeps its node -/
def setDefault (E : Env) (n : Net) (o : Nat) : Net × Bool :=
  match n.nodes (E.nid o) with
  | some _ => (n, true)
  | none => setNode E n o

/-- `RemoteNode.add_sdo(rx, tx)`; a LocalNode has no such method (AttributeError) -/
def addSdo (E : Env) (n : Net) (o : Nat) (tx : Nat) : Net × Bool :=
  if E.isLocal o then (n, false)
  else
    let k := (chans E n.extra o).length
    let subs := if n.nodes (E.nid o) = some o            -- `has_network()`
                then subscribe n.subs tx (.node o (.sdoResponse k)) else n.subs
    ({ n with subs := subs, extra := n.extra ++ [(o, tx)] }, true)

inductive Op where
  | subscribe (id : Nat) (cb : Cb)
  | unsubscribe (id : Nat) (cb : Option Cb)
  | setNode (o : Nat)
  | delNode (nid : Nat)
  | addSdo (o : Nat) (tx : Nat)
  | notify (f : Frame)
  | receive (m : BusMsg)
  | scanReset
  | popNode (nid : Nat) (dflt : Bool)
  | popItem
  | clear
  | update (os : List Nat)
  | setDefault (o : Nat)
deriving Repr, DecidableEq

/-- what a mapping method hands back -/
inductive Ret where
  | nothing
  | obj (o : Nat)              -- a node object
  | item (nid o : Nat)         -- `popitem`: (key, node object)
  | dflt                       -- the default given to `pop`
  | stored (k : Nat)           -- `update`: items stored before it raised
deriving Repr, DecidableEq

/-- the value returned by a successful call (for `update`: how far a failing call got) -/
def ret (E : Env) (n : Net) : Op → Ret
  | .popNode nid _ => match n.nodes nid with | some o => .obj o | none => .dflt
  | .popItem => match n.keys with
    | [] => .nothing
    | k :: _ => match n.nodes k with | some o => .item k o | none => .nothing
  | .update os => .stored (updateDone E n os)
  | .setDefault o => .obj ((n.nodes (E.nid o)).getD o)
  | _ => .nothing

def step (E : Env) (n : Net) : Op → Net × Out
  | .subscribe id cb => ({ n with subs := subscribe n.subs id cb }, ⟨true, []⟩)
  | .unsubscribe id cb =>
    match unsubscribe n.subs id cb with
    | none => (n, ⟨false, []⟩)
    | some s => ({ n with subs := s }, ⟨true, []⟩)
  | .setNode o => let r := setNode E n o; (r.1, ⟨r.2, []⟩)
  | .delNode nid => let r := delNode E n nid; (r.1, ⟨r.2, []⟩)
  | .addSdo o tx => let r := addSdo E n o tx; (r.1, ⟨r.2, []⟩)
  | .notify f => notify E n f
  | .receive m => receive E n m
  | .scanReset => ({ n with scan := [] }, ⟨true, []⟩)
  | .popNode nid d => let r := popNode E n nid d; (r.1, ⟨r.2, []⟩)
  | .popItem => let r := popItem E n; (r.1, ⟨r.2, []⟩)
  | .clear => let r := clearNodes E n; (r.1, ⟨r.2, []⟩)
  | .update os => let r := updateNodes E n os; (r.1, ⟨r.2, []⟩)
  | .setDefault o => let r := setDefault E n o; (r.1, ⟨r.2, []⟩)

/-- a whole history: final state and one output per operation -/
def run (E : Env) (n : Net) : List Op → Net × List Out
  | [] => (n, [])
  | op :: r =>
    let a := step E n op
    let b := run E a.1 r
    (b.1, a.2 :: b.2)

end Canopen.Net
