/-
PDO configuration history of a `BaseNode402` object and its cache of TPDO-carried objects (C19).

Transcribes, of canopen/profiles/p402.py: `setup_402_state_machine`, `setup_pdos`, `_init_tpdo_values`,
`on_TPDOs_update_callback`, the `statusword` getter's cache look-up and the choice of the TPDO that
`check_statusword` / the `op_mode` getter wait for (`tpdo_pointers[index].pdo_parent`); of canopen/pdo/base.py:
what `PdoMap.read`, `clear`/`add_variable`, `save`, `subscribe`, `add_callback` and `on_message` do to the
list of `PdoVariable` objects of a map, its `enabled` flag, its callbacks and its subscription.

`PdoVariable` objects have an identity (`oid`): `read()` and `clear()`+`add_variable()` build NEW objects, the
entries of `tpdo_pointers` keep referring to the ones seen first.  The cache `tpdo_values` is keyed by the object
index and written by the callback for every variable of the map that received a frame - whichever object that is.

Two TPDOs; the drive's side (`DriveCfg`) says which of them it transmits and what they carry.  The
applications's re-mappings are the four layouts of `Layout`.
-/
namespace Canopen.P402

/-- a `PdoVariable` object: the index it carries, its identity -/
structure PVar where
  idx : Nat
  oid : Nat
deriving DecidableEq, Repr

/-- a TPDO map of the node object (`node.tpdo[k]`) -/
structure TMap where
  enabled : Bool
  vars : List PVar
  /-- `len(callbacks)`: every `_init_tpdo_values` adds `on_TPDOs_update_callback` once more -/
  callbacks : Nat
  /-- `on_message` registered with the network for the COB-ID -/
  subscribed : Bool
deriving DecidableEq, Repr

structure NodeCfg where
  t1 : TMap
  t2 : TMap
  /-- `tpdo_values` -/
  values : List (Nat × Nat)
  /-- `tpdo_pointers`: index ↦ (number of the map that is the variable's `pdo_parent`, identity of the variable) -/
  ptrs : List (Nat × Nat × Nat)
  nextId : Nat
deriving DecidableEq, Repr

/-- what the drive transmits: per TPDO `none` = switched off, else the indices mapped -/
structure DriveCfg where
  d1 : Option (List Nat)
  d2 : Option (List Nat)
deriving DecidableEq, Repr

structure PdoCfg where
  node : NodeCfg
  drive : DriveCfg
deriving DecidableEq, Repr

def SW_INDEX : Nat := 0x6041
def DISP_INDEX : Nat := 0x6061

def NodeCfg.tmap (c : NodeCfg) (k : Nat) : TMap := if k = 1 then c.t1 else c.t2
def DriveCfg.tx (d : DriveCfg) (k : Nat) : Option (List Nat) := if k = 1 then d.d1 else d.d2

/-! ### dict helpers -/

def getV : List (Nat × Nat) → Nat → Option Nat
  | [], _ => none
  | (j, w) :: r, i => if j = i then some w else getV r i

def setV : List (Nat × Nat) → Nat → Nat → List (Nat × Nat)
  | [], i, v => [(i, v)]
  | (j, w) :: r, i, v => if j = i then (i, v) :: r else (j, w) :: setV r i v

def getP : List (Nat × Nat × Nat) → Nat → Option (Nat × Nat)
  | [], _ => none
  | (j, w) :: r, i => if j = i then some w else getP r i

/-! ### the PDO layer -/

/-- fresh `PdoVariable` objects for a mapping -/
def mkVars : List Nat → Nat → List PVar
  | [], _ => []
  | i :: r, n => ⟨i, n⟩ :: mkVars r (n + 1)

/-- `PdoMap.read()`: enabled flag and mapping as the drive has them, NEW variable objects, subscription when enabled -/
def mapRead (m : TMap) (d : Option (List Nat)) (next : Nat) : TMap :=
  match d with
  | none => { enabled := false, vars := [], callbacks := m.callbacks, subscribed := m.subscribed }
  | some idxs => { enabled := true, vars := mkVars idxs next, callbacks := m.callbacks, subscribed := true }

def txLen (d : Option (List Nat)) : Nat :=
  match d with
  | none => 0
  | some idxs => idxs.length

/-- `node.tpdo.read()` -/
def readTpdos (c : PdoCfg) : PdoCfg :=
  { c with node := { c.node with
      t1 := mapRead c.node.t1 c.drive.d1 c.node.nextId,
      t2 := mapRead c.node.t2 c.drive.d2 (c.node.nextId + txLen c.drive.d1),
      nextId := c.node.nextId + txLen c.drive.d1 + txLen c.drive.d2 } }

/-- `PdoMap.subscribe()` -/
def mapSubscribe (m : TMap) : TMap := { m with subscribed := m.subscribed || m.enabled }

/-- the application's side of a re-mapping: `clear()`, `add_variable()` for every object, `enabled`, `save()` -/
def mapSet (m : TMap) (d : Option (List Nat)) (next : Nat) : TMap :=
  match d with
  | none => { enabled := false, vars := [], callbacks := m.callbacks, subscribed := m.subscribed }
  | some idxs => { enabled := true, vars := mkVars idxs next, callbacks := m.callbacks, subscribed := true }

/-! ### the profile -/

/-- inner loop of `_init_tpdo_values` over the variables of map `k` -/
def initVars (k : Nat) : List PVar → List (Nat × Nat) × List (Nat × Nat × Nat) → List (Nat × Nat) × List (Nat × Nat × Nat)
  | [], acc => acc
  | v :: r, (vals, ptrs) =>
    if (getV vals v.idx).isSome then initVars k r (vals, ptrs)
    else initVars k r (vals ++ [(v.idx, 0)], ptrs ++ [(v.idx, k, v.oid)])

def addCallback (m : TMap) : TMap := if m.enabled then { m with callbacks := m.callbacks + 1 } else m

def initOf (k : Nat) (m : TMap) (acc : List (Nat × Nat) × List (Nat × Nat × Nat)) :=
  if m.enabled then initVars k m.vars acc else acc

/-- `_init_tpdo_values` -/
def initTpdoValues (c : NodeCfg) : NodeCfg :=
  { c with
    t1 := addCallback c.t1,
    t2 := addCallback c.t2,
    values := (initOf 2 c.t2 (initOf 1 c.t1 (c.values, c.ptrs))).1,
    ptrs := (initOf 2 c.t2 (initOf 1 c.t1 (c.values, c.ptrs))).2 }

/-- `setup_pdos(upload=False)` -/
def setupLocal (c : PdoCfg) : PdoCfg :=
  { c with node := initTpdoValues { c.node with t1 := mapSubscribe c.node.t1, t2 := mapSubscribe c.node.t2 } }

/-- `setup_pdos(upload=True)`, `setup_402_state_machine()` (its three checks only log) -/
def setupUpload (c : PdoCfg) : PdoCfg :=
  let c' := readTpdos c
  { c' with node := initTpdoValues c'.node }

inductive Layout where
  /-- statusword and mode display in TPDO1, TPDO2 off (the configuration at the start) -/
  | l1
  /-- statusword in both TPDOs -/
  | l2
  /-- statusword moved to TPDO2, TPDO1 keeps the mode display -/
  | l3
  /-- both moved to TPDO2, TPDO1 switched off -/
  | l4
deriving DecidableEq, Repr

def Layout.drive : Layout → DriveCfg
  | .l1 => ⟨some [SW_INDEX, DISP_INDEX], none⟩
  | .l2 => ⟨some [SW_INDEX, DISP_INDEX], some [SW_INDEX]⟩
  | .l3 => ⟨some [DISP_INDEX], some [SW_INDEX]⟩
  | .l4 => ⟨none, some [SW_INDEX, DISP_INDEX]⟩

inductive CfgOp where
  | setupLocal | setupUpload | machine | readT | readR | readAll
  /-- the application re-maps (node object, then `save()` to the drive) and calls `setup_pdos(upload=False)` -/
  | remap (l : Layout)
deriving DecidableEq, Repr

def remap (l : Layout) (c : PdoCfg) : PdoCfg :=
  setupLocal
    { node := { c.node with
        t1 := mapSet c.node.t1 l.drive.d1 c.node.nextId,
        t2 := mapSet c.node.t2 l.drive.d2 (c.node.nextId + txLen l.drive.d1),
        nextId := c.node.nextId + txLen l.drive.d1 + txLen l.drive.d2 },
      drive := l.drive }

def cfgStep (c : PdoCfg) : CfgOp → PdoCfg
  | .setupLocal => setupLocal c
  | .setupUpload => setupUpload c
  | .machine => setupUpload c
  | .readT => readTpdos c
  | .readR => c
  | .readAll => readTpdos c
  | .remap l => remap l c

def runCfg (c : PdoCfg) (ops : List CfgOp) : PdoCfg := ops.foldl cfgStep c

/-- the node object of the rig before any history: TPDO1 mapped locally (two `add_variable`), `setup_pdos(upload=False)` -/
def PdoCfg.start : PdoCfg :=
  setupLocal
    { node := { t1 := { enabled := true, vars := mkVars [SW_INDEX, DISP_INDEX] 0, callbacks := 0, subscribed := false },
                t2 := { enabled := false, vars := [], callbacks := 0, subscribed := false },
                values := [], ptrs := [], nextId := 2 },
      drive := Layout.l1.drive }

/-! ### reception -/

/-- `on_TPDOs_update_callback` for one received frame of a map: every variable of the map, whichever object it is,
    stores the frame's field under its index (`field i` = what the frame shows for index `i`) -/
def storeFields (field : Nat → Nat) : List PVar → List (Nat × Nat) → List (Nat × Nat)
  | [], vals => vals
  | v :: r, vals => storeFields field r (setV vals v.idx (field v.idx))

/-- a frame of TPDO `k` arrives (`PdoMap.on_message` + callbacks; registered several times the callback
    stores the same values again) -/
def recvFrame (c : NodeCfg) (k : Nat) (field : Nat → Nat) : NodeCfg :=
  if (c.tmap k).subscribed && decide ((c.tmap k).callbacks > 0) then
    { c with values := storeFields field (c.tmap k).vars c.values }
  else c

/-- one transmission cycle of the drive: every TPDO it transmits, lowest number first, same sample -/
def receiveCycle (c : PdoCfg) (field : Nat → Nat) : NodeCfg :=
  let n1 := if c.drive.d1.isSome then recvFrame c.node 1 field else c.node
  if c.drive.d2.isSome then recvFrame n1 2 field else n1

/-- the `statusword` getter: the cache, else (index never seen in an enabled TPDO) the SDO fallback -/
def statuswordOf (c : NodeCfg) (sdo : Nat) : Nat :=
  match getV c.values SW_INDEX with
  | some v => v
  | none => sdo

/-- does the TPDO that `check_statusword` (and the `op_mode` getter for `idx = DISP_INDEX`) waits for ever come?
    `none` = the index has no pointer: the profile does not wait but uses SDO -/
def waitServed (c : PdoCfg) (idx : Nat) : Option Bool :=
  match getP c.node.ptrs idx with
  | none => none
  | some (k, _) => some (c.drive.tx k).isSome

/-- the profile's PDO transport behaves as the transition model's `pdo = true` assumes: statusword and mode display
    are cached and the TPDOs waited for are transmitted -/
def pdoServed (c : PdoCfg) : Bool :=
  (getV c.node.values SW_INDEX).isSome && (getV c.node.values DISP_INDEX).isSome &&
  waitServed c SW_INDEX == some true && waitServed c DISP_INDEX == some true

end Canopen.P402
