import CanopenModel.Lss
import CanopenModel.Spec.LssSlave
namespace Canopen.Driver.C18
open Canopen Canopen.Lss

/-! Driver peer: an optional CiA 305 slave, a set of request numbers whose answers get lost, and a
    script of extra frames put on the bus after the k-th request (a scripted replier when there is
    no slave).  It also records every exchange (request, frames delivered). -/
structure DPeer where
  slave : Option Spec.Lss.Slave
  drops : List Nat
  script : List (List Frame)
  count : Nat
  log : List (Frame × List Frame)

def dstep (p : DPeer) (f : Frame) : DPeer × List Frame :=
  let (sl, out) : Option Spec.Lss.Slave × List Frame := match p.slave with
    | some s => let r := Spec.Lss.step s f; (some r.1, if p.drops.contains p.count then [] else r.2)
    | none => (none, [])
  let out := out ++ p.script.headD []
  ({ slave := sl, drops := p.drops, script := p.script.drop 1, count := p.count + 1,
     log := p.log ++ [(f, out)] }, out)

/-! ### parsing -/

def parseHexNat (s : String) : Option Nat :=
  if s.isEmpty then none else
  s.toList.foldlM (fun acc c => (hexVal c).map (acc * 16 + ·)) 0

def hexNat (n : Nat) : String := String.ofList (Nat.toDigits 16 n)

def parseFrame (s : String) : Option Frame :=
  match s.splitOn "." with
  | [i, d] => do
      let id ← parseHexNat i
      let data ← parseHex d
      pure (id, data)
  | _ => none

/-- `-` or frames joined by `+` -/
def parseFrames (s : String) : Option (List Frame) :=
  if s = "-" then some [] else (s.splitOn "+").mapM parseFrame

def parseScript (s : String) : Option (List (List Frame)) :=
  if s = "-" then some [] else (s.splitOn "/").mapM parseFrames

def parseSlave (s : String) : Option (Option Spec.Lss.Slave) :=
  if s = "-" then some none else
  match parseNatList s with
  | some [v, p, r, sn, storeErr, config, nodeId, pending, pos, sel, idr] =>
    some (some { ident := ⟨v, p, r, sn⟩, storeErr := storeErr, config := config != 0, nodeId := nodeId,
                 pending := pending, pos := pos, sel := sel, idr := idr, bitIdx := none,
                 stored := none, activated := none })
  | _ => none

inductive Action where
  | call (c : Call)
  | rx (frames : List Frame)

def parseAction (s : String) : Option Action :=
  match s.splitOn ":" with
  | ["fs"] => some (.call .fastScan)
  | ["inid"] => some (.call .inquireNodeId)
  | ["store"] => some (.call .store)
  | ["idn"] => some (.call .identifyNonConfigured)
  | ["sg", a] => a.toNat?.map fun m => .call (.switchGlobal m)
  | ["iaddr", a] => a.toNat?.map fun m => .call (.inquireAddress m)
  | ["cnid", a] => a.toNat?.map fun m => .call (.configureNodeId m)
  | ["cbt", a] => a.toNat?.map fun m => .call (.configureBitTiming m)
  | ["abt", a] => a.toNat?.map fun m => .call (.activateBitTiming m)
  | ["sel", a] => match parseNatList a with
      | some [v, p, r, s] => some (.call (.selective v p r s))
      | _ => none
  | ["idr", a] => match parseNatList a with
      | some [v, p, rl, rh, sl, sh] => some (.call (.identifyRemote v p rl rh sl sh))
      | _ => none
  | ["rx", a] => (parseFrames a).map .rx
  | _ => none

/-! ### printing -/

def showFrame (f : Frame) : String := s!"{hexNat f.1}.{toHex f.2}"

def showFrames (fs : List Frame) : String :=
  if fs.isEmpty then "-" else String.intercalate "+" (fs.map showFrame)

def showRet : Except Err Ret → String
  | .error .lss => "lss"
  | .error .other => "other"
  | .ok .unit => "ok"
  | .ok (.nat n) => s!"ok:{n}"
  | .ok (.bool b) => if b then "ok:T" else "ok:F"
  | .ok (.scan b ids) =>
      s!"ok:{if b then "T" else "F"}:{match ids with | some l => showNatList l | none => "-"}"

def showExchanges (l : List (Frame × List Frame)) : String :=
  String.intercalate "," (l.map fun e => s!"{showFrame e.1}>{showFrames e.2}")

def showOptNat : Option Nat → String
  | some n => toString n
  | none => "-"

def showSlave : Option Spec.Lss.Slave → String
  | none => "none"
  | some s =>
    let stored := match s.stored with
      | some (n, b) => s!"{n}/{showOptNat b}"
      | none => "-"
    s!"S:{showBool s.config},{s.nodeId},{s.pending},{s.pos},{s.sel},{s.idr},{showOptNat s.bitIdx},{stored},{showOptNat s.activated}"

/-! ### running a history -/

def runActions : List Action → MSt DPeer → List String → MSt DPeer × List String
  | [], st, acc => (st, acc)
  | .rx frames :: rest, st, acc => runActions rest (deliver st frames) (acc ++ ["rx"])
  | .call c :: rest, st, acc =>
    let n := st.peer.log.length
    let r := runCall dstep st c
    runActions rest r.1 (acc ++ [s!"{showRet r.2}[{showExchanges (r.1.peer.log.drop n)}]"])

def runHist (slave : Option Spec.Lss.Slave) (drops : List Nat) (script : List (List Frame))
    (stale : List Frame) (acts : List Action) : String :=
  let st0 : MSt DPeer := { peer := { slave := slave, drops := drops, script := script, count := 0, log := [] },
                           queue := [], sent := [] }
  let r := runActions acts (deliver st0 stale) []
  -- the master's own log of sent frames must be what the bus saw
  let same := r.1.sent == r.1.peer.log.map (·.1)
  s!"{String.intercalate " " r.2} # {showSlave r.1.peer.slave}{if same then "" else " LOG-DIFFERS"}"

def stepHist : List String → String
  | sl :: dr :: sc :: stale :: acts =>
    match parseSlave sl, parseNatList dr, parseScript sc, parseFrames stale, acts.mapM parseAction with
    | some sl, some dr, some sc, some stale, some acts => runHist sl dr sc stale acts
    | _, _, _, _, _ => "bad-op"
  | _ => "bad-op"

/-- ops: `fs v p r s` (fast scan against a fresh unconfigured slave with that identity);
    `hist slave drops script stale action…` -/
def step (args : List String) : String :=
  match args with
  | ["fs", v, p, r, s] =>
    match v.toNat?, p.toNat?, r.toNat?, s.toNat? with
    | some v, some p, some r, some s =>
        runHist (some (Spec.Lss.Slave.fresh ⟨v, p, r, s⟩)) [] [] [] [.call .fastScan]
    | _, _, _, _ => "bad-op"
  | "hist" :: rest => stepHist rest
  | "thist" :: rest => stepHist rest          -- threaded delivery on the Python side, same model
  | _ => "bad-op"

end Canopen.Driver.C18
