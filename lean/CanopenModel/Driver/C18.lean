import CanopenModel.Lss
import CanopenModel.Spec.LssSlave
namespace Canopen.Driver.C18
open Canopen Canopen.Lss

/-! Driver peer: an optional CiA 305 slave, a set of request numbers whose answers get lost, and a
    script of extra frames put on the bus after the k-th request (a scripted replier when there is
    no slave).  It also records every exchange (request, frames delivered). -/
structure DPeer where
  slave : Option Spec.Lss.Slave
  drops : List Nat
  script : List (List Frame)
  count : Nat
  log : List (Frame × List Frame)

def dstep (p : DPeer) (f : Frame) : DPeer × List Frame :=
  let (sl, out) : Option Spec.Lss.Slave × List Frame := match p.slave with
    | some s => let r := Spec.Lss.step s f; (some r.1, if p.drops.contains p.count then [] else r.2)
    | none => (none, [])
  let out := out ++ p.script.headD []
  ({ slave := sl, drops := p.drops, script := p.script.drop 1, count := p.count + 1,
     log := p.log ++ [(f, out)] }, out)

/-! ### parsing -/

def parseHexNat (s : String) : Option Nat :=
  if s.isEmpty then none else
  s.toList.foldlM (fun acc c => (hexVal c).map (acc * 16 + ·)) 0

def hexNat (n : Nat) : String := String.ofList (Nat.toDigits 16 n)

def parseFrame (s : String) : Option Frame :=
  match s.splitOn "." with
  | [i, d] => do
      let id ← parseHexNat i
      let data ← parseHex d
      pure (id, data)
  | _ => none

/-- `-` or frames joined by `+` -/
def parseFrames (s : String) : Option (List Frame) :=
  if s = "-" then some [] else (s.splitOn "+").mapM parseFrame

def parseScript (s : String) : Option (List (List Frame)) :=
  if s = "-" then some [] else (s.splitOn "/").mapM parseFrames

def parseSlave (s : String) : Option (Option Spec.Lss.Slave) :=
  if s = "-" then some none else
  match parseNatList s with
  | some [v, p, r, sn, storeErr, config, nodeId, pending, pos, sel, idr] =>
    some (some { ident := ⟨v, p, r, sn⟩, storeErr := storeErr, config := config != 0, nodeId := nodeId,
                 pending := pending, pos := pos, sel := sel, idr := idr, bitIdx := none,
                 stored := none, activated := none })
  | _ => none

inductive Action where
  | call (c : Call)
  | rx (frames : List Frame)

def parseAction (s : String) : Option Action :=
  match s.splitOn ":" with
  | ["fs"] => some (.call .fastScan)
  | ["inid"] => some (.call .inquireNodeId)
  | ["store"] => some (.call .store)
  | ["idn"] => some (.call .identifyNonConfigured)
  | ["sg", a] => a.toNat?.map fun m => .call (.switchGlobal m)
  | ["iaddr", a] => a.toNat?.map fun m => .call (.inquireAddress m)
  | ["cnid", a] => a.toNat?.map fun m => .call (.configureNodeId m)
  | ["cbt", a] => a.toNat?.map fun m => .call (.configureBitTiming m)
  | ["abt", a] => a.toNat?.map fun m => .call (.activateBitTiming m)
  | ["sel", a] => match parseNatList a with
      | some [v, p, r, s] => some (.call (.selective v p r s))
      | _ => none
  | ["idr", a] => match parseNatList a with
      | some [v, p, rl, rh, sl, sh] => some (.call (.identifyRemote v p rl rh sl sh))
      | _ => none
  | ["rx", a] => (parseFrames a).map .rx
  | _ => none

/-! ### printing -/

def showFrame (f : Frame) : String := s!"{hexNat f.1}.{toHex f.2}"

def showFrames (fs : List Frame) : String :=
  if fs.isEmpty then "-" else String.intercalate "+" (fs.map showFrame)

def showRet : Except Err Ret → String
  | .error .lss => "lss"
  | .error .other => "other"
  | .ok .unit => "ok"
  | .ok (.nat n) => s!"ok:{n}"
  | .ok (.bool b) => if b then "ok:T" else "ok:F"
  | .ok (.scan b ids) =>
      s!"ok:{if b then "T" else "F"}:{match ids with | some l => showNatList l | none => "-"}"

def showExchanges (l : List (Frame × List Frame)) : String :=
  String.intercalate "," (l.map fun e => s!"{showFrame e.1}>{showFrames e.2}")

def showOptNat : Option Nat → String
  | some n => toString n
  | none => "-"

def showSlave : Option Spec.Lss.Slave → String
  | none => "none"
  | some s =>
    let stored := match s.stored with
      | some (n, b) => s!"{n}/{showOptNat b}"
      | none => "-"
    s!"S:{showBool s.config},{s.nodeId},{s.pending},{s.pos},{s.sel},{s.idr},{showOptNat s.bitIdx},{stored},{showOptNat s.activated}"

/-! ### running a history -/

/-- `step` is the peer the master talks to, `logOf` its record of the exchanges, `post` what happens
    between the return of a call and the next action (nothing on the synchronous bus) -/
def runActions {σ : Type} (step : PeerStep σ) (logOf : σ → List (Frame × List Frame))
    (post : MSt σ → MSt σ) : List Action → MSt σ → List String → MSt σ × List String
  | [], st, acc => (st, acc)
  | .rx frames :: rest, st, acc => runActions step logOf post rest (deliver st frames) (acc ++ ["rx"])
  | .call c :: rest, st, acc =>
    let n := (logOf st.peer).length
    let r := runCall step st c
    runActions step logOf post rest (post r.1)
      (acc ++ [s!"{showRet r.2}[{showExchanges ((logOf r.1.peer).drop n)}]"])

def finish (sent : List Frame) (p : DPeer) (toks : List String) : String :=
  -- the master's own log of sent frames must be what the bus saw
  let same := sent == p.log.map (·.1)
  s!"{String.intercalate " " toks} # {showSlave p.slave}{if same then "" else " LOG-DIFFERS"}"

def peer0 (slave : Option Spec.Lss.Slave) (drops : List Nat) (script : List (List Frame)) : DPeer :=
  { slave := slave, drops := drops, script := script, count := 0, log := [] }

def runHist (slave : Option Spec.Lss.Slave) (drops : List Nat) (script : List (List Frame))
    (stale : List Frame) (acts : List Action) : String :=
  let st0 : MSt DPeer := { peer := peer0 slave drops script, queue := [], sent := [] }
  let r := runActions dstep (·.log) id acts (deliver st0 stale) []
  finish r.1.sent r.1.peer r.2

def stepHist : List String → String
  | sl :: dr :: sc :: stale :: acts =>
    match parseSlave sl, parseNatList dr, parseScript sc, parseFrames stale, acts.mapM parseAction with
    | some sl, some dr, some sc, some stale, some acts => runHist sl dr sc stale acts
    | _, _, _, _, _ => "bad-op"
  | _ => "bad-op"

/-! ### histories with reply latency: `lhist tmo lats slave drops script stale action…`

`tmo` says how `RESPONSE_TIMEOUT` is set on the Python side (`d` class default, `i<ms>` on the
instance, `c<ms>` on the class); the model counts in percent of it (`T = 100` ticks).  `lats` is `-`
or `k:p,…`: the reaction to request `k` of the history arrives after `p` percent of the time-out
(`x`: never). -/

def ticks : Nat := 100

def parseTmo (s : String) : Bool :=
  if s = "d" then true else
  match s.toList with
  | c :: rest => (c == 'i' || c == 'c') && (match (String.ofList rest).toNat? with | some n => n > 0 | none => false)
  | [] => false

def parseLat (s : String) : Option (Nat × Option Nat) :=
  match s.splitOn ":" with
  | [k, p] => do
      let k ← k.toNat?
      if p = "x" then pure (k, none) else do
        let p ← p.toNat?
        pure (k, some p)
  | _ => none

def parseLats (s : String) : Option Latencies :=
  if s = "-" then some [] else (s.splitOn ",").mapM parseLat

def runLHist (lats : Latencies) (slave : Option Spec.Lss.Slave) (drops : List Nat)
    (script : List (List Frame)) (stale : List Frame) (acts : List Action) : String :=
  let st0 : MSt (Delayed DPeer) :=
    { peer := { inner := peer0 slave drops script, count := 0, late := [] }, queue := [], sent := [] }
  let r := runActions (delayedStep ticks lats dstep) (·.inner.log) settle acts (deliver st0 stale) []
  finish r.1.sent r.1.peer.inner r.2

def stepLHist : List String → String
  | tmo :: lats :: sl :: dr :: sc :: stale :: acts =>
    match parseTmo tmo, parseLats lats, parseSlave sl, parseNatList dr, parseScript sc, parseFrames stale,
      acts.mapM parseAction with
    | true, some lats, some sl, some dr, some sc, some stale, some acts => runLHist lats sl dr sc stale acts
    | _, _, _, _, _, _, _ => "bad-op"
  | _ => "bad-op"

/-- ops: `fs v p r s` (fast scan against a fresh unconfigured slave with that identity);
    `hist slave drops script stale action…`; `lhist tmo lats slave drops script stale action…` -/
def step (args : List String) : String :=
  match args with
  | ["fs", v, p, r, s] =>
    match v.toNat?, p.toNat?, r.toNat?, s.toNat? with
    | some v, some p, some r, some s =>
        runHist (some (Spec.Lss.Slave.fresh ⟨v, p, r, s⟩)) [] [] [] [.call .fastScan]
    | _, _, _, _ => "bad-op"
  | "hist" :: rest => stepHist rest
  | "thist" :: rest => stepHist rest          -- threaded delivery on the Python side, same model
  | "lhist" :: rest => stepLHist rest
  | _ => "bad-op"

end Canopen.Driver.C18
