import CanopenModel.Sdo.Client
import CanopenModel.Spec.SdoServer
namespace Canopen.Driver.C01
open Canopen Canopen.Sdo Canopen.Spec

/-- peer = strict spec server, logging every response it gives -/
abbrev PS := SS × List Bytes

def peer : Peer PS := fun (s, log) req =>
  let (s', rs) := ssStep s req
  ((s', log ++ rs), rs)

def showErr : CErr → String
  | .comm => "err comm"
  | .aborted c => s!"err aborted {c}"
  | .runtime => "err other"
  | .assertion => "err other"
  | .other => "err other"

def showFrames (fs : List Bytes) : String :=
  if fs.isEmpty then "-" else String.intercalate "," (fs.map toHex)

def showCommits (cs : List ((Nat × Nat) × Bytes)) : String :=
  if cs.isEmpty then "-" else String.intercalate "&" (cs.map fun ((i, j), b) => s!"{i}.{j}={toHex b}")

def showIllegal : Option String → String
  | none => "-"
  | some w => w.replace " " "_"

/-- one transfer spec: `d:idx:sub:hex:sized:force:offers` or `u:idx:sub:odtype` -/
inductive Xfer where
  | down (idx sub : Nat) (data : Bytes) (sized force : Bool) (offers : List Nat)
  | up (idx sub : Nat) (odType : Option (Option Nat))

def parseOdType (s : String) : Option (Option (Option Nat)) :=
  if s = "x" then some none else if s = "n" then some (some none) else s.toNat?.map (fun t => some (some t))

def parseXfer (s : String) : Option Xfer :=
  match s.splitOn ":" with
  | ["d", i, j, h, sz, f, o] => do
    let i ← i.toNat?; let j ← j.toNat?; let h ← parseHex h; let sz ← parseBool sz; let f ← parseBool f
    let o ← parseNatList o
    pure (.down i j h sz f o)
  | ["u", i, j, t] => do
    let i ← i.toNat?; let j ← j.toNat?; let t ← parseOdType t
    pure (.up i j t)
  | _ => none

def parseHeld (s : String) : Option (List ((Nat × Nat) × Bytes)) :=
  if s = "-" then some [] else
  (s.splitOn "&").mapM fun e =>
    match e.splitOn "=" with
    | [k, v] => (match k.splitOn "." with
      | [i, j] => do let i ← i.toNat?; let j ← j.toNat?; let v ← parseHex v; pure ((i, j), v)
      | _ => none)
    | _ => none

def runXfer (c : Chan PS) (x : Xfer) : Chan PS × String :=
  match x with
  | .down i j d sz f o =>
    match download peer c i j d sz f o with
    | (c', .ok _) => (c', "ok")
    | (c', .error e) => (c', showErr e)
  | .up i j t =>
    match upload peer c i j t 100000 with
    | (c', .ok d) => (c', s!"ok {toHex d}")
    | (c', .error e) => (c', showErr e)

def runAll : Chan PS → List Xfer → List String → Chan PS × List String
  | c, [], acc => (c, acc)
  | c, x :: xs, acc => let (c', r) := runXfer c x; runAll c' xs (acc ++ [r])

/-- `seq <held> <sizeInd> <exp> <expSize> <cuts> <mode> <xfer;xfer;…>`
    → `results | reqs | resps | commits | illegal` (the `mode` token only matters to the harness) -/
def step (args : List String) : String :=
  match args with
  | ["seq", held, si, ex, es, cuts, _mode, xs] =>
    match parseHeld held, parseBool si, parseBool ex, parseBool es, parseNatList cuts, (xs.splitOn ";").mapM parseXfer with
    | some held, some si, some ex, some es, some cuts, some xs =>
      let s0 := ssInit held { sizeIndicated := si, expedited := ex, expSize := es, cuts := cuts }
      let c0 : Chan PS := { peer := (s0, []), queue := [], sent := [] }
      let (c, rs) := runAll c0 xs []
      s!"{String.intercalate ";" rs} | {showFrames c.sent} | {showFrames c.peer.2} | {showCommits c.peer.1.commits} | {showIllegal c.peer.1.illegal}"
    | _, _, _, _, _, _ => "bad-op"
  | _ => "bad-op"

end Canopen.Driver.C01
