import CanopenModel.Sdo.Client
import CanopenModel.Sdo.ReadInto
import CanopenModel.Sdo.Text
import CanopenModel.Spec.SdoServer
namespace Canopen.Driver.C01
open Canopen Canopen.Sdo Canopen.Spec

/-- peer = strict spec server, logging every response it gives -/
abbrev PS := SS × List Bytes

def peer : Peer PS := fun (s, log) req =>
  let (s', rs) := ssStep s req
  ((s', log ++ rs), rs)

def showErr : CErr → String
  | .comm => "err comm"
  | .aborted c => s!"err aborted {c}"
  | .runtime => "err other"
  | .assertion => "err other"
  | .other => "err other"

def showFrames (fs : List Bytes) : String :=
  if fs.isEmpty then "-" else String.intercalate "," (fs.map toHex)

def showCommits (cs : List ((Nat × Nat) × Bytes)) : String :=
  if cs.isEmpty then "-" else String.intercalate "&" (cs.map fun ((i, j), b) => s!"{i}.{j}={toHex b}")

def showIllegal : Option String → String
  | none => "-"
  | some w => w.replace " " "_"

/-- one transfer spec: `d:idx:sub:hex:sized:force:offers` or `u:idx:sub:odtype` -/
inductive Xfer where
  | down (idx sub : Nat) (data : Bytes) (sized force : Bool) (offers : List Nat)
  | up (idx sub : Nat) (odType : Option (Option Nat))
  /-- an upload read through `readinto` with buffers of the given sizes (what `io.BufferedReader` did) -/
  | upInto (idx sub : Nat) (sizes : List Nat)

def parseOdType (s : String) : Option (Option (Option Nat)) :=
  -- `a<T>` / `r<T>`: declared through an array's template member / a record member of type T
  let s := if s.startsWith "a" ∨ s.startsWith "r" then (s.drop 1).toString else s
  if s = "x" then some none else if s = "n" then some (some none) else s.toNat?.map (fun t => some (some t))

def parseXfer (s : String) : Option Xfer :=
  match s.splitOn ":" with
  | ["d", i, j, h, sz, f, o] => do
    let i ← i.toNat?; let j ← j.toNat?; let h ← parseHex h; let sz ← parseBool sz; let f ← parseBool f
    let o ← parseNatList o
    pure (.down i j h sz f o)
  | ["u", i, j, t] => do
    let i ← i.toNat?; let j ← j.toNat?; let t ← parseOdType t
    pure (.up i j t)
  | ["u", i, j, _t, sizes] => do
    let i ← i.toNat?; let j ← j.toNat?; let sizes ← parseNatList sizes
    pure (.upInto i j sizes)
  | _ => none

def parseHeld (s : String) : Option (List ((Nat × Nat) × Bytes)) :=
  if s = "-" then some [] else
  (s.splitOn "&").mapM fun e =>
    match e.splitOn "=" with
    | [k, v] => (match k.splitOn "." with
      | [i, j] => do let i ← i.toNat?; let j ← j.toNat?; let v ← parseHex v; pure ((i, j), v)
      | _ => none)
    | _ => none

/-- `open(…, "rb", buffering=N)` read through `readinto` with the recorded buffer sizes:
    `ok <all bytes handed over>@<length handed over per call>` -/
def runInto {σ} (P : Peer σ) (c : Chan σ) (i j : Nat) (sizes : List Nat) : Chan σ × String :=
  match rsInit P c i j with
  | (c1, .error e) => (c1, showErr e)
  | (c1, .ok s) =>
    match rbRun P c1 { st := s, spare := [] } sizes with
    | (c2, .ok (_, ds)) =>
      (c2, s!"ok {toHex ds.flatten}@{String.intercalate "." (ds.map fun d => toString d.length)}")
    | (c2, .error e) => (c2, showErr e)

def runXfer (c : Chan PS) (x : Xfer) : Chan PS × String :=
  match x with
  | .upInto i j sizes => runInto peer c i j sizes
  | .down i j d sz f o =>
    match download peer c i j d sz f o with
    | (c', .ok _) => (c', "ok")
    | (c', .error e) => (c', showErr e)
  | .up i j t =>
    match upload peer c i j t 100000 with
    | (c', .ok d) => (c', s!"ok {toHex d}")
    | (c', .error e) => (c', showErr e)

def runAll : Chan PS → List Xfer → List String → Chan PS × List String
  | c, [], acc => (c, acc)
  | c, x :: xs, acc => let (c', r) := runXfer c x; runAll c' xs (acc ++ [r])

/-! ### text mode (`open(…, "w"/"r", encoding=…)`) -/

def parseHexNat (s : String) : Option Nat :=
  if s.isEmpty then none else s.toList.foldlM (fun acc c => (hexVal c).map (acc * 16 + ·)) 0

/-- a text as code points: `-` = the empty text, else hex numbers separated by `.` -/
def parseCps (s : String) : Option (List Nat) :=
  if s = "-" then some [] else (s.splitOn ".").mapM parseHexNat

/-- the texts handed to `write`, one per call: `_` = no call at all, else texts separated by `/` -/
def parseChunks (s : String) : Option (List (List Nat)) :=
  if s = "_" then some [] else (s.splitOn "/").mapM parseCps

def showCps (l : List Nat) : String :=
  if l.isEmpty then "-" else String.intercalate "." (l.map fun n => String.ofList (Nat.toDigits 16 n))

def parseEnc (s : String) : Option Enc :=
  if s = "ascii" then some .ascii else if s = "latin-1" then some .latin1
  else if s = "utf-8" then some .utf8 else none

def showTErr : TErr → String
  | .sdo e => showErr e
  | .unicode => "err unicode"

/-- one text transfer: `D:idx:sub:chunks:sized:force:offers` (download; `sized` declares the number of
    bytes that reach the stream) or `U:idx:sub:reads` (upload; `reads` = `-`: the reader read to the end,
    else the number of raw reads after which it stopped) -/
inductive TXfer where
  | down (idx sub : Nat) (chunks : List (List Nat)) (sized force : Bool) (offers : List Nat)
  | up (idx sub : Nat) (reads : Nat)

def parseReads (s : String) : Option Nat := if s = "-" then some 100000 else s.toNat?

def parseTXfer (s : String) : Option TXfer :=
  match s.splitOn ":" with
  | ["D", i, j, ch, sz, f, o] => do
    let i ← i.toNat?; let j ← j.toNat?; let ch ← parseChunks ch; let sz ← parseBool sz; let f ← parseBool f
    let o ← parseNatList o
    pure (.down i j ch sz f o)
  | ["U", i, j, k] => do
    let i ← i.toNat?; let j ← j.toNat?; let k ← parseReads k
    pure (.up i j k)
  | _ => none

def runTXfer (enc : Enc) (c : Chan PS) (x : TXfer) : Chan PS × String :=
  match x with
  | .down i j ch sz f o =>
    match textDownload peer c i j enc ch sz f o with
    | (c', .ok _) => (c', "ok")
    | (c', .error e) => (c', showTErr e)
  | .up i j k =>
    match textUpload peer c i j enc k with
    | (c', .ok s) => (c', s!"ok {showCps s}")
    | (c', .error e) => (c', showTErr e)

def runAllT (enc : Enc) : Chan PS → List TXfer → List String → Chan PS × List String
  | c, [], acc => (c, acc)
  | c, x :: xs, acc => let (c', r) := runTXfer enc c x; runAllT enc c' xs (acc ++ [r])

/-- `seq <held> <sizeInd> <exp> <expSize> <cuts> <mode> <xfer;xfer;…>`
    → `results | reqs | resps | commits | illegal` (the `mode` token only matters to the harness);
    `txt <held> <sizeInd> <exp> <expSize> <cuts> <encoding> <mode> <txfer;txfer;…>`: the same through text mode -/
def step (args : List String) : String :=
  match args with
  | ["txt", held, si, ex, es, cuts, enc, _mode, xs] =>
    match parseHeld held, parseBool si, parseBool ex, parseBool es, parseNatList cuts, parseEnc enc,
        (xs.splitOn ";").mapM parseTXfer with
    | some held, some si, some ex, some es, some cuts, some enc, some xs =>
      let s0 := ssInit held { sizeIndicated := si, expedited := ex, expSize := es, cuts := cuts }
      let c0 : Chan PS := { peer := (s0, []), queue := [], sent := [] }
      let (c, rs) := runAllT enc c0 xs []
      s!"{String.intercalate ";" rs} | {showFrames c.sent} | {showFrames c.peer.2} | {showCommits c.peer.1.commits} | {showIllegal c.peer.1.illegal}"
    | _, _, _, _, _, _, _ => "bad-op"
  | ["seq", held, si, ex, es, cuts, _mode, xs] =>
    match parseHeld held, parseBool si, parseBool ex, parseBool es, parseNatList cuts, (xs.splitOn ";").mapM parseXfer with
    | some held, some si, some ex, some es, some cuts, some xs =>
      let s0 := ssInit held { sizeIndicated := si, expedited := ex, expSize := es, cuts := cuts }
      let c0 : Chan PS := { peer := (s0, []), queue := [], sent := [] }
      let (c, rs) := runAll c0 xs []
      s!"{String.intercalate ";" rs} | {showFrames c.sent} | {showFrames c.peer.2} | {showCommits c.peer.1.commits} | {showIllegal c.peer.1.illegal}"
    | _, _, _, _, _, _ => "bad-op"
  | _ => "bad-op"

end Canopen.Driver.C01
