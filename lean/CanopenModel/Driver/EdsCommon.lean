/-
Line-protocol helpers shared by the C08 and C14 drivers: decoding of the parsed document and
canonical dump of a model dictionary (the Python side prints real objects in the same format).
-/
import CanopenModel.Bytes
import CanopenModel.Eds.Import

namespace Canopen.Driver.Eds
open Canopen Canopen.Eds

/-- hex of UTF-8 bytes → characters; the empty string is `-` -/
def hexToStr (s : String) : Option Str :=
  if s = "-" then some [] else
  match parseHexChars s.toList with
  | some bs =>
    (String.fromUTF8? (ByteArray.mk (bs.map UInt8.ofNat).toArray)).map String.toList
  | none => none

def parseOptInt (s : String) : Option (Option Int) :=
  if s = "none" then some none else s.toInt?.map some

/-- `name:k=v,k=v;name:…`, every string hex; `-` is the empty document -/
def parseDoc (s : String) : Option Doc :=
  if s = "-" then some [] else
  (s.splitOn ";").mapM fun secS =>
    match secS.splitOn ":" with
    | [n, body] => do
      let name ← hexToStr n
      let opts ← if body = "" then some [] else
        (body.splitOn ",").mapM fun kv =>
          match kv.splitOn "=" with
          | [k, v] => do pure ((← hexToStr k), (← hexToStr v))
          | _ => none
      pure { name := name, opts := opts }
    | _ => none

def hexNat (n : Nat) : String := String.ofList (natStr 16 false n)

/-- alphanumeric ASCII literally, anything else as `%<hex code point>.` -/
def esc (s : Str) : String :=
  String.join (s.map fun c => if c.isAlphanum then c.toString else "%" ++ hexNat c.toNat ++ ".")

def showOpt {α : Type} (f : α → String) : Option α → String
  | none => "~"
  | some a => f a

def showInt (i : Int) : String := toString i

def showValue : Value → String
  | .int i => s!"i{i}"
  | .bytes bs => s!"b{toHex bs}"
  | .str s => s!"s{esc s}"
  | .real t => s!"r({esc t})"

def showVar (v : Var) : String :=
  String.intercalate ";" [
    esc v.name, toString v.index, toString v.subindex, showInt v.dataType, esc v.accessType,
    showBool v.pdoMappable, showOpt showValue v.default, showOpt showValue v.value,
    showOpt showInt v.min, showOpt showInt v.max, showBool v.relative,
    showOpt (fun s => "=" ++ esc s) v.defaultRaw, showOpt (fun s => "=" ++ esc s) v.valueRaw,
    showOpt (fun s => "=" ++ esc s) v.storage, showOpt (fun t => s!"r({esc t})") v.factor,
    esc v.description, esc v.unit]

def strLt : Str → Str → Bool
  | [], [] => false
  | [], _ :: _ => true
  | _ :: _, [] => false
  | a :: r, b :: s => if a.toNat < b.toNat then true else if a.toNat > b.toNat then false else strLt r s

def insertBy {α : Type} (lt : α → α → Bool) (x : α) : List α → List α
  | [] => [x]
  | y :: r => if lt y x then y :: insertBy lt x r else x :: y :: r

def sortBy {α : Type} (lt : α → α → Bool) (l : List α) : List α := l.foldr (insertBy lt) []

def flag (b : Bool) : String := if b then "=" else "!"

/-- `=` same object, `!` another object, `x` exception -/
def look {α : Type} [DecidableEq α] (r : Option α) (expected : α) : String :=
  match r with
  | none => "x"
  | some a => flag (a = expected)

/-- the sub-indices every array is asked for when the operation does not name its own -/
def defaultProbes : List Nat := [2, 254, 255, 256]

/-- `2,20,21,254` → sub-indices to ask every array for -/
def parseProbes (s : String) : Option (List Nat) :=
  if s = "-" then some [] else (s.splitOn ",").mapM (·.toNat?)

def showColl (od : OD) (c : Coll) (probes : List Nat := defaultProbes) : String :=
  let subs := (sortBy (fun a b => a.1 < b.1) c.subs).map fun p => showVar p.2
  let names := (sortBy (fun a b => strLt a.1 b.1) c.names).map fun p =>
    s!"{esc p.1}>{p.2.subindex}{flag (dictGet p.2.subindex c.subs = some p.2)}"
  let probes := if c.isArray then
      "P[" ++ String.intercalate "|" (probes.map fun k => showOpt showVar (c.getItem (.idx k))) ++ "]"
    else "P[]"
  let memberLooks := (sortBy (fun a b => a.1 < b.1) c.subs).map fun p =>
    look (c.getItem (.name p.2.name)) p.2 ++
    look (od.getItem (.name (c.name ++ '.' :: p.2.name))) (.var p.2) ++
    look (c.getItem (.idx p.1)) p.2
  (if c.isArray then "A{" else "R{") ++
    String.intercalate ";" [esc c.name, toString c.index, showOpt (fun s => "=" ++ esc s) c.storage,
      "S[" ++ String.intercalate "|" subs ++ "]", "N[" ++ String.intercalate "," names ++ "]", probes,
      "M[" ++ String.join memberLooks ++ "]"] ++ "}"

def showObj (od : OD) (o : Obj) (probes : List Nat := defaultProbes) : String :=
  (match o with
   | .var v => "V{" ++ showVar v ++ "}"
   | .coll c => showColl od c probes) ++ "L" ++ look (od.getItem (.name o.name)) o

def showDevVal : DevVal → String
  | .str s => "s" ++ esc s
  | .int i => s!"i{i}"
  | .bool b => if b then "t" else "f"

def listOr (l : List String) (sep : String) : String := if l.isEmpty then "-" else sep.intercalate l

def showOD (od : OD) (probes : List Nat := defaultProbes) : String :=
  let objs := od.iter.filterMap fun i => (od.byIndex i).map (showObj od · probes)
  let names := (sortBy (fun a b => strLt a.1 b.1) od.names).map fun p =>
    match od.deref p.2 with
    | some o => s!"{esc p.1}>{o.index}{flag (dictGet o.index od.indices = some p.2)}"
    | none => "?"
  String.intercalate " " [
    "ok", "N=" ++ showOpt showInt od.nodeId, "B=" ++ showOpt showInt od.bitrate,
    "C=" ++ esc od.comments,
    "U=" ++ listOr ((sortNat od.bauds).map toString) ",",
    "D=" ++ listOr (od.devInfo.map fun p => esc p.1 ++ ":" ++ showDevVal p.2) ",",
    "F=" ++ showOpt (fun l => listOr (l.map fun p => esc p.1 ++ ":" ++ esc p.2) ",") od.fileInfo,
    "O=" ++ listOr objs "/",
    "T=" ++ listOr names ","]

def showResult (r : Option OD) (probes : List Nat := defaultProbes) : String :=
  match r with
  | some od => showOD od probes
  | none => "err"

end Canopen.Driver.Eds
