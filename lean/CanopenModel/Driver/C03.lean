import CanopenModel.Sdo.Pair
import CanopenModel.Sdo.Disturb
import CanopenModel.Driver.C02
import CanopenModel.Driver.C04
import CanopenModel.Od
namespace Canopen.Driver.C03
open Canopen Canopen.Codec Canopen.Sdo

def showErr : CErr → String
  | .comm => "err comm"
  | .aborted c => s!"err aborted {c}"
  | _ => "err other"

/-- the channel an operation starts on: fresh, or (`late-…`) after an earlier read of the entry whose
    response arrived only after the client had given up -/
def startChan (n0 : Node) (idx sub : Nat) (delivery : String) : Chan (Srv × Node) :=
  if delivery.startsWith "late" then
    let cd0 : Chan ((Srv × Node) × DState) :=
      { peer := ((srvInit, n0), { idx := 0, pending := [] }), queue := [], sent := [] }
    let cd1 := (upload (distPeer libPeer 0 .late) cd0 idx sub none 100000).1
    { peer := cd1.peer.1, queue := cd1.queue, sent := cd1.sent }
  else { peer := (srvInit, n0), queue := [], sent := [] }

/-- what is seen after the assignment: `stored bytes | remote read | local read | local upload` -/
def showAfter (c1 : Chan (Srv × Node)) (idx sub : Nat) (t : Option Nat) : String :=
  let stored := match lookup (idx, sub) c1.peer.2.store with
    | some b => toHex b
    | none => "none"
  let (c2, r2) := remoteGet c1 idx sub t 100000
  let loc := match localGet c2.peer.2 idx sub t with
    | some v => C04.showVal v
    | none => "err"
  let lraw := match localUpload c2.peer.2 idx sub with
    | some b => toHex b
    | none => "err"
  let s2 := match r2 with | .ok v => s!"ok {C04.showVal v}" | .error e => showErr e
  s!"{stored} | {s2} | {loc} | {lraw}"

def showSrvErr : Err → String
  | .abort c => s!"err aborted {c}"
  | .generic => "err other"

/-- `typed <od> <idx> <sub> <type|n> <value token> <delivery>`: assignment through the REMOTE accessor;
    `ltyped …` (same arguments): assignment through the LOCAL node's own accessor.  The access type of
    the entry is the second field of its descriptor in `<od>` (0 rw, 1 ro, 2 wo, 3 const, 4 rwr, 5 rww).
    → `set result | stored bytes | remote read | local read | local upload` -/
def step (args : List String) : String :=
  match args with
  | ["typed", od, idx, sub, t, v, delivery] =>
    match C02.parseOd od, idx.toNat?, sub.toNat?, C04.parseType t, C02.parseVal v with
    | some od, some idx, some sub, some t, some (some v) =>
      let c0 := startChan (C02.mkNode od []) idx sub delivery
      let (c1, r1) := remoteSet c0 idx sub t v
      let s1 := match r1 with | .ok _ => "ok" | .error e => showErr e
      s!"{s1} | {showAfter c1 idx sub t}"
    | _, _, _, _, _ => "bad-op"
  | ["ltyped", od, idx, sub, t, v, delivery] =>
    match C02.parseOd od, idx.toNat?, sub.toNat?, C04.parseType t, C02.parseVal v with
    | some od, some idx, some sub, some t, some (some v) =>
      let c0 := startChan (C02.mkNode od []) idx sub delivery
      let (c1, s1) : Chan (Srv × Node) × String :=
        match localSet c0.peer.2 idx sub t v with
        | .ok n1 => ({ c0 with peer := (c0.peer.1, n1) }, "ok")
        | .error e => (c0, showSrvErr e)
      s!"{s1} | {showAfter c1 idx sub t}"
    | _, _, _, _, _ => "bad-op"
  | ["shared", od, idx, sub, t, v] =>
    -- two local nodes built from ONE dictionary object: a value written to the first must not show on the second
    match C02.parseOd od, idx.toNat?, sub.toNat?, C04.parseType t, C02.parseVal v with
    | some od, some idx, some sub, some t, some (some v) =>
      let n0 := C02.mkNode od []
      let cA : Chan (Srv × Node) := { peer := (srvInit, n0), queue := [], sent := [] }
      let cB : Chan (Srv × Node) := { peer := (srvInit, n0), queue := [], sent := [] }
      let (_, r1) := remoteSet cA idx sub t v
      let (_, r2) := remoteGet cB idx sub t 100000
      let s1 := match r1 with | .ok _ => "ok" | .error e => showErr e
      let s2 := match r2 with | .ok v => s!"ok {C04.showVal v}" | .error e => showErr e
      s!"{s1} | {s2}"
    | _, _, _, _, _ => "bad-op"
  | _ => "bad-op"

end Canopen.Driver.C03

namespace Canopen.Driver.C03
open Canopen.Od

def parseMember (s : String) : Option OVar :=
  match s.splitOn "=" with
  | [sub, nm] => sub.toNat?.map fun j => { index := 0, sub := j, name := nm.toList }
  | _ => none

/-- `v:idx:name` or `r:idx:name:sub=name,…` / `a:idx:name:…` -/
def parseObj (s : String) : Option OObj :=
  match s.splitOn ":" with
  | ["v", i, nm] => i.toNat?.map fun i => .var { index := i, sub := 0, name := nm.toList }
  | [k, i, nm, ms] =>
    if k = "r" ∨ k = "a" then do
      let i ← i.toNat?
      let ms ← if ms = "" then some [] else (ms.splitOn ",").mapM parseMember
      pure (.group (k = "a") i nm.toList (ms.map fun m => { m with index := i }))
    else none
  | _ => none

def parseKey (s : String) : Option Key :=
  match s.toList with
  | 'i' :: r => (String.ofList r).toNat?.map .idx
  | 'n' :: r => some (.name r)
  | _ => none

def showHit : Option (OObj ⊕ OVar) → String
  | some (.inl o) => s!"obj {o.index}"
  | some (.inr v) => s!"var {v.index} {v.sub}"
  | none => "err"

/-- `lk <obj;obj;…> <key> [<member key>]` -/
def stepLk (args : List String) : String :=
  match args with
  | ["lk", od, k] => match (od.splitOn ";").mapM parseObj, parseKey k with
    | some od, some k => showHit (getItem od k)
    | _, _ => "bad-op"
  | ["lk", od, k, k2] => match (od.splitOn ";").mapM parseObj, parseKey k, parseKey k2 with
    | some od, some k, some k2 =>
      (match getItem od k with
       | some (.inl o) => (match memberGet o k2 with
         | some v => s!"var {v.index} {v.sub}"
         | none => "err")
       | _ => "err")
    | _, _, _ => "bad-op"
  | _ => "bad-op"

def stepAll (args : List String) : String :=
  match args with
  | "lk" :: _ => stepLk args
  | _ => step args

end Canopen.Driver.C03
