import CanopenModel.Net.Network
/-!
Driver ops of C10 (one line each):

* `h <env> <step>…` — a whole history on a fresh `Network`.
  `<env>` = `-` or comma separated node objects `<nodeid>r|l` (object 0, 1, …).
  steps: `s:<id>:<cb>` subscribe, `u:<id>:<cb>` / `u:<id>:*` unsubscribe, `a:<obj>` network[node.id]
  = node, `d:<nodeid>` del network[nodeid], `c:<obj>:<tx>` add_sdo, `n:<id>:<hex>:<ts>` notify,
  `r:<id>:<hex>:<ts>:<err><rtr>` listener (`is_rx`, standard/extended by the id, no other flag),
  `r:<id>:<hex>:<ts>:<err><rtr><rx><ext><fd><brs><esi>:<dlc>:<channel>` listener, called the way
  `can.Notifier` does, with every attribute of the `can.Message` given,
  `z` scanner.reset(), `q` read scanner.nodes;
  the mapping API: `i:<obj>` network[node.id] = node, `p:<nodeid>` pop(id), `pd:<nodeid>`
  pop(id, default), `pi` popitem(), `x` clear(), `up:<form>:<obj>+<obj>…` update (form `d` dict,
  `k` object with keys(), `i` iterable of pairs; `-` = no item), `sd:<obj>` setdefault(node.id, node),
  `v` len / iteration / keys / items / `in` / get.
  `<cb>` = `u<k>` (user callback; k ≥ 6 raises), `L` (LSS handler), `o<obj>.s<chan>|hb|em|nc|rq`.
  Output: one token per step: `ok`/`err`, `ok[cb,…]`/`err[cb,…]`, `q[…]`; `ok=o<obj>` / `ok=D` (pop,
  setdefault), `ok=<nodeid>/o<obj>` (popitem), `ok<nodeid,…>` / `err<…>` (clear: the ids still in the
  network), `err@<k>` (update raised at item k), `v[<nodeid>=o<obj>,…]`.
* `tx <id> <hex> <remote> <connected>` — `Network.send_message`; `ptx <id> <hex> <remote>` —
  `PeriodicMessageTask`.  Output `ok <id> <ext> <hex> <remote>` or `err`.
* `scan <ids>` — a fresh `NodeScanner` fed the ids in order; output `q[…]`.
-/
namespace Canopen.Driver.C10
open Canopen Canopen.Net
open Canopen.Spec.Multimap (Call)

def showHandler : Handler → String
  | .sdoResponse k => s!"s{k}"
  | .heartbeat => "hb"
  | .emcy => "em"
  | .nmtCommand => "nc"
  | .sdoRequest => "rq"
  | .other n => s!"x{n}"

def showCb : Cb → String
  | .user k => s!"u{k}"
  | .lss => "L"
  | .node o h => s!"o{o}.{showHandler h}"

def parseHandler (s : String) : Option Handler :=
  if s = "hb" then some .heartbeat
  else if s = "em" then some .emcy
  else if s = "nc" then some .nmtCommand
  else if s = "rq" then some .sdoRequest
  else match s.toList with
    | 's' :: r => (String.ofList r).toNat?.map .sdoResponse
    | _ => none

def parseCb (s : String) : Option Cb :=
  if s = "L" then some .lss
  else match s.toList with
    | 'u' :: r => (String.ofList r).toNat?.map .user
    | 'o' :: r =>
      match (String.ofList r).splitOn "." with
      | [o, h] => do
        let o ← o.toNat?
        let h ← parseHandler h
        pure (.node o h)
      | _ => none
    | _ => none

/-- `<nodeid>r` / `<nodeid>l` -/
def parseObj (s : String) : Option (Nat × Bool) :=
  match s.toList.reverse with
  | 'r' :: d => (String.ofList d.reverse).toNat?.map (·, false)
  | 'l' :: d => (String.ofList d.reverse).toNat?.map (·, true)
  | _ => none

def parseEnv (s : String) : Option Env := do
  let objs ← if s = "-" then some [] else (s.splitOn ",").mapM parseObj
  pure { nid := fun o => (objs.getD o (0, false)).1
         isLocal := fun o => (objs.getD o (0, false)).2
         raises := fun cb => match cb with
           | .user k => decide (k ≥ 6)
           | _ => false }

inductive Step where
  | op (o : Op)
  | query
  | view

def parseFlag (c : Char) : Option Bool := parseBool (String.ofList [c])

def parseObjs (s : String) : Option (List Nat) :=
  if s = "-" then some [] else (s.splitOn "+").mapM (·.toNat?)

def parseStep (s : String) : Option Step :=
  match s.splitOn ":" with
  | ["s", id, cb] => do pure (.op (.subscribe (← id.toNat?) (← parseCb cb)))
  | ["u", id, cb] =>
    if cb = "*" then do pure (.op (.unsubscribe (← id.toNat?) none))
    else do pure (.op (.unsubscribe (← id.toNat?) (some (← parseCb cb))))
  | ["a", o] => do pure (.op (.setNode (← o.toNat?)))
  | ["d", n] => do pure (.op (.delNode (← n.toNat?)))
  | ["c", o, tx] => do pure (.op (.addSdo (← o.toNat?) (← tx.toNat?)))
  | ["n", id, h, ts] => do pure (.op (.notify ⟨← id.toNat?, ← parseHex h, ← ts.toNat?⟩))
  | ["r", id, h, ts, fl] =>
    match fl.toList with
    | [e, r] => do
      let e ← parseBool (String.ofList [e])
      let r ← parseBool (String.ofList [r])
      let id ← id.toNat?
      pure (.op (.receive { id := id, data := ← parseHex h, ts := ← ts.toNat?, isError := e,
                            isRemote := r, isExtended := decide (id > 0x7FF) }))
    | _ => none
  | ["r", id, h, ts, fl, dlc, ch] =>
    match fl.toList with
    | [e, r, rx, ext, fd, brs, esi] => do
      pure (.op (.receive { id := ← id.toNat?, data := ← parseHex h, ts := ← ts.toNat?,
                            isError := ← parseFlag e, isRemote := ← parseFlag r,
                            isRx := ← parseFlag rx, isExtended := ← parseFlag ext,
                            isFd := ← parseFlag fd, brs := ← parseFlag brs, esi := ← parseFlag esi,
                            dlc := ← dlc.toNat?, channel := ← ch.toNat? }))
    | _ => none
  | ["z"] => some (.op .scanReset)
  | ["q"] => some .query
  | ["v"] => some .view
  | ["i", o] => do pure (.op (.setNode (← o.toNat?)))
  | ["p", n] => do pure (.op (.popNode (← n.toNat?) false))
  | ["pd", n] => do pure (.op (.popNode (← n.toNat?) true))
  | ["pi"] => some (.op .popItem)
  | ["x"] => some (.op .clear)
  | ["up", form, os] =>
    if form = "d" ∨ form = "k" ∨ form = "i" then do pure (.op (.update (← parseObjs os))) else none
  | ["sd", o] => do pure (.op (.setDefault (← o.toNat?)))
  | _ => none

def showNodes (l : List Nat) : String := "q[" ++ String.intercalate "," (l.map toString) ++ "]"

def showOut (withCalls : Bool) (o : Out) : String :=
  let r := if o.ok then "ok" else "err"
  if withCalls then r ++ "[" ++ String.intercalate "," (o.calls.map fun c => showCb c.cb) ++ "]" else r

def showRet : Ret → String
  | .nothing => ""
  | .obj o => s!"=o{o}"
  | .item k o => s!"={k}/o{o}"
  | .dflt => "=D"
  | .stored k => s!"@{k}"

def showKeys (n : Net) : String := String.intercalate "," (n.keys.map toString)

/-- `len`, iteration, `keys()`, `items()`, `in`, `get` of the network: node ids in iteration order
    with the object filed under each -/
def showView (n : Net) : String :=
  "v[" ++ String.intercalate "," (n.keys.map fun k =>
    match n.nodes k with
    | some o => s!"{k}=o{o}"
    | none => s!"{k}=?") ++ "]"

def showStep (E : Env) (n : Net) (o : Op) (a : Net × Out) : String :=
  match o with
  | .notify _ => showOut true a.2
  | .receive _ => showOut true a.2
  | .clear => showOut false a.2 ++ "<" ++ showKeys a.1 ++ ">"
  | .update _ => if a.2.ok then "ok" else "err" ++ showRet (ret E n o)
  | .popNode _ _ => if a.2.ok then "ok" ++ showRet (ret E n o) else "err"
  | .popItem => if a.2.ok then "ok" ++ showRet (ret E n o) else "err"
  | .setDefault _ => if a.2.ok then "ok" ++ showRet (ret E n o) else "err"
  | _ => showOut false a.2

def runSteps (E : Env) : Net → List Step → List String → List String
  | _, [], acc => acc.reverse
  | n, .query :: r, acc => runSteps E n r (showNodes n.scan :: acc)
  | n, .view :: r, acc => runSteps E n r (showView n :: acc)
  | n, .op o :: r, acc =>
    let a := step E n o
    runSteps E a.1 r (showStep E n o a :: acc)

def showMsg : Option CanMsg → String
  | none => "err"
  | some m => s!"ok {m.id} {showBool m.extended} {toHex m.data} {showBool m.remote}"

def step (args : List String) : String :=
  match args with
  | "h" :: env :: steps =>
    match parseEnv env, steps.mapM parseStep with
    | some E, some st => String.intercalate " " (runSteps E Net.init st [])
    | _, _ => "bad-op"
  | ["tx", id, h, rem, conn] =>
    match id.toNat?, parseHex h, parseBool rem, parseBool conn with
    | some id, some d, some rem, some conn => showMsg (sendMessage conn id d rem)
    | _, _, _, _ => "bad-op"
  | ["ptx", id, h, rem] =>
    match id.toNat?, parseHex h, parseBool rem with
    | some id, some d, some rem => showMsg (some (periodicMessage id d rem))
    | _, _, _ => "bad-op"
  | ["pup", id, h, rem, ups, _mod] =>
    match id.toNat?, parseHex h, parseBool rem, (ups.splitOn ",").mapM parseHex with
    | some id, some d, some rem, some ups =>
      showMsg (some (ups.foldl periodicUpdate (periodicMessage id d rem)))
    | _, _, _, _ => "bad-op"
  | ["scan", ids] =>
    match parseNatList ids with
    | some ids => showNodes (scanFeed [] ids)
    | none => "bad-op"
  | _ => "bad-op"

end Canopen.Driver.C10
