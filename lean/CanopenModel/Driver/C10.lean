import CanopenModel.Net.Network
/-!
Driver ops of C10 (one line each):

* `h <env> <step>…` — a whole history on a fresh `Network`.
  `<env>` = `-` or comma separated node objects `<nodeid>r|l` (object 0, 1, …).
  steps: `s:<id>:<cb>` subscribe, `u:<id>:<cb>` / `u:<id>:*` unsubscribe, `a:<obj>` network[node.id]
  = node, `d:<nodeid>` del network[nodeid], `c:<obj>:<tx>` add_sdo, `n:<id>:<hex>:<ts>` notify,
  `r:<id>:<hex>:<ts>:<err><rtr>` listener, `z` scanner.reset(), `q` read scanner.nodes.
  `<cb>` = `u<k>` (user callback; k ≥ 6 raises), `L` (LSS handler), `o<obj>.s<chan>|hb|em|nc|rq`.
  Output: one token per step: `ok`/`err`, `ok[cb,…]`/`err[cb,…]`, `q[…]`.
* `tx <id> <hex> <remote> <connected>` — `Network.send_message`; `ptx <id> <hex> <remote>` —
  `PeriodicMessageTask`.  Output `ok <id> <ext> <hex> <remote>` or `err`.
* `scan <ids>` — a fresh `NodeScanner` fed the ids in order; output `q[…]`.
-/
namespace Canopen.Driver.C10
open Canopen Canopen.Net
open Canopen.Spec.Multimap (Call)

def showHandler : Handler → String
  | .sdoResponse k => s!"s{k}"
  | .heartbeat => "hb"
  | .emcy => "em"
  | .nmtCommand => "nc"
  | .sdoRequest => "rq"
  | .other n => s!"x{n}"

def showCb : Cb → String
  | .user k => s!"u{k}"
  | .lss => "L"
  | .node o h => s!"o{o}.{showHandler h}"

def parseHandler (s : String) : Option Handler :=
  if s = "hb" then some .heartbeat
  else if s = "em" then some .emcy
  else if s = "nc" then some .nmtCommand
  else if s = "rq" then some .sdoRequest
  else match s.toList with
    | 's' :: r => (String.ofList r).toNat?.map .sdoResponse
    | _ => none

def parseCb (s : String) : Option Cb :=
  if s = "L" then some .lss
  else match s.toList with
    | 'u' :: r => (String.ofList r).toNat?.map .user
    | 'o' :: r =>
      match (String.ofList r).splitOn "." with
      | [o, h] => do
        let o ← o.toNat?
        let h ← parseHandler h
        pure (.node o h)
      | _ => none
    | _ => none

/-- `<nodeid>r` / `<nodeid>l` -/
def parseObj (s : String) : Option (Nat × Bool) :=
  match s.toList.reverse with
  | 'r' :: d => (String.ofList d.reverse).toNat?.map (·, false)
  | 'l' :: d => (String.ofList d.reverse).toNat?.map (·, true)
  | _ => none

def parseEnv (s : String) : Option Env := do
  let objs ← if s = "-" then some [] else (s.splitOn ",").mapM parseObj
  pure { nid := fun o => (objs.getD o (0, false)).1
         isLocal := fun o => (objs.getD o (0, false)).2
         raises := fun cb => match cb with
           | .user k => decide (k ≥ 6)
           | _ => false }

inductive Step where
  | op (o : Op)
  | query

def parseStep (s : String) : Option Step :=
  match s.splitOn ":" with
  | ["s", id, cb] => do pure (.op (.subscribe (← id.toNat?) (← parseCb cb)))
  | ["u", id, cb] =>
    if cb = "*" then do pure (.op (.unsubscribe (← id.toNat?) none))
    else do pure (.op (.unsubscribe (← id.toNat?) (some (← parseCb cb))))
  | ["a", o] => do pure (.op (.setNode (← o.toNat?)))
  | ["d", n] => do pure (.op (.delNode (← n.toNat?)))
  | ["c", o, tx] => do pure (.op (.addSdo (← o.toNat?) (← tx.toNat?)))
  | ["n", id, h, ts] => do pure (.op (.notify ⟨← id.toNat?, ← parseHex h, ← ts.toNat?⟩))
  | ["r", id, h, ts, fl] =>
    match fl.toList with
    | [e, r] => do
      let e ← parseBool (String.ofList [e])
      let r ← parseBool (String.ofList [r])
      pure (.op (.receive ⟨← id.toNat?, ← parseHex h, ← ts.toNat?, e, r⟩))
    | _ => none
  | ["z"] => some (.op .scanReset)
  | ["q"] => some .query
  | _ => none

def showNodes (l : List Nat) : String := "q[" ++ String.intercalate "," (l.map toString) ++ "]"

def showOut (withCalls : Bool) (o : Out) : String :=
  let r := if o.ok then "ok" else "err"
  if withCalls then r ++ "[" ++ String.intercalate "," (o.calls.map fun c => showCb c.cb) ++ "]" else r

def runSteps (E : Env) : Net → List Step → List String → List String
  | _, [], acc => acc.reverse
  | n, .query :: r, acc => runSteps E n r (showNodes n.scan :: acc)
  | n, .op o :: r, acc =>
    let a := step E n o
    let wc := match o with
      | .notify _ => true
      | .receive _ => true
      | _ => false
    runSteps E a.1 r (showOut wc a.2 :: acc)

def showMsg : Option CanMsg → String
  | none => "err"
  | some m => s!"ok {m.id} {showBool m.extended} {toHex m.data} {showBool m.remote}"

def step (args : List String) : String :=
  match args with
  | "h" :: env :: steps =>
    match parseEnv env, steps.mapM parseStep with
    | some E, some st => String.intercalate " " (runSteps E Net.init st [])
    | _, _ => "bad-op"
  | ["tx", id, h, rem, conn] =>
    match id.toNat?, parseHex h, parseBool rem, parseBool conn with
    | some id, some d, some rem, some conn => showMsg (sendMessage conn id d rem)
    | _, _, _, _ => "bad-op"
  | ["ptx", id, h, rem] =>
    match id.toNat?, parseHex h, parseBool rem with
    | some id, some d, some rem => showMsg (some (periodicMessage id d rem))
    | _, _, _ => "bad-op"
  | ["pup", id, h, rem, ups, _mod] =>
    match id.toNat?, parseHex h, parseBool rem, (ups.splitOn ",").mapM parseHex with
    | some id, some d, some rem, some ups =>
      showMsg (some (ups.foldl periodicUpdate (periodicMessage id d rem)))
    | _, _, _, _ => "bad-op"
  | ["scan", ids] =>
    match parseNatList ids with
    | some ids => showNodes (scanFeed [] ids)
    | none => "bad-op"
  | _ => "bad-op"

end Canopen.Driver.C10
