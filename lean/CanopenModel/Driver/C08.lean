import CanopenModel.Driver.EdsCommon
namespace Canopen.Driver.C08
open Canopen Canopen.Eds Canopen.Driver.Eds

def showOptInt : Option Int → String
  | some i => s!"ok {i}"
  | none => "err"

def showCls (n : Str) : String :=
  s!"ok d={showBool (isDummySection n)} i={showOpt toString (matchIndex n)} " ++
  s!"s={showOpt (fun p => s!"{p.1}.{p.2}") (matchSub n)} n={showOpt toString (matchName n)}"

/-- the steps of an `imph` history: six tokens each (`<file name> <node id|none> <doc> <w|t> <payload> <probes>`) -/
def parseSteps : List String → Option (List (ImportStep × List Nat))
  | [] => some []
  | fn :: nid :: doc :: _ :: _ :: pr :: rest =>
    match hexToStr fn, parseOptInt nid, parseDoc doc, parseProbes pr, parseSteps rest with
    | some fn, some nid, some doc, some pr, some r => some (({ path := fn, doc := doc, nodeId := nid }, pr) :: r)
    | _, _, _, _, _ => none
  | _ => none

/-- ops:
  `imp <file name> <node id|none> <doc> <w|t> <payload> [<probes>]`   whole import (the payload is for
                                             the Python side: how the text is produced; the probes
                                             are the sub-indices every array is asked for)
  `imph <k> {<file name> <node id|none> <doc> <w|t> <payload> <probes>}*k`   a history: each step
                                             (re)writes its file and imports it by path
  `int0 s`, `int10 s`, `fromhex s`, `float s`, `rmnode s`, `cls s`, `lines s`   primitives
  `conv <node id|none> <type> s`, `lim <type> s`     value / limit of a one-object file -/
def step (args : List String) : String :=
  match args with
  | "imp" :: fn :: nid :: doc :: rest =>
    let probes := match rest with
      | [_, _, pr] => parseProbes pr
      | _ => some defaultProbes
    match hexToStr fn, parseOptInt nid, parseDoc doc, probes with
    | some fn, some nid, some doc, some probes => showResult (importOd fn doc nid) probes
    | _, _, _, _ => "bad-op"
  | "imph" :: k :: rest =>
    match k.toNat?, parseSteps rest with
    | some k, some steps =>
      if k = steps.length ∧ 0 < k then
        "ok " ++ " # ".intercalate
          ((List.zip steps (importHistory [] (steps.map (·.1)))).map fun p => showResult p.2 p.1.2)
      else "bad-op"
    | _, _ => "bad-op"
  | ["int0", s] => match hexToStr s with
    | some s => showOptInt (pyInt0 s)
    | none => "bad-op"
  | ["int10", s] => match hexToStr s with
    | some s => showOptInt (pyInt10 s)
    | none => "bad-op"
  | ["fromhex", s] => match hexToStr s with
    | some s => (match fromHex s with | some bs => s!"ok {toHex bs}" | none => "err")
    | none => "bad-op"
  | ["float", s] => match hexToStr s with
    | some s => if floatOk s then s!"ok r({esc s})" else "err"
    | none => "bad-op"
  | ["rmnode", s] => match hexToStr s with
    | some s => s!"ok {showBool (containsNodeid s)} {esc (removeNodeid s)}"
    | none => "bad-op"
  | ["cls", s] => match hexToStr s with
    | some s => showCls s
    | none => "bad-op"
  | ["lines", s] => match hexToStr s with
    | some s => "ok " ++ listOr ((splitLines s).map esc) ","
    | none => "bad-op"
  | ["conv", nid, t, s] => match parseOptInt nid, t.toInt?, hexToStr s with
    | some nid, some t, some s => (match (resolveDataType [] t).bind (convertVariable nid · s) with
      | some v => "ok " ++ showValue v
      | none => "err")
    | _, _, _ => "bad-op"
  | ["lim", t, s] => match t.toInt?, hexToStr s with
    | some t, some s => (match resolveDataType [] t with
      | some t' => "ok " ++ showOpt showInt (limitOf t' (some s))
      | none => "err")
    | _, _ => "bad-op"
  | _ => "bad-op"

end Canopen.Driver.C08
