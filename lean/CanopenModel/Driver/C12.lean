import CanopenModel.Sdo.BlockDown
import CanopenModel.Driver.BlkCommon
namespace Canopen.Driver.C12
open Canopen Canopen.Sdo.BlockDown Canopen.Driver.Blk

def showEv (e : Ev) : String :=
  (match e.kind with | 0 => ">" | 1 => "x" | _ => "<") ++ hex2 e.frame

def showRes : Res → String
  | .ok => "ok" | .err => "err" | .fuel => "fuel"

/-- ops: `bdl idx sub data size|- crcreq srvcrc blks loss|- buf offers|-`, `crc data init`.
    `offers` = the lengths of the raw `write()` offers the caller made (recorded by the harness; `-` =
    the hand loop that always offers the whole remainder); the buffer token itself is not needed here -/
def step (args : List String) : String :=
  match args with
  | ["bdl", idx, sub, data, size, crcReq, srvCrc, blks, loss, _buf, offers] =>
    match idx.toNat?, sub.toNat?, parseData data, parseOptNat size, parseBool crcReq, parseBool srvCrc,
          parseNatList blks, parseNatList loss, parseNatList offers with
    | some idx, some sub, some payload, some size, some crcReq, some srvCrc, some blks, some loss, some offers =>
      if blks.isEmpty then "bad-op" else
      let E : Env := { blkOf := fun k => blks.getD (k % blks.length) 0, lost := fun n => loss.contains n }
      let (s, r) := blockDownloadOffers E (driverFuel payload loss.length offers) srvCrc idx sub payload size crcReq offers
      let committed := match s.srv.committed with | none => "none" | some d => toHex d
      s!"{showRes r} {committed} {showOptNat s.srv.illegal} " ++ String.intercalate "," (s.log.reverse.map showEv)
    | _, _, _, _, _, _, _, _, _ => "bad-op"
  | ["crc", data, init] =>
    match parseData data, init.toNat? with
    | some d, some i => s!"ok {Crc.crcHqx d i}"
    | _, _ => "bad-op"
  | _ => "bad-op"

end Canopen.Driver.C12
