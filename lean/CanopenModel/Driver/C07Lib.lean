import CanopenModel.Sdo.Disturb
import CanopenModel.Sdo.Pair
import CanopenModel.Driver.C01
import CanopenModel.Driver.C02
/-!
C07, op `distlib`: the client model against the library's own server model (`libPeer`), one
server response disturbed, followed by undisturbed transfers on the same client and server.
-/
namespace Canopen.Driver.C07L
open Canopen Canopen.Sdo Canopen.Driver.C01

def parseKind (s : String) : Option Kind :=
  match s.splitOn ":" with
  | ["lost"] => some .lost
  | ["replace", h] => (parseHex h).map .replace
  | ["toggle"] => some .flipToggle
  | ["scs", n] => n.toNat?.map .setScs
  | ["mux"] => some .bumpMux
  | ["dup"] => some .dup
  | ["dupd"] => some .dupDeferred
  | ["late"] => some .late
  | ["stale", h] => (parseHex h).map .staleBetween
  | _ => none

/-- library server behind the disturbance layer, logging what was delivered to the client -/
abbrev LS := ((Srv × Node) × DState) × List Bytes

def dpeer (at_ : Nat) (k : Kind) : Peer LS := fun (ds, delivered) req =>
  let (ds', out) := distPeer libPeer at_ k ds req
  ((ds', delivered ++ out), out)

def runX (at_ : Nat) (k : Kind) (c : Chan LS) (x : Xfer) : Chan LS × String :=
  match x with
  | .down i j d sz f o =>
    match downloadWith (dpeer at_ k) c i j d sz f o with
    | (c', .ok _) => (c', "ok")
    | (c', .error e) => (c', showErr e)
  | .up i j t =>
    match upload (dpeer at_ k) c i j t 100000 with
    | (c', .ok d) => (c', s!"ok {toHex d}")
    | (c', .error e) => (c', showErr e)
  | .upInto i j sizes => runInto (dpeer at_ k) c i j sizes

def runAllX (at_ : Nat) (k : Kind) : Chan LS → List Xfer → List String → List String → Chan LS × List String × List String
  | c, [], acc, st => (c, acc, st)
  | c, x :: xs, acc, st =>
    let (c', r) := runX at_ k c x
    runAllX at_ k c' xs (acc ++ [r]) (st ++ [C02.showStore c'.peer.1.1.2.store])

/-- `distlib <od> <at> <kind> <xfer;…>` → `results | requests | delivered | store after each transfer` -/
def step (args : List String) : String :=
  match args with
  | ["distlib", od, at_, kind, xs] =>
    match C02.parseOd od, at_.toNat?, parseKind kind, (xs.splitOn ";").mapM parseXfer with
    | some od, some at_, some kind, some xs =>
      let c0 : Chan LS := { peer := (((srvInit, C02.mkNode od []), { idx := 0, pending := [] }), []), queue := [], sent := [] }
      let (c, rs, st) := runAllX at_ kind c0 xs [] []
      s!"{String.intercalate ";" rs} | {showFrames c.sent} | {showFrames c.peer.2} | {String.intercalate ";" st}"
    | _, _, _, _ => "bad-op"
  | _ => "bad-op"

end Canopen.Driver.C07L
