import CanopenModel.Sdo.BlockUp
import CanopenModel.Driver.BlkCommon
namespace Canopen.Driver.C13
open Canopen Canopen.Sdo.BlockUp Canopen.Driver.Blk

def showEv (e : Ev) : String :=
  (match e.kind with | 0 => ">" | 2 => "<" | 3 => "!" | _ => "~") ++ hex2 e.frame

/-- `n:bit,n:bit,…` or `-` -/
def parseFlips (s : String) : Option (List (Nat × Nat)) :=
  if s = "-" then some [] else
  (s.splitOn ",").mapM fun p =>
    match p.splitOn ":" with
    | [a, b] => do
      let n ← a.toNat?
      let bit ← b.toNat?
      pure (n, bit)
    | _ => none

def flipBit (f : Bytes) (bit : Nat) : Bytes := f.set (bit / 8) (f.getD (bit / 8) 0 ^^^ (1 <<< (bit % 8)))

def mkChan (loss : List Nat) (flips : List (Nat × Nat)) (n : Nat) (f : Bytes) : Option Bytes :=
  if loss.contains n then none
  else some ((flips.filter (·.1 = n)).foldl (fun f p => flipBit f p.2) f)

/-- op: `bul idx sub data crcreq srvcrc sizeind loss|- flips|- crcxor endb0|- buf` -/
def step (args : List String) : String :=
  match args with
  | ["bul", idx, sub, data, crcReq, srvCrc, sizeInd, loss, flips, crcXor, endB0, _buf] =>
    match idx.toNat?, sub.toNat?, parseData data, parseBool crcReq, parseBool srvCrc, parseBool sizeInd,
          parseNatList loss, parseFlips flips, crcXor.toNat?, parseOptNat endB0 with
    | some idx, some sub, some d, some crcReq, some srvCrc, some sizeInd, some loss, some flips,
      some crcXor, some endB0 =>
      let E : Env := { cfg := { data := d, crcCapable := srvCrc, sizeInd := sizeInd, crcXor := crcXor, endB0 := endB0 },
                       chan := mkChan loss flips }
      let (s, r) := blockUpload E (2 * (d.length / 7) + 300 * (loss.length + flips.length + 2)) idx sub crcReq
      let res := match r with | .ok v => s!"ok {toHex v}" | .err => "err none" | .fuel => "fuel none"
      s!"{res} {showOptNat s.cl.size} {showBool s.srv.confirmed} {showOptNat s.srv.illegal} "
        ++ String.intercalate "," (s.log.reverse.map showEv)
    | _, _, _, _, _, _, _, _, _, _ => "bad-op"
  | _ => "bad-op"

end Canopen.Driver.C13
