import CanopenModel.Periodic
/-
Driver for C17.  One line = one whole history:

  C17 m=<0|1> [t=<0|1>] sc=<d|cob> {L=<id>,<dflt|n>} {R=<id>} {P=<node>,<key>,<cob|n>,<nvars>} -- op op …

ops: ss:<µs|n> sx sp:<µs|n> ps:<n>,<k>,<µs|n> px:<n>,<k> pp:<n>,<k>,<µs|n> pr:<n>,<k>,<dt µs>,<hex>
     pu:<n>,<k>,<hex> pv:<n>,<k>,<i>,<v> pa:<n>
     hs:<n>,<int ms> hx:<n> hu:<n> hw:<n>,<v> hd:<n>,<v> ow:<n>,<idx>,<hex> cm:<n>,<code>
     st:<n>,<NAME with _ for blanks> nc:<hex> gs:<n>,<µs> gx:<n> dc wn we xn xe cn
     (`t=1`: the harness's bus stops its own cyclic tasks at `shutdown()`; what is live on the bus is
     then compared by the oracle only, the model describes the bus that leaves them alone)

output: for every op `ok|err;<live tasks>;<api>` joined by `|`, where a live task is
`<creation index>:<can id>[x]/<hex>/<period µs>/<remote 0|1>` and api is
`S=<sync.period>,P<n>.<k>=<period>/<data>…,H<n>=<nmt state>/<0x1017 value>…`.
-/
namespace Canopen.Driver.C17
open Canopen Canopen.Periodic

structure Setup where
  cfg : Cfg
  pdoInit : List ((Nat × Nat) × PdoF)
  slaveInit : List (Nat × SlaveF)

def optNat (s : String) : Option (Option Nat) :=
  if s = "n" then some none else s.toNat?.map some

def parseCfgTok (su : Setup) (tok : String) : Option Setup :=
  match tok.splitOn "=" with
  | ["m", v] => (parseBool v).map fun b => { su with cfg := { su.cfg with modify := b } }
  | ["t", v] => (parseBool v).map fun _ => su
  | ["sc", v] =>
    if v = "d" then some { su with cfg := { su.cfg with syncCob := Gen.PeriodicTables.SYNC_COB_ID } }
    else v.toNat?.map fun n => { su with cfg := { su.cfg with syncCob := n } }
  | ["L", v] => match v.splitOn "," with
    | [id, d] => do
      let id ← id.toNat?
      let d ← optNat d
      pure { su with cfg := { su.cfg with locals := su.cfg.locals ++ [id] },
                     slaveInit := su.slaveInit ++ [(id, ⟨0, 0, d⟩)] }
    | _ => none
  | ["R", v] => v.toNat?.map fun id => { su with cfg := { su.cfg with remotes := su.cfg.remotes ++ [id] } }
  | ["P", v] => match v.splitOn "," with
    | [n, k, cob, nv] => do
      let n ← n.toNat?
      let k ← k.toNat?
      let cob ← optNat cob
      -- `<nvars>h`: the harness maps every byte as two 4-bit halves; a byte write has the same effect
      let nv ← (if nv.endsWith "h" then nv.dropRight 1 else nv).toNat?
      pure { su with cfg := { su.cfg with pdos := su.cfg.pdos ++ [(n, k)] },
                     pdoInit := su.pdoInit ++ [((n, k), ⟨cob, nv, List.replicate nv 0, none, none⟩)] }
    | _ => none
  | _ => none

def initState (su : Setup) : State :=
  { bus := ⟨0, fun _ => ⟨0, [], false, 0, .sync, false⟩⟩
    connected := true
    slots := fun _ => none
    syncPeriod := none
    pdo := fun n k => match su.pdoInit.find? fun e => e.1 == (n, k) with
      | some e => e.2
      | none => ⟨none, 0, [], none, none⟩
    slave := fun n => match su.slaveInit.find? fun e => e.1 == n with
      | some e => e.2
      | none => ⟨0, 0, none⟩ }

def nats (s : String) : Option (List Nat) := (s.splitOn ",").mapM (·.toNat?)

def parseOp (tok : String) : Option Op :=
  match tok.splitOn ":" with
  | ["sx"] => some .syncStop
  | ["dc"] => some .disconnect
  | ["wn"] => some (.exitWith .withNormal)
  | ["we"] => some (.exitWith .withException)
  | ["xn"] => some (.exitWith .exitNormal)
  | ["xe"] => some (.exitWith .exitException)
  | ["cn"] => some .connect
  | ["ss", a] => (optNat a).map .syncStart
  | ["sp", a] => (optNat a).map .syncSetPeriod
  | ["nc", a] => (parseHex a).map .nmtFrame
  | [kind, a] =>
    let f := a.splitOn ","
    match kind, f with
    | "ps", [n, k, p] => do pure (.pdoStart (← n.toNat?) (← k.toNat?) (← optNat p))
    | "px", [n, k] => do pure (.pdoStop (← n.toNat?) (← k.toNat?))
    | "pp", [n, k, p] => do pure (.pdoSetPeriod (← n.toNat?) (← k.toNat?) (← optNat p))
    | "pr", [n, k, dt, h] => do pure (.pdoReceive (← n.toNat?) (← k.toNat?) (← dt.toNat?) (← parseHex h))
    | "pu", [n, k, h] => do pure (.pdoUpdate (← n.toNat?) (← k.toNat?) (← parseHex h))
    | "pv", [n, k, i, v] => do pure (.pdoSetByte (← n.toNat?) (← k.toNat?) (← i.toNat?) (← v.toNat?))
    | "pa", [n] => do pure (.pdoStopNode (← n.toNat?))
    | "hs", [n, ms] => do pure (.hbStart (← n.toNat?) (← ms.toInt?))
    | "hx", [n] => do pure (.hbStop (← n.toNat?))
    | "hu", [n] => do pure (.hbUpdate (← n.toNat?))
    | "hw", [n, v] => do pure (.hbWrite (← n.toNat?) (← v.toNat?))
    | "hd", [n, v] => do
      let v ← v.toNat?
      if v < 65536 then pure (.hbSdoWrite (← n.toNat?) v) else none
    | "ow", [n, i, h] => do pure (.onWrite (← n.toNat?) (← i.toNat?) (← parseHex h))
    | "cm", [n, code] => do pure (.sendCommand (← n.toNat?) (← code.toNat?))
    | "st", [n, name] => do pure (.setState (← n.toNat?) (name.replace "_" " "))
    | "gs", [n, p] => do pure (.guardStart (← n.toNat?) (← p.toNat?))
    | "gx", [n] => do pure (.guardStop (← n.toNat?))
    | _, _ => none
  | _ => none

def showOpt : Option Nat → String
  | none => "n"
  | some v => toString v

def showTask (s : State) (i : Nat) : String :=
  let t := s.bus.task i
  s!"{i}:{t.canId}{if t.canId > 0x7FF then "x" else ""}/{toHex t.data}/{t.period}/{showBool t.remote}"

def showTasks (s : State) : String :=
  match liveTasks s with
  | [] => "-"
  | l => String.intercalate "," (l.map (showTask s))

def showApi (c : Cfg) (s : State) : String :=
  String.intercalate "," (
    [s!"S={showOpt s.syncPeriod}"]
    ++ c.pdos.map (fun e => s!"P{e.1}.{e.2}={showOpt (s.pdo e.1 e.2).period}/{toHex (s.pdo e.1 e.2).data}")
    ++ c.locals.map (fun n => s!"H{n}={(s.slave n).st}/{showOpt (s.slave n).od1017}"))

def runShow (c : Cfg) : State → List Op → List String
  | _, [] => []
  | s, op :: r =>
    let res := Periodic.step c s op
    s!"{if res.2 then "ok" else "err"};{showTasks res.1};{showApi c res.1}" :: runShow c res.1 r

def splitAtSep : List String → List String × List String
  | [] => ([], [])
  | t :: r => if t = "--" then ([], r) else
    let p := splitAtSep r
    (t :: p.1, p.2)

def step (args : List String) : String :=
  let (cfgToks, opToks) := splitAtSep args
  let su0 : Setup := ⟨⟨false, Gen.PeriodicTables.SYNC_COB_ID, [], [], []⟩, [], []⟩
  match cfgToks.foldlM parseCfgTok su0, opToks.mapM parseOp with
  | some su, some ops =>
    match runShow su.cfg (initState su) ops with
    | [] => "-"
    | l => String.intercalate "|" l
  | _, _ => "bad-op"

end Canopen.Driver.C17
