import CanopenModel.Views
namespace Canopen.Driver.C20
open Canopen Canopen.Codec Canopen.Views

/-- comma separated integers; `"-"` is the empty list -/
def parseIntList (s : String) : Option (List Int) :=
  if s = "-" then some [] else (s.splitOn ",").mapM (·.toInt?)

def parseOptInt (s : String) : Option (Option Int) :=
  if s = "_" then some none else s.toInt?.map some

/-- `num/den` -/
def parseRat (s : String) : Option Rat :=
  match s.splitOn "/" with
  | [n, d] => match n.toInt?, d.toNat? with
    | some n, some d => if d = 0 then none else some (mkRat n d)
    | _, _ => none
  | [n] => n.toInt?.map fun n => (n : Rat)
  | _ => none

def showRat (q : Rat) : String := s!"{q.num}/{q.den}"

/-- `n:5`, `l:4,5,6`, `t:4,5,6`, `s:4:8:_`, `d:72,73` -/
def parseKey (s : String) : Option Key :=
  match s.splitOn ":" with
  | ["n", i] => i.toInt?.map .num
  | ["l", l] => (parseIntList l).map .list
  | ["t", l] => (parseIntList l).map .list
  | ["s", a, b, c] => match parseOptInt a, parseOptInt b, parseOptInt c with
    | some a, some b, some c => some (.slice a b c)
    | _, _, _ => none
  | ["d", n] => (parseNatList n).map .name
  | _ => none

/-- `name=bits;name=bits` or `-` -/
def parseDefs (s : String) : Option (List (Name × List Int)) :=
  if s = "-" then some [] else
  (s.splitOn ";").mapM fun e =>
    match e.splitOn "=" with
    | [n, b] => match parseNatList n, parseIntList b with
      | some n, some b => some (n, b)
      | _, _ => none
    | _ => none

/-- `value=cps;value=cps` or `-` -/
def parseTbl (s : String) : Option (List (Int × Name)) :=
  if s = "-" then some [] else
  (s.splitOn ";").mapM fun e =>
    match e.splitOn "=" with
    | [v, d] => match v.toInt?, parseNatList d with
      | some v, some d => some (v, d)
      | _, _ => none
    | _ => none

/-- the store of an operation line: a cell (`d:`/`l:`/`s:` + hex — dict, LocalNode, SDO) or a
    byte-aligned PDO window (`p:off:framehex`; the window length is the type's size) -/
inductive StoreSpec where
  | cell (init : Bytes)
  | frame (off : Nat) (init : Bytes)

def parseStore (s : String) : Option StoreSpec :=
  match s.splitOn ":" with
  | [k, h] =>
    -- `L`/`A`/`S`/`T`: the variable is a record member / an array member made from the template,
    -- on a LocalNode / over SDO — a cell like the others
    if k = "d" ∨ k = "l" ∨ k = "s" ∨ k = "L" ∨ k = "A" ∨ k = "S" ∨ k = "T" then (parseHex h).map .cell
    else none
  | [k, off, h] =>
    -- `P`: a record member mapped into the PDO
    if k = "p" ∨ k = "P" then
      match off.toNat?, parseHex h with
      | some off, some fr => some (.frame off fr)
      | _, _ => none
    else none
  | _ => none

def storeOf (sp : StoreSpec) (t : Nat) : Store Bytes × Bytes :=
  match sp with
  | .cell init => (cellStore, init)
  | .frame off init => (frameStore off (bitLen (some t) / 8), init)

def showOptInt : Option Int → String
  | some i => s!"{i}"
  | none => "err"

/-- result of an assignment: `ok <store> <read-back>` / `err <store>` -/
def showSet (s0 : Bytes) (o : Option Bytes) (readBack : Bytes → String) : String :=
  match o with
  | some s' => s!"ok {toHex s'} {readBack s'}"
  | none => s!"err {toHex s0}"

def parseSeqOp (s : String) : Option BitsOp :=
  if s.endsWith "?" then (parseKey (s.dropEnd 1).toString).map .get
  else match s.splitOn "=" with
    | [k, v] => match parseKey k, v.toInt? with
      | some k, some v => some (.set k v)
      | _, _ => none
    | _ => none

def showSeqOut (op : BitsOp) (o : Option Int) : String :=
  match op, o with
  | .get _, some i => s!"{i}"
  | .set _ _, some _ => "ok"
  | _, none => "err"

/-! ### access paths: attribute or method spelling of every view, `.data` -/

/-- how an access is spelt: `p` attribute, `m` method with the `fmt=` keyword, `a` method with a
    positional fmt (the same call for the model), `n` method with the default fmt -/
inductive Spell where
  | prop | meth | dflt

def parseSpell (s : String) : Option Spell :=
  if s = "p" then some .prop
  else if s = "m" ∨ s = "a" then some .meth
  else if s = "n" then some .dflt
  else none

/-- `W:R` — spelling of the write and of every read -/
def parseVia (s : String) : Option (Spell × Spell) :=
  match s.splitOn ":" with
  | [w, r] => match parseSpell w, parseSpell r with
    | some w, some r => some (w, r)
    | _, _ => none
  | _ => none

/-- what is read or written: one of the three views, or the bytes -/
inductive Tgt where
  | view (v : ViewK)
  | data

def tgtGet (sp : Spell) (t : Tgt) : Option Access :=
  match sp, t with
  | .prop, .view v => some (.getP v)
  | .meth, .view v => some (.getM (some (viewFmt v)))
  | .dflt, .view .raw => some (.getM none)
  | .dflt, _ => none
  | _, .data => some .getData

def tgtSet (sp : Spell) (t : Tgt) (x : PyVal) : Option Access :=
  match sp, t, x with
  | .prop, .view v, x => some (.setP v x)
  | .meth, .view v, x => some (.setM x (some (viewFmt v)))
  | .dflt, .view .raw, x => some (.setM x none)
  | .dflt, _, _ => none
  | _, .data, .bytes b => some (.setData b)
  | _, .data, _ => none

def showPy : PyVal → String
  | .int i => s!"{i}"
  | .num q => showRat q
  | .str d => showNatList d
  | .bytes b => toHex b
  | .none => "none"

def showRes : Option PyVal → String
  | some v => showPy v
  | none => "err"

def isStore : Access → Bool
  | .setP _ _ => true
  | .setM _ _ => true
  | .setData _ => true
  | .setBits _ _ => true
  | _ => false

def runGet (od : OdVar) (store : Store Bytes) (s0 : Bytes) (a : Option Access) : String :=
  match a with
  | none => "bad-op"
  | some a =>
    match (accessStep od store s0 a).2 with
    | some v => s!"ok {showPy v}"
    | none => "err"

/-- `ok <store> <read-back> [<further reads>…]` / `err <store>` -/
def runSet (od : OdVar) (store : Store Bytes) (s0 : Bytes) (aw : Option Access)
    (reads : List (Option Access)) : String :=
  match aw, reads.mapM id with
  | some aw, some reads =>
    let (s', o) := accessStep od store s0 aw
    (match o with
     | none => s!"err {toHex s0}"
     | some _ =>
       let shown := reads.map fun a => showRes (accessStep od store s' a).2
       s!"ok {toHex s'} {String.intercalate " " shown}")
  | _, _ => "bad-op"

/-- the reads after a write: the view itself, and (extended form) the raw value and the bytes -/
def readsAfter (r : Spell) (t : Tgt) (ext : Bool) : List (Option Access) :=
  if ext then [tgtGet r t, tgtGet r (.view .raw), some .getData] else [tgtGet r t]

/-- `raw` / `data` / `desc` / `phys` operation with the write spelt `w` and the reads spelt `r` -/
def viewOp (w r : Spell) (ext : Bool) (args : List String) : String :=
  match args with
  | ["raw", st, t, "get"] =>
    match parseStore st, t.toNat? with
    | some sp, some t =>
      let (store, s0) := storeOf sp t
      runGet ⟨t, 1, [], []⟩ store s0 (tgtGet r (.view .raw))
    | _, _ => "bad-op"
  | ["raw", st, t, "set", v] =>
    match parseStore st, t.toNat?, v.toInt? with
    | some sp, some t, some v =>
      let (store, s0) := storeOf sp t
      runSet ⟨t, 1, [], []⟩ store s0 (tgtSet w (.view .raw) (.int v)) (readsAfter r (.view .raw) ext)
    | _, _, _ => "bad-op"
  | ["data", st, t, "get"] =>
    match parseStore st, t.toNat? with
    | some sp, some t =>
      let (store, s0) := storeOf sp t
      runGet ⟨t, 1, [], []⟩ store s0 (tgtGet r .data)
    | _, _ => "bad-op"
  | ["data", st, t, "set", b] =>
    match parseStore st, t.toNat?, parseHex b with
    | some sp, some t, some b =>
      let (store, s0) := storeOf sp t
      runSet ⟨t, 1, [], []⟩ store s0 (tgtSet w .data (.bytes b)) (readsAfter r .data ext)
    | _, _, _ => "bad-op"
  | ["desc", st, t, tbl, "get"] =>
    match parseStore st, t.toNat?, parseTbl tbl with
    | some sp, some t, some tbl =>
      let (store, s0) := storeOf sp t
      runGet ⟨t, 1, tbl, []⟩ store s0 (tgtGet r (.view .desc))
    | _, _, _ => "bad-op"
  | ["desc", st, t, tbl, "set", d] =>
    match parseStore st, t.toNat?, parseTbl tbl, parseNatList d with
    | some sp, some t, some tbl, some d =>
      let (store, s0) := storeOf sp t
      runSet ⟨t, 1, tbl, []⟩ store s0 (tgtSet w (.view .desc) (.str d)) (readsAfter r (.view .desc) ext)
    | _, _, _, _ => "bad-op"
  | ["phys", st, t, f, "get"] =>
    match parseStore st, t.toNat?, parseRat f with
    | some sp, some t, some f =>
      let (store, s0) := storeOf sp t
      runGet ⟨t, f, [], []⟩ store s0 (tgtGet r (.view .phys))
    | _, _, _ => "bad-op"
  | ["phys", st, t, f, "set", v] =>
    match parseStore st, t.toNat?, parseRat f, parseRat v with
    | some sp, some t, some f, some v =>
      let (store, s0) := storeOf sp t
      runSet ⟨t, f, [], []⟩ store s0 (tgtSet w (.view .phys) (.num v)) (readsAfter r (.view .phys) ext)
    | _, _, _, _ => "bad-op"
  | _ => "bad-op"

/-- one step of `mseq`: `<spelling><view>?` / `<spelling><view>=<value>` with view `r` raw, `f` phys,
    `d` desc, `b` bytes; `B<key>?` / `B<key>=<int>` for a bit field -/
def parseStep (s : String) : Option Access :=
  match s.toList with
  | 'B' :: rest =>
    (match parseSeqOp (String.ofList rest) with
     | some (.get k) => some (.getBits k)
     | some (.set k v) => some (.setBits k v)
     | none => none)
  | sp :: vw :: rest =>
    match parseSpell (String.singleton sp) with
    | none => none
    | some sp =>
      let tgt : Option Tgt :=
        if vw = 'r' then some (.view .raw) else if vw = 'f' then some (.view .phys)
        else if vw = 'd' then some (.view .desc) else if vw = 'b' then some .data else none
      (match tgt, rest with
       | some tgt, ['?'] => tgtGet sp tgt
       | some tgt, '=' :: val =>
         let val := String.ofList val
         let x : Option PyVal := match tgt with
           | .view .raw => val.toInt?.map .int
           | .view .phys => (parseRat val).map .num
           | .view .desc => (parseNatList val).map .str
           | .data => (parseHex val).map .bytes
         x.bind (tgtSet sp tgt)
       | _, _ => none)
  | _ => none

def showStep (a : Access) (o : Option PyVal) : String :=
  if isStore a then (if o.isSome then "ok" else "err") else showRes o

/-- ops: see harness/props/c20.py; `physf` (numbers handed over as floats) is `phys` for the model -/
def step (args0 : List String) : String :=
  let args := match args0 with
    | "physf" :: r => "phys" :: r
    | a => a
  match args with
  | "via" :: wr :: rest =>
    match parseVia wr with
    | some (w, r) => viewOp w r true (match rest with | "physf" :: q => "phys" :: q | q => q)
    | none => "bad-op"
  | "raw" :: _ => viewOp .prop .prop false args
  | "data" :: _ => viewOp .prop .prop false args
  | ["fmt", st, t, fmt, "get"] =>
    -- `var.read(fmt=<any string>)`
    match parseStore st, t.toNat?, parseNatList fmt with
    | some sp, some t, some fmt =>
      let (store, s0) := storeOf sp t
      runGet ⟨t, 1, [], []⟩ store s0 (some (.getM (some fmt)))
    | _, _, _ => "bad-op"
  | ["fmt", st, t, fmt, "set", v] =>
    match parseStore st, t.toNat?, parseNatList fmt, v.toInt? with
    | some sp, some t, some fmt, some v =>
      let (store, s0) := storeOf sp t
      runSet ⟨t, 1, [], []⟩ store s0 (some (.setM (.int v) (some fmt))) [some (.getM (some fmt))]
    | _, _, _, _ => "bad-op"
  | ["mseq", st, t, f, tbl, defs, steps] =>
    match parseStore st, t.toNat?, parseRat f, parseTbl tbl, parseDefs defs,
      (steps.splitOn "|").mapM parseStep with
    | some sp, some t, some f, some tbl, some defs, some steps =>
      let (store, s0) := storeOf sp t
      let (s', outs) := accessRun ⟨t, f, tbl, defs⟩ store s0 steps
      let shown := (steps.zip outs).map fun (a, o) => showStep a o
      s!"ok {String.intercalate ";" shown} {toHex s'}"
    | _, _, _, _, _, _ => "bad-op"
  | ["bits", st, t, defs, key, "get"] =>
    match parseStore st, t.toNat?, parseDefs defs, parseKey key with
    | some sp, some t, some defs, some key =>
      let (store, s0) := storeOf sp t
      let od : OdVar := ⟨t, 1, [], defs⟩
      (match getBits od store s0 key with
       | some r => s!"ok {r}"
       | none => "err")
    | _, _, _, _ => "bad-op"
  | ["bits", st, t, defs, key, "set", v] =>
    match parseStore st, t.toNat?, parseDefs defs, parseKey key, v.toInt? with
    | some sp, some t, some defs, some key, some v =>
      let (store, s0) := storeOf sp t
      let od : OdVar := ⟨t, 1, [], defs⟩
      showSet s0 (setBits od store s0 key v) fun s' => showOptInt (getBits od store s' key)
    | _, _, _, _, _ => "bad-op"
  | ["seq", st, t, defs, ops] =>
    match parseStore st, t.toNat?, parseDefs defs, (ops.splitOn "|").mapM parseSeqOp with
    | some sp, some t, some defs, some ops =>
      let (store, s0) := storeOf sp t
      let od : OdVar := ⟨t, 1, [], defs⟩
      (match readRaw t store s0 with
       | none => "err"
       | some raw =>
         let (b, outs) := bitsObjRun od store ⟨s0, raw⟩ ops
         let shown := (ops.zip outs).map fun (op, o) => showSeqOut op o
         s!"ok {String.intercalate "," shown} {toHex b.store}")
    | _, _, _, _ => "bad-op"
  | ["vseq", st, t, defs, ops] =>
    -- like `seq`, but `var.bits` is taken afresh for every step and `R=<int>` changes the raw
    -- value by another path in between (`var.raw = …`): a fresh view always sees the current value
    match parseStore st, t.toNat?, parseDefs defs with
    | some sp, some t, some defs =>
      let (store, s0) := storeOf sp t
      let od : OdVar := ⟨t, 1, [], defs⟩
      let run := (ops.splitOn "|").foldl (fun (acc : Option (Bytes × List String)) (o : String) =>
        match acc with
        | none => none
        | some (s, outs) =>
          if o.startsWith "R=" then
            match (o.drop 2).toString.toInt? with
            | some v => (match writeRaw t store s v with
              | some s' => some (s', outs ++ ["ok"])
              | none => some (s, outs ++ ["err"]))
            | none => none
          else match parseSeqOp o with
            | some (.get k) => some (s, outs ++ [showOptInt (getBits od store s k)])
            | some (.set k v) => (match setBits od store s k v with
              | some s' => some (s', outs ++ ["ok"])
              | none => some (s, outs ++ ["err"]))
            | none => none) (some (s0, []))
      (match run with
       | some (s, outs) => s!"ok {String.intercalate "," outs} {toHex s}"
       | none => "bad-op")
    | _, _, _ => "bad-op"
  | ["desc", st, t, tbl, "get"] =>
    match parseStore st, t.toNat?, parseTbl tbl with
    | some sp, some t, some tbl =>
      let (store, s0) := storeOf sp t
      let od : OdVar := ⟨t, 1, tbl, []⟩
      (match getDesc od store s0 with
       | some d => s!"ok {showNatList d}"
       | none => "err")
    | _, _, _ => "bad-op"
  | ["desc", st, t, tbl, "set", d] =>
    match parseStore st, t.toNat?, parseTbl tbl, parseNatList d with
    | some sp, some t, some tbl, some d =>
      let (store, s0) := storeOf sp t
      let od : OdVar := ⟨t, 1, tbl, []⟩
      showSet s0 (setDesc od store s0 d) fun s' =>
        match getDesc od store s' with
        | some d => showNatList d
        | none => "err"
    | _, _, _, _ => "bad-op"
  | ["phys", st, t, f, "get"] =>
    match parseStore st, t.toNat?, parseRat f with
    | some sp, some t, some f =>
      let (store, s0) := storeOf sp t
      let od : OdVar := ⟨t, f, [], []⟩
      (match getPhys od store s0 with
       | some p => s!"ok {showRat p}"
       | none => "err")
    | _, _, _ => "bad-op"
  | ["phys", st, t, f, "set", v] =>
    match parseStore st, t.toNat?, parseRat f, parseRat v with
    | some sp, some t, some f, some v =>
      let (store, s0) := storeOf sp t
      let od : OdVar := ⟨t, f, [], []⟩
      showSet s0 (setPhys od store s0 v) fun s' =>
        match getPhys od store s' with
        | some p => showRat p
        | none => "err"
    | _, _, _, _ => "bad-op"
  | _ => "bad-op"

end Canopen.Driver.C20
