import CanopenModel.Views
namespace Canopen.Driver.C20
open Canopen Canopen.Codec Canopen.Views

/-- comma separated integers; `"-"` is the empty list -/
def parseIntList (s : String) : Option (List Int) :=
  if s = "-" then some [] else (s.splitOn ",").mapM (·.toInt?)

def parseOptInt (s : String) : Option (Option Int) :=
  if s = "_" then some none else s.toInt?.map some

/-- `num/den` -/
def parseRat (s : String) : Option Rat :=
  match s.splitOn "/" with
  | [n, d] => match n.toInt?, d.toNat? with
    | some n, some d => if d = 0 then none else some (mkRat n d)
    | _, _ => none
  | [n] => n.toInt?.map fun n => (n : Rat)
  | _ => none

def showRat (q : Rat) : String := s!"{q.num}/{q.den}"

/-- `n:5`, `l:4,5,6`, `t:4,5,6`, `s:4:8:_`, `d:72,73` -/
def parseKey (s : String) : Option Key :=
  match s.splitOn ":" with
  | ["n", i] => i.toInt?.map .num
  | ["l", l] => (parseIntList l).map .list
  | ["t", l] => (parseIntList l).map .list
  | ["s", a, b, c] => match parseOptInt a, parseOptInt b, parseOptInt c with
    | some a, some b, some c => some (.slice a b c)
    | _, _, _ => none
  | ["d", n] => (parseNatList n).map .name
  | _ => none

/-- `name=bits;name=bits` or `-` -/
def parseDefs (s : String) : Option (List (Name × List Int)) :=
  if s = "-" then some [] else
  (s.splitOn ";").mapM fun e =>
    match e.splitOn "=" with
    | [n, b] => match parseNatList n, parseIntList b with
      | some n, some b => some (n, b)
      | _, _ => none
    | _ => none

/-- `value=cps;value=cps` or `-` -/
def parseTbl (s : String) : Option (List (Int × Name)) :=
  if s = "-" then some [] else
  (s.splitOn ";").mapM fun e =>
    match e.splitOn "=" with
    | [v, d] => match v.toInt?, parseNatList d with
      | some v, some d => some (v, d)
      | _, _ => none
    | _ => none

/-- the store of an operation line: a cell (`d:`/`l:`/`s:` + hex — dict, LocalNode, SDO) or a
    byte-aligned PDO window (`p:off:framehex`; the window length is the type's size) -/
inductive StoreSpec where
  | cell (init : Bytes)
  | frame (off : Nat) (init : Bytes)

def parseStore (s : String) : Option StoreSpec :=
  match s.splitOn ":" with
  | [k, h] => if k = "d" ∨ k = "l" ∨ k = "s" then (parseHex h).map .cell else none
  | ["p", off, h] => match off.toNat?, parseHex h with
    | some off, some fr => some (.frame off fr)
    | _, _ => none
  | _ => none

def storeOf (sp : StoreSpec) (t : Nat) : Store Bytes × Bytes :=
  match sp with
  | .cell init => (cellStore, init)
  | .frame off init => (frameStore off (bitLen (some t) / 8), init)

def showOptInt : Option Int → String
  | some i => s!"{i}"
  | none => "err"

/-- result of an assignment: `ok <store> <read-back>` / `err <store>` -/
def showSet (s0 : Bytes) (o : Option Bytes) (readBack : Bytes → String) : String :=
  match o with
  | some s' => s!"ok {toHex s'} {readBack s'}"
  | none => s!"err {toHex s0}"

def parseSeqOp (s : String) : Option BitsOp :=
  if s.endsWith "?" then (parseKey (s.dropEnd 1).toString).map .get
  else match s.splitOn "=" with
    | [k, v] => match parseKey k, v.toInt? with
      | some k, some v => some (.set k v)
      | _, _ => none
    | _ => none

def showSeqOut (op : BitsOp) (o : Option Int) : String :=
  match op, o with
  | .get _, some i => s!"{i}"
  | .set _ _, some _ => "ok"
  | _, none => "err"

/-- ops: see harness/props/c20.py; `physf` (numbers handed over as floats) is `phys` for the model -/
def step (args0 : List String) : String :=
  let args := match args0 with
    | "physf" :: r => "phys" :: r
    | a => a
  match args with
  | ["bits", st, t, defs, key, "get"] =>
    match parseStore st, t.toNat?, parseDefs defs, parseKey key with
    | some sp, some t, some defs, some key =>
      let (store, s0) := storeOf sp t
      let od : OdVar := ⟨t, 1, [], defs⟩
      (match getBits od store s0 key with
       | some r => s!"ok {r}"
       | none => "err")
    | _, _, _, _ => "bad-op"
  | ["bits", st, t, defs, key, "set", v] =>
    match parseStore st, t.toNat?, parseDefs defs, parseKey key, v.toInt? with
    | some sp, some t, some defs, some key, some v =>
      let (store, s0) := storeOf sp t
      let od : OdVar := ⟨t, 1, [], defs⟩
      showSet s0 (setBits od store s0 key v) fun s' => showOptInt (getBits od store s' key)
    | _, _, _, _, _ => "bad-op"
  | ["seq", st, t, defs, ops] =>
    match parseStore st, t.toNat?, parseDefs defs, (ops.splitOn "|").mapM parseSeqOp with
    | some sp, some t, some defs, some ops =>
      let (store, s0) := storeOf sp t
      let od : OdVar := ⟨t, 1, [], defs⟩
      (match readRaw t store s0 with
       | none => "err"
       | some raw =>
         let (b, outs) := bitsObjRun od store ⟨s0, raw⟩ ops
         let shown := (ops.zip outs).map fun (op, o) => showSeqOut op o
         s!"ok {String.intercalate "," shown} {toHex b.store}")
    | _, _, _, _ => "bad-op"
  | ["vseq", st, t, defs, ops] =>
    -- like `seq`, but `var.bits` is taken afresh for every step and `R=<int>` changes the raw
    -- value by another path in between (`var.raw = …`): a fresh view always sees the current value
    match parseStore st, t.toNat?, parseDefs defs with
    | some sp, some t, some defs =>
      let (store, s0) := storeOf sp t
      let od : OdVar := ⟨t, 1, [], defs⟩
      let run := (ops.splitOn "|").foldl (fun (acc : Option (Bytes × List String)) (o : String) =>
        match acc with
        | none => none
        | some (s, outs) =>
          if o.startsWith "R=" then
            match (o.drop 2).toString.toInt? with
            | some v => (match writeRaw t store s v with
              | some s' => some (s', outs ++ ["ok"])
              | none => some (s, outs ++ ["err"]))
            | none => none
          else match parseSeqOp o with
            | some (.get k) => some (s, outs ++ [showOptInt (getBits od store s k)])
            | some (.set k v) => (match setBits od store s k v with
              | some s' => some (s', outs ++ ["ok"])
              | none => some (s, outs ++ ["err"]))
            | none => none) (some (s0, []))
      (match run with
       | some (s, outs) => s!"ok {String.intercalate "," outs} {toHex s}"
       | none => "bad-op")
    | _, _, _ => "bad-op"
  | ["desc", st, t, tbl, "get"] =>
    match parseStore st, t.toNat?, parseTbl tbl with
    | some sp, some t, some tbl =>
      let (store, s0) := storeOf sp t
      let od : OdVar := ⟨t, 1, tbl, []⟩
      (match getDesc od store s0 with
       | some d => s!"ok {showNatList d}"
       | none => "err")
    | _, _, _ => "bad-op"
  | ["desc", st, t, tbl, "set", d] =>
    match parseStore st, t.toNat?, parseTbl tbl, parseNatList d with
    | some sp, some t, some tbl, some d =>
      let (store, s0) := storeOf sp t
      let od : OdVar := ⟨t, 1, tbl, []⟩
      showSet s0 (setDesc od store s0 d) fun s' =>
        match getDesc od store s' with
        | some d => showNatList d
        | none => "err"
    | _, _, _, _ => "bad-op"
  | ["phys", st, t, f, "get"] =>
    match parseStore st, t.toNat?, parseRat f with
    | some sp, some t, some f =>
      let (store, s0) := storeOf sp t
      let od : OdVar := ⟨t, f, [], []⟩
      (match getPhys od store s0 with
       | some p => s!"ok {showRat p}"
       | none => "err")
    | _, _, _ => "bad-op"
  | ["phys", st, t, f, "set", v] =>
    match parseStore st, t.toNat?, parseRat f, parseRat v with
    | some sp, some t, some f, some v =>
      let (store, s0) := storeOf sp t
      let od : OdVar := ⟨t, f, [], []⟩
      showSet s0 (setPhys od store s0 v) fun s' =>
        match getPhys od store s' with
        | some p => showRat p
        | none => "err"
    | _, _, _, _ => "bad-op"
  | _ => "bad-op"

end Canopen.Driver.C20
