import CanopenModel.Sdo.Disturb
import CanopenModel.Driver.C01
import CanopenModel.Driver.C07Block
import CanopenModel.Driver.C07Lib
namespace Canopen.Driver.C07
open Canopen Canopen.Sdo Canopen.Spec Canopen.Driver.C01

abbrev DS := PS × DState

export Canopen.Driver.C07L (parseKind)

/-- the disturbed peer also logs what it actually delivered to the client -/
def dpeer (at_ : Nat) (k : Kind) : Peer (DS × List Bytes) := fun (ds, delivered) req =>
  let (ds', out) := distPeer C01.peer at_ k ds req
  ((ds', delivered ++ out), out)

def runX (at_ : Nat) (k : Kind) (c : Chan (DS × List Bytes)) (x : Xfer) : Chan (DS × List Bytes) × String :=
  match x with
  | .down i j d sz f o =>
    match downloadWith (dpeer at_ k) c i j d sz f o with
    | (c', .ok _) => (c', "ok")
    | (c', .error e) => (c', showErr e)
  | .up i j t =>
    match upload (dpeer at_ k) c i j t 100000 with
    | (c', .ok d) => (c', s!"ok {toHex d}")
    | (c', .error e) => (c', showErr e)
  | .upInto i j sizes => runInto (dpeer at_ k) c i j sizes

def runAllX (at_ : Nat) (k : Kind) : Chan (DS × List Bytes) → List Xfer → List String → Chan (DS × List Bytes) × List String
  | c, [], acc => (c, acc)
  | c, x :: xs, acc => let (c', r) := runX at_ k c x; runAllX at_ k c' xs (acc ++ [r])

/-- `dist <held> <sizeInd> <exp> <expSize> <cuts> <at> <kind> <xfer;xfer;…>`
    → `results | reqs | delivered | commits | illegal` -/
def step (args : List String) : String :=
  match args with
  | "bdist" :: _ => C07B.step args
  | "distlib" :: _ => C07L.step args
  | ["dist", held, si, ex, es, cuts, at_, kind, xs] =>
    match parseHeld held, parseBool si, parseBool ex, parseBool es, parseNatList cuts, at_.toNat?, parseKind kind,
          (xs.splitOn ";").mapM parseXfer with
    | some held, some si, some ex, some es, some cuts, some at_, some kind, some xs =>
      let s0 := ssInit held { sizeIndicated := si, expedited := ex, expSize := es, cuts := cuts }
      let c0 : Chan (DS × List Bytes) := { peer := (((s0, []), { idx := 0, pending := [] }), []), queue := [], sent := [] }
      let (c, rs) := runAllX at_ kind c0 xs []
      s!"{String.intercalate ";" rs} | {showFrames c.sent} | {showFrames c.peer.2} | {showCommits c.peer.1.1.1.commits} | {showIllegal c.peer.1.1.1.illegal}"
    | _, _, _, _, _, _, _, _ => "bad-op"
  | _ => "bad-op"

end Canopen.Driver.C07
