import CanopenModel.Driver.EdsCommon
import CanopenModel.Eds.Export
namespace Canopen.Driver.C14
open Canopen Canopen.Eds Canopen.Driver.Eds

def hexOfStr (s : Str) : String :=
  if s.isEmpty then "-" else toHexRaw (String.ofList s).toUTF8.toList
where toHexRaw (bs : List UInt8) : String :=
  String.ofList (bs.flatMap fun b => [hexDigit (b.toNat / 16), hexDigit (b.toNat % 16)])

/-- the document in the encoding of the ops (`name:k=v,…;…`, strings hex of UTF-8) -/
def encDoc (d : Doc) : String :=
  if d.isEmpty then "-" else
  ";".intercalate (d.map fun s =>
    hexOfStr s.name ++ ":" ++ ",".intercalate (s.opts.map fun p => hexOfStr p.1 ++ "=" ++ hexOfStr p.2))

def parseOptStr (s : String) : Option (Option Str) :=
  if s = "~" then some none
  else if s.startsWith "=" then (hexToStr (s.drop 1).toString).map some else none

def parseValue (s : String) : Option (Option Value) :=
  if s = "~" then some none
  else match s.toList with
    | 'i' :: r => (String.ofList r).toInt?.map fun i => some (.int i)
    | 'b' :: r => (parseHex (String.ofList r)).map fun b => some (.bytes b)
    | 's' :: r => (hexToStr (String.ofList r)).map fun t => some (.str t)
    | 'r' :: r => (hexToStr (String.ofList r)).map fun t => some (.real t)
    | _ => none

def parseOptI (s : String) : Option (Option Int) := if s = "~" then some none else s.toInt?.map some

/-- name,index,sub,dt,access,pdo,default,value,min,max,relative,draw,vraw,stor,factor,desc,unit -/
def parseVar (f : List String) : Option Var :=
  match f with
  | [nm, ix, sb, dt, ac, pd, df, vl, mn, mx, rl, dr, vr, st, fc, ds, un] => do
    pure { name := ← hexToStr nm, index := ← ix.toNat?, subindex := ← sb.toNat?, dataType := ← dt.toInt?,
           accessType := ← hexToStr ac, pdoMappable := ← parseBool pd, default := ← parseValue df,
           value := ← parseValue vl, min := ← parseOptI mn, max := ← parseOptI mx,
           relative := ← parseBool rl, defaultRaw := ← parseOptStr dr, valueRaw := ← parseOptStr vr,
           storage := ← parseOptStr st, factor := ← parseOptStr fc, description := ← hexToStr ds,
           unit := ← hexToStr un }
  | _ => none

def flush (od : OD) (pending : Option Coll) : OD :=
  match pending with
  | some c => od.addObject (.coll c)
  | none => od

/-- one construction command; the state is the dictionary and the record/array being filled -/
def applyItem (st : OD × Option Coll) (item : String) : Option (OD × Option Coll) :=
  let (od, pending) := st
  match item.splitOn "," with
  | "V" :: f => (parseVar f).map fun v => ((flush od pending).addObject (.var v), none)
  | ["R", nm, ix, stor] => do
    let c : Coll := { isArray := false, name := ← hexToStr nm, index := ← ix.toNat?, storage := ← parseOptStr stor }
    pure (flush od pending, some c)
  | ["A", nm, ix, stor] => do
    let c : Coll := { isArray := true, name := ← hexToStr nm, index := ← ix.toNat?, storage := ← parseOptStr stor }
    pure (flush od pending, some c)
  | "M" :: f => match pending with
    | some c => (parseVar f).map fun v => (od, some (c.addMember v))
    | none => none
  | ["n", v] => (parseOptI v).map fun n => ({ od with nodeId := n }, pending)
  | ["b", v] => (parseOptI v).map fun n => ({ od with bitrate := n }, pending)
  | ["c", v] => (hexToStr v).map fun c => ({ od with comments := c }, pending)
  | ["u", v] => v.toNat?.map fun r => ({ od with bauds := od.bauds ++ [r] }, pending)
  | ["d", attr, kind, v] => do
    let a ← hexToStr attr
    let dv ← (if kind = "s" then (hexToStr v).map DevVal.str
              else if kind = "i" then v.toInt?.map DevVal.int
              else if kind = "t" then some (DevVal.bool true)
              else if kind = "f" then some (DevVal.bool false) else none)
    pure ({ od with devInfo := dictSet a dv od.devInfo }, pending)
  | _ => none

def parseOD (s : String) : Option OD :=
  if s = "-" then some {} else
  ((s.splitOn ";").foldlM applyItem (({} : OD), none)).map fun st => flush st.1 st.2

/-- `I=`: the node id of the dictionary obtained by importing an exported DCF *without* an explicit node id
    (`-` for an EDS, `err` when that import raises) -/
def showFileNodeId (dcf : Bool) (d : Doc) : String :=
  if dcf then
    match importEds d none with
    | some od' => "I=" ++ showOpt showInt od'.nodeId
    | none => "I=err"
  else "I=-"

def showRound (od : OD) (dcf : Bool) (nid0 : Option Int) : String :=
  -- the node id in force for the original dictionary is in force for the re-import
  let nid := match nid0 with | some n => some n | none => od.nodeId
  match roundTrip od dcf nid with
  | none => "ok X=1 I=- O=(" ++ showOD od ++ ") export-err"
  | some (d, r) => "ok X=1 " ++ showFileNodeId dcf d ++ " O=(" ++ showOD od ++ ") D=" ++ encDoc d ++
      " R=(" ++ showResult r ++ ")"

def showStep (od : OD) (dcf : Bool) (r : Option (Doc × Option OD)) : String :=
  match r with
  | none => "I=- O=(" ++ showOD od ++ ") export-err"
  | some (d, r) => showFileNodeId dcf d ++ " O=(" ++ showOD od ++ ") D=" ++ encDoc d ++ " R=(" ++ showResult r ++ ")"

/-- the steps of a `hist` history: five tokens each (`<eds|dcf> <f|s|o> <file stem> <node id|none> <dictionary>`);
    the file of a step is `<stem>.<eds|dcf>` -/
def parseSteps : List String → Option (List RoundStep)
  | [] => some []
  | dt :: dest :: stem :: nid :: enc :: rest =>
    match hexToStr stem, parseOptInt nid, parseOD enc, parseSteps rest with
    | some stem, some nid, some od, some r =>
      if (dt = "eds" ∨ dt = "dcf") ∧ (dest = "f" ∨ dest = "s" ∨ dest = "o") then
        -- the node id in force for the original dictionary is in force for the re-import
        let nid := match nid with | some n => some n | none => od.nodeId
        some ({ od := od, dcf := dt = "dcf", nodeId := nid,
                dest := if dest = "f" then .file (stem ++ '.' :: dt.toList) else .stream } :: r)
      else none
    | _, _, _, _ => none
  | _ => none

/-- ops:
  `rt <eds|dcf> <dest> <node id for the re-import|none> <dictionary built by API calls>`
  `hist <k> {<eds|dcf> <f|s|o> <file stem> <node id|none> <dictionary>}*k`   several rounds in one process;
                                                              `f` rounds write and re-read `<stem>.<eds|dcf>'
  `rti <eds|dcf> <dest> <node id|none> <file name> <doc> …`   import first, then round trip
  `rev <type> <value>`                                        `_revert_variable` + `_convert_variable` -/
def step (args : List String) : String :=
  match args with
  | "rt" :: dt :: _ :: nid :: enc :: _ =>
    match parseOptInt nid, parseOD enc with
    | some nid, some od => if dt = "eds" ∨ dt = "dcf" then showRound od (dt = "dcf") nid else "bad-op"
    | _, _ => "bad-op"
  | "rti" :: dt :: _ :: nid :: fn :: doc :: _ =>
    match parseOptInt nid, hexToStr fn, parseDoc doc with
    | some nid, some fn, some doc =>
      if dt = "eds" ∨ dt = "dcf" then
        match importOd fn doc nid with
        | some od => showRound od (dt = "dcf") nid
        | none => "import-err"
      else "bad-op"
    | _, _, _ => "bad-op"
  | "hist" :: k :: rest =>
    match k.toNat?, parseSteps rest with
    | some k, some steps =>
      if k = steps.length ∧ 0 < k then
        "ok " ++ " # ".intercalate
          ((List.zip steps (roundHistory [] steps)).map fun p => showStep p.1.od p.1.dcf p.2)
      else "bad-op"
    | _, _ => "bad-op"
  | ["rev", t, v] =>
    match t.toInt?, parseValue v with
    | some t, some (some v) =>
      (match revertVariable t v with
       | some txt => s!"ok {esc txt} " ++ showOpt showValue (convertVariable none t txt)
       | none => "err")
    | _, _ => "bad-op"
  | _ => "bad-op"

end Canopen.Driver.C14
