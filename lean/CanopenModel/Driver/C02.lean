import CanopenModel.Sdo.Server
import CanopenModel.Spec.SdoClient
namespace Canopen.Driver.C02
open Canopen Canopen.Codec Canopen.Sdo Canopen.Spec

/-- value token: `n` none, `i<int>`, `b0|b1`, `f<bits>`, `s<cp.cp…>`, `x<hex>` -/
def parseVal (s : String) : Option (Option Val) :=
  match s.toList with
  | ['n'] => some none
  | 'i' :: r => (String.ofList r).toInt?.map (fun i => some (.int i))
  | 'b' :: r => (parseBool (String.ofList r)).map (fun b => some (.bool b))
  | 'f' :: r => (String.ofList r).toNat?.map (fun b => some (.real b))
  | 's' :: r =>
    if r.isEmpty then some (some (.str []))
    else (((String.ofList r).splitOn ".").mapM String.toNat?).map (fun c => some (.str c))
  | 'x' :: r => (parseHex (String.ofList r)).map (fun b => some (.bytes b))
  | _ => none

/-- `T,A,V,D` -/
def parseVarDesc (s : String) : Option VarDesc :=
  match s.splitOn "," with
  | [t, a, v, d] => do
    let t ← if t = "n" then some none else t.toNat?.map some
    let a ← a.toNat?
    let v ← parseVal v
    let d ← parseVal d
    pure { dtype := t, access := a, value := v, default := d }
  | _ => none

def parseMembers (s : String) : Option (List (Nat × VarDesc)) :=
  if s = "" then some [] else
  (s.splitOn "|").mapM fun m =>
    match m.splitOn "=" with
    | [k, vd] => do let k ← k.toNat?; let vd ← parseVarDesc vd; pure (k, vd)
    | _ => none

def parseEntry (s : String) : Option (Nat × Obj) :=
  match s.splitOn "@" with
  | ["v", idx, vd] => do let i ← idx.toNat?; let v ← parseVarDesc vd; pure (i, .var v)
  | ["r", idx, ms] => do let i ← idx.toNat?; let m ← parseMembers ms; pure (i, .record m)
  | ["a", idx, ms] => do let i ← idx.toNat?; let m ← parseMembers ms; pure (i, .array m)
  | _ => none

def parseOd (s : String) : Option (List (Nat × Obj)) :=
  if s = "-" then some [] else (s.splitOn ";").mapM parseEntry

def parseCb (s : String) : Option (List ((Nat × Nat) × Val)) :=
  if s = "-" then some [] else
  (s.splitOn "&").mapM fun e =>
    match e.splitOn "~" with
    | [k, v] => (match k.splitOn ".", parseVal v with
      | [i, j], some (some v) => do let i ← i.toNat?; let j ← j.toNat?; pure ((i, j), v)
      | _, _ => none)
    | _ => none

def parseFrames (s : String) : Option (List Bytes) :=
  if s = "-" then some [] else (s.splitOn ",").mapM parseHex

def mkNode (od : List (Nat × Obj)) (cb : List ((Nat × Nat) × Val)) : Node :=
  { od := od, store := [], readCb := cb, writeLog := [] }

def showSent (sent : List Bytes) (raised : Bool) : String :=
  (if raised then "RAISED:" else "") ++
  (if sent.isEmpty then "SILENT" else String.intercalate "+" (sent.map toHex))

/-- insertion sort on (idx, sub) keys -/
def insertKV (k : Nat × Nat) (v : Bytes) : List ((Nat × Nat) × Bytes) → List ((Nat × Nat) × Bytes)
  | [] => [(k, v)]
  | (k', v') :: r =>
    if k.1 < k'.1 ∨ (k.1 = k'.1 ∧ k.2 < k'.2) then (k, v) :: (k', v') :: r
    else (k', v') :: insertKV k v r

/-- current bindings of the store (latest first in the model), sorted -/
def storeView (st : List ((Nat × Nat) × Bytes)) : List ((Nat × Nat) × Bytes) :=
  let rec go (seen : List (Nat × Nat)) : List ((Nat × Nat) × Bytes) → List ((Nat × Nat) × Bytes)
    | [] => []
    | (k, v) :: r => if seen.contains k then go seen r else insertKV k v (go (k :: seen) r)
  go [] st

def showStore (st : List ((Nat × Nat) × Bytes)) : String :=
  let v := storeView st
  if v.isEmpty then "-" else
    String.intercalate "&" (v.map fun ((i, j), b) => s!"{i}.{j}={toHex b}")

def showLog (lg : List (Nat × Nat × Bytes)) : String :=
  if lg.isEmpty then "-" else
    String.intercalate "&" (lg.map fun (i, j, b) => s!"{i}.{j}={toHex b}")

def showX : XRes → String
  | .ok d => s!"ok {toHex d}"
  | .aborted c => s!"abort {c}"
  | .protocol _ => "protocol"

/-- client style of a download: `E` expedited with size, `U` expedited without (0x22), `S` segmented
    with size, `N` segmented without (0x20) -/
def parseStyle (s : String) : Option DownStyle :=
  if s = "E" then some .expSized else if s = "U" then some .expUnsized
  else if s = "S" then some .segSized else if s = "N" then some .segUnsized else none

/-- `i.j,i.j,…` or `-` -/
def parseAddrs (s : String) : Option (List (Nat × Nat)) :=
  if s = "-" then some [] else
  (s.splitOn ",").mapM fun e =>
    match e.splitOn "." with
    | [i, j] => do let i ← i.toNat?; let j ← j.toNat?; pure (i, j)
    | _ => none

def preRun (n : Node) (pre : List Bytes) : Srv × Node :=
  let (s, n', _) := srvRun srvInit n pre
  (s, n')

partial def step (args : List String) : String :=
  match args with
  | ["srv", od, cb, frames] => match parseOd od, parseCb cb, parseFrames frames with
    | some od, some cb, some fs =>
      let (_, n', outs) := srvRun srvInit (mkNode od cb) fs
      let body := if outs.isEmpty then "-" else String.intercalate "," (outs.map fun (s, r) => showSent s r)
      s!"{body} | store: {showStore n'.store} | log: {showLog n'.writeLog}"
    | _, _, _ => "bad-op"
  | ["srvx", od, cb, frames, _expect] =>
    -- same as `srv`; the extra token is the harness oracle's expectation for the last response
    step ["srv", od, cb, frames]
  | ["up", od, cb, pre, idx, sub] => match parseOd od, parseCb cb, parseFrames pre, idx.toNat?, sub.toNat? with
    | some od, some cb, some pre, some idx, some sub =>
      let (s, n) := preRun (mkNode od cb) pre
      let (_, _, x) := refUpload s n idx sub
      showX x
    | _, _, _, _, _ => "bad-op"
  | ["up2", od, cb, pre, idx, sub] => match parseOd od, parseCb cb, parseFrames pre, idx.toNat?, sub.toNat? with
    | some od, some cb, some pre, some idx, some sub =>
      let (s, n) := preRun (mkNode od cb) pre
      let (s1, n1, x) := refUpload s n idx sub
      let (_, _, y) := refUpload s1 n1 idx sub
      s!"{showX x} ; {showX y}"
    | _, _, _, _, _ => "bad-op"
  | ["down", od, cb, pre, idx, sub, hex, exp, chunks] =>
    match parseOd od, parseCb cb, parseFrames pre, idx.toNat?, sub.toNat?, parseHex hex, parseBool exp, parseNatList chunks with
    | some od, some cb, some pre, some idx, some sub, some data, some exp, some chunks =>
      let (s, n) := preRun (mkNode od cb) pre
      let (s1, n1, x) := refDownload s n idx sub data exp chunks
      let (_, n2, y) := refUpload s1 n1 idx sub
      s!"{showX x} | store: {showStore n1.store} | log: {showLog n1.writeLog} | readback: {showX y} | log2: {showLog n2.writeLog}"
    | _, _, _, _, _, _, _, _ => "bad-op"
  | ["ups", od, cb, pre, idx, sub, bits, fill] =>
    -- strict upload by a client that writes `bits` / `fill` where the server has to ignore it
    match parseOd od, parseCb cb, parseFrames pre, idx.toNat?, sub.toNat?, bits.toNat?, parseHex fill with
    | some od, some cb, some pre, some idx, some sub, some bits, some fill =>
      let (s, n) := preRun (mkNode od cb) pre
      let (_, _, x) := refUploadS ⟨bits, fill⟩ s n idx sub
      showX x
    | _, _, _, _, _, _, _ => "bad-op"
  | ["downs", od, cb, pre, idx, sub, hex, style, chunks, bits, fill, post, also] =>
    -- strict download in one of the four client styles; then the frames `post` (stray segments, other
    -- requests); then what the node holds, a read-back by the same client, and uploads of the addresses `also`
    match parseOd od, parseCb cb, parseFrames pre, idx.toNat?, sub.toNat?, parseHex hex, parseStyle style,
      parseNatList chunks, bits.toNat?, parseHex fill, parseFrames post, parseAddrs also with
    | some od, some cb, some pre, some idx, some sub, some data, some st, some chunks, some bits, some fill,
      some post, some also =>
      let v : Rsv := ⟨bits, fill⟩
      let (s, n) := preRun (mkNode od cb) pre
      let (s1, n1, x) := refDownloadS v s n idx sub data st chunks
      let (s2, n2, _) := srvRun s1 n1 post
      let (s3, n3, y) := refUploadS v s2 n2 idx sub
      let (_, n4, zs) := refUploadsS v s3 n3 also
      let alsoS := if also.isEmpty then "-" else
        String.intercalate ";" ((also.zip zs).map fun ((i, j), z) => s!"{i}.{j}={showX z}")
      s!"{showX x} | store: {showStore n2.store} | log: {showLog n2.writeLog} | readback: {showX y} | also: {alsoS} | log2: {showLog n4.writeLog}"
    | _, _, _, _, _, _, _, _, _, _, _, _ => "bad-op"
  | _ => "bad-op"

end Canopen.Driver.C02
