import CanopenModel.Pdo.Exchange
import CanopenModel.Driver.C04
namespace Canopen.Driver.C15
open Canopen Canopen.Codec Canopen.Pdo

def parseOptNat (s : String) : Option (Option Nat) :=
  if s = "n" then some none else s.toNat?.map some

def parseLay (lay : String) : Option (List (Nat × Nat)) :=
  if lay = "-" then some [] else (lay.splitOn "/").mapM fun e =>
    match e.splitOn ":" with
    | [t, l] => do let t ← t.toNat?; let l ← l.toNat?; pure (t, l)
    | _ => none

/-- `cob|n,en,rtr,t:len/t:len/…` (layout `-` = empty) -/
def parseMap (s : String) : Option PMap :=
  match s.splitOn "," with
  | [cob, en, rtr, lay] => do
    let cob ← parseOptNat cob
    let en ← parseBool en
    let rtr ← parseBool rtr
    let lay ← parseLay lay
    pure (mkMap cob en rtr lay)
  | _ => none

def parseMaps (s : String) : Option (List PMap) :=
  if s = "-" then some [] else (s.splitOn ";").mapM parseMap

def showOptInt : Option Int → String
  | some i => toString i
  | none => "n"

def showVals (m : PMap) : String :=
  String.intercalate "," ((List.range m.layout.length).map fun i =>
    match readVar m i with
    | some v => (C04.showVal v).replace " " ":"
    | none => "err")

/-- what a callback recorded: timestamp, is_received, period, data, the mapped variables' values -/
def showSnap (m : PMap) : String :=
  let vals := (showVals m).replace "," ";"
  s!"{showOptInt m.timestamp}~{if m.isReceived then "1" else "0"}~{showOptInt m.period}~{toHex m.data}~{vals}"

def showLog (l : List Call) : String :=
  if l.isEmpty then "-" else String.intercalate "," (l.map fun (k, cb, snap) => s!"{k}.{cb}~{showSnap snap}")

structure Sys where
  prod : List PMap
  cons : Consumer
  clock : Int

def parseVal (k v : String) : Option Val :=
  match k with
  | "int" => (parseInt v).map .int
  | "bool" => (parseBool v).map .bool
  | "real" => (parseNat v).map .real
  | _ => none

def parseArrivals (s : String) : Option (List (Nat × Bytes)) :=
  if s = "-" then some [] else (s.splitOn ";").mapM fun e =>
    match e.splitOn ":" with
    | [i, h] => do let i ← i.toNat?; let h ← parseHex h; pure (i, h)
    | _ => none

def deliver (s : Sys) (canId : Nat) (data : Bytes) : Sys × String :=
  let (c, log) := notify s.cons canId data s.clock
  ({ s with cons := c, clock := s.clock + 1 }, showLog log)

/-- a frame whose timestamp is `dt` below the clock (0 = the same stamp as the next regular frame
    would get, 1 = equal to the previous frame's, 2… = older): the clock does not advance -/
def deliverAt (s : Sys) (canId : Nat) (data : Bytes) (dt : Nat) : Sys × String :=
  let (c, log) := notify s.cons canId data (s.clock - dt)
  ({ s with cons := c }, showLog log)

def parseOptInt (s : String) : Option (Option Int) :=
  if s = "n" then some none else (parseInt s).map some

/-- a periodic-transmission call on one map: the map afterwards, and `ok` / `err` (the call raised) -/
def ctlOut (c : Ctl) (m : PMap) : PMap × String :=
  match c with
  | .start p => let r := start m p; (r.1, if r.2 then "ok" else "err")
  | c => (ctl m c, "ok")

/-- apply `f` to map `k` of the producing (`P`) or the consuming (`C`) side -/
def onMap (s : Sys) (side : String) (k : Nat) (f : PMap → PMap × String) : Sys × String :=
  if side = "P" then
    match s.prod[k]? with
    | some pm => let (pm', o) := f pm; ({ s with prod := s.prod.set k pm' }, o)
    | none => (s, "bad")
  else if side = "C" then
    match s.cons.maps[k]? with
    | some cm => let (cm', o) := f cm; ({ s with cons := { s.cons with maps := s.cons.maps.set k cm' } }, o)
    | none => (s, "bad")
  else (s, "bad")

/-- `add_callback` of an observer (`raises`: it raises after recording) -/
def addCallback (s : Sys) (m tag : String) (raises : Bool) : Sys × String :=
  match m.toNat?, tag.toNat? with
  | some m, some tag =>
    (match s.cons.maps[m]? with
     | some cm => ({ s with cons := { s.cons with maps := s.cons.maps.set m { cm with callbacks := cm.callbacks ++ [(tag, raises)] } } }, "ok")
     | none => (s, "bad"))
  | _, _ => (s, "bad")

def stamp (s : Sys) (arr : List (Nat × Bytes)) : List (Nat × Bytes × Int) :=
  (List.range arr.length).zip arr |>.map fun (n, (i, d)) => (i, d, s.clock + n)

def stepOne (s : Sys) (tok : String) : Sys × String :=
  match tok.splitOn "." with
  | ["y", id, h, dt] =>
    (match id.toNat?, parseHex h, dt.toNat? with
     | some id, some d, some dt => let (s', l) := deliverAt s id d dt; (s', ">" ++ l)
     | _, _, _ => (s, "bad"))
  | ["v", m, i, k, v] =>
    -- a variable of a CONSUMER map is written (the consuming side produces on the shared PDO)
    (match m.toNat?, i.toNat?, parseVal k v with
     | some m, some i, some v =>
       (match s.cons.maps[m]? with
        | some cm => (match writeVar cm i v with
          | some cm' => ({ s with cons := { s.cons with maps := s.cons.maps.set m cm' } }, "ok")
          | none => (s, "err"))
        | none => (s, "bad"))
     | _, _, _ => (s, "bad"))
  | ["w", m, i, k, v] =>
    (match m.toNat?, i.toNat?, parseVal k v with
     | some m, some i, some v =>
       (match s.prod[m]? with
        | some pm => (match writeVar pm i v with
          | some pm' => ({ s with prod := s.prod.set m pm' }, "ok")
          | none => (s, "err"))
        | none => (s, "bad"))
     | _, _, _ => (s, "bad"))
  | ["t", m] =>
    (match m.toNat?.bind (s.prod[·]?) with
     | some pm => (match transmit pm with
       | some (cob, d) => let (s', log) := deliver s cob d; (s', s!"tx:{cob}:{toHex d}>{log}")
       | none => (s, "err"))
     | none => (s, "bad"))
  | ["x", id, h] =>
    (match id.toNat?, parseHex h with
     | some id, some d => let (s', log) := deliver s id d; (s', s!">{log}")
     | _, _ => (s, "bad"))
  | ["r", m] =>
    (match m.toNat?.bind (s.cons.maps[·]?) with
     | some cm => (s, s!"{showVals cm}@{showOptInt cm.timestamp}@{showOptInt cm.period}@{toHex cm.data}")
     | none => (s, "bad"))
  | ["p", m] =>
    (match m.toNat?.bind (s.prod[·]?) with
     | some pm => (s, s!"{showVals pm}@{toHex pm.data}")
     | none => (s, "bad"))
  | ["q", m] =>
    (match m.toNat?.bind (s.cons.maps[·]?) with
     | some cm => (match remoteRequest cm with
       | some (some cob) => (s, s!"rtr:{cob}")
       | some none => (s, "err")
       | none => (s, "none"))
     | none => (s, "bad"))
  | ["s", m] =>
    (match m.toNat? with
     | some m => ({ s with cons := subscribeMap s.cons m }, "ok")
     | none => (s, "bad"))
  | ["c", m, cob, en, rtr] =>
    (match m.toNat?, parseOptNat cob, parseBool en, parseBool rtr with
     | some m, some cob, some en, some rtr =>
       (match s.cons.maps[m]? with
        | some cm => ({ s with cons := { s.cons with maps := s.cons.maps.set m { cm with cobId := cob, enabled := en, rtrAllowed := rtr } } }, "ok")
        | none => (s, "bad"))
     | _, _, _, _ => (s, "bad"))
  | ["d", m, cob, en, rtr] =>
    (match m.toNat?, cob.toNat?, parseBool en, parseBool rtr with
     | some m, some cob, some en, some rtr => ({ s with cons := readFromOd s.cons m cob en rtr }, "ok")
     | _, _, _, _ => (s, "bad"))
  | ["b", m, tag] => addCallback s m tag false
  | ["B", m, tag] => addCallback s m tag true
  | ["T", m, on] =>
    -- the older spelling of `S.C.m.7` / `E.C.m`
    (match m.toNat?, parseBool on with
     | some m, some on => onMap s "C" m (if on then ctlOut (.start (some 7)) else ctlOut .stop)
     | _, _ => (s, "bad"))
  | ["S", side, m, per] =>
    (match m.toNat?, parseOptInt per with
     | some m, some per => onMap s side m (ctlOut (.start per))
     | _, _ => (s, "bad"))
  | ["E", side, m] =>
    (match m.toNat? with
     | some m => onMap s side m (ctlOut .stop)
     | none => (s, "bad"))
  | ["U", side, m] =>
    (match m.toNat? with
     | some m => onMap s side m (ctlOut .update)
     | none => (s, "bad"))
  | ["W", m, arr] =>
    (match m.toNat?, parseArrivals arr with
     | some m, some arr =>
       let (c, res) := waitForReception s.cons m (stamp s arr)
       ({ s with cons := c, clock := s.clock + arr.length }, s!"wait:{showOptInt res}")
     | _, _ => (s, "bad"))
  | ["Z", m, n, _timeout, arr] =>
    -- `n` reader threads in wait_for_reception, the frames delivered from another thread
    (match m.toNat?, n.toNat?, parseArrivals arr with
     | some m, some n, some arr =>
       let (c, res) := waitThreaded s.cons m (stamp s arr)
       ({ s with cons := c, clock := s.clock + arr.length },
        "wait:" ++ String.intercalate "," (List.replicate n (showOptInt res)))
     | _, _, _ => (s, "bad"))
  | _ => (s, "bad")

/-- `x <producer maps> <consumer maps> <step|step|…>` -/
def step (args : List String) : String :=
  match args with
  | ["x", pm, cm, steps] =>
    match parseMaps pm, parseMaps cm with
    | some pm, some cm =>
      let s0 : Sys := { prod := pm, cons := { maps := cm, subs := [] }, clock := 100 }
      let (_, outs) := (steps.splitOn "|").foldl
        (fun (acc : Sys × List String) tok => let (s', o) := stepOne acc.1 tok; (s', acc.2 ++ [o])) (s0, [])
      String.intercalate "|" outs
    | _, _ => "bad-op"
  | _ => "bad-op"

end Canopen.Driver.C15
