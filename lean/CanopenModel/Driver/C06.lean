import CanopenModel.Driver.C02
import CanopenModel.Sdo.Client
/-!
C06 driver: the server-side operations of C02, plus `cab <code>`: what the client raises when it
finds an abort frame carrying `code` (decoding of the 32-bit little-endian abort code).
-/
namespace Canopen.Driver.C06
open Canopen Canopen.Sdo

def step (args : List String) : String :=
  match args with
  | ["cab", code, _mode] =>
    match code.toNat? with
    | some code =>
      (match decodeResponse ([0x80, 0x00, 0x20, 0x00] ++ leBytes 4 code) with
       | .error (.aborted c) => s!"err aborted {c}"
       | .error _ => "err other"
       | .ok _ => "ok")
    | none => "bad-op"
  | _ => C02.step args

end Canopen.Driver.C06
