import CanopenModel.Driver.C02
import CanopenModel.Driver.C01
import CanopenModel.Sdo.Client
import CanopenModel.Sdo.Disturb
/-!
C06 driver: the server-side operations of C02, plus `cab <code>`: what the client raises when it
finds an abort frame carrying `code` (decoding of the 32-bit little-endian abort code).
-/
namespace Canopen.Driver.C06
open Canopen Canopen.Sdo

def step (args : List String) : String :=
  match args with
  | ["cab", code, _mode] =>
    match code.toNat? with
    | some code =>
      (match decodeResponse ([0x80, 0x00, 0x20, 0x00] ++ leBytes 4 code) with
       | .error (.aborted c) => s!"err aborted {c}"
       | .error _ => "err other"
       | .ok _ => "ok")
    | none => "bad-op"
  | ["cabn", code, k, n] =>
    -- a download of `n` bytes WITHOUT declared size through the file interface; the server's answer
    -- to request number `k` (0 = initiate, …, the last = the closing empty segment) is an abort
    -- frame with `code`
    match code.toNat?, k.toNat?, n.toNat? with
    | some code, some k, some n =>
      let data : Bytes := (List.range n).map fun i => (i * 7 + 1) % 256
      let frame : Bytes := [0x80, 0x00, 0x20, 0x00] ++ leBytes 4 code
      let s0 := Spec.ssInit [] { sizeIndicated := true, expedited := true, expSize := true, cuts := [] }
      let c0 : Chan (C01.PS × DState) :=
        { peer := ((s0, []), { idx := 0, pending := [] }), queue := [], sent := [] }
      (match downloadWith (distPeer C01.peer k (.replace frame)) c0 0x2000 0 data false false [] with
       | (_, .ok _) => "ok"
       | (_, .error (.aborted c)) => s!"err aborted {c}"
       | (_, .error .comm) => "err comm"
       | (_, .error _) => "err other")
    | _, _, _ => "bad-op"
  | ["cbref", od, idx, sub, hex, exp, code] =>
    -- the application's write callback refuses downloads to idx:sub with `code`
    match C02.parseOd od, idx.toNat?, sub.toNat?, parseHex hex, parseBool exp, code.toNat? with
    | some od, some idx, some sub, some data, some exp, some code =>
      let n0 : Node := { C02.mkNode od [] with refuse := [((idx, sub), code)] }
      let (s1, n1, x) := Spec.refDownload srvInit n0 idx sub data exp [7, 7, 7]
      let (_, _, y) := Spec.refUpload s1 n1 idx sub
      s!"{C02.showX x} | store: {C02.showStore n1.store} | readback: {C02.showX y}"
    | _, _, _, _, _, _ => "bad-op"
  | _ => C02.step args

end Canopen.Driver.C06
