import CanopenModel.Bytes
import CanopenModel.P402
namespace Canopen.Driver.C19
open Canopen Canopen.P402 Canopen.Spec.Drive402 Canopen.Gen.P402Tables

/-- names the harness may assign as operation mode (index = first argument of `mode`) -/
def modeNames : List Name :=
  ["NO MODE", "PROFILED POSITION", "VELOCITY", "PROFILED VELOCITY", "PROFILED TORQUE", "HOMING",
   "INTERPOLATED POSITION", "CYCLIC SYNCHRONOUS POSITION", "CYCLIC SYNCHRONOUS VELOCITY",
   "CYCLIC SYNCHRONOUS TORQUE", "OPEN LOOP SCALAR MODE", "OPEN LOOP VECTOR MODE", "BOGUS"].map String.toList

/-- a decoded name on the line protocol: number of the standard state of that name, else `U` -/
def showName (n : Name) : String :=
  match PState.all.find? (fun s => s.name == n) with
  | some s => toString s.num
  | none => if n == unknownName then "U" else "?"

def showStates (l : List PState) : String := showNatList (l.map PState.num)

def resultName : Pc → String
  | .done => "ok" | .refused => "refused" | .illegal => "illegal" | .timeout => "timeout" | _ => "fuel"

def goto (start : PState) (rst : Bool) (target : PState) (pdo auto12 : Bool) (d extra f s : Nat)
    (sched : List Nat) : String :=
  let view := viewOf extra
  let tgt := min (nameIdx target.name) 8
  let k0 : Conc := { c := initCfg pdo auto12 tgt start rst, trace := [start] }
  let k := runConcrete codeTables view ⟨sched, d, f, s⟩ 1000000 k0
  s!"{resultName k.c.pc} st={k.c.st.num} cw={showNatList k.cws.reverse} trace={showStates k.trace.reverse} acc={k.acc}"

/-- several assignments on one node; item 8 = a fault occurs (the drive enters FAULT REACTION ACTIVE);
    the drive performs its automatic transitions at once (`d = 0`), no schedule -/
def hist (start : PState) (rst : Bool) (pdo auto12 : Bool) (extra f s : Nat) (items : List Nat) : String :=
  let view := viewOf extra
  let rec go : List Nat → PState → Bool → List String → List Nat → List PState → Nat → String
    | [], st, _, res, cws, trace, acc =>
      let r := if res.isEmpty then "-" else String.intercalate "/" res.reverse
      s!"{r} st={st.num} cw={showNatList cws.reverse} trace={showStates trace.reverse} acc={acc}"
    | it :: rest, st, rb, res, cws, trace, acc =>
      if it = 8 then
        go rest .fra rb res cws (if st = .fra then trace else .fra :: trace) acc
      else match PState.ofNum it with
        | none => "bad-op"
        | some target =>
          let tgt := min (nameIdx target.name) 8
          let k := runConcrete codeTables view ⟨[], 0, f, s⟩ 1000000
            { c := initCfg pdo auto12 tgt st rb }
          go rest k.c.st k.c.rst (resultName k.c.pc :: res) (k.cws ++ cws) (k.trace ++ trace) (acc + k.acc)
  go items start rst [] [] [start] 0

def parseTransport (s : String) : Option Bool :=
  -- "d": the objects are mapped in PDOs that are switched off, which the profile ignores: SDO transport
  if s = "p" then some true else if s = "s" ∨ s = "d" then some false else none

/-- ops: `sw n transport`, `goto start rst target transport auto12 d extra F S schedule`,
    `mode index mask transport delay M` -/
def step (args : List String) : String :=
  match args with
  | ["sw", n, t] => match parseNat n, parseTransport t with
    | some n, some _ => showName (getState n)
    | _, _ => "bad-op"
  | ["goto", start, rst, target, tr, a12, d, extra, f, s, sched] =>
    match (parseNat start).bind PState.ofNum, parseBool rst, (parseNat target).bind PState.ofNum,
          parseTransport tr, parseBool a12, parseNat d, parseNat extra, parseNat f, parseNat s,
          parseNatList sched with
    | some start, some rst, some target, some pdo, some a12, some d, some extra, some f, some s, some sched =>
      goto start rst target pdo a12 d extra f s sched
    | _, _, _, _, _, _, _, _, _, _ => "bad-op"
  | ["hist", start, rst, tr, a12, extra, f, s, items] =>
    match (parseNat start).bind PState.ofNum, parseBool rst, parseTransport tr, parseBool a12,
          parseNat extra, parseNat f, parseNat s, parseNatList items with
    | some start, some rst, some pdo, some a12, some extra, some f, some s, some items =>
      hist start rst pdo a12 extra f s items
    | _, _, _, _, _, _, _, _ => "bad-op"
  | ["mode", mi, mask, tr, delay, m] =>
    match parseNat mi, parseNat mask, parseTransport tr, parseNat delay, parseNat m with
    | some mi, some mask, some _, some delay, some m =>
      (match modeNames[mi]? with
       | some name =>
         (match opModeSet mask name with
          | .refused => "refused wr=- rd=0"
          | .written code => s!"ok wr={code} rd={opModeReads code delay m}")
       | none => "bad-op")
    | _, _, _, _, _ => "bad-op"
  | ["modef", mi, mask, tr, delay, m] =>
    -- the mode request, then a state assignment SWITCH ON DISABLED → READY TO SWITCH ON: over PDO
    -- the one RPDO sent for the controlword carries the mode in force (0 unless a mode was set)
    match parseNat mi, parseNat mask, parseTransport tr, parseNat delay, parseNat m with
    | some mi, some mask, some pdo, some delay, some m =>
      (match modeNames[mi]? with
       | some name =>
         (match opModeSet mask name with
          | .refused => s!"refused wr=- rd=0 carried={if pdo then "0" else "-"}"
          | .written code => s!"ok wr={code} rd={opModeReads code delay m} carried={if pdo then toString code else "-"}")
       | none => "bad-op")
    | _, _, _, _, _ => "bad-op"
  | _ => "bad-op"

end Canopen.Driver.C19
