import CanopenModel.Bytes
import CanopenModel.P402
namespace Canopen.Driver.C19
open Canopen Canopen.P402 Canopen.Spec.Drive402 Canopen.Gen.P402Tables

/-- names the harness may assign as operation mode (index = first argument of `mode`) -/
def modeNames : List Name :=
  ["NO MODE", "PROFILED POSITION", "VELOCITY", "PROFILED VELOCITY", "PROFILED TORQUE", "HOMING",
   "INTERPOLATED POSITION", "CYCLIC SYNCHRONOUS POSITION", "CYCLIC SYNCHRONOUS VELOCITY",
   "CYCLIC SYNCHRONOUS TORQUE", "OPEN LOOP SCALAR MODE", "OPEN LOOP VECTOR MODE", "BOGUS"].map String.toList

/-- a decoded name on the line protocol: number of the standard state of that name, else `U` -/
def showName (n : Name) : String :=
  match PState.all.find? (fun s => s.name == n) with
  | some s => toString s.num
  | none => if n == unknownName then "U" else "?"

def showStates (l : List PState) : String := showNatList (l.map PState.num)

def resultName : Pc → String
  | .done => "ok" | .refused => "refused" | .illegal => "illegal" | .timeout => "timeout" | _ => "fuel"

def goto (start : PState) (rst : Bool) (target : PState) (pdo auto12 : Bool) (d extra f s : Nat)
    (sched : List Nat) : String :=
  let view := viewOf extra
  let tgt := min (nameIdx target.name) 8
  let k0 : Conc := { c := initCfg pdo auto12 tgt start rst, trace := [start] }
  let k := runConcrete codeTables view ⟨sched, d, f, s⟩ 1000000 k0
  s!"{resultName k.c.pc} st={k.c.st.num} cw={showNatList k.cws.reverse} trace={showStates k.trace.reverse} acc={k.acc}"

def parseTransport (s : String) : Option Bool :=
  if s = "p" then some true else if s = "s" then some false else none

/-- ops: `sw n transport`, `goto start rst target transport auto12 d extra F S schedule`,
    `mode index mask transport delay M` -/
def step (args : List String) : String :=
  match args with
  | ["sw", n, t] => match parseNat n, parseTransport t with
    | some n, some _ => showName (getState n)
    | _, _ => "bad-op"
  | ["goto", start, rst, target, tr, a12, d, extra, f, s, sched] =>
    match (parseNat start).bind PState.ofNum, parseBool rst, (parseNat target).bind PState.ofNum,
          parseTransport tr, parseBool a12, parseNat d, parseNat extra, parseNat f, parseNat s,
          parseNatList sched with
    | some start, some rst, some target, some pdo, some a12, some d, some extra, some f, some s, some sched =>
      goto start rst target pdo a12 d extra f s sched
    | _, _, _, _, _, _, _, _, _, _ => "bad-op"
  | ["mode", mi, mask, tr, delay, m] =>
    match parseNat mi, parseNat mask, parseTransport tr, parseNat delay, parseNat m with
    | some mi, some mask, some _, some delay, some m =>
      (match modeNames[mi]? with
       | some name =>
         (match opModeSet mask name with
          | .refused => "refused wr=- rd=0"
          | .written code => s!"ok wr={code} rd={opModeReads code delay m}")
       | none => "bad-op")
    | _, _, _, _, _ => "bad-op"
  | _ => "bad-op"

end Canopen.Driver.C19
