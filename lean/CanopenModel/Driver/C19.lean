import CanopenModel.Bytes
import CanopenModel.P402
import CanopenModel.P402Mode
import CanopenModel.P402Cfg
namespace Canopen.Driver.C19
open Canopen Canopen.P402 Canopen.Spec.Drive402 Canopen.Gen.P402Tables

/-- names the harness may assign as operation mode (index = first argument of `mode`) -/
def modeNames : List Name :=
  ["NO MODE", "PROFILED POSITION", "VELOCITY", "PROFILED VELOCITY", "PROFILED TORQUE", "HOMING",
   "INTERPOLATED POSITION", "CYCLIC SYNCHRONOUS POSITION", "CYCLIC SYNCHRONOUS VELOCITY",
   "CYCLIC SYNCHRONOUS TORQUE", "OPEN LOOP SCALAR MODE", "OPEN LOOP VECTOR MODE", "BOGUS"].map String.toList

/-- a decoded name on the line protocol: number of the standard state of that name, else `U` -/
def showName (n : Name) : String :=
  match PState.all.find? (fun s => s.name == n) with
  | some s => toString s.num
  | none => if n == unknownName then "U" else "?"

def showStates (l : List PState) : String := showNatList (l.map PState.num)

def resultName : Pc → String
  | .done => "ok" | .refused => "refused" | .illegal => "illegal" | .timeout => "timeout" | _ => "fuel"

def goto (start : PState) (rst : Bool) (target : PState) (pdo auto12 : Bool) (d extra f s : Nat)
    (sched : List Nat) : String :=
  let view := viewOf extra
  let tgt := min (nameIdx target.name) 8
  let k0 : Conc := { c := initCfg pdo auto12 tgt start rst, trace := [start] }
  let k := runConcrete codeTables view ⟨sched, d, f, s⟩ 1000000 k0
  s!"{resultName k.c.pc} st={k.c.st.num} cw={showNatList k.cws.reverse} trace={showStates k.trace.reverse} acc={k.acc}"

/-- several assignments on one node; item 8 = a fault occurs (the drive enters FAULT REACTION ACTIVE);
    the drive performs its automatic transitions at once (`d = 0`), no schedule -/
def hist (start : PState) (rst : Bool) (pdo auto12 : Bool) (extra f s : Nat) (items : List Nat) : String :=
  let view := viewOf extra
  let rec go : List Nat → PState → Bool → List String → List Nat → List PState → Nat → String
    | [], st, _, res, cws, trace, acc =>
      let r := if res.isEmpty then "-" else String.intercalate "/" res.reverse
      s!"{r} st={st.num} cw={showNatList cws.reverse} trace={showStates trace.reverse} acc={acc}"
    | it :: rest, st, rb, res, cws, trace, acc =>
      if it = 8 then
        go rest .fra rb res cws (if st = .fra then trace else .fra :: trace) acc
      else match PState.ofNum it with
        | none => "bad-op"
        | some target =>
          let tgt := min (nameIdx target.name) 8
          let k := runConcrete codeTables view ⟨[], 0, f, s⟩ 1000000
            { c := initCfg pdo auto12 tgt st rb }
          go rest k.c.st k.c.rst (resultName k.c.pc :: res) (k.cws ++ cws) (k.trace ++ trace) (acc + k.acc)
  go items start rst [] [] [start] 0

/-! ### `mhist`: mode steps on one node object over an unreliable link -/

def parseLink (c : Char) : Option Link :=
  if c = 'u' then some .up else if c = 'd' then some .down else if c = 'x' then some .noObj else none

/-- one step token: kind (`a` assign, `q` is_op_mode_supported, `r` read), index into `modeNames`,
    link (`u` up, `d` down, `x` 0x6502 does not exist); e.g. `a3u`, `q12d`, `r0x` -/
def parseMStep (tok : String) : Option (Link × MStep) :=
  match tok.toList with
  | k :: rest =>
    (match rest.reverse with
     | l :: midRev =>
       (match parseLink l, (String.ofList midRev.reverse).toNat? with
        | some link, some mi =>
          if k = 'r' then some (link, .read)
          else match modeNames[mi]? with
            | none => none
            | some name =>
              if k = 'a' then some (link, .assign name)
              else if k = 'q' then some (link, .query name) else none
        | _, _ => none)
     | [] => none)
  | [] => none

def parseMSteps (s : String) : Option (List (Link × MStep)) :=
  if s = "-" then some [] else (s.splitOn ",").mapM parseMStep

/-- the name the getter returns for a displayed code, as its index in `modeNames`; `key` = KeyError -/
def showShown (code : Int) : String :=
  match (CODE2NAME.find? fun r => r.1 == code).map (·.2) with
  | none => "key"
  | some name =>
    match modeNames.findIdx? (· == name) with
    | some i => s!"m{i}"
    | none => "key"

def showMOut : MOut → String
  | .set code => s!"ok:{code}"
  | .dropped => "ok:-"
  | .refused => "refused:-"
  | .commErr => "comm:-"
  | .aborted => "abort:-"
  | .noTpdo => "notpdo:-"
  | .answer b => if b then "yes:-" else "no:-"
  | .shows code => s!"{showShown code}:-"

def mhist (pdo : Bool) (mask : Nat) (steps : List (Link × MStep)) : String :=
  let outs := runHist pdo mask MNode.fresh steps
  if outs.isEmpty then "-" else String.intercalate "/" (outs.map showMOut)

def parseTransport (s : String) : Option Bool :=
  -- "d": the objects are mapped in PDOs that are switched off, which the profile ignores: SDO transport
  if s = "p" then some true else if s = "s" ∨ s = "d" then some false else none

/-- ops: `sw n transport`, `goto start rst target transport auto12 d extra F S schedule`,
    `mode index mask transport delay M`, `mhist transport mask steps` -/
def stepCore (args : List String) : String :=
  match args with
  | ["sw", n, t] => match parseNat n, parseTransport t with
    | some n, some _ => showName (getState n)
    | _, _ => "bad-op"
  | ["goto", start, rst, target, tr, a12, d, extra, f, s, sched] =>
    match (parseNat start).bind PState.ofNum, parseBool rst, (parseNat target).bind PState.ofNum,
          parseTransport tr, parseBool a12, parseNat d, parseNat extra, parseNat f, parseNat s,
          parseNatList sched with
    | some start, some rst, some target, some pdo, some a12, some d, some extra, some f, some s, some sched =>
      goto start rst target pdo a12 d extra f s sched
    | _, _, _, _, _, _, _, _, _, _ => "bad-op"
  | ["hist", start, rst, tr, a12, extra, f, s, items] =>
    match (parseNat start).bind PState.ofNum, parseBool rst, parseTransport tr, parseBool a12,
          parseNat extra, parseNat f, parseNat s, parseNatList items with
    | some start, some rst, some pdo, some a12, some extra, some f, some s, some items =>
      hist start rst pdo a12 extra f s items
    | _, _, _, _, _, _, _, _ => "bad-op"
  | ["mode", mi, mask, tr, delay, m] =>
    match parseNat mi, parseNat mask, parseTransport tr, parseNat delay, parseNat m with
    | some mi, some mask, some _, some delay, some m =>
      (match modeNames[mi]? with
       | some name =>
         (match opModeSet mask name with
          | .refused => "refused wr=- rd=0"
          | .written code => s!"ok wr={code} rd={opModeReads code delay m}")
       | none => "bad-op")
    | _, _, _, _, _ => "bad-op"
  | ["modef", mi, mask, tr, delay, m] =>
    -- the mode request, then a state assignment SWITCH ON DISABLED → READY TO SWITCH ON: over PDO
    -- the one RPDO sent for the controlword carries the mode in force (0 unless a mode was set)
    match parseNat mi, parseNat mask, parseTransport tr, parseNat delay, parseNat m with
    | some mi, some mask, some pdo, some delay, some m =>
      (match modeNames[mi]? with
       | some name =>
         (match opModeSet mask name with
          | .refused => s!"refused wr=- rd=0 carried={if pdo then "0" else "-"}"
          | .written code => s!"ok wr={code} rd={opModeReads code delay m} carried={if pdo then toString code else "-"}")
       | none => "bad-op")
    | _, _, _, _, _ => "bad-op"
  | ["mhist", tr, mask, items] =>
    -- a history of op_mode assignments / is_op_mode_supported calls / op_mode reads on one node
    match parseTransport tr, parseNat mask, parseMSteps items with
    | some pdo, some mask, some steps => mhist pdo mask steps
    | _, _, _ => "bad-op"
  | _ => "bad-op"

/-! ### configuration history of the PDO transport: transport token `p<letters>` -/

def parseCfgLetter (c : Char) : Option CfgOp :=
  if c = 'a' then some .setupLocal else if c = 'b' then some .setupUpload else if c = 'm' then some .machine
  else if c = 't' then some .readT else if c = 'r' then some .readR else if c = 'q' then some .readAll
  else if c = 'w' then some (.remap .l1) else if c = 'y' then some (.remap .l2)
  else if c = 'x' then some (.remap .l3) else if c = 'z' then some (.remap .l4) else none

/-- `p<letters>` with at least one letter -/
def parseCfgTransport (s : String) : Option (List CfgOp) :=
  match s.toList with
  | 'p' :: c :: rest => (c :: rest).mapM parseCfgLetter
  | _ => none

/-- items 10..15 of a `hist` history: `setup_pdos(False)`, `setup_pdos(True)`, `setup_402_state_machine()`,
    `tpdo.read()`, `rpdo.read()`, `pdo.read()` between two assignments -/
def histCfgItem (i : Nat) : Option CfgOp :=
  if i = 10 then some .setupLocal else if i = 11 then some .setupUpload else if i = 12 then some .machine
  else if i = 13 then some .readT else if i = 14 then some .readR else if i = 15 then some .readAll else none

def swField (n : Nat) (i : Nat) : Nat := if i = SW_INDEX then n else 0

/-- position of the transport token per op -/
def transportPos (op : String) : Option Nat :=
  if op = "goto" then some 4 else if op = "hist" ∨ op = "mode" ∨ op = "modef" then some 3
  else if op = "mhist" then some 1 else none

/-- the configuration steps a `hist` history contains (the model of the assignments skips them) -/
def histSplit (items : List Nat) : List Nat × List CfgOp :=
  (items.filter fun i => (histCfgItem i).isNone, items.filterMap histCfgItem)

/-- ops as `stepCore`, the transport being `s`, `d`, `p` or `p<configuration history>`; plus
    `swl n1 n2 k p<history>` (statusword in both TPDOs: the other TPDO shows n1, then TPDO k shows n2).
    With a history the statusword is decoded from the model's cache after the drive's transmission cycle; the
    transition and mode ops run the PDO-transport model when the history leaves the PDO transport served
    (`pdoServed`), else the answer is `unmodelled`. -/
def step (args : List String) : String :=
  match args with
  | ["sw", n, t] =>
    (match parseNat n, parseCfgTransport t with
     | some n, some ops =>
       let c := runCfg PdoCfg.start ops
       showName (getState (statuswordOf (receiveCycle c (swField n)) n))
     | _, _ => stepCore args)
  | ["swl", n1, n2, k, t] =>
    (match parseNat n1, parseNat n2, parseNat k, parseCfgTransport t with
     | some n1, some n2, some k, some ops =>
       let c := runCfg PdoCfg.start ops
       if (k = 1 ∨ k = 2) ∧ c.drive = Layout.l2.drive then
         let nd := recvFrame (recvFrame c.node (3 - k) (swField n1)) k (swField n2)
         showName (getState (statuswordOf nd n2))
       else "bad-op"
     | _, _, _, _ => "bad-op")
  | op :: _ =>
    (match transportPos op with
     | none => stepCore args
     | some pos =>
       (match args[pos]? with
        | none => stepCore args
        | some t =>
          (match parseCfgTransport t with
           | none =>
             if op = "hist" then
               -- configuration items between assignments are no-ops for transports without PDO configuration
               (match args[8]?.bind parseNatList with
                | some items => stepCore (args.set 8 (showNatList (histSplit items).1))
                | none => stepCore args)
             else stepCore args
           | some ops =>
             let more := if op = "hist" then (match args[8]?.bind parseNatList with
                                               | some items => (histSplit items).2 | none => []) else []
             let args' := if op = "hist" then (match args[8]?.bind parseNatList with
                                               | some items => args.set 8 (showNatList (histSplit items).1)
                                               | none => args) else args
             -- the history of the transport token, then (hist) the configuration steps in between: none of the
             -- latter re-maps, so `pdoServed` after all of them is `pdoServed` at every assignment
             if pdoServed (runCfg PdoCfg.start ops) && pdoServed (runCfg PdoCfg.start (ops ++ more)) then
               stepCore (args'.set pos "p")
             else "unmodelled")))
  | [] => "bad-op"

end Canopen.Driver.C19
