import CanopenModel.Pdo.Bits
import CanopenModel.Pdo.Lookup
import CanopenModel.Driver.C04
namespace Canopen.Driver.C05
open Canopen Canopen.Codec Canopen.Pdo Canopen.Pdo.Lookup

/-- layout spelled `t:len,t:len,…` -/
def parseLayout1 (s : String) : Option (List (Nat × Nat)) :=
  (s.splitOn ",").mapM fun e =>
    match e.splitOn ":" with
    | [t, l] => do let t ← t.toNat?; let l ← l.toNat?; pure (t, l)
    | _ => none

/-- `PdoMap.clear()` leaves no variables and length 0 -/
def mapClear (_ : List (Nat × Nat)) : List (Nat × Nat) := []

/-- `old|new`: a map holding `old` is cleared, then `new` is mapped -/
def parseLayout (s : String) : Option (List (Nat × Nat)) :=
  -- `rd~…`: the map was obtained by `PdoMap.read` from mapping parameters naming these objects
  -- and lengths in this order; the variables and their lengths are the same
  let s := if s.startsWith "rd~" then (s.drop 3).toString else s
  match s.splitOn "|" with
  | [l] => parseLayout1 l
  | [old, new] => do let o ← parseLayout1 old; let n ← parseLayout1 new; pure (mapClear o ++ n)
  | _ => none

def showOpt : Option Bytes → String
  | some bs => s!"ok {toHex bs}"
  | none => "err"

/-! ### access through a key (`kget` / `kset`) -/

/-- entry `t:len:index:sub:parent:name`; parent `-` = a plain variable, `r<name>` / `a<name>` = member
    of the record / array `<name>` -/
def parseEntry (e : String) : Option MVar :=
  match e.splitOn ":" with
  | [t, l, ix, sb, par, nm] => do
    let t ← t.toNat?; let l ← l.toNat?; let ix ← ix.toNat?; let sb ← sb.toNat?
    let par ← (if par = "-" then some none
               else match par.toList with
                 | 'r' :: p => some (some p)
                 | 'a' :: p => some (some p)
                 | _ => none)
    pure { typ := t, len := l, index := ix, sub := sb, parent := par, own := nm.toList }
  | _ => none

/-- maps separated by `/`, entries by `,`, `-` = a map without entries -/
def parseMaps (s : String) : Option (List (List MVar)) :=
  (s.splitOn "/").mapM fun m => if m = "-" then some [] else (m.splitOn ",").mapM parseEntry

def parseFrames (s : String) : Option (List Bytes) := (s.splitOn "/").mapM parseHex

/-- `m<j>` the j-th map directly, `t` / `r` `node.tpdo[key]` / `node.rpdo[key]`, `p<k>` `node.pdo[key]`
    with the first k maps being receive maps -/
def parseHow (s : String) : Option How :=
  match s.toList with
  | ['t'] => some (.coll .numbered)
  | ['r'] => some (.coll .numbered)
  | 'p' :: k => (String.ofList k).toNat?.map fun k => .coll (.legacy k)
  | 'm' :: j => (String.ofList j).toNat?.map fun j => .direct j
  | _ => none

/-- `n<decimal>` an int key, `s<chars>` a str key -/
def parseKey (s : String) : Option Key :=
  match s.toList with
  | 'n' :: k => (String.ofList k).toNat?.map .int
  | 's' :: cs => some (.str cs)
  | _ => none

def howOk (h : How) (maps : List (List MVar)) : Bool :=
  match h with
  | .direct j => j < maps.length
  | .coll (.legacy k) => k ≤ maps.length
  | .coll .numbered => true

def showFrames (fs : List Bytes) : String := String.intercalate "/" (fs.map toHex)

def showMiss (h : How) (maps : List (List MVar)) (key : Key) : String :=
  match resolve h maps key with
  | .map j => s!"ok map {j}"
  | _ => "err"

def parseVal (k v : String) : Option Val :=
  match k with
  | "int" => (parseInt v).map .int
  | "bool" => (parseBool v).map .bool
  | "real" => (parseNat v).map .real
  | _ => none

def stepKeyed (args : List String) : String :=
  match args with
  | ["kget", h, k, ms, fs] => match parseHow h, parseKey k, parseMaps ms, parseFrames fs with
    | some h, some key, some maps, some frames =>
      if howOk h maps && frames.length == maps.length then
        match keyedRead h maps frames key with
        | some (mi, i, some v) => s!"ok {mi} {i} {C04.showVal v}"
        | some (mi, i, none) => s!"ok {mi} {i} err"
        | none => showMiss h maps key
      else "bad-op"
    | _, _, _, _ => "bad-op"
  | ["kset", h, k, ms, fs, kind, v] =>
    match parseHow h, parseKey k, parseMaps ms, parseFrames fs, parseVal kind v with
    | some h, some key, some maps, some frames, some val =>
      if howOk h maps && frames.length == maps.length then
        match keyedWrite h maps frames key val with
        | some (mi, i, some fs') => s!"ok {mi} {i} {showFrames fs'}"
        | some (mi, i, none) => s!"ok {mi} {i} err"
        | none => showMiss h maps key
      else "bad-op"
    | _, _, _, _, _ => "bad-op"
  | _ => "bad-op"

/-- ops: `lay layout` → offsets and frame size; `get layout frame i`;
    `set layout frame i (int|bool|real) v`;
    `kget how key maps frames`, `kset how key maps frames (int|bool|real) v` (access through a key) -/
def step (args : List String) : String :=
  match args with
  | ["lay", l] => match parseLayout l with
    | some lay => s!"ok {showNatList (offsets (lay.map (·.2)))} {dataSize (lay.map (·.2))}"
    | none => "bad-op"
  | ["get", l, f, i] => match parseLayout l, parseHex f, i.toNat? with
    | some lay, some fr, some i =>
      (match lay[i]?, (offsets (lay.map (·.2)))[i]? with
       | some (t, len), some off => (match readRaw fr (some t) off len with
         | some v => s!"ok {C04.showVal v}"
         | none => "err")
       | _, _ => "bad-op")
    | _, _, _ => "bad-op"
  | ["set", l, f, i, k, v] => match parseLayout l, parseHex f, i.toNat? with
    | some lay, some fr, some i =>
      (match lay[i]?, (offsets (lay.map (·.2)))[i]? with
       | some (t, len), some off =>
         let val : Option Val := match k with
           | "int" => (parseInt v).map .int
           | "bool" => (parseBool v).map .bool
           | "real" => (parseNat v).map .real
           | _ => none
         (match val with
          | some val => showOpt (writeRaw fr (some t) off len val)
          | none => "bad-op")
       | _, _ => "bad-op")
    | _, _, _ => "bad-op"
  | _ => stepKeyed args

end Canopen.Driver.C05
