import CanopenModel.Pdo.Bits
import CanopenModel.Driver.C04
namespace Canopen.Driver.C05
open Canopen Canopen.Codec Canopen.Pdo

/-- layout spelled `t:len,t:len,…` -/
def parseLayout1 (s : String) : Option (List (Nat × Nat)) :=
  (s.splitOn ",").mapM fun e =>
    match e.splitOn ":" with
    | [t, l] => do let t ← t.toNat?; let l ← l.toNat?; pure (t, l)
    | _ => none

/-- `PdoMap.clear()` leaves no variables and length 0 -/
def mapClear (_ : List (Nat × Nat)) : List (Nat × Nat) := []

/-- `old|new`: a map holding `old` is cleared, then `new` is mapped -/
def parseLayout (s : String) : Option (List (Nat × Nat)) :=
  -- `rd~…`: the map was obtained by `PdoMap.read` from mapping parameters naming these objects
  -- and lengths in this order; the variables and their lengths are the same
  let s := if s.startsWith "rd~" then (s.drop 3).toString else s
  match s.splitOn "|" with
  | [l] => parseLayout1 l
  | [old, new] => do let o ← parseLayout1 old; let n ← parseLayout1 new; pure (mapClear o ++ n)
  | _ => none

def showOpt : Option Bytes → String
  | some bs => s!"ok {toHex bs}"
  | none => "err"

/-- ops: `lay layout` → offsets and frame size; `get layout frame i`;
    `set layout frame i (int|bool|real) v` -/
def step (args : List String) : String :=
  match args with
  | ["lay", l] => match parseLayout l with
    | some lay => s!"ok {showNatList (offsets (lay.map (·.2)))} {dataSize (lay.map (·.2))}"
    | none => "bad-op"
  | ["get", l, f, i] => match parseLayout l, parseHex f, i.toNat? with
    | some lay, some fr, some i =>
      (match lay[i]?, (offsets (lay.map (·.2)))[i]? with
       | some (t, len), some off => (match readRaw fr (some t) off len with
         | some v => s!"ok {C04.showVal v}"
         | none => "err")
       | _, _ => "bad-op")
    | _, _, _ => "bad-op"
  | ["set", l, f, i, k, v] => match parseLayout l, parseHex f, i.toNat? with
    | some lay, some fr, some i =>
      (match lay[i]?, (offsets (lay.map (·.2)))[i]? with
       | some (t, len), some off =>
         let val : Option Val := match k with
           | "int" => (parseInt v).map .int
           | "bool" => (parseBool v).map .bool
           | "real" => (parseNat v).map .real
           | _ => none
         (match val with
          | some val => showOpt (writeRaw fr (some t) off len val)
          | none => "bad-op")
       | _, _ => "bad-op")
    | _, _, _ => "bad-op"
  | _ => "bad-op"

end Canopen.Driver.C05
