import CanopenModel.Codec
namespace Canopen.Driver.C04
open Canopen Canopen.Codec

def showVal : Val → String
  | .int i => s!"int {i}"
  | .bool b => s!"bool {showBool b}"
  | .real bits => s!"real {bits}"
  | .str cps => s!"str {showNatList cps}"
  | .bytes bs => s!"bytes {toHex bs}"

def parseType (s : String) : Option (Option Nat) :=
  if s = "none" then some none else s.toNat?.map some

def showEnc : Option Bytes → String
  | some bs => s!"ok {toHex bs}"
  | none => "err"

/-- ops: `enc t int`, `encb t 0|1`, `encf t bits`, `encs t cps`, `dec t hex`, `len t` -/
def step (args : List String) : String :=
  match args with
  | ["encl", t, v, _min, _max] => match parseType t, parseInt v with     -- declared limits are advisory
    | some t, some v => showEnc (encodeRaw t (.int v))
    | _, _ => "bad-op"
  | ["enc", t, v] => match parseType t, parseInt v with
    | some t, some v => showEnc (encodeRaw t (.int v))
    | _, _ => "bad-op"
  | ["encb", t, v] => match parseType t, parseBool v with
    | some t, some v => showEnc (encodeRaw t (.bool v))
    | _, _ => "bad-op"
  | ["encf", t, v] => match parseType t, parseNat v with
    | some t, some v => showEnc (encodeRaw t (.real v))
    | _, _ => "bad-op"
  | ["encs", t, v] => match parseType t, parseNatList v with
    | some t, some v => showEnc (encodeRaw t (.str v))
    | _, _ => "bad-op"
  | ["rts", t, v] => match parseType t, parseNatList v with
    | some t, some v => (match (encodeRaw t (.str v)).bind (decodeRaw t) with
      | some v => s!"ok {showVal v}"
      | none => "err")
    | _, _ => "bad-op"
  | ["dec", t, h] => match parseType t, parseHex h with
    | some t, some bs => (match decodeRaw t bs with
      | some v => s!"ok {showVal v}"
      | none => "err")
    | _, _ => "bad-op"
  | ["len", t] => match parseType t with
    | some t => s!"ok {bitLen t}"
    | none => "bad-op"
  | _ => "bad-op"

end Canopen.Driver.C04
