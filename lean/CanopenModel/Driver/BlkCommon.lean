/- line-protocol helpers shared by the C12 / C13 drivers: payload specifications and bus logs -/
import CanopenModel.Bytes
namespace Canopen.Driver.Blk
open Canopen

/-- the harness' pseudo-random payload: x' = (1103515245 x + 12345) mod 2^31, byte = bits 16..23 -/
def lcg : Nat → Nat → Bytes
  | 0, _ => []
  | n+1, x =>
    let x' := (x * 1103515245 + 12345) % 2147483648
    ((x' >>> 16) % 256) :: lcg n x'

/-- `h<hex>` | `z<len>` | `f<len>` | `r<seed>:<len>` -/
def parseData (s : String) : Option Bytes :=
  match s.toList with
  | 'h' :: r => parseHex (String.ofList r)
  | 'z' :: r => (String.ofList r).toNat?.map fun n => List.replicate n 0
  | 'f' :: r => (String.ofList r).toNat?.map fun n => List.replicate n 255
  | 'r' :: r =>
    match (String.ofList r).splitOn ":" with
    | [a, b] => do
      let seed ← a.toNat?
      let n ← b.toNat?
      pure (lcg n seed)
    | _ => none
  | _ => none

def parseOptNat (s : String) : Option (Option Nat) :=
  if s = "-" then some none else s.toNat?.map some

def showOptNat : Option Nat → String
  | none => "-"
  | some n => toString n

def hex2 (bs : Bytes) : String :=
  String.ofList (bs.flatMap fun b => [hexDigit (b / 16), hexDigit (b % 16)])

end Canopen.Driver.Blk
