import CanopenModel.Emcy
namespace Canopen.Driver.C16
open Canopen Canopen.Emcy

def showEntry (e : Entry) : String := s!"{e.code}/{e.register}/{toHex e.data}/{e.timestamp}"

def showList (l : List String) : String := if l.isEmpty then "-" else String.intercalate "," l

def showEntries (l : List Entry) : String := showList (l.map showEntry)

/-- `f:<hex>:<ts>` | `n:<canid>:<hex>:<ts>` | `c:<k>` | `r` -/
def parseEv (s : String) : Option Ev :=
  match s.splitOn ":" with
  | ["f", h, ts] => do pure (.frame (← parseHex h) (← parseNat ts))
  | ["n", id, h, ts] => do pure (.notify (← parseNat id) (← parseHex h) (← parseNat ts))
  | ["c", k] => do pure (.addCb (← parseNat k))
  | ["r"] => some .reset
  | _ => none

/-- one token of a history: an event, or `R:<n>:<code0>:<cstep>:<reg0>:<ts0>` = a run of `n` frames
    (`repEvs`: frame `i` has code `(code0 + i·cstep) mod 2¹⁶`, register `(reg0 + i) mod 256`, time `ts0 + i`) -/
def parseTok (s : String) : Option (List Ev) :=
  match s.splitOn ":" with
  | ["R", n, c0, cs, r0, t0] => do
      pure (repEvs (← parseNat n) (← parseNat c0) (← parseNat cs) (← parseNat r0) (← parseNat t0))
  | _ => (parseEv s).map ([·])

def parseEvs (l : List String) : Option (List Ev) := (l.mapM parseTok).map List.flatten

/-- `w@<now>@<tok>+<tok>…`, `w@<now>@-` for a wake-up with nothing new -/
def parseWake (s : String) : Option Wake :=
  match s.splitOn "@" with
  | ["w", now, evs] => do
      let n ← parseNat now
      let l ← if evs = "-" then some [] else parseEvs (evs.splitOn "+")
      pure ⟨n, l⟩
  | _ => none

def parseFilter (s : String) : Option (Option Nat) :=
  if s = "none" then some none else (parseNat s).map some

/-- `s:<code>:<reg>:<hex>` | `r:<reg>:<hex>` -/
def parseCall (s : String) : Option PCall :=
  match s.splitOn ":" with
  | ["s", c, r, h] => do pure (.send (← parseInt c) (← parseInt r) (← parseHex h))
  | ["r", r, h] => do pure (.reset (← parseInt r) (← parseHex h))
  | _ => none

def indicesWhere (l : List Bool) : List Nat :=
  (l.zipIdx.filter (·.1)).map (·.2)

def showHist (nid : Nat) (evs : List Ev) : String :=
  let c := run nid Consumer.init evs
  let tr := trace nid Consumer.init evs
  let inv := tr.flatMap (·.invoked)
  let raised := indicesWhere (tr.map (·.raised))
  s!"log={showEntries c.log};active={showEntries c.active};" ++
  s!"inv={showList (inv.map fun (k, e) => s!"{k}@{showEntry e}")};" ++
  s!"raised={showNatList raised};alen={showNatList (activeLens nid Consumer.init evs)}"

/-! digests for histories too long to print: `h ← (h·P + x + 1) mod (2⁶¹ − 1)` over the items -/
def digM : Nat := 2305843009213693951
def digP : Nat := 1000003
def digest (l : List Nat) : Nat := l.foldl (fun h x => (h * digP + x + 1) % digM) 0

def entryNum (e : Entry) : Nat :=
  ((e.timestamp * 1099511627776 + leVal e.data) * 256 + e.register) * 65536 + e.code

def showEnds (l : List Entry) : String :=
  s!"{showEntries (l.take 2)}..{showEntries (l.drop (l.length - 2))}"

/-- the same observations as `showHist`, digested; computed by the linear runner `runFast`
    (equal to `run` / `trace` / `activeLens` by `Canopen.C16.runFast_spec`) -/
def showLong (nid : Nat) (evs : List Ev) : String :=
  let s := runFast nid (Fast.ofConsumer Consumer.init) evs
  let log := s.rlog.reverse
  let act := s.ractive.reverse
  let inv := s.rinv.reverse
  s!"n={log.length};logd={digest (log.map entryNum)};lends={showEnds log};" ++
  s!"an={act.length};actd={digest (act.map entryNum)};aends={showEnds act};" ++
  s!"invn={inv.length};invd={digest (inv.map fun (k, e) => entryNum e * 4294967296 + k)};" ++
  s!"raised={s.nraised};alend={digest s.ralens.reverse}"

/-- state after a (possibly very long) pre-history -/
def after (nid : Nat) (pre : List Ev) : Consumer :=
  (runFast nid (Fast.ofConsumer Consumer.init) pre).consumer

def showRes : WaitRes → String
  | .nothing => "none"
  | .entry e => showEntry e
  | .raised => "raised"

def showWRes : Option WaitRes → String
  | some r => showRes r
  | none => "blocked"

/-- `<filter>~<timeout>` -/
def parseSpec (s : String) : Option (Option Nat × Nat) :=
  match s.splitOn "~" with
  | [f, t] => do pure (← parseFilter f, ← parseNat t)
  | _ => none

def splitAtSlash (l : List String) : List String × List String :=
  (l.takeWhile (· ≠ "/"), (l.dropWhile (· ≠ "/")).drop 1)

def showFrame : Option Bytes → Nat → String
  | some f, cob => s!"ok {cob}:{toHex f}"
  | none, _ => "err"

/-- ops: `long nid tok…` (digested history), `mwait nid t0 f~timeout|f~timeout… pre… / wake…` (several threads in
    `wait`, real condition variable), `hist nid ev…`, `wait nid filter timeout t0 pre… / wake…`, `waitrt nid filter realTimeoutMs pre… / wake…`,
    `send nid code reg hex`, `preset nid reg hex`, `pc lnid rnid ts0 call…`, `desc code` -/
def step (args : List String) : String :=
  match args with
  | "hist" :: nid :: evs =>
    match parseNat nid, parseEvs evs with
    | some nid, some evs => showHist nid evs
    | _, _ => "bad-op"
  | "long" :: nid :: evs =>
    match parseNat nid, parseEvs evs with
    | some nid, some evs => showLong nid evs
    | _, _ => "bad-op"
  | "mwait" :: nid :: t0 :: specs :: rest =>
    let (pre, wakes) := splitAtSlash rest
    match parseNat nid, parseNat t0, (specs.splitOn "|").mapM parseSpec, parseEvs pre,
          wakes.mapM parseWake with
    | some nid, some t0, some specs, some pre, some wakes =>
      let c := after nid pre
      let ws := enterAll c (specs.map fun (f, tmo) => (f, t0 + tmo))
      let r := sysRun nid (c, ws) (rigSchedule nid (List.range specs.length) wakes (t0 + 1000000000))
      s!"res={String.intercalate "|" (r.2.map (showWRes ·.res))};log={r.1.log.length}"
    | _, _, _, _, _ => "bad-op"
  | "wait" :: nid :: filter :: timeout :: t0 :: rest =>
    let (pre, wakes) := splitAtSlash rest
    match parseNat nid, parseFilter filter, parseNat timeout, parseNat t0, parseEvs pre,
          wakes.mapM parseWake with
    | some nid, some filter, some timeout, some t0, some pre, some wakes =>
      let c := after nid pre
      let r := wait nid filter t0 timeout c wakes
      s!"res={showRes r.res};waits={r.waits};log={r.state.log.length}"
    | _, _, _, _, _, _ => "bad-op"
  | "waitrt" :: nid :: filter :: realMs :: rest =>
    let (pre, wakes) := splitAtSlash rest
    match parseNat nid, parseFilter filter, parseNat realMs, parseEvs pre, wakes.mapM parseWake with
    | some nid, some filter, some _, some pre, some wakes =>
      let c := after nid pre
      let r := wait nid filter 0 0 c wakes
      -- every scripted batch is delivered whatever the waiter does
      let final := run nid c (wakes.flatMap (·.evs))
      s!"res={showRes r.res};log={final.log.length}"
    | _, _, _, _, _ => "bad-op"
  | ["send", nid, code, reg, h] =>
    match parseNat nid, parseInt code, parseInt reg, parseHex h with
    | some nid, some code, some reg, some d => showFrame (producerFrame (.send code reg d)) (producerCobId nid)
    | _, _, _, _ => "bad-op"
  | ["preset", nid, reg, h] =>
    match parseNat nid, parseInt reg, parseHex h with
    | some nid, some reg, some d => showFrame (producerFrame (.reset reg d)) (producerCobId nid)
    | _, _, _ => "bad-op"
  | "pc" :: lnid :: rnid :: ts0 :: calls =>
    match parseNat lnid, parseNat rnid, parseNat ts0, calls.mapM parseCall with
    | some lnid, some rnid, some ts0, some calls =>
      let (c, sent, raised) := produceConsume lnid rnid ts0 Consumer.init [] calls
      s!"frames={showList (sent.map toHex)};log={showEntries c.log};" ++
      s!"active={showEntries c.active};raised={showNatList (indicesWhere raised)}"
    | _, _, _, _ => "bad-op"
  | ["desc", code] =>
    match parseNat code with
    | some code => s!"ok {String.ofList (getDesc code)}|{String.ofList (strOf code)}"
    | none => "bad-op"
  | _ => "bad-op"

end Canopen.Driver.C16
