import CanopenModel.Bytes
import CanopenModel.Pdo.Config
import CanopenModel.Spec.StrictPdoDevice
namespace Canopen.Driver.C09
open Canopen Canopen.Pdo Canopen.Spec.StrictPdo

/-! line protocol of the C09 correspondence run (see harness/props/c09.py) -/

/-- the strict device behind the SDO client, with fault injection for the correspondence run:
    the `wk`-th download / `rk`-th upload of the whole operation is answered with an abort and
    has no effect -/
structure Faulty where
  dev : PdoDev
  nw : Nat
  nr : Nat
  wf : Option (Nat × Nat)
  rf : Option (Nat × Nat)

def faultyDev : Dev Faulty where
  write s idx sub size v :=
    let s' := { s with nw := s.nw + 1 }
    match s.wf with
    | some (k, code) =>
      if s.nw + 1 = k then (s', some code)
      else let r := write s.dev idx sub size v; ({ s' with dev := r.1 }, r.2)
    | none => let r := write s.dev idx sub size v; ({ s' with dev := r.1 }, r.2)
  read s idx sub :=
    let s' := { s with nr := s.nr + 1 }
    match s.rf with
    | some (k, code) => if s.nr + 1 = k then (s', .error code) else (s', read s.dev idx sub)
    | none => (s', read s.dev idx sub)

/-! parsing -/

def optNat (s : String) : Option (Option Nat) :=
  if s = "-" then some none else s.toNat?.map some

def splitList (sep : String) (s : String) : List String :=
  if s = "-" then [] else s.splitOn sep

def parseCfg (s : String) (map : List MapEntry) : Option Cfg :=
  match (s.splitOn ",").mapM optNat with
  | some [cob, some en, some rtr, tt, inh, ev, sy] =>
    some { cob := cob, enabled := en != 0, rtr := rtr != 0, tt := tt, inhibit := inh, event := ev,
           sync := sy, map := map }
  | _ => none

def parseMap (s : String) : Option (List MapEntry) :=
  (splitList ";" s).mapM fun t =>
    match (t.splitOn ".").mapM (·.toNat?) with
    | some [i, sb, l] => some { idx := i, sub := sb, len := l }
    | _ => none

def parseOdEntries (s : String) : Option (List OdEntry) :=
  (splitList ";" s).mapM fun t =>
    match (t.splitOn ":").mapM optNat with
    | some [some sb, v, d] => some { sub := sb, value := v, dflt := d }
    | _ => none

def parseObjs (s : String) : Option (List (Nat × Option (List Nat))) :=
  (splitList ";" s).mapM fun t =>
    match t.splitOn ":" with
    | [i] => i.toNat?.map fun i => (i, none)
    | [i, subs] => do
        let i ← i.toNat?
        let ss ← parseNatList subs
        pure (i, some ss)
    | _ => none

def parseFault (s : String) : Option (Option (Nat × Nat)) :=
  if s = "-" then some none
  else match (s.splitOn ",").mapM (·.toNat?) with
    | some [k, c] => some (some (k, c))
    | _ => none

def parseDev (s ents mp : String) (comIdx mapIdx : Nat) : Option PdoDev :=
  match (s.splitOn ",").mapM optNat, parseNatList ents, parseNatList mp with
  | some [some w, some tt, s3, s5, s6, some cnt, some fx], some es, some ms =>
    some { comIdx := comIdx, mapIdx := mapIdx, cobWord := w, tt := tt, inhibit := s3, event := s5,
           sync := s6, count := cnt, entries := es, mappable := ms, fixedCount := fx != 0 }
  | _, _, _ => none

/-! printing -/

def showOpt : Option Nat → String
  | some v => toString v
  | none => "-"

def showErr : Err → String
  | .abort c => s!"abort:{c}"
  | _ => "local"

def showRes {α} : Except Err α → String
  | .ok _ => "ok"
  | .error e => showErr e

def showMap (m : List MapEntry) : String :=
  if m.isEmpty then "-" else ";".intercalate (m.map fun e => s!"{e.idx}.{e.sub}.{e.len}")

def showCfg (c : Cfg) : String :=
  s!"{showOpt c.cob},{showBool c.enabled},{showBool c.rtr},{showOpt c.tt},{showOpt c.inhibit}," ++
  s!"{showOpt c.event},{showOpt c.sync}/{showMap c.map}"

def showEv : Ev → String
  | .w i s n v none => s!"w{i}.{s}.{n}.{v}=ok"
  | .w i s n v (some c) => s!"w{i}.{s}.{n}.{v}=a{c}"
  | .r i s (.ok v) => s!"r{i}.{s}={v}"
  | .r i s (.error c) => s!"r{i}.{s}=a{c}"

def showLog (l : List Ev) : String := if l.isEmpty then "-" else ",".intercalate (l.map showEv)

def showDevImg (d : PdoDev) : String :=
  s!"{d.cobWord},{d.tt},{showOpt d.inhibit},{showOpt d.event},{showOpt d.sync},{d.count}/" ++
  showNatList d.entries

/-- sorted, without duplicates (`on_message in network.subscribers[c]` for every key `c`) -/
def showSubs (l : List Nat) : String :=
  let u := l.foldl (fun acc x => if acc.contains x then acc else acc ++ [x]) []
  showNatList (u.toArray.qsort (· < ·)).toList

/-! the operation -/

/-- phase A: take the configuration from `src`, then `save()` -/
def phaseA (od : Od) (src : String) (cfg : Cfg) : M Faulty (Cfg × List Nat) :=
  if src = "a" then
    M.bind (save faultyDev od cfg) fun o => M.pure ({ cfg with map := o.map }, o.subs)
  else
    M.bind (read faultyDev od (if src = "o" then .od else .live) Cfg.fresh) fun r =>
    M.bind (save faultyDev od r.cfg) fun o => M.pure ({ r.cfg with map := o.map }, r.subs ++ o.subs)

def run (isTx : Bool) (n nodeId : Nat) (src : String) (curtis : Bool) (cfg : Cfg)
    (odcom : List OdEntry) (mapIsArray : Bool) (odmap : List OdEntry)
    (objsA objsB : List (Nat × Option (List Nat))) (devs ents mp : String)
    (wf rf : Option (Nat × Nat)) : String :=
  match slot isTx n nodeId with
  | none => "no-slot"
  | some sl =>
    match parseDev devs ents mp sl.comIdx sl.mapIdx with
    | none => "bad-op"
    | some dev =>
      let odA : Od := { comIdx := sl.comIdx, mapIdx := sl.mapIdx, com := odcom, map := odmap,
                        mapIsArray := mapIsArray, objs := objsA, curtis := curtis }
      let odB : Od := { odA with objs := objsB }
      let st0 : Run Faulty := { dev := { dev := dev, nw := 0, nr := 0, wf := wf, rf := rf }, log := [] }
      let (st1, ra) := phaseA odA src cfg st0
      let aTxt := match ra with
        | .ok (c, subs) => s!"A=ok cfgA={showCfg c} subsA={showSubs subs}"
        | .error e => s!"A={showErr e} cfgA=- subsA=-"
      let (st2, rb) := read faultyDev odB .live Cfg.fresh { dev := st1.dev, log := [] }
      let bTxt := match rb with
        | .ok r => s!"B=ok cfgB={showCfg r.cfg} subsB={showSubs r.subs}"
        | .error e => s!"B={showErr e} cfgB=- subsB=-"
      s!"slot={sl.comIdx}.{sl.mapIdx}.{showOpt sl.predefined} {aTxt} log={showLog st1.log} " ++
      s!"dev={showDevImg st1.dev.dev} {bTxt} logB={showLog st2.log}"

def parseKind (s : String) : Option (Bool × List OdEntry) :=
  match s.splitOn "/" with
  | [k, es] =>
    if k = "A" then (parseOdEntries es).map (true, ·)
    else if k = "R" then (parseOdEntries es).map (false, ·) else none
  | _ => none

def step (args : List String) : String :=
  match args with
  | ["run", dir, n, nid, src, cur, cfg, map, odcom, odmap, objsA, objsB, dev, ents, mp, wf, rf] =>
    match (if dir = "T" then some true else if dir = "R" then some false else none),
          n.toNat?, nid.toNat?, parseBool cur, parseMap map, parseOdEntries odcom, parseKind odmap,
          parseObjs objsA, parseObjs objsB, parseFault wf, parseFault rf with
    | some isTx, some n, some nid, some cur, some m, some oc, some (isArr, om), some oa, some ob,
      some wf, some rf =>
      if src ≠ "a" ∧ src ≠ "o" ∧ src ≠ "d" then "bad-op"
      else match parseCfg cfg m with
        | some c => run isTx n nid src cur c oc isArr om oa ob dev ents mp wf rf
        | none => "bad-op"
    | _, _, _, _, _, _, _, _, _, _, _ => "bad-op"
  | _ => "bad-op"

end Canopen.Driver.C09
