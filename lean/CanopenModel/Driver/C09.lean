import CanopenModel.Bytes
import CanopenModel.Pdo.Config
import CanopenModel.Pdo.Collection
import CanopenModel.Spec.StrictPdoDevice
namespace Canopen.Driver.C09
open Canopen Canopen.Pdo Canopen.Spec.StrictPdo

/-! line protocol of the C09 correspondence run (see harness/props/c09.py) -/

/-- a device behind the SDO client, with fault injection for the correspondence run:
    the `wk`-th download / `rk`-th upload of the whole operation is answered with an abort and
    has no effect -/
structure FaultyOf (σ : Type) where
  dev : σ
  nw : Nat
  nr : Nat
  wf : Option (Nat × Nat)
  rf : Option (Nat × Nat)

def faultyOf {σ} (D : Dev σ) : Dev (FaultyOf σ) where
  write s idx sub size v :=
    let s' := { s with nw := s.nw + 1 }
    match s.wf with
    | some (k, code) =>
      if s.nw + 1 = k then (s', some code)
      else let r := D.write s.dev idx sub size v; ({ s' with dev := r.1 }, r.2)
    | none => let r := D.write s.dev idx sub size v; ({ s' with dev := r.1 }, r.2)
  read s idx sub :=
    let s' := { s with nr := s.nr + 1 }
    match s.rf with
    | some (k, code) => if s.nr + 1 = k then (s', .error code)
                        else let r := D.read s.dev idx sub; ({ s' with dev := r.1 }, r.2)
    | none => let r := D.read s.dev idx sub; ({ s' with dev := r.1 }, r.2)

/-- the strict device of one PDO (Spec/StrictPdoDevice.lean) -/
def oneDev : Dev PdoDev where
  write := write
  read d idx sub := (d, read d idx sub)

abbrev Faulty := FaultyOf PdoDev

def faultyDev : Dev Faulty := faultyOf oneDev

/-! parsing -/

def optNat (s : String) : Option (Option Nat) :=
  if s = "-" then some none else s.toNat?.map some

def splitList (sep : String) (s : String) : List String :=
  if s = "-" then [] else s.splitOn sep

def parseCfg (s : String) (map : List MapEntry) : Option Cfg :=
  match (s.splitOn ",").mapM optNat with
  | some [cob, some en, some rtr, tt, inh, ev, sy] =>
    some { cob := cob, enabled := en != 0, rtr := rtr != 0, tt := tt, inhibit := inh, event := ev,
           sync := sy, map := map }
  | _ => none

def parseMap (s : String) : Option (List MapEntry) :=
  (splitList ";" s).mapM fun t =>
    match (t.splitOn ".").mapM (·.toNat?) with
    | some [i, sb, l] => some { idx := i, sub := sb, len := l }
    | _ => none

def parseOdEntries (s : String) : Option (List OdEntry) :=
  (splitList ";" s).mapM fun t =>
    match (t.splitOn ":").mapM optNat with
    | some [some sb, v, d] => some { sub := sb, value := v, dflt := d }
    | _ => none

def parseObjs (s : String) : Option (List (Nat × Option (List Nat))) :=
  (splitList ";" s).mapM fun t =>
    match t.splitOn ":" with
    | [i] => i.toNat?.map fun i => (i, none)
    | [i, subs] => do
        let i ← i.toNat?
        let ss ← parseNatList subs
        pure (i, some ss)
    | _ => none

def parseFault (s : String) : Option (Option (Nat × Nat)) :=
  if s = "-" then some none
  else match (s.splitOn ",").mapM (·.toNat?) with
    | some [k, c] => some (some (k, c))
    | _ => none

def parseDev (s ents mp : String) (comIdx mapIdx : Nat) : Option PdoDev :=
  match (s.splitOn ",").mapM optNat, parseNatList ents, parseNatList mp with
  | some [some w, some tt, s3, s5, s6, some cnt, some fx], some es, some ms =>
    some { comIdx := comIdx, mapIdx := mapIdx, cobWord := w, tt := tt, inhibit := s3, event := s5,
           sync := s6, count := cnt, entries := es, mappable := ms, fixedCount := fx != 0 }
  | _, _, _ => none

/-! printing -/

def showOpt : Option Nat → String
  | some v => toString v
  | none => "-"

def showErr : Err → String
  | .abort c => s!"abort:{c}"
  | _ => "local"

def showRes {α} : Except Err α → String
  | .ok _ => "ok"
  | .error e => showErr e

def showMap (m : List MapEntry) : String :=
  if m.isEmpty then "-" else ";".intercalate (m.map fun e => s!"{e.idx}.{e.sub}.{e.len}")

def showCfg (c : Cfg) : String :=
  s!"{showOpt c.cob},{showBool c.enabled},{showBool c.rtr},{showOpt c.tt},{showOpt c.inhibit}," ++
  s!"{showOpt c.event},{showOpt c.sync}/{showMap c.map}"

def showEv : Ev → String
  | .w i s n v none => s!"w{i}.{s}.{n}.{v}=ok"
  | .w i s n v (some c) => s!"w{i}.{s}.{n}.{v}=a{c}"
  | .r i s (.ok v) => s!"r{i}.{s}={v}"
  | .r i s (.error c) => s!"r{i}.{s}=a{c}"

def showLog (l : List Ev) : String := if l.isEmpty then "-" else ",".intercalate (l.map showEv)

def showDevImg (d : PdoDev) : String :=
  s!"{d.cobWord},{d.tt},{showOpt d.inhibit},{showOpt d.event},{showOpt d.sync},{d.count}/" ++
  showNatList d.entries

/-- sorted, without duplicates (`on_message in network.subscribers[c]` for every key `c`) -/
def showSubs (l : List Nat) : String :=
  let u := l.foldl (fun acc x => if acc.contains x then acc else acc ++ [x]) []
  showNatList (u.toArray.qsort (· < ·)).toList

/-! the operation -/

/-- phase A: take the configuration from `src`, then `save()` -/
def phaseA (od : Od) (src : String) (cfg : Cfg) : M Faulty (Cfg × List Nat) :=
  if src = "a" then
    M.bind (save faultyDev od cfg) fun o => M.pure ({ cfg with map := o.map }, o.subs)
  else
    M.bind (read faultyDev od (if src = "o" then .od else .live) Cfg.fresh) fun r =>
    M.bind (save faultyDev od r.cfg) fun o => M.pure ({ r.cfg with map := o.map }, r.subs ++ o.subs)

def run (isTx : Bool) (n nodeId : Nat) (src : String) (curtis : Bool) (cfg : Cfg)
    (odcom : List OdEntry) (mapIsArray : Bool) (odmap : List OdEntry)
    (objsA objsB : List (Nat × Option (List Nat))) (devs ents mp : String)
    (wf rf : Option (Nat × Nat)) : String :=
  match slot isTx n nodeId with
  | none => "no-slot"
  | some sl =>
    match parseDev devs ents mp sl.comIdx sl.mapIdx with
    | none => "bad-op"
    | some dev =>
      let odA : Od := { comIdx := sl.comIdx, mapIdx := sl.mapIdx, com := odcom, map := odmap,
                        mapIsArray := mapIsArray, objs := objsA, curtis := curtis }
      let odB : Od := { odA with objs := objsB }
      let st0 : Run Faulty := { dev := { dev := dev, nw := 0, nr := 0, wf := wf, rf := rf }, log := [] }
      let (st1, ra) := phaseA odA src cfg st0
      let aTxt := match ra with
        | .ok (c, subs) => s!"A=ok cfgA={showCfg c} subsA={showSubs subs}"
        | .error e => s!"A={showErr e} cfgA=- subsA=-"
      let (st2, rb) := read faultyDev odB .live Cfg.fresh { dev := st1.dev, log := [] }
      let bTxt := match rb with
        | .ok r => s!"B=ok cfgB={showCfg r.cfg} subsB={showSubs r.subs}"
        | .error e => s!"B={showErr e} cfgB=- subsB=-"
      s!"slot={sl.comIdx}.{sl.mapIdx}.{showOpt sl.predefined} {aTxt} log={showLog st1.log} " ++
      s!"dev={showDevImg st1.dev.dev} {bTxt} logB={showLog st2.log}"

def parseKind (s : String) : Option (Bool × List OdEntry) :=
  match s.splitOn "/" with
  | [k, es] =>
    if k = "A" then (parseOdEntries es).map (true, ·)
    else if k = "R" then (parseOdEntries es).map (false, ·) else none
  | _ => none

/-! ### collection operations (`coll …`): several PDOs of one node -/

structure MapIn where
  isTx : Bool
  n : Nat
  how : String              -- u | a | d | o
  attrs : Cfg
  odcom : List OdEntry
  mapIsArray : Bool
  odmap : List OdEntry
  devs : String
  ents : String
  mp : String

def parseMapIn (tok : String) : Option MapIn :=
  match tok.splitOn "~" with
  | [dir, n, how, cfg, map, odcom, odmap, devs, ents, mp] =>
    match (if dir = "T" then some true else if dir = "R" then some false else none),
          n.toNat?, parseMap map, parseOdEntries odcom, parseKind odmap with
    | some isTx, some n, some m, some oc, some (isArr, om) =>
      if how ≠ "u" ∧ how ≠ "a" ∧ how ≠ "d" ∧ how ≠ "o" then none
      else (parseCfg cfg m).map fun c =>
        { isTx := isTx, n := n, how := how, attrs := c, odcom := oc, mapIsArray := isArr,
          odmap := om, devs := devs, ents := ents, mp := mp }
    | _, _, _, _, _ => none
  | _ => none

/-- the PDO parameter objects as objects of the node's dictionary (`_get_variable` finds them
    like any other record / array) -/
def pdoObjs (sl : PdoSlot) (mi : MapIn) : List (Nat × Option (List Nat)) :=
  let msubs := mi.odmap.map (·.sub)
  [(sl.comIdx, some (mi.odcom.map (·.sub))),
   (sl.mapIdx, some (if mi.mapIsArray && msubs.contains 1 then msubs ++ List.range' 1 255 else msubs))]

/-- a single map, or a whole collection -/
inductive Call where
  | one (isTx : Bool) (n : Nat)
  | coll (c : Coll)

def Call.sel : Call → List MapSt → List MapSt
  | .one t n, all => (all.find? (MapSt.isKey t n)).toList
  | .coll c, all => collMaps c all

/-- `m`: every listed map on its own, in the order listed; `r`/`t`: `node.rpdo` / `node.tpdo`;
    `c`: `node.rpdo` then `node.tpdo`; `p`: `node.pdo` -/
def callsOf (x : String) (all : List MapSt) : Option (List Call) :=
  if x = "m" then some (all.map fun m => .one m.isTx m.n)
  else if x = "r" then some [.coll .rpdo]
  else if x = "t" then some [.coll .tpdo]
  else if x = "c" then some [.coll .rpdo, .coll .tpdo]
  else if x = "p" then some [.coll .pdo]
  else none

def runCalls {σ} (f : List MapSt → List MapSt → M σ (List MapSt)) :
    List Call → List MapSt → M σ (List MapSt)
  | [], all => M.pure all
  | c :: cs, all => M.bind (f all (c.sel all)) fun all' => runCalls f cs all'

/-- the per-map preparation steps, in the order the maps are listed -/
def prepare {σ} (D : Dev σ) : List MapIn → List MapSt → M σ (List MapSt)
  | [], all => M.pure all
  | mi :: rest, all =>
    let me := (Call.one mi.isTx mi.n).sel all
    let step : M σ (List MapSt) :=
      if mi.how = "a" then M.pure (mergeMaps all (me.map fun m => { m with cfg := mi.attrs }))
      else if mi.how = "d" then readMaps D .live all me
      else if mi.how = "o" then readMaps D .od all me
      else M.pure all
    M.bind step fun all' => prepare D rest all'

/-- `-`, or `d`/`o` (live / dictionary) followed by the collection `r`/`t`/`c`/`p` -/
def parsePre (pre : String) : Option (Option (Src × String)) :=
  if pre = "-" then some none
  else if pre = "dr" then some (some (.live, "r")) else if pre = "dt" then some (some (.live, "t"))
  else if pre = "dc" then some (some (.live, "c")) else if pre = "dp" then some (some (.live, "p"))
  else if pre = "or" then some (some (.od, "r")) else if pre = "ot" then some (some (.od, "t"))
  else if pre = "oc" then some (some (.od, "c")) else if pre = "op" then some (some (.od, "p"))
  else none

def showMaps (l : List MapSt) : String :=
  "|".intercalate (l.map fun m =>
    (if m.isTx then "T" else "R") ++ s!"{m.n}:{showCfg m.cfg}:{showSubs m.subs}")

def distinctKeys : List MapIn → Bool
  | [] => true
  | m :: rest => !(rest.any fun x => x.isTx == m.isTx && x.n == m.n) && distinctKeys rest

def collRun (nodeId : Nat) (pre save rd : String) (objsA objsB : List (Nat × Option (List Nat)))
    (wf rf : Option (Nat × Nat)) (ins : List MapIn) : String :=
  if !distinctKeys ins then "bad-op" else
  match ins.mapM fun mi => (slot mi.isTx mi.n nodeId).map fun sl => (mi, sl) with
  | none => "no-slot"
  | some withSlots =>
    match withSlots.mapM fun (mi, sl) => parseDev mi.devs mi.ents mi.mp sl.comIdx sl.mapIdx with
    | none => "bad-op"
    | some devs =>
      let pobjs := (withSlots.map fun (mi, sl) => pdoObjs sl mi).flatten
      let mk (objs : List (Nat × Option (List Nat))) : List MapSt :=
        withSlots.map fun (mi, sl) =>
          { isTx := mi.isTx, n := mi.n, cfg := Cfg.fresh, subs := [],
            od := { comIdx := sl.comIdx, mapIdx := sl.mapIdx, com := mi.odcom, map := mi.odmap,
                    mapIsArray := mi.mapIsArray, objs := pobjs ++ objs, curtis := false } }
      let D := faultyOf multiDev
      let preM (all : List MapSt) : Option (M (FaultyOf (List PdoDev)) (List MapSt)) :=
        match parsePre pre with
        | some none => some (M.pure all)
        | some (some (src, x)) =>
          (callsOf x all).map fun calls => runCalls (readMaps D src) calls all
        | none => none
      let saveM (all : List MapSt) : Option (M (FaultyOf (List PdoDev)) (List MapSt)) :=
        if save = "l" then   -- `RemoteNode.load_configuration`
          some (M.bind (runCalls (readMaps D .od) [.coll .pdo] all) fun a =>
                runCalls (saveMaps D) [.coll .pdo] a)
        else (callsOf save all).map fun calls => runCalls (saveMaps D) calls all
      let allA := mk objsA
      let allB := mk objsB
      match preM allA, callsOf rd allB with
      | some pm, some callsB =>
        -- `callsOf` does not look at the attributes, so the calls can be fixed up front
        match saveM allA with
        | none => "bad-op"
        | some _ =>
          let phaseA : M (FaultyOf (List PdoDev)) (List MapSt) :=
            M.bind pm fun a1 => M.bind (prepare D ins a1) fun a2 =>
              match saveM a2 with
              | some m => m
              | none => M.pure a2
          let st0 : Run (FaultyOf (List PdoDev)) :=
            { dev := { dev := devs, nw := 0, nr := 0, wf := wf, rf := rf }, log := [] }
          let (st1, ra) := phaseA st0
          let aTxt := match ra with
            | .ok ms => s!"A=ok mapsA={showMaps ms}"
            | .error e => s!"A={showErr e} mapsA=-"
          let (st2, rb) := runCalls (readMaps D .live) callsB allB { dev := st1.dev, log := [] }
          let bTxt := match rb with
            | .ok ms => s!"B=ok mapsB={showMaps ms}"
            | .error e => s!"B={showErr e} mapsB=-"
          s!"{aTxt} log={showLog st1.log} dev={"|".intercalate (st1.dev.dev.map showDevImg)} " ++
          s!"{bTxt} logB={showLog st2.log}"
      | _, _ => "bad-op"

/-! ### subscription operations (`subs …`): the subscriber table before the call is an input -/

def showCb : Net.Cb → String
  | .user k => s!"A{k}"
  | .node 2 (.other c) => s!"L{c / 2}"
  | .node 1 (.other c) => (if c % 2 = 1 then "ST" else "SR") ++ toString (c / 2)
  | _ => "?"

/-- `A<k>` an application callback, `L<k>` `on_message` of TPDO k of another node object (PDO
    linking), `S<R|T><n>` `on_message` of this node's own map -/
def parseCb (tok : String) : Option Net.Cb :=
  match tok.toList with
  | 'A' :: ds => (String.ofList ds).toNat?.map .user
  | 'L' :: ds => (String.ofList ds).toNat?.map fun k => mapCb 2 true k
  | 'S' :: 'R' :: ds => (String.ofList ds).toNat?.map fun n => mapCb 1 false n
  | 'S' :: 'T' :: ds => (String.ofList ds).toNat?.map fun n => mapCb 1 true n
  | _ => none

/-- `cob:tok,tok;cob:;…` — a key with no token is a key whose list became empty again -/
def parsePrior (s : String) : Option (List (Nat × List Net.Cb)) :=
  (splitList ";" s).mapM fun e =>
    match e.splitOn ":" with
    | [c, toks] => do
        let c ← c.toNat?
        let cbs ← (if toks = "" then some [] else (toks.splitOn ",").mapM parseCb)
        pure (c, cbs)
    | _ => none

def priorTable (l : List (Nat × List Net.Cb)) : Net.Subs :=
  l.foldl (fun t (e : Nat × List Net.Cb) =>
    if e.2.isEmpty then
      -- subscribed and unsubscribed again: the key stays, with an empty list
      (Net.unsubscribe (Net.subscribe t e.1 (.user 0)) e.1 (some (.user 0))).getD t
    else e.2.foldl (fun t cb => Net.subscribe t e.1 cb) t) ⟨fun _ => none⟩

def showTable (t : Net.Subs) (ids : List Nat) : String :=
  let u := ids.foldl (fun acc x => if acc.contains x then acc else acc ++ [x]) []
  let sorted := (u.toArray.qsort (· < ·)).toList
  if sorted.isEmpty then "-" else
  ";".intercalate (sorted.map fun id =>
    s!"{id}:" ++ ",".intercalate (((t.get id).getD []).map showCb))

def subsRun (nodeId : Nat) (x act : String) (objs : List (Nat × Option (List Nat)))
    (prior : List (Nat × List Net.Cb)) (ins : List MapIn) : String :=
  if !distinctKeys ins then "bad-op" else
  if ins.any (fun mi => mi.how ≠ "u" ∧ mi.how ≠ "a") then "bad-op" else
  match ins.mapM fun mi => (slot mi.isTx mi.n nodeId).map fun sl => (mi, sl) with
  | none => "no-slot"
  | some withSlots =>
    match withSlots.mapM fun (mi, sl) => parseDev mi.devs mi.ents mi.mp sl.comIdx sl.mapIdx with
    | none => "bad-op"
    | some devs =>
      let pobjs := (withSlots.map fun (mi, sl) => pdoObjs sl mi).flatten
      let all0 : List MapSt :=
        withSlots.map fun (mi, sl) =>
          { isTx := mi.isTx, n := mi.n, cfg := Cfg.fresh, subs := [],
            od := { comIdx := sl.comIdx, mapIdx := sl.mapIdx, com := mi.odcom, map := mi.odmap,
                    mapIsArray := mi.mapIsArray, objs := pobjs ++ objs, curtis := false } }
      match callsOf (if x = "4" then "p" else x) all0 with
      | none => "bad-op"
      | some calls =>
        let D := multiDev
        let action : Option (List MapSt → List MapSt → M (List PdoDev) (List MapSt)) :=
          if act = "s" then some (fun all sel => M.pure (subscribeMaps all sel))
          else if act = "r" then some (readMaps D .live)
          else if act = "v" then some (saveMaps D)
          else none
        match action with
        | none => "bad-op"
        | some f =>
          if x = "4" ∧ act ≠ "s" then "bad-op" else
          let phase : M (List PdoDev) (List MapSt) :=
            M.bind (prepare D ins all0) fun a1 => runCalls f calls a1
          let (st1, ra) := phase { dev := devs, log := [] }
          let ids := prior.map (·.1) ++ ins.filterMap (fun mi => mi.attrs.cob) ++
            devs.map (fun d => d.cobWord % 2 ^ 29)
          let t0 := priorTable prior
          match ra with
          | .ok ms =>
            -- every map is visited at most once, in the order of the calls
            let visited := (calls.map fun c => c.sel ms).flatten
            let cfgs := "|".intercalate (ms.map fun m =>
              (if m.isTx then "T" else "R") ++ s!"{m.n}:{showCfg m.cfg}")
            s!"A=ok mapsA={cfgs} tab={showTable (tableAfter 1 t0 visited) ids} " ++
            s!"log={showLog st1.log}"
          | .error e => s!"A={showErr e} mapsA=- tab=- log={showLog st1.log}"

def step (args : List String) : String :=
  match args with
  | ["run", dir, n, nid, src, cur, cfg, map, odcom, odmap, objsA, objsB, dev, ents, mp, wf, rf] =>
    match (if dir = "T" then some true else if dir = "R" then some false else none),
          n.toNat?, nid.toNat?, parseBool cur, parseMap map, parseOdEntries odcom, parseKind odmap,
          parseObjs objsA, parseObjs objsB, parseFault wf, parseFault rf with
    | some isTx, some n, some nid, some cur, some m, some oc, some (isArr, om), some oa, some ob,
      some wf, some rf =>
      if src ≠ "a" ∧ src ≠ "o" ∧ src ≠ "d" then "bad-op"
      else match parseCfg cfg m with
        | some c => run isTx n nid src cur c oc isArr om oa ob dev ents mp wf rf
        | none => "bad-op"
    | _, _, _, _, _, _, _, _, _, _, _ => "bad-op"
  | "coll" :: nid :: pre :: save :: rd :: objsA :: objsB :: wf :: rf :: maps =>
    match nid.toNat?, parseObjs objsA, parseObjs objsB, parseFault wf, parseFault rf,
          maps.mapM parseMapIn with
    | some nid, some oa, some ob, some wf, some rf, some ins =>
      if ins.isEmpty then "bad-op" else collRun nid pre save rd oa ob wf rf ins
    | _, _, _, _, _, _ => "bad-op"
  | "subs" :: nid :: entry :: objs :: prior :: maps =>
    match nid.toNat?, entry.toList, parseObjs objs, parsePrior prior, maps.mapM parseMapIn with
    | some nid, [x, a], some ob, some pr, some ins =>
      if ins.isEmpty then "bad-op" else subsRun nid x.toString a.toString ob pr ins
    | _, _, _, _, _ => "bad-op"
  | _ => "bad-op"

end Canopen.Driver.C09
