/-
C07 driver, block transfers: `bdist <down|up> idx sub data crcreq srvcrc blks sizeind pre at kind follow`
(see harness/props/c07_block.py).  The first transfer is a block download / upload with the
server's `at`-th response disturbed; the transfers that follow run on the same client (its response
queue is carried over) and the same server (one object store; the block-size stream goes on),
undisturbed.  Between two transfers time passes (`between`).
-/
import CanopenModel.Sdo.BlockDown
import CanopenModel.Sdo.BlockUp
import CanopenModel.Driver.BlkCommon
import CanopenModel.Driver.C01
namespace Canopen.Driver.C07B
open Canopen Canopen.Sdo Canopen.Spec Canopen.Driver.Blk Canopen.Driver.C01

/-- everything that survives from one transfer to the next -/
structure World where
  held : Bytes                 -- value of the one object the op works on
  queue : List Bytes := []     -- the client's response queue
  k : Nat := 0                 -- block sizes the download server has announced so far
  nresp : Nat := 0             -- response frames emitted so far (disturbance index)
  results : List String := []
  reqs : List (List Bytes) := []
  delivered : List Bytes := []
  commits : List Bytes := []
  illegal : Option String := none

structure Cfg where
  idx : Nat
  sub : Nat
  crcReq : Bool
  srvCrc : Bool
  blks : List Nat
  sizeInd : Bool
  dist : Option (Nat × Kind)

def showCErr : Option CErr → String
  | some .comm => "err comm"
  | some (.aborted c) => s!"err aborted {c}"
  | _ => "err other"

def parseKind (s : String) : Option Kind :=
  match s.splitOn ":" with
  | ["lost"] => some .lost
  | ["replace", h] => (parseHex h).map .replace
  | ["toggle"] => some .flipToggle
  | ["scs", n] => n.toNat?.map .setScs
  | ["mux"] => some .bumpMux
  | ["dup"] => some .dup
  | ["dupd"] => some .dupDeferred
  | ["late"] => some .late
  | ["stale", h] => (parseHex h).map .staleBetween
  | _ => none

/-- block download of `data` -/
def runBd (c : Cfg) (w : World) (data : Bytes) (first : Bool) : World :=
  let E : BlockDown.Env :=
    { blkOf := fun k => c.blks.getD (k % c.blks.length) 0, lost := fun _ => false,
      dist := if first then c.dist else some (1000000000000, .lost), srvTimeout := false }
  let s0 : BlockDown.Sys :=
    { cl := {}, srv := { crcCapable := c.srvCrc, k := w.k }, queue := w.queue, nresp := w.nresp }
  let (s1, r) := BlockDown.blockDownloadFrom E (2 * (data.length / 7 + 2) + 600) s0 c.idx c.sub data (some data.length) c.crcReq
  let s2 := BlockDown.between s1
  let res := match r with
    | .ok => "ok"
    | .err => showCErr s1.raised
    | .fuel => "fuel"
  { w with
    held := (s1.srv.committed).getD w.held,
    commits := match s1.srv.committed with | some d => w.commits ++ [d] | none => w.commits,
    queue := s2.queue, k := s2.srv.k, nresp := s2.nresp,
    results := w.results ++ [res],
    reqs := w.reqs ++ [(s2.log.reverse.filter (·.kind == 0)).map (·.frame)],
    delivered := w.delivered ++ (s2.log.reverse.filter (·.kind == 5)).map (·.frame) }

/-- block upload of the held value -/
def runBu (c : Cfg) (w : World) (first : Bool) : World :=
  let E : BlockUp.Env :=
    { cfg := { data := w.held, crcCapable := c.srvCrc, sizeInd := c.sizeInd }, chan := fun _ f => some f,
      dist := if first then c.dist else some (1000000000000, .lost) }
  let s0 : BlockUp.Sys := { queue := w.queue, nresp := w.nresp }
  let (s1, r) := BlockUp.blockUploadFrom E (2 * (w.held.length / 7) + 900) s0 c.idx c.sub c.crcReq
  let s2 := BlockUp.between s1
  let res := match r with
    | .ok v => s!"ok {toHex v}"
    | .err => showCErr s1.raised
    | .fuel => "fuel"
  { w with
    queue := s2.queue, nresp := s2.nresp,
    results := w.results ++ [res],
    reqs := w.reqs ++ [(s2.log.reverse.filter (·.kind == 0)).map (·.frame)],
    delivered := w.delivered ++ (s2.log.reverse.filter (·.kind == 5)).map (·.frame) }

/-- segmented / expedited transfer through `SdoClient.download` / `SdoClient.upload` -/
def runSeg (c : Cfg) (w : World) (down : Option Bytes) : World :=
  let s0 := ssInit [((c.idx, c.sub), w.held)] { sizeIndicated := true, expedited := true, expSize := true, cuts := [] }
  let ch : Chan PS := { peer := (s0, []), queue := w.queue, sent := [] }
  match down with
  | some d =>
    let (ch', r) := download peer ch c.idx c.sub d true false []
    let res := match r with | .ok _ => "ok" | .error e => showErr e
    { w with
      held := match ch'.peer.1.commits.getLast? with | some (_, v) => v | none => w.held,
      commits := w.commits ++ ch'.peer.1.commits.map (·.2),
      queue := ch'.queue, nresp := w.nresp + ch'.peer.2.length,
      results := w.results ++ [res], reqs := w.reqs ++ [ch'.sent], delivered := w.delivered ++ ch'.peer.2,
      illegal := match w.illegal with | some x => some x | none => ch'.peer.1.illegal }
  | none =>
    let (ch', r) := upload peer ch c.idx c.sub none 100000
    let res := match r with | .ok v => s!"ok {toHex v}" | .error e => showErr e
    { w with
      queue := ch'.queue, nresp := w.nresp + ch'.peer.2.length,
      results := w.results ++ [res], reqs := w.reqs ++ [ch'.sent], delivered := w.delivered ++ ch'.peer.2,
      illegal := match w.illegal with | some x => some x | none => ch'.peer.1.illegal }

def runFollow (c : Cfg) (w : World) (t : String) : Option World :=
  match t.splitOn "=" with
  | ["bd", d] => (parseData d).map fun d => runBd c w d false
  | ["bu"] => some (runBu c w false)
  | ["d", d] => (parseData d).map fun d => runSeg c w (some d)
  | ["u"] => some (runSeg c w none)
  | _ => none

def parseHexList (s : String) : Option (List Bytes) :=
  if s = "-" then some [] else (s.splitOn ",").mapM parseHex

def showHexList (fs : List Bytes) : String := if fs.isEmpty then "-" else String.intercalate "," (fs.map hex2)

def step (args : List String) : String :=
  match args with
  | ["bdist", dir, idx, sub, data, crcReq, srvCrc, blks, sizeInd, pre, at_, kind, follow] =>
    match idx.toNat?, sub.toNat?, parseData data, parseBool crcReq, parseBool srvCrc, parseNatList blks,
          parseBool sizeInd, parseHexList pre, at_.toNat?,
          (if kind = "none" then some Kind.lost else parseKind kind) with
    | some idx, some sub, some data, some crcReq, some srvCrc, some blks, some sizeInd, some pre, some at_, some kind =>
      if blks.isEmpty then "bad-op" else
      let c : Cfg := { idx := idx, sub := sub, crcReq := crcReq, srvCrc := srvCrc, blks := blks, sizeInd := sizeInd,
                       dist := some (if args.getD 11 "" = "none" then 1000000000000 else at_, kind) }
      let w0 : World := { held := if dir = "down" then [0xaa, 0xbb, 0xcc, 0xdd, 0xee, 0xff] else data, queue := pre }
      let w1 := if dir = "down" then runBd c w0 data true else runBu c w0 true
      let ws := (if follow = "-" then [] else follow.splitOn ";").foldl
        (fun (w : Option World) t => w.bind fun w => runFollow c w t) (some w1)
      match ws with
      | none => "bad-op"
      | some w =>
        let commits := if w.commits.isEmpty then "-" else
          String.intercalate "&" (w.commits.map fun d => s!"{idx}.{sub}={toHex d}")
        s!"{String.intercalate ";" w.results} | {String.intercalate "/" (w.reqs.map showHexList)} | " ++
          s!"{showHexList w.delivered} | {commits} | {showIllegal w.illegal}"
    | _, _, _, _, _, _, _, _, _, _ => "bad-op"
  | _ => "bad-op"

end Canopen.Driver.C07B
