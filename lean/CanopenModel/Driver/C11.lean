import CanopenModel.Nmt
/-!
Driver of C11: one whole history per line,

    hist <own id> <0x1017 value | -> <step> <step> ...

with the step spellings documented in `harness/props/c11.py`; one record per step, joined by
` | `, showing the call's result, the three views, the frames of the step in order, the heartbeat
callback arguments and the live heartbeat task of the slave.
-/
namespace Canopen.Driver.C11
open Canopen Canopen.Nmt

def showView : View → String
  | .known n => String.ofList (n.map fun c => if c = ' ' then '_' else c)
  | .unknown n => s!"UNKNOWN_STATE_'{n}'"

def showRes : Res → String
  | .ok => "ok"
  | .okState v => s!"ok:{showView v}"
  | .err => "err"
  | .errNmt => "err:nmt"
  | .errRx m s => "err:rx" ++ (if m then "M" else "") ++ (if s then "S" else "")
  | .waiting => "waiting"

def showSender : Sender → String
  | .M => "M" | .S => "S" | .X => "X"

def dashIfEmpty (s : String) : String := if s.isEmpty then "-" else s

def showTx (tx : List (Sender × Frame)) : String :=
  dashIfEmpty (String.intercalate "+" (tx.map fun (s, f) => s!"{showSender s}/{f.id}/{toHex f.data}"))

def showTask : Option HbTask → String
  | none => "-"
  | some t => s!"{t.canId}/{toHex t.payload}/{t.periodMs}"

def showStep (sys : Sys) (o : Out) : String :=
  s!"r={showRes o.res},m={showView sys.masterView},s={showView sys.slaveView},b={showView sys.bcastView}," ++
  s!"tx={showTx o.tx},cb={showNatList o.cb},hb={showTask sys.slave.task}"

def parseName (s : String) : Option (List Char) := (parseNatList s).map (·.map Char.ofNat)

/-- `-` = nothing arrives, otherwise `/`-separated payloads -/
def parseArrivals (parts : List String) : Option (List Bytes) :=
  if parts = ["-"] then some [] else parts.mapM parseHex

def parseIter (s : String) : Option (Bool × List Bytes) :=
  match s.splitOn "/" with
  | e :: rest => do
      let e ← parseBool e
      let arr ← parseArrivals rest
      pure (e, arr)
  | [] => none

def parseStep (tok : String) : Option Op :=
  match tok.splitOn ":" with
  | ["a", c] => (parseNat c).map .api
  | ["n", n] => (parseName n).map .setName
  | ["g", c] => (parseNat c).map .bcast
  | ["G", n] => (parseName n).map .bcastName
  | ["c", h] => (parseHex h).map .bus
  | ["h", n, h] => do
      let n ← parseNat n
      let d ← parseHex h
      pure (.hb n d)
  | ["A", c] => (parseNat c).map .sapi
  | ["N", n] => (parseName n).map .sname
  | ["H", ms] => (parseNat ms).map .hbTime
  | ["t"] => some .tick
  | ["w", a] => (parseArrivals (a.splitOn "/")).map .waitHb
  | ["rw", a] => (parseArrivals (a.splitOn "/")).map .waitHb
  | ["W", its] => ((its.splitOn ";").mapM parseIter).map .waitBoot
  | ["rW", "0"] => some (.waitBoot [(true, [])])
  | ["rW", "1"] => some (.waitBoot [(false, [[0]])])
  | _ => none

def runShow (sys : Sys) : List Op → List String
  | [] => []
  | op :: rest =>
    let (sys', o) := step sys op
    showStep sys' o :: runShow sys' rest

def parseOd (s : String) : Option (Option Nat) :=
  if s = "-" then some none else (parseNat s).map some

def step (args : List String) : String :=
  match args with
  | "hist" :: own :: od :: toks =>
    -- `o<id>` / `z<id>`: the node objects were created with node id None / 0 and took <id> from the
    -- dictionary (`BaseNode.id = node_id or od.node_id`); from then on everything uses that id
    let own := if own.startsWith "o" ∨ own.startsWith "z" then (own.drop 1).toString else own
    match parseNat own, parseOd od, toks.mapM parseStep with
    | some own, some od, some ops =>
      dashIfEmpty (String.intercalate " | " (runShow (Sys.init own od) ops))
    | _, _, _ => "bad-op"
  | _ => "bad-op"

end Canopen.Driver.C11
