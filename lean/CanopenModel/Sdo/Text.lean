/-
Text mode of `SdoClient.open` (`mode` without `b`): the binary stream wrapped in
`io.TextIOWrapper(buffered_stream, encoding, line_buffering=…)` — `errors` is left at its
default (`strict`), `newline` at its default (`None`).

Text is a list of code points (`List Nat`; Python's `str` holds 0..0x10FFFF, lone surrogates
included).  Three layers are modelled:

* the codec (`encodeText` / `decodeText`, strict: an un-encodable character / a malformed byte
  sequence is an error, never dropped or replaced) for ascii, latin-1 and utf-8;
* newline handling of `newline=None`: on output `"\n"` becomes `os.linesep` — on POSIX that is
  `"\n"` itself, so writing changes nothing (assumption of the check, see ASSUMPTIONS); on input
  universal newlines: `"\r\n"` and a lone `"\r"` become `"\n"` (`univNl`);
* the calls: every `write(str)` encodes its whole argument first and hands over nothing when
  that fails (`encodeChunks`); what was handed over reaches the raw stream in raw writes chosen
  by `io.BufferedWriter` (the `offers` of `wsFeed`), and `close()` — also on the way out of a
  `with` block after an exception — finishes the transfer.
-/
import CanopenModel.Sdo.Client

namespace Canopen.Sdo
open Canopen

inductive Enc where
  | ascii
  | latin1
  | utf8
deriving Repr, DecidableEq

/-- UTF-8 of one code point; surrogates (U+D800..U+DFFF) and values above U+10FFFF have none -/
def encUtf8 (cp : Nat) : Option Bytes :=
  if cp < 0x80 then some [cp]
  else if cp < 0x800 then some [0xC0 + cp / 64, 0x80 + cp % 64]
  else if cp < 0x10000 then
    if 0xD800 ≤ cp ∧ cp ≤ 0xDFFF then none
    else some [0xE0 + cp / 4096, 0x80 + cp / 64 % 64, 0x80 + cp % 64]
  else if cp ≤ 0x10FFFF then
    some [0xF0 + cp / 262144, 0x80 + cp / 4096 % 64, 0x80 + cp / 64 % 64, 0x80 + cp % 64]
  else none

/-- one character in the given encoding, `none` = `UnicodeEncodeError` -/
def encodeCp (enc : Enc) (cp : Nat) : Option Bytes :=
  match enc with
  | .ascii => if cp < 128 then some [cp] else none
  | .latin1 => if cp < 256 then some [cp] else none
  | .utf8 => encUtf8 cp

/-- `str.encode(encoding)` with `errors="strict"` -/
def encodeText (enc : Enc) : List Nat → Option Bytes
  | [] => some []
  | cp :: r =>
    match encodeCp enc cp, encodeText enc r with
    | some b, some bs => some (b ++ bs)
    | _, _ => none

/-- a UTF-8 continuation byte -/
def isCont (b : Nat) : Bool := decide (0x80 ≤ b) && decide (b ≤ 0xBF)

/-- value of a three-byte sequence -/
def cp3 (b0 b1 b2 : Nat) : Nat := (b0 - 0xE0) * 4096 + (b1 - 0x80) * 64 + (b2 - 0x80)

/-- value of a four-byte sequence -/
def cp4 (b0 b1 b2 b3 : Nat) : Nat := (b0 - 0xF0) * 262144 + (b1 - 0x80) * 4096 + (b2 - 0x80) * 64 + (b3 - 0x80)

/-- the first code point of a well-formed UTF-8 string and the rest; `none` when the front is not
    well-formed: stray continuation byte, overlong form (0xC0, 0xC1, 0xE0 0x80.., 0xF0 0x80..),
    surrogate, value above U+10FFFF, truncated sequence, byte ≥ 0xF5 -/
def utf8Step (bs : Bytes) : Option (Nat × Bytes) :=
  match bs with
  | [] => none
  | b0 :: r =>
    if b0 < 0x80 then some (b0, r)
    else if b0 < 0xC2 then none
    else if b0 < 0xE0 then
      match r with
      | b1 :: r1 => if isCont b1 then some ((b0 - 0xC0) * 64 + (b1 - 0x80), r1) else none
      | [] => none
    else if b0 < 0xF0 then
      match r with
      | b1 :: b2 :: r2 =>
        if isCont b1 && isCont b2 && decide (0x800 ≤ cp3 b0 b1 b2) &&
            !(decide (0xD800 ≤ cp3 b0 b1 b2) && decide (cp3 b0 b1 b2 ≤ 0xDFFF))
        then some (cp3 b0 b1 b2, r2) else none
      | _ => none
    else if b0 < 0xF5 then
      match r with
      | b1 :: b2 :: b3 :: r3 =>
        if isCont b1 && isCont b2 && isCont b3 && decide (0x10000 ≤ cp4 b0 b1 b2 b3) &&
            decide (cp4 b0 b1 b2 b3 ≤ 0x10FFFF)
        then some (cp4 b0 b1 b2 b3, r3) else none
      | _ => none
    else none

/-- strict UTF-8 decoding (fuel = number of bytes is always enough: every step consumes one) -/
def decodeUtf8 : Nat → Bytes → Option (List Nat)
  | 0, bs => if bs.isEmpty then some [] else none
  | f + 1, bs =>
    if bs.isEmpty then some []
    else
      match utf8Step bs with
      | none => none
      | some (cp, rest) =>
        match decodeUtf8 f rest with
        | some s => some (cp :: s)
        | none => none

/-- one byte = one character below `lim` (ascii: 128, latin-1: 256) -/
def decodeBytewise (lim : Nat) : Bytes → Option (List Nat)
  | [] => some []
  | b :: r =>
    if b < lim then
      match decodeBytewise lim r with
      | some s => some (b :: s)
      | none => none
    else none

/-- `bytes.decode(encoding)` with `errors="strict"`, `none` = `UnicodeDecodeError` -/
def decodeText (enc : Enc) (bs : Bytes) : Option (List Nat) :=
  match enc with
  | .ascii => decodeBytewise 128 bs
  | .latin1 => decodeBytewise 256 bs
  | .utf8 => decodeUtf8 bs.length bs

/-- universal newlines on input (`newline=None`): `"\r\n"` → `"\n"`, lone `"\r"` → `"\n"` -/
def univNl : List Nat → List Nat
  | [] => []
  | [c] => [if c = 13 then 10 else c]
  | c :: d :: r =>
    if c = 13 then (if d = 10 then 10 :: univNl r else 10 :: univNl (d :: r))
    else c :: univNl (d :: r)

/-- an error raised to the caller of the text interface -/
inductive TErr where
  | sdo (e : CErr)      -- whatever the binary stream raised
  | unicode             -- UnicodeEncodeError / UnicodeDecodeError
deriving Repr, DecidableEq

/-- the `write(str)` calls of one `with` block: the bytes handed to the binary stream — the
    encodings of the pieces before the first one that cannot be encoded (that `write` raises and
    hands over nothing, later ones are never reached) — and whether every piece went through -/
def encodeChunks (enc : Enc) : List (List Nat) → Bytes × Bool
  | [] => ([], true)
  | ch :: r =>
    match encodeText enc ch with
    | none => ([], false)
    | some b => (b ++ (encodeChunks enc r).1, (encodeChunks enc r).2)

/-- what the caller of the text download sees once the binary transfer has run -/
def textDownResult (allOk : Bool) (r : Except CErr Unit) : Except TErr Unit :=
  match r with
  | .error e => .error (.sdo e)
  | .ok _ => if allOk then .ok () else .error .unicode

/-- `with client.open(idx, sub, "w", encoding=enc, buffering=…, size=…, force_segment=…) as fp:
    for ch in chunks: fp.write(ch)` — `sized`: the size declared is the number of bytes that
    reach the stream.  The stream is closed on the way out, also after `UnicodeEncodeError`. -/
def textDownload {σ} (P : Peer σ) (c : Chan σ) (idx sub : Nat) (enc : Enc) (chunks : List (List Nat))
    (sized force : Bool) (offers : List Nat) : Chan σ × Except TErr Unit :=
  let x := download P c idx sub (encodeChunks enc chunks).1 sized force offers
  (x.1, textDownResult (encodeChunks enc chunks).2 x.2)

/-- what the text reader makes of the bytes the binary stream delivered -/
def textUpResult (enc : Enc) (r : Except CErr Bytes) : Except TErr (List Nat) :=
  match r with
  | .error e => .error (.sdo e)
  | .ok d =>
    match decodeText enc d with
    | none => .error .unicode
    | some s => .ok (univNl s)

/-- `with client.open(idx, sub, "r", encoding=enc, buffering=…) as fp: fp.read()` (or `read(n)` /
    line iteration until the end): at most `reads` raw reads, stopping at the first empty one,
    then decoding.  (A reader that stops early because a piece could not be decoded has made
    fewer raw reads than the transfer needs; what it has is not decodable either.) -/
def textUpload {σ} (P : Peer σ) (c : Chan σ) (idx sub : Nat) (enc : Enc) (reads : Nat) :
    Chan σ × Except TErr (List Nat) :=
  let x := upload P c idx sub none reads
  (x.1, textUpResult enc x.2)

end Canopen.Sdo
