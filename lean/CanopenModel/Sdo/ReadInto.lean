/-
`ReadableStream.readinto(b)` and the bytes it keeps back (`_spare`) when a segment holds more
than the caller's buffer takes (repair of finding F22); `read(n)` serves those bytes first.
`io.BufferedReader` reaches the raw stream only through `readinto` (and `readall`).
-/
import CanopenModel.Sdo.Client

namespace Canopen.Sdo
open Canopen

/-- raw upload stream together with the bytes kept back by `readinto` -/
structure RB where
  st : RS
  spare : Bytes

/-- `ReadableStream.read(n)`, `n ≥ 0`: bytes kept back first, else one raw read -/
def rbRead {σ} (P : Peer σ) (c : Chan σ) (b : RB) : Chan σ × Except CErr (RB × Bytes) :=
  if b.spare.isEmpty then
    match rsRead P c b.st with
    | (c', .ok (s', d)) => (c', .ok ({ st := s', spare := [] }, d))
    | (c', .error e) => (c', .error e)
  else (c, .ok ({ b with spare := [] }, b.spare))

/-- `readinto(b)` with `len(b) = n`: `data = self.read(7); self._spare = data[n:]; b[:…] = data[:n]` -/
def rbReadInto {σ} (P : Peer σ) (c : Chan σ) (b : RB) (n : Nat) : Chan σ × Except CErr (RB × Bytes) :=
  match rbRead P c b with
  | (c', .ok (b', d)) => (c', .ok ({ b' with spare := d.drop n }, d.take n))
  | (c', .error e) => (c', .error e)

/-- a caller (`io.BufferedReader`) handing over buffers of the given sizes, one `readinto` each -/
def rbRun {σ} (P : Peer σ) : Chan σ → RB → List Nat → Chan σ × Except CErr (RB × List Bytes)
  | c, b, [] => (c, .ok (b, []))
  | c, b, n :: ns =>
    match rbReadInto P c b n with
    | (c', .ok (b', d)) =>
      (match rbRun P c' b' ns with
       | (c'', .ok (b'', ds)) => (c'', .ok (b'', d :: ds))
       | (c'', .error e) => (c'', .error e))
    | (c', .error e) => (c', .error e)

/-- `k` raw reads in a row: the segment stream itself -/
def rawRun {σ} (P : Peer σ) : Nat → Chan σ → RS → Chan σ × Except CErr (RS × List Bytes)
  | 0, c, s => (c, .ok (s, []))
  | k + 1, c, s =>
    match rsRead P c s with
    | (c', .ok (s', d)) =>
      (match rawRun P k c' s' with
       | (c'', .ok (s'', ds)) => (c'', .ok (s'', d :: ds))
       | (c'', .error e) => (c'', .error e))
    | (c', .error e) => (c', .error e)

end Canopen.Sdo
