/-
C13 — model of `canopen.sdo.client.BlockUploadStream` (and of `SdoClient.request_response`,
`read_response`, `abort`, `send_request`) composed with the specification server `Spec.BlockUp`
over a disturbed server→client direction.

* `deliver`: every frame the server emits gets the next global response number `n` and passes
  through the channel `chan n frame` (`none` = lost, `some d` = delivered, possibly altered); what
  is delivered is appended to the client's response queue (synchronous delivery).
* `readResponse` = `read_response`: queue head, abort frames raise; an empty queue is the abstract
  time-out event (this server does nothing on its own time-out).
* `_retransmit`: `_ack_block()` then the `while time.time() < end_time` loop.  Time only passes
  when a read times out, and a time-out inside the loop raises out of it, so the loop is a scan of
  the queue (`scan`, structural recursion) for the first frame with `seqno = _ackseq + 1`; the code
  after the loop (`abort(0x05040000)`) is unreachable under that reading of time and not modelled.
* `read()` as coded (repaired): a segment that is missing (time-out) or out of sequence leads to
  exactly one `_retransmit()`, whose result is taken without a second sequence check.
* `readAll` = `RawIOBase.readall()` (what `fp.read()` does for the raw and for the buffered
  stream): repeat `read()` until it returns no bytes; explicit fuel, `Res.fuel` distinct.
* `close()` always runs when the `with` block is left.
* Repaired code: a time-out inside `_retransmit`'s loop or in `_end_upload` sends the abort frame
  0x05040000 before the exception goes on.
* C07: `Env.dist = some (at, kind)` alters the server's `at`-th response frame as in
  `Sdo/BlockDown.lean` (`chan` is then not consulted); with the default `none` every definition is
  literally the C13 one.  The exception class of the last `raise` travels in `Sys.raised`.
Exceptions are `Res.err`.  Not modelled: responses shorter than 8 bytes, `pos`/`tell()`.
-/
import CanopenModel.Bytes
import CanopenModel.Crc
import CanopenModel.Spec.BlockServer
import CanopenModel.Generated.SdoBlock
import CanopenModel.Sdo.BlockDown
namespace Canopen.Sdo.BlockUp
open Canopen Canopen.Crc Canopen.Gen.SdoBlock
open Canopen.Sdo (CErr Kind)
open Canopen.Sdo.BlockDown (distort)

/-- bus log entry: 0 = request, 2 = response delivered intact, 3 = response lost,
    4 = response delivered altered (the frame as delivered),
    5 = frame put into the client's queue (only logged when a C07 disturbance is configured) -/
structure Ev where
  kind : Nat
  frame : Bytes
deriving DecidableEq, Repr

/-- attributes of `BlockUploadStream` -/
structure Cl where
  done : Bool := false
  crc : Nat := 0
  serverCrc : Option Nat := none
  ackseq : Nat := 0
  error : Bool := false
  size : Option Nat := none
  crcSupported : Bool := UPLOAD_CRC_SUPPORTED_DEFAULT
deriving DecidableEq, Repr

structure Sys where
  cl : Cl := {}
  srv : Spec.BlockUp.Srv := {}
  queue : List Bytes := []
  nresp : Nat := 0
  log : List Ev := []        -- newest first
  pending : List Bytes := [] -- C07: frames held back, delivered with the client's next frame
  raised : Option CErr := none   -- exception class of the last `raise`
deriving DecidableEq, Repr

structure Env where
  cfg : Spec.BlockUp.Cfg
  chan : Nat → Bytes → Option Bytes
  dist : Option (Nat × Kind) := none

/-- record an exception class -/
def fail (s : Sys) (e : CErr) : Sys := { s with raised := some e }

inductive Res | ok (data : Bytes) | err | fuel
deriving DecidableEq, Repr

def deliver1 (E : Env) (s : Sys) (r : Bytes) : Sys :=
  match E.dist with
  | none =>
    match E.chan s.nresp r with
    | none => { s with nresp := s.nresp + 1, log := ⟨3, r⟩ :: s.log }
    | some d => { s with nresp := s.nresp + 1, queue := s.queue ++ [d],
                         log := ⟨if d = r then 2 else 4, d⟩ :: s.log }
  | some d =>
    if s.nresp = d.1 then
      { s with nresp := s.nresp + 1, queue := s.queue ++ (distort d.2 r).1,
               pending := s.pending ++ (distort d.2 r).2,
               log := ((distort d.2 r).1.map (Ev.mk 5)).reverse ++ s.log }
    else { s with nresp := s.nresp + 1, queue := s.queue ++ [r], log := ⟨5, r⟩ :: s.log }

def deliver (E : Env) (s : Sys) : List Bytes → Sys
  | [] => s
  | r :: rs => deliver E (deliver1 E s r) rs

/-- `SdoClient.send_request` on the simulated bus -/
def sendReq (E : Env) (s : Sys) (f : Bytes) : Sys :=
  match E.dist with
  | none =>
    deliver E { s with srv := (Spec.BlockUp.step E.cfg s.srv f).1, log := ⟨0, f⟩ :: s.log }
      (Spec.BlockUp.step E.cfg s.srv f).2
  | some _ =>
    deliver E { s with srv := (Spec.BlockUp.step E.cfg s.srv f).1, queue := s.queue ++ s.pending, pending := [],
                       log := (s.pending.map (Ev.mk 5)).reverse ++ ⟨0, f⟩ :: s.log }
      (Spec.BlockUp.step E.cfg s.srv f).2

inductive RR | resp (f : Bytes) | timeout | aborted (code : Nat)
deriving DecidableEq, Repr

def classify (r : Bytes) : RR :=
  if r.getD 0 0 = RESPONSE_ABORTED then .aborted (leVal ((r.drop 4).take 4)) else .resp r

/-- `SdoClient.read_response` -/
def readResponse (s : Sys) : Sys × RR :=
  match s.queue with
  | r :: q => ({ s with queue := q }, classify r)
  | [] => (s, .timeout)

def abort (E : Env) (s : Sys) (code : Nat) : Sys :=
  sendReq E s ([REQUEST_ABORTED, 0, 0, 0] ++ leBytes 4 code)

def setError (s : Sys) : Sys := { s with cl := { s.cl with error := true } }

def rrLoop (E : Env) : Nat → Sys → Bytes → Sys × RR
  | 0, s, _ => (s, .timeout)
  | k+1, s, req =>
    match readResponse (sendReq E s req) with
    | (s1, .timeout) => if k = 0 then (fail (abort E s1 0x05040000) .comm, .timeout) else rrLoop E k s1 req
    | (s1, .aborted code) => (fail s1 (.aborted code), .aborted code)
    | r => r

def requestResponse (E : Env) (s : Sys) (req : Bytes) : Sys × RR :=
  rrLoop E MAX_RETRIES { s with queue := [] } req

/-- `BlockUploadStream.__init__`; `false` = an exception left the constructor -/
def init (E : Env) (s : Sys) (idx sub : Nat) (crcReq : Bool) : Sys × Bool :=
  let command := REQUEST_BLOCK_UPLOAD ||| INITIATE_BLOCK_TRANSFER ||| (if crcReq then CRC_SUPPORTED else 0)
  match requestResponse E s [command, idx % 256, idx / 256, sub, UPLOAD_BLKSIZE, 0, 0, 0] with
  | (s1, .resp r) =>
    if r.getD 0 0 &&& 0xE0 ≠ RESPONSE_BLOCK_UPLOAD then (fail (abort E (setError s1) 0x05040001) .comm, false)
    else if r.getD 1 0 + 256 * r.getD 2 0 ≠ idx ∨ r.getD 3 0 ≠ sub then (fail (setError s1) .comm, false)
    else
      (sendReq E { s1 with cl := { s1.cl with
                      size := if r.getD 0 0 &&& BLOCK_SIZE_SPECIFIED ≠ 0 then some (leVal ((r.drop 4).take 4)) else s1.cl.size,
                      crcSupported := crcReq && decide (r.getD 0 0 &&& CRC_SUPPORTED ≠ 0) } }
         [REQUEST_BLOCK_UPLOAD ||| START_BLOCK_UPLOAD, 0, 0, 0, 0, 0, 0, 0], true)
  | (s1, _) => (s1, false)

/-- `_ack_block` (repaired code): after every acknowledge the server numbers the next sub-block
    from 1 again, so the sequence counter is reset unconditionally -/
def ackBlock (E : Env) (s : Sys) : Sys :=
  let s1 := sendReq E s [REQUEST_BLOCK_UPLOAD ||| BLOCK_TRANSFER_RESPONSE, s.cl.ackseq, UPLOAD_BLKSIZE, 0, 0, 0, 0, 0]
  { s1 with cl := { s1.cl with ackseq := 0 } }

inductive ScanRes
  | found (r : Bytes) (rest : List Bytes)
  | timeout
  | aborted (code : Nat) (rest : List Bytes)
deriving DecidableEq, Repr

/-- the loop of `_retransmit` over what is (and, with a silent server, will ever be) queued -/
def scan (ackseq : Nat) : List Bytes → ScanRes
  | [] => .timeout
  | r :: q =>
    if r.getD 0 0 = RESPONSE_ABORTED then .aborted (leVal ((r.drop 4).take 4)) q
    else if r.getD 0 0 &&& 0x7F = ackseq + 1 then .found r q
    else scan ackseq q

/-- `_retransmit`; `none` = raised.  Repaired code: when nothing more arrives the loop is left and
    the abort frame 0x05040000 goes out before SdoCommunicationError is raised -/
def retransmit (E : Env) (s : Sys) : Sys × Option Bytes :=
  let s1 := ackBlock E s
  match scan s1.cl.ackseq s1.queue with
  | .found r rest => ({ s1 with queue := rest, cl := { s1.cl with ackseq := r.getD 0 0 &&& 0x7F } }, some r)
  | .timeout => (fail (abort E (setError { s1 with queue := [] }) 0x05040000) .comm, none)
  | .aborted code rest => (fail { s1 with queue := rest } (.aborted code), none)

/-- the sequence check of `read` on a response in hand (`_ackseq += 1` when it fits, which is the
    response's own number) -/
def seqCheck (E : Env) (s : Sys) (r : Bytes) : Sys × Option Bytes :=
  if r.getD 0 0 &&& 0x7F = s.cl.ackseq + 1 then
    ({ s with cl := { s.cl with ackseq := r.getD 0 0 &&& 0x7F } }, some r)
  else retransmit E s

/-- `_end_upload`; `none` = raised, `some n` = unused bytes in the last segment -/
def endUpload (E : Env) (s : Sys) : Sys × Option Nat :=
  match readResponse s with
  | (s1, .resp e) =>
    let s2 := { s1 with cl := { s1.cl with serverCrc := some (e.getD 1 0 + 256 * e.getD 2 0) } }
    if e.getD 0 0 &&& 0xE0 ≠ RESPONSE_BLOCK_UPLOAD then (fail (abort E (setError s2) 0x05040001) .comm, none)
    else if e.getD 0 0 &&& 0x3 ≠ END_BLOCK_TRANSFER then (fail (abort E (setError s2) 0x05040001) .comm, none)
    else (s2, some ((e.getD 0 0 >>> 2) &&& 0x7))
  | (s1, .timeout) => (fail (abort E (setError s1) 0x05040000) .comm, none)
  | (s1, .aborted code) => (fail s1 (.aborted code), none)

/-- tail of `read` for the last segment: CRC comparison -/
def finishLast (E : Env) (s : Sys) (data : Bytes) : Sys × Option Bytes :=
  let s1 := { s with cl := { s.cl with done := true } }
  if s1.cl.crcSupported then
    let s2 := { s1 with cl := { s1.cl with crc := crcHqx data s1.cl.crc } }
    if s2.cl.serverCrc ≠ some s2.cl.crc then (fail (abort E (setError s2) 0x05040004) .comm, none)
    else (s2, some data)
  else (s1, some data)

/-- `read` after the in-sequence response `r` has been obtained -/
def afterSeq (E : Env) (s : Sys) (r : Bytes) : Sys × Option Bytes :=
  let last := r.getD 0 0 &&& NO_MORE_BLOCKS ≠ 0
  let s1 := if s.cl.ackseq ≥ UPLOAD_BLKSIZE ∨ last then ackBlock E s else s
  if last then
    match endUpload E s1 with
    | (s2, none) => (s2, none)
    | (s2, some n) => finishLast E s2 ((r.drop 1).take (7 - n))
  else
    ({ s1 with cl := { s1.cl with crc := if s1.cl.crcSupported then crcHqx (r.drop 1) s1.cl.crc else s1.cl.crc } },
     some (r.drop 1))

def andThen (E : Env) (x : Sys × Option Bytes) (f : Env → Sys → Bytes → Sys × Option Bytes) :
    Sys × Option Bytes :=
  match x with
  | (s, none) => (s, none)
  | (s, some r) => f E s r

/-- one `read(n)` with `n ≥ 0` while `_done` is false; `none` = raised -/
def readStep (E : Env) (s : Sys) : Sys × Option Bytes :=
  match readResponse s with
  | (s1, .aborted code) => (fail s1 (.aborted code), none)
  | (s1, .timeout) => andThen E (retransmit E s1) afterSeq
  | (s1, .resp r) => andThen E (seqCheck E s1 r) afterSeq

/-- `readall()`: `read()` until it returns no bytes -/
def readAll (E : Env) : Nat → Sys → Bytes → Sys × Res
  | 0, s, _ => (s, .fuel)
  | f+1, s, acc =>
    if s.cl.done then (s, .ok acc)
    else match readStep E s with
      | (s1, none) => (s1, .err)
      | (s1, some d) => if d.isEmpty then (s1, .ok acc) else readAll E f s1 (acc ++ d)

/-- `close()` -/
def close (E : Env) (s : Sys) : Sys :=
  if s.cl.done ∧ ¬ s.cl.error then sendReq E s [REQUEST_BLOCK_UPLOAD ||| END_BLOCK_TRANSFER, 0, 0, 0, 0, 0, 0, 0]
  else s

/-- `with client.open(idx, sub, "rb", block_transfer=True, request_crc_support=crcReq) as fp:
    data = fp.read()`, on a client/server pair in state `s0` (a fresh stream object) -/
def blockUploadFrom (E : Env) (fuel : Nat) (s0 : Sys) (idx sub : Nat) (crcReq : Bool) : Sys × Res :=
  match init E { s0 with cl := {} } idx sub crcReq with
  | (s, false) => (s, .err)
  | (s, true) =>
    match readAll E fuel s [] with
    | (s1, r) => (close E s1, r)

def blockUpload (E : Env) (fuel : Nat) (idx sub : Nat) (crcReq : Bool) : Sys × Res :=
  blockUploadFrom E fuel {} idx sub crcReq

/-- C07: time passes between two transfers — what was held back arrives, and a transfer the
    server still has open runs into the server's own time-out (abort 0x05040000 to the client) -/
def between (s : Sys) : Sys :=
  { s with
    queue := s.queue ++ s.pending ++
      (if s.srv.phase = .idle then [] else [Spec.abortFrame s.srv.idx s.srv.sub 0x05040000]),
    pending := [],
    srv := { s.srv with phase := .idle },
    log := ((s.pending ++ (if s.srv.phase = .idle then [] else [Spec.abortFrame s.srv.idx s.srv.sub 0x05040000])).map
              (Ev.mk 5)).reverse ++ s.log }

end Canopen.Sdo.BlockUp
