/-
Model of the SDO client (canopen/sdo/client.py): `SdoClient.request_response / read_response /
abort`, `WritableStream`, `ReadableStream`, `SdoClient.upload / download`.

The peer (whatever answers on the bus) is a parameter `P : σ → Bytes → σ × List Bytes`: given a
request frame it returns the frames that are in the client's response queue when the client
looks (the empty list = time-out).  Blocking calls become pure functions threading the channel
state; a Python exception becomes `Except CErr`.

The file-like interface is modelled at the `RawIOBase` boundary: `wsWrite st b` is one raw
`write(b)` returning the number of bytes accepted; `rsRead st` is one raw `read(n ≥ 0)`.
-/
import CanopenModel.Bytes
import CanopenModel.Generated.SdoConst
import CanopenModel.Generated.Datatypes
import CanopenModel.Codec

namespace Canopen.Sdo
open Canopen Canopen.Gen.SdoConst

inductive CErr where
  | comm                    -- SdoCommunicationError
  | aborted (code : Nat)    -- SdoAbortedError
  | runtime                 -- RuntimeError ("All expected data has already been transmitted")
  | assertion               -- AssertionError ("More data received than expected")
  | other                   -- struct.error etc. on a malformed response
deriving Repr, DecidableEq

/-- the client's view of the bus: peer state, response queue, every frame the client emitted -/
structure Chan (σ : Type) where
  peer : σ
  queue : List Bytes
  sent : List Bytes

abbrev Peer (σ : Type) := σ → Bytes → σ × List Bytes

def abortReq (code : Nat) : Bytes := [REQUEST_ABORTED, 0, 0, 0] ++ leBytes 4 code

/-- `send_request`: the frame goes to the peer; what the peer answers lands in the queue -/
def send {σ} (P : Peer σ) (c : Chan σ) (req : Bytes) : Chan σ :=
  let (p', rs) := P c.peer req
  { peer := p', queue := c.queue ++ rs, sent := c.sent ++ [req] }

/-- `read_response` on a given head of the queue -/
def decodeResponse (r : Bytes) : Except CErr Bytes :=
  match r with
  | [] => .error .other                                   -- struct.error on an empty frame
  | c0 :: _ =>
    if c0 = RESPONSE_ABORTED then
      if r.length < 8 then .error .other                   -- struct.error reading the code
      else .error (.aborted (leVal ((r.drop 4).take 4)))
    else .ok r

/-- `request_response` with MAX_RETRIES = 1: flush a non-empty queue, send, wait; on time-out
    send the abort frame 0x05040000 and raise SdoCommunicationError -/
def requestResponse {σ} (P : Peer σ) (c : Chan σ) (req : Bytes) : Chan σ × Except CErr Bytes :=
  let c1 := send P { c with queue := [] } req
  match c1.queue with
  | [] =>
    let c2 := send P c1 (abortReq 0x05040000)
    (c2, .error .comm)
  | r :: rest => ({ c1 with queue := rest }, decodeResponse r)

/-! ### WritableStream -/

structure WS where
  size : Option Nat
  pos : Nat
  toggle : Nat                     -- 0 or TOGGLE_BIT
  expHeader : Option Bytes         -- 4 header bytes of the pending expedited request
  done : Bool
  pending : Bytes := []            -- `_exp_pending`: data of an expedited download accepted but not yet sent
deriving Repr

def muxB (idx sub : Nat) : Bytes := leBytes 2 idx ++ [sub % 256]

/-- `size is None or size < 1 or size > 4 or force_segment` -/
def isSegmented (size : Option Nat) (force : Bool) : Bool :=
  match size with
  | none => true
  | some sz => sz < 1 || sz > 4 || force

/-- bytes 4..7 of the segmented initiate request: the size when declared -/
def sizeField (size : Option Nat) : Bytes :=
  match size with
  | some sz => leBytes 4 sz
  | none => [0, 0, 0, 0]

/-- `WritableStream.__init__` -/
def wsInit {σ} (P : Peer σ) (c : Chan σ) (idx sub : Nat) (size : Option Nat) (force : Bool) :
    Chan σ × Except CErr WS :=
  if isSegmented size force then
    let command := REQUEST_DOWNLOAD ||| (if size.isSome then SIZE_SPECIFIED else 0)
    let req : Bytes := command :: (muxB idx sub ++ sizeField size)
    match requestResponse P c req with
    | (c', .error e) => (c', .error e)
    | (c', .ok r) =>
      if r.headD 0 ≠ RESPONSE_DOWNLOAD then (c', .error .comm)
      else (c', .ok { size := size, pos := 0, toggle := 0, expHeader := none, done := false })
  else
    let sz := size.getD 0
    let command := REQUEST_DOWNLOAD ||| EXPEDITED ||| SIZE_SPECIFIED ||| ((4 - sz) <<< 2)
    (c, .ok { size := size, pos := 0, toggle := 0, expHeader := some (command :: muxB idx sub), done := false })

/-- command byte of a download segment request -/
def segDownCmd (toggle sent : Nat) (last : Bool) : Nat :=
  REQUEST_SEGMENT_DOWNLOAD ||| toggle ||| (if last then NO_MORE_DATA else 0) ||| ((7 - sent) <<< 1)

/-- `self.size is not None and n >= self.size` -/
def reachesSize (size : Option Nat) (n : Nat) : Bool :=
  match size with
  | some sz => decide (n ≥ sz)
  | none => false

/-- what the offer that completes an expedited download contributes: all of it when nothing was
    collected before (a single full offer, as ever), else only what is still missing -/
def expTake (w : WS) (b : Bytes) : Bytes :=
  if w.pending.isEmpty then b else b.take (w.size.getD 0 - w.pending.length)

/-- one raw `write(b)`: new state and the number of bytes accepted -/
def wsWrite {σ} (P : Peer σ) (c : Chan σ) (w : WS) (b : Bytes) : Chan σ × Except CErr (WS × Nat) :=
  if w.done then (c, .error .runtime)
  else match w.expHeader with
    | some hdr =>
      if b.length < w.size.getD 0 - w.pending.length then         -- not all data yet: collected
        (c, .ok ({ w with pending := w.pending ++ b, pos := w.pos + b.length }, b.length))
      else if w.pending.isEmpty && decide (b.length > 4) then (c, .error .assertion)
      else
        match requestResponse P c (hdr ++ padTo 4 (w.pending ++ expTake w b)) with
        | (c', .error e) => (c', .error e)
        | (c', .ok r) =>
          if r.headD 0 &&& 0xE0 ≠ RESPONSE_DOWNLOAD then (c', .error .comm)
          else (c', .ok ({ w with done := true, pos := w.pos + (expTake w b).length, pending := [] },
                         (expTake w b).length))
    | none =>
      let sent := min b.length 7
      let last := reachesSize w.size (w.pos + sent)
      let w1 := { w with toggle := w.toggle ^^^ TOGGLE_BIT, done := last }
      let req : Bytes := segDownCmd w.toggle sent last :: padTo 7 (b.take sent)
      match requestResponse P c req with
      | (c', .error e) => (c', .error e)                         -- state as left by the code: toggled
      | (c', .ok r) =>
        if r.headD 0 &&& 0xE0 ≠ RESPONSE_SEGMENT_DOWNLOAD then (c', .error .comm)
        else (c', .ok ({ w1 with pos := w.pos + sent }, sent))

/-- `close()`: an unfinished segmented download is ended by an empty last segment; an expedited one
    that collected data without ever sending it raises -/
def wsClose {σ} (P : Peer σ) (c : Chan σ) (w : WS) : Chan σ × Except CErr WS :=
  if !w.done && w.expHeader.isNone then
    let req : Bytes := (REQUEST_SEGMENT_DOWNLOAD ||| NO_MORE_DATA ||| w.toggle ||| (7 <<< 1)) :: List.replicate 7 0
    match requestResponse P c req with
    | (c', .error e) => (c', .error e)
    | (c', .ok _) => (c', .ok { w with done := true })
  else if !w.done && !w.pending.isEmpty then (c, .error .runtime)   -- collected data never sent: RuntimeError
  else (c, .ok w)

/-- a *caller* of the raw stream: offers a prefix of the unsent remainder of the given sizes
    (then whatever is left, as long as anything is left), advances by the count returned, and
    finally closes.  `download()`, `BufferedWriter` with any buffer size and a hand-written loop
    over `write` are instances (each for the offer sizes it happens to produce). -/
def nextOffer (offers : List Nat) (remLen : Nat) : Nat :=
  match offers with
  | k :: _ => max k 1
  | [] => remLen

def wsFeed {σ} (P : Peer σ) : Nat → Chan σ → WS → Bytes → List Nat → Chan σ × Except CErr WS
  | 0, c, w, _, _ => (c, .ok w)
  | fuel + 1, c, w, rem, offers =>
    if rem.isEmpty then (c, .ok w)
    else
      match wsWrite P c w (rem.take (nextOffer offers rem.length)) with
      | (c', .error e) => (c', .error e)
      | (c', .ok (w', n)) => wsFeed P fuel c' w' (rem.drop n) offers.tail

/-- `with open(..., "wb", size=…) as fp: <caller writes>` -/
def download {σ} (P : Peer σ) (c : Chan σ) (idx sub : Nat) (payload : Bytes) (sized force : Bool)
    (offers : List Nat) : Chan σ × Except CErr Unit :=
  match wsInit P c idx sub (if sized then some payload.length else none) force with
  | (c1, .error e) => (c1, .error e)
  | (c1, .ok w) =>
    match wsFeed P (2 * payload.length + offers.length + 2) c1 w payload offers with
    | (c2, .error e) => (c2, .error e)           -- (`__exit__` closes too; not modelled after an error)
    | (c2, .ok w') =>
      match wsClose P c2 w' with
      | (c3, .error e) => (c3, .error e)
      | (c3, .ok _) => (c3, .ok ())

/-! ### `with open(...) as fp:` — the stream is closed on every exit, also after an exception -/

/-- the stream state a raw write leaves behind when it raises: the segmented path has already
    flipped the toggle and possibly set `_done` when `request_response` fails -/
def wsAfterFail (w : WS) (b : Bytes) (e : CErr) : WS :=
  if e = .runtime ∨ e = .assertion then w
  else match w.expHeader with
    | some _ => { w with pending := [] }         -- what was collected went into the request that failed
    | none =>
      { w with toggle := w.toggle ^^^ TOGGLE_BIT, done := reachesSize w.size (w.pos + min b.length 7) }

/-- `wsFeed`, remembering the stream state at the moment of a failure -/
def wsFeedS {σ} (P : Peer σ) : Nat → Chan σ → WS → Bytes → List Nat → Chan σ × Except (CErr × WS) WS
  | 0, c, w, _, _ => (c, .ok w)
  | fuel + 1, c, w, rem, offers =>
    if rem.isEmpty then (c, .ok w)
    else
      match wsWrite P c w (rem.take (nextOffer offers rem.length)) with
      | (c', .error e) => (c', .error (e, wsAfterFail w (rem.take (nextOffer offers rem.length)) e))
      | (c', .ok (w', n)) => wsFeedS P fuel c' w' (rem.drop n) offers.tail

/-- `IOBase.__del__` calls `close()` when a stream object that was never closed is dropped;
    exceptions are swallowed.  This only happens to a stream whose `__init__` raised after the
    attributes were set (a stream that reached the `with` block is closed by `__exit__`, and a
    closed stream is not closed again). -/
def wsDelClose {σ} (P : Peer σ) (c : Chan σ) (w : WS) : Chan σ := (wsClose P c w).1

/-- `with client.open(idx, sub, "wb", buffering=0, size=…) as fp: <caller writes>`: whatever
    happens inside, `close()` runs on exit (an exception raised by it replaces the earlier one).
    A stream whose `__init__` raised (failed segmented initiate) is closed by `__del__`. -/
def downloadWith {σ} (P : Peer σ) (c : Chan σ) (idx sub : Nat) (payload : Bytes) (sized force : Bool)
    (offers : List Nat) : Chan σ × Except CErr Unit :=
  let size := if sized then some payload.length else none
  match wsInit P c idx sub size force with
  | (c1, .error e) =>
    (wsDelClose P c1 { size := size, pos := 0, toggle := 0, expHeader := none, done := false }, .error e)
  | (c1, .ok w) =>
    match wsFeedS P (2 * payload.length + offers.length + 2) c1 w payload offers with
    | (c2, .error (e, wf)) =>
      (match wsClose P c2 wf with
       | (c3, .error e2) => (c3, .error e2)
       | (c3, .ok _) => (c3, .error e))
    | (c2, .ok w') =>
      match wsClose P c2 w' with
      | (c3, .error e) => (c3, .error e)
      | (c3, .ok _) => (c3, .ok ())

/-! ### ReadableStream -/

structure RS where
  size : Option Nat
  expData : Option Bytes
  toggle : Nat
  pos : Nat
  done : Bool
deriving Repr

/-- what `ReadableStream.__init__` makes of the initiate response (or of the failure to get one) -/
def rsInitDecode (idx sub : Nat) (res : Except CErr Bytes) : Except CErr RS :=
  match res with
  | .error e => .error e
  | .ok r =>
    if r.length < 4 then .error .other                     -- struct.error
    else
      let cmd := r.headD 0
      let rIdx := r.getD 1 0 + 256 * r.getD 2 0
      let rSub := r.getD 3 0
      let resData := (r.drop 4).take 4
      if cmd &&& 0xE0 ≠ RESPONSE_UPLOAD then .error .comm
      else if rIdx ≠ idx ∨ rSub ≠ sub then .error .comm
      else if cmd &&& EXPEDITED ≠ 0 then
        if cmd &&& SIZE_SPECIFIED ≠ 0 then
          let sz := 4 - ((cmd >>> 2) &&& 3)
          .ok { size := some sz, expData := some (resData.take sz), toggle := 0,
                pos := (resData.take sz).length, done := false }
        else .ok { size := none, expData := some resData, toggle := 0, pos := resData.length, done := false }
      else if cmd &&& SIZE_SPECIFIED ≠ 0 then
        if resData.length ≠ 4 then .error .other             -- struct.error
        else .ok { size := some (leVal resData), expData := none, toggle := 0, pos := 0, done := false }
      else .ok { size := none, expData := none, toggle := 0, pos := 0, done := false }

/-- `ReadableStream.__init__` -/
def rsInit {σ} (P : Peer σ) (c : Chan σ) (idx sub : Nat) : Chan σ × Except CErr RS :=
  let x := requestResponse P c (REQUEST_UPLOAD :: (muxB idx sub ++ [0, 0, 0, 0]))
  (x.1, rsInitDecode idx sub x.2)

/-- what one raw `read()` makes of the segment response (or of the failure to get one) -/
def rsReadDecode (s : RS) (res : Except CErr Bytes) : Except CErr (RS × Bytes) :=
  match res with
  | .error e => .error e
  | .ok r =>
    let cmd := r.headD 0
    if cmd &&& 0xE0 ≠ RESPONSE_SEGMENT_UPLOAD then .error .comm
    else if cmd &&& TOGGLE_BIT ≠ s.toggle then .error .comm
    else
      let length := 7 - ((cmd >>> 1) &&& 7)
      .ok ({ s with done := s.done || (cmd &&& NO_MORE_DATA ≠ 0), toggle := s.toggle ^^^ TOGGLE_BIT,
                    pos := s.pos + length }, (r.drop 1).take length)

/-- one raw `read(n)` with `n ≥ 0`: at most one segment -/
def rsRead {σ} (P : Peer σ) (c : Chan σ) (s : RS) : Chan σ × Except CErr (RS × Bytes) :=
  if s.done then (c, .ok (s, []))
  else match s.expData with
    | some d => (c, .ok ({ s with done := true }, d))
    | none =>
      let x := requestResponse P c ((REQUEST_SEGMENT_UPLOAD ||| s.toggle) :: List.replicate 7 0)
      (x.1, rsReadDecode s x.2)

/-- `readall()`: raw reads until one returns no bytes -/
def rsReadAll {σ} (P : Peer σ) : Nat → Chan σ → RS → Bytes → Chan σ × Except CErr (RS × Bytes)
  | 0, c, s, acc => (c, .ok (s, acc))
  | fuel + 1, c, s, acc =>
    match rsRead P c s with
    | (c', .error e) => (c', .error e)
    | (c', .ok (s', d)) => if d.isEmpty then (c', .ok (s', acc)) else rsReadAll P fuel c' s' (acc ++ d)

/-- `SdoClient.upload`'s rule for cutting the result to the size the dictionary declares;
    `odType` is `none` when the dictionary has no such variable.  (Fixed-size numeric and
    boolean types — the rows of `STRUCT_TYPES` — are cut; strings, domains and types the
    library does not know are returned as received.) -/
def truncate (odType : Option (Option Nat)) (respSize : Option Nat) (data : Bytes) : Bytes :=
  match odType with
  | none => data
  | some t =>
    match t.bind Codec.findRow with
    | none => data
    | some _ =>
      let varSize := Codec.bitLen t / 8
      match respSize with
      | none => data.take varSize
      | some rs => if varSize < rs then data.take varSize else data

/-- `SdoClient.upload(index, subindex)` -/
def upload {σ} (P : Peer σ) (c : Chan σ) (idx sub : Nat) (odType : Option (Option Nat)) (fuel : Nat) :
    Chan σ × Except CErr Bytes :=
  match rsInit P c idx sub with
  | (c1, .error e) => (c1, .error e)
  | (c1, .ok s) =>
    let respSize := s.size
    match (match s.expData with
           | some d => (c1, (.ok ({ s with done := true }, d) : Except CErr (RS × Bytes)))
           | none => rsReadAll P fuel c1 s []) with
    | (c2, .error e) => (c2, .error e)
    | (c2, .ok (_, data)) => (c2, .ok (truncate odType respSize data))

end Canopen.Sdo
