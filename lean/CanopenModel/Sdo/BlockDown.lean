/-
C12 — model of `canopen.sdo.client.BlockDownloadStream` (and of the parts of `SdoClient` it uses:
`request_response`, `read_response`, `abort`, `send_request`) composed with the specification
server `Spec.BlockDown` over a lossy client→server direction.

Shape (DESIGN.md §4): the blocking client is a pure function threading the whole system state
`Sys` = client attributes + peer state + the client's response queue + the bus log.
* `sendReq` is `SdoClient.send_request` on the simulated bus: the frame gets the next global
  request number `n`; if `lost n` it never arrives, otherwise the server's answers are appended
  to the client's queue (synchronous delivery).
* `readResponse` is `SdoClient.read_response`: the queue's head; on an empty queue the *server's*
  time-out fires first (a server inside a sub-block acknowledges what it has), and only if the
  queue is still empty the client's time-out is the abstract "no response" event.
* The recursion `write → send → _block_ack → _retransmit → write` is written with an explicit
  continuation stack (`List Item`): `_retransmit`'s `for b in block: self.write(b)` pushes the
  blocks followed by the marker `endRetx` (= the assignment `self._retransmitting = False` after
  the loop).  `run` has explicit fuel; `Res.fuel` is a distinct outcome (never produced for the
  fuel the driver passes; see `CanopenProofs/C12.lean`).
* Exceptions: `Res.err` (SdoCommunicationError, SdoAbortedError, RuntimeError) — no finer than
  the property ("fails visibly").
* `write(b)` (repaired code): the bytes accepted so far that do not fill a segment are kept in
  `_pending` (`Cl.pend`); `write` takes `b[0:7-len(_pending)]`, sends `_pending + taken` when that
  reaches the declared size (last segment) or is 7 bytes long, keeps it otherwise, and always
  returns the number of bytes taken (`takenLen`).  `close()` sends a kept partial segment as the
  last one (size not known in advance) before the end request.
* The caller.  (i) `Item.feed rem offers` is any RawIOBase caller: raw `write` calls offering
  prefixes of the unsent remainder `rem` of the lengths `offers` (then, while something is left,
  the whole remainder) and advancing by the count returned — io.BufferedWriter (the correspondence
  replays the offers it made) as well as the hand loop `pos += fp.write(data[pos:])` (`offers =
  []`).  (ii) The hand loop makes `write` see exactly the 7-byte chunks of the payload
  (`chunks7`): `blockDownloadFrom` is written with these chunks as pending `write` calls, and
  `CanopenProofs/C12.lean` (`hand_loop_is_chunks`) proves it equal to the `feed` form.
  `close()` always runs when the `with` block is left, also after an exception.  Not modelled:
  a BufferedWriter that, after a raw `write` raised, offers its buffer once more when it is closed.
* C07 (disturbed responses): `Env.dist = some (at, kind)` alters the server's `at`-th response frame
  on its way into the client's queue (`Sdo/Disturb.lean`'s kinds: lost, replaced, bit 4 flipped,
  wrong command specifier, wrong multiplexer, duplicated, duplicated later, late, stale frame in
  between); frames held back (`pending`) arrive when the client sends its next frame or when time
  passes between two transfers (`between`).  `Env.srvTimeout = false` means the server's own
  time-out never fires before the client's.  With the defaults (`none`, `true`) every definition
  is literally the C12 one.  The exception class of the last `raise` travels in `Sys.raised`.
Not modelled: responses shorter than 8 bytes (`struct.error`), `pos` going negative in
`_retransmit` after the last short segment (the next statement raises; `pos` is never read again).
-/
import CanopenModel.Bytes
import CanopenModel.Crc
import CanopenModel.Spec.BlockServer
import CanopenModel.Generated.SdoBlock
import CanopenModel.Sdo.Disturb
namespace Canopen.Sdo.BlockDown
open Canopen Canopen.Crc Canopen.Gen.SdoBlock
open Canopen.Sdo (CErr Kind)
open Canopen.Spec (BlockDown.Srv)

/-- bus log entry: 0 = request delivered, 1 = request lost, 2 = response,
    5 = frame put into the client's queue (only logged when a disturbance is configured) -/
structure Ev where
  kind : Nat
  frame : Bytes
deriving DecidableEq, Repr

/-- attributes of `BlockDownloadStream` -/
structure Cl where
  size : Option Nat := none
  pos : Nat := 0
  done : Bool := false
  seqno : Nat := 0
  crc : Nat := 0
  lastBytesSent : Nat := 0
  currentBlock : List Bytes := []
  retransmitting : Bool := false
  blksize : Nat := 0
  crcSupported : Bool := false
  pend : Bytes := []          -- `_pending`: bytes accepted that do not fill a segment yet
deriving DecidableEq, Repr

structure Sys where
  cl : Cl
  srv : Spec.BlockDown.Srv
  queue : List Bytes := []
  nreq : Nat := 0
  log : List Ev := []        -- newest first
  nresp : Nat := 0           -- C07: response frames the server has emitted so far
  pending : List Bytes := [] -- C07: frames held back, delivered with the client's next frame
  raised : Option CErr := none   -- exception class of the last `raise`
deriving DecidableEq, Repr

/-- environment: the server's block-size stream and the set of lost request numbers;
    for C07 one disturbed response and whether the server's own time-out can fire -/
structure Env where
  blkOf : Nat → Nat
  lost : Nat → Bool
  dist : Option (Nat × Kind) := none
  srvTimeout : Bool := true

/-- what becomes of the frame hit by a disturbance: (delivered now, delivered later) -/
def distort (k : Kind) (f : Bytes) : List Bytes × List Bytes :=
  match k with
  | .lost => ([], [])
  | .replace g => ([g], [])
  | .flipToggle => ([flipToggleFrame f], [])
  | .setScs n => ([setScsFrame n f], [])
  | .bumpMux => ([bumpMuxFrame f], [])
  | .dup => ([f, f], [])
  | .dupDeferred => ([f], [f])
  | .late => ([], [f])
  | .staleBetween g => ([g, f], [])

/-- the responses `rs`, numbered from `n`, after the disturbance of response `at_` -/
def distFrames (at_ : Nat) (k : Kind) : Nat → List Bytes → List Bytes × List Bytes
  | _, [] => ([], [])
  | n, r :: rs =>
    ((if n = at_ then (distort k r).1 else [r]) ++ (distFrames at_ k (n + 1) rs).1,
     (if n = at_ then (distort k r).2 else []) ++ (distFrames at_ k (n + 1) rs).2)

/-- record an exception class -/
def fail (s : Sys) (e : CErr) : Sys := { s with raised := some e }

inductive Res | ok | err | fuel
deriving DecidableEq, Repr

/-- `SdoClient.send_request` on the simulated bus -/
def sendReq (E : Env) (s : Sys) (f : Bytes) : Sys :=
  if E.lost s.nreq then { s with nreq := s.nreq + 1, log := ⟨1, f⟩ :: s.log }
  else match E.dist with
    | none =>
      { s with nreq := s.nreq + 1, srv := (Spec.BlockDown.step E.blkOf s.srv f).1,
               queue := s.queue ++ (Spec.BlockDown.step E.blkOf s.srv f).2,
               log := ((Spec.BlockDown.step E.blkOf s.srv f).2.map (Ev.mk 2)).reverse ++ ⟨0, f⟩ :: s.log }
    | some d =>
      { s with nreq := s.nreq + 1, srv := (Spec.BlockDown.step E.blkOf s.srv f).1,
               nresp := s.nresp + (Spec.BlockDown.step E.blkOf s.srv f).2.length,
               queue := s.queue ++ s.pending ++ (distFrames d.1 d.2 s.nresp (Spec.BlockDown.step E.blkOf s.srv f).2).1,
               pending := (distFrames d.1 d.2 s.nresp (Spec.BlockDown.step E.blkOf s.srv f).2).2,
               log := ((s.pending ++ (distFrames d.1 d.2 s.nresp (Spec.BlockDown.step E.blkOf s.srv f).2).1).map
                        (Ev.mk 5)).reverse ++ ⟨0, f⟩ :: s.log }

/-- outcome of `read_response` -/
inductive RR | resp (f : Bytes) | timeout | aborted (code : Nat)
deriving DecidableEq, Repr

def classify (r : Bytes) : RR :=
  if r.getD 0 0 = RESPONSE_ABORTED then .aborted (leVal ((r.drop 4).take 4)) else .resp r

/-- `SdoClient.read_response` (the peer's own time-out fires before the client's) -/
def readResponse (E : Env) (s : Sys) : Sys × RR :=
  match s.queue with
  | r :: q => ({ s with queue := q }, classify r)
  | [] =>
    if E.srvTimeout then
      match (Spec.BlockDown.timeout E.blkOf s.srv).2 with
      | r :: q => ({ s with srv := (Spec.BlockDown.timeout E.blkOf s.srv).1, queue := q,
                            log := ((r :: q).map (Ev.mk 2)).reverse ++ s.log }, classify r)
      | [] => ({ s with srv := (Spec.BlockDown.timeout E.blkOf s.srv).1 }, .timeout)
    else (s, .timeout)

/-- the exception `read_response` raises for a non-response -/
def rrErr : RR → CErr
  | .aborted code => .aborted code
  | _ => .comm

/-- `SdoClient.abort(code)` -/
def abort (E : Env) (s : Sys) (code : Nat) : Sys :=
  sendReq E s ([REQUEST_ABORTED, 0, 0, 0] ++ leBytes 4 code)

/-- the retry loop of `request_response` (after the queue flush); `k` = retries left -/
def rrLoop (E : Env) : Nat → Sys → Bytes → Sys × RR
  | 0, s, _ => (s, .timeout)
  | k+1, s, req =>
    match readResponse E (sendReq E s req) with
    | (s1, .timeout) => if k = 0 then (fail (abort E s1 0x05040000) .comm, .timeout) else rrLoop E k s1 req
    | (s1, .aborted code) => (fail s1 (.aborted code), .aborted code)
    | r => r

/-- `SdoClient.request_response` -/
def requestResponse (E : Env) (s : Sys) (req : Bytes) : Sys × RR :=
  rrLoop E MAX_RETRIES { s with queue := [] } req

/-- `BlockDownloadStream.__init__`; `false` = an exception left the constructor -/
def init (E : Env) (s : Sys) (idx sub : Nat) (size : Option Nat) (crcReq : Bool) : Sys × Bool :=
  let command := REQUEST_BLOCK_DOWNLOAD ||| INITIATE_BLOCK_TRANSFER ||| (if crcReq then CRC_SUPPORTED else 0)
    ||| (if size.isSome then BLOCK_SIZE_SPECIFIED else 0)
  let req := [command, idx % 256, idx / 256, sub] ++ leBytes 4 (size.getD 0)
  match requestResponse E { s with cl := { size := size } } req with
  | (s1, .resp r) =>
    if r.getD 0 0 &&& 0xE0 ≠ RESPONSE_BLOCK_DOWNLOAD then (fail (abort E s1 0x05040001) .comm, false)
    else if r.getD 1 0 + 256 * r.getD 2 0 ≠ idx ∨ r.getD 3 0 ≠ sub then (fail (abort E s1 0x08000000) .comm, false)
    else ({ s1 with cl := { s1.cl with blksize := r.getD 4 0,
                                        crcSupported := decide (r.getD 0 0 &&& CRC_SUPPORTED ≠ 0) } }, true)
  | (s1, _) => (s1, false)

/-- continuation stack entries -/
inductive Item
  | write (b : Bytes) (retx : Bool)   -- a pending `self.write(b)`; `retx` = called from `_retransmit`
                                      -- (a label for the proofs: `write` no longer tells the two apart)
  | endRetx                           -- `self._retransmitting = False` after the loop of `_retransmit`
  | feed (rem : Bytes) (offers : List Nat)   -- the caller: `rem` still to be written, sizes of the next offers
deriving DecidableEq, Repr

/-- what one `write` call did: raised, or returned after pushing further work -/
inductive WRes | err | cont (items : List Item)
deriving DecidableEq, Repr

/-- `_block_ack` after the response has been read -/
def ackResponse (E : Env) (s : Sys) (r : Bytes) : Sys × WRes :=
  if r.getD 0 0 &&& 0xE0 ≠ RESPONSE_BLOCK_DOWNLOAD then (fail (abort E s 0x05040001) .comm, .err)
  else if r.getD 0 0 &&& 0x3 ≠ BLOCK_TRANSFER_RESPONSE then (fail (abort E s 0x05040001) .comm, .err)
  else if r.getD 1 0 ≠ s.cl.blksize then
    -- `_retransmit(ackseq, blksize)`
    ({ s with cl := { s.cl with pos := s.cl.pos - (s.cl.currentBlock.drop (r.getD 1 0)).length * 7,
                                currentBlock := [], seqno := 0, blksize := r.getD 2 0,
                                retransmitting := true } },
     .cont (((s.cl.currentBlock.drop (r.getD 1 0)).map fun b => Item.write b true) ++ [Item.endRetx]))
  else ({ s with cl := { s.cl with currentBlock := [], blksize := r.getD 2 0, seqno := 0 } }, .cont [])

/-- `_block_ack`: a time-out while waiting for the acknowledge sends the abort frame 0x05040000
    before the exception goes on (repaired code) -/
def blockAck (E : Env) (s : Sys) : Sys × WRes :=
  match readResponse E s with
  | (s1, .resp r) => ackResponse E s1 r
  | (s1, .timeout) => (fail (abort E s1 0x05040000) .comm, .err)
  | (s1, .aborted code) => (fail s1 (.aborted code), .err)

/-- the client attributes after `send(b, end)` has emitted its frame -/
def afterSend (c : Cl) (b : Bytes) (last : Bool) : Cl :=
  { c with seqno := c.seqno + 1,
           done := c.done || last,
           blksize := if last then c.seqno + 1 else c.blksize,
           lastBytesSent := if last then b.length else c.lastBytesSent,
           pos := c.pos + b.length,
           currentBlock := c.currentBlock ++ [b],
           crc := if c.crcSupported && !c.retransmitting then crcHqx b c.crc else c.crc }

def segFrame (seqno : Nat) (last : Bool) (b : Bytes) : Bytes :=
  (if last then seqno ||| NO_MORE_BLOCKS else seqno) :: padTo 7 b

/-- `send(b, end)` -/
def send (E : Env) (s : Sys) (b : Bytes) (last : Bool) : Sys × WRes :=
  let s1 := sendReq E s (segFrame (s.cl.seqno + 1) last b)
  let s2 := { s1 with cl := afterSend s1.cl b last }
  if s2.cl.seqno ≥ s2.cl.blksize then blockAck E s2 else (s2, .cont [])

/-- number of bytes `write(b)` takes (its return value) -/
def takenLen (s : Sys) (b : Bytes) : Nat := (b.take (7 - s.cl.pend.length)).length

/-- `write(b)`; `retx` says who called (no difference any more) -/
def writeStep (E : Env) (s : Sys) (b : Bytes) (_retx : Bool) : Sys × WRes :=
  if s.cl.done then (fail s .runtime, .err)
  else
    let data := s.cl.pend ++ b.take (7 - s.cl.pend.length)
    if s.cl.size.isSome ∧ s.cl.pos + data.length ≥ s.cl.size.getD 0 then
      send E { s with cl := { s.cl with pend := [] } } data true
    else if data.length < 7 then ({ s with cl := { s.cl with pend := data } }, .cont [])
    else send E { s with cl := { s.cl with pend := [] } } data false

/-- the write phase: all pending `write` calls, innermost first; at the bottom the caller -/
def run (E : Env) : Nat → Sys → List Item → Sys × Res
  | 0, s, _ => (s, .fuel)
  | _+1, s, [] => (s, .ok)
  | f+1, s, .endRetx :: t => run E f { s with cl := { s.cl with retransmitting := false } } t
  | f+1, s, .write b retx :: t =>
    match writeStep E s b retx with
    | (s1, .err) => (s1, .err)
    | (s1, .cont items) => run E f s1 (items ++ t)
  | f+1, s, .feed rem offers :: t =>
    if rem.isEmpty then run E f s t
    else
      let b := rem.take (match offers with | [] => rem.length | o :: _ => max o 1)
      match writeStep E s b false with
      | (s1, .err) => (s1, .err)
      | (s1, .cont items) => run E f s1 (items ++ .feed (rem.drop (takenLen s b)) offers.tail :: t)

/-- the end request of `close()` -/
def closeEnd (E : Env) (s : Sys) : Sys × Res :=
  let command := REQUEST_BLOCK_DOWNLOAD ||| END_BLOCK_TRANSFER ||| ((7 - s.cl.lastBytesSent) <<< 2)
  let req := command :: (if s.cl.crcSupported then leBytes 2 s.cl.crc else [0, 0]) ++ [0, 0, 0, 0, 0]
  match requestResponse E s req with
  | (s1, .resp r) =>
    if r.getD 0 0 &&& END_BLOCK_TRANSFER = 0 then (fail s1 .comm, .err) else (s1, .ok)
  | (s1, _) => (s1, .err)

/-- `close()`: a partial segment still kept (the size was not known in advance) goes out as the
    last one — an exception there leaves `close()` before the end request —, then the end request -/
def close (E : Env) (s : Sys) : Sys × Res :=
  if s.cl.done = false ∧ s.cl.pend ≠ [] then
    match send E { s with cl := { s.cl with pend := [] } } s.cl.pend true with
    | (s1, .err) => (s1, .err)
    | (s1, .cont items) =>
      match run E (items.length + 1) s1 items with
      | (s2, .ok) => closeEnd E s2
      | (s2, r) => (s2, r)
  else closeEnd E s

/-- the 7-byte chunks a conforming caller makes `write` see -/
def chunks7 : Nat → Bytes → List Bytes
  | 0, _ => []
  | f+1, bs => if bs.isEmpty then [] else bs.take 7 :: chunks7 f (bs.drop 7)

def chunks (bs : Bytes) : List Bytes := chunks7 bs.length bs

def sys0 (crcCapable : Bool) : Sys := { cl := {}, srv := { crcCapable := crcCapable } }

/-- `with client.open(idx, sub, "wb", size=size, block_transfer=True, request_crc_support=crcReq)
    as fp: <caller writes payload>`, on a client/server pair in state `s0`.  When the write phase
    raised, `close()` still runs on leaving the `with` block and its own exception (if any)
    replaces the first one. -/
def blockDownloadFrom (E : Env) (fuel : Nat) (s0 : Sys) (idx sub : Nat) (payload : Bytes)
    (size : Option Nat) (crcReq : Bool) : Sys × Res :=
  match init E s0 idx sub size crcReq with
  | (s, false) => (s, .err)
  | (s, true) =>
    match run E fuel s ((chunks payload).map fun b => Item.write b false) with
    | (s1, .ok) => close E s1
    | (s1, r) => ((close E s1).1, r)

def blockDownload (E : Env) (fuel : Nat) (crcCapable : Bool) (idx sub : Nat) (payload : Bytes)
    (size : Option Nat) (crcReq : Bool) : Sys × Res :=
  blockDownloadFrom E fuel (sys0 crcCapable) idx sub payload size crcReq

/-- the same `with` block for any RawIOBase caller: raw `write` calls with the given offers -/
def blockDownloadOffersFrom (E : Env) (fuel : Nat) (s0 : Sys) (idx sub : Nat) (payload : Bytes)
    (size : Option Nat) (crcReq : Bool) (offers : List Nat) : Sys × Res :=
  match init E s0 idx sub size crcReq with
  | (s, false) => (s, .err)
  | (s, true) =>
    match run E fuel s [Item.feed payload offers] with
    | (s1, .ok) => close E s1
    | (s1, r) => ((close E s1).1, r)

def blockDownloadOffers (E : Env) (fuel : Nat) (crcCapable : Bool) (idx sub : Nat) (payload : Bytes)
    (size : Option Nat) (crcReq : Bool) (offers : List Nat) : Sys × Res :=
  blockDownloadOffersFrom E fuel (sys0 crcCapable) idx sub payload size crcReq offers

/-- C07: time passes between two transfers — what was held back arrives, and a transfer the
    server still has open runs into the server's own time-out (abort 0x05040000 to the client) -/
def between (s : Sys) : Sys :=
  { s with
    queue := s.queue ++ s.pending ++
      (if s.srv.phase = .idle then [] else [Spec.abortFrame s.srv.idx s.srv.sub 0x05040000]),
    pending := [],
    srv := { s.srv with phase := .idle },
    log := ((s.pending ++ (if s.srv.phase = .idle then [] else [Spec.abortFrame s.srv.idx s.srv.sub 0x05040000])).map
              (Ev.mk 5)).reverse ++ s.log }

/-- fuel that always suffices for `nLost` lost frames (see `CanopenProofs/C12.lean`) -/
def fuelFor (payload : Bytes) (nLost : Nat) : Nat := 2 * (payload.length / 7 + 2) + 260 * (nLost + 1)

/-- fuel the C12 driver passes to the `feed` form: every raw `write` call takes one step more -/
def driverFuel (payload : Bytes) (nLost : Nat) (offers : List Nat) : Nat :=
  fuelFor payload nLost + payload.length + offers.length + 2

end Canopen.Sdo.BlockDown
