/-
C12 — model of `canopen.sdo.client.BlockDownloadStream` (and of the parts of `SdoClient` it uses:
`request_response`, `read_response`, `abort`, `send_request`) composed with the specification
server `Spec.BlockDown` over a lossy client→server direction.

Shape (DESIGN.md §4): the blocking client is a pure function threading the whole system state
`Sys` = client attributes + peer state + the client's response queue + the bus log.
* `sendReq` is `SdoClient.send_request` on the simulated bus: the frame gets the next global
  request number `n`; if `lost n` it never arrives, otherwise the server's answers are appended
  to the client's queue (synchronous delivery).
* `readResponse` is `SdoClient.read_response`: the queue's head; on an empty queue the *server's*
  time-out fires first (a server inside a sub-block acknowledges what it has), and only if the
  queue is still empty the client's time-out is the abstract "no response" event.
* The recursion `write → send → _block_ack → _retransmit → write` is written with an explicit
  continuation stack (`List Item`): `_retransmit`'s `for b in block: self.write(b)` pushes the
  blocks followed by the marker `endRetx` (= the assignment `self._retransmitting = False` after
  the loop).  `run` has explicit fuel; `Res.fuel` is a distinct outcome (never produced for the
  fuel the driver passes; see `CanopenProofs/C12.lean`).
* Exceptions: `Res.err` (SdoCommunicationError, SdoAbortedError, RuntimeError, the caller's
  failure on a `None` return) — no finer than the property ("fails visibly").
* The caller: a RawIOBase caller that offers the unsent remainder and advances by the returned
  count makes `write` see exactly the 7-byte chunks of the payload (`chunks7`), because `write`
  looks at `b[0:7]` only and returns `len(b[0:7])` or `None`.  `close()` always runs when the
  `with` block is left, also after an exception.
Not modelled: responses shorter than 8 bytes (`struct.error`), `pos` going negative in
`_retransmit` after the last short segment (the next statement raises; `pos` is never read again).
-/
import CanopenModel.Bytes
import CanopenModel.Crc
import CanopenModel.Spec.BlockServer
import CanopenModel.Generated.SdoBlock
namespace Canopen.Sdo.BlockDown
open Canopen Canopen.Crc Canopen.Gen.SdoBlock
open Canopen.Spec (BlockDown.Srv)

/-- bus log entry: 0 = request delivered, 1 = request lost, 2 = response -/
structure Ev where
  kind : Nat
  frame : Bytes
deriving DecidableEq, Repr

/-- attributes of `BlockDownloadStream` -/
structure Cl where
  size : Option Nat := none
  pos : Nat := 0
  done : Bool := false
  seqno : Nat := 0
  crc : Nat := 0
  lastBytesSent : Nat := 0
  currentBlock : List Bytes := []
  retransmitting : Bool := false
  blksize : Nat := 0
  crcSupported : Bool := false
deriving DecidableEq, Repr

structure Sys where
  cl : Cl
  srv : Spec.BlockDown.Srv
  queue : List Bytes := []
  nreq : Nat := 0
  log : List Ev := []        -- newest first
deriving DecidableEq, Repr

/-- environment: the server's block-size stream and the set of lost request numbers -/
structure Env where
  blkOf : Nat → Nat
  lost : Nat → Bool

inductive Res | ok | err | fuel
deriving DecidableEq, Repr

/-- `SdoClient.send_request` on the simulated bus -/
def sendReq (E : Env) (s : Sys) (f : Bytes) : Sys :=
  if E.lost s.nreq then { s with nreq := s.nreq + 1, log := ⟨1, f⟩ :: s.log }
  else
    { s with nreq := s.nreq + 1, srv := (Spec.BlockDown.step E.blkOf s.srv f).1,
             queue := s.queue ++ (Spec.BlockDown.step E.blkOf s.srv f).2,
             log := ((Spec.BlockDown.step E.blkOf s.srv f).2.map (Ev.mk 2)).reverse ++ ⟨0, f⟩ :: s.log }

/-- outcome of `read_response` -/
inductive RR | resp (f : Bytes) | timeout | aborted
deriving DecidableEq, Repr

def classify (r : Bytes) : RR := if r.getD 0 0 = RESPONSE_ABORTED then .aborted else .resp r

/-- `SdoClient.read_response` (the peer's own time-out fires before the client's) -/
def readResponse (E : Env) (s : Sys) : Sys × RR :=
  match s.queue with
  | r :: q => ({ s with queue := q }, classify r)
  | [] =>
    match (Spec.BlockDown.timeout E.blkOf s.srv).2 with
    | r :: q => ({ s with srv := (Spec.BlockDown.timeout E.blkOf s.srv).1, queue := q,
                          log := ((r :: q).map (Ev.mk 2)).reverse ++ s.log }, classify r)
    | [] => ({ s with srv := (Spec.BlockDown.timeout E.blkOf s.srv).1 }, .timeout)

/-- `SdoClient.abort(code)` -/
def abort (E : Env) (s : Sys) (code : Nat) : Sys :=
  sendReq E s ([REQUEST_ABORTED, 0, 0, 0] ++ leBytes 4 code)

/-- the retry loop of `request_response` (after the queue flush); `k` = retries left -/
def rrLoop (E : Env) : Nat → Sys → Bytes → Sys × RR
  | 0, s, _ => (s, .timeout)
  | k+1, s, req =>
    match readResponse E (sendReq E s req) with
    | (s1, .timeout) => if k = 0 then (abort E s1 0x05040000, .timeout) else rrLoop E k s1 req
    | r => r

/-- `SdoClient.request_response` -/
def requestResponse (E : Env) (s : Sys) (req : Bytes) : Sys × RR :=
  rrLoop E MAX_RETRIES { s with queue := [] } req

/-- `BlockDownloadStream.__init__`; `false` = an exception left the constructor -/
def init (E : Env) (s : Sys) (idx sub : Nat) (size : Option Nat) (crcReq : Bool) : Sys × Bool :=
  let command := REQUEST_BLOCK_DOWNLOAD ||| INITIATE_BLOCK_TRANSFER ||| (if crcReq then CRC_SUPPORTED else 0)
    ||| (if size.isSome then BLOCK_SIZE_SPECIFIED else 0)
  let req := [command, idx % 256, idx / 256, sub] ++ leBytes 4 (size.getD 0)
  match requestResponse E { s with cl := { size := size } } req with
  | (s1, .resp r) =>
    if r.getD 0 0 &&& 0xE0 ≠ RESPONSE_BLOCK_DOWNLOAD then (abort E s1 0x05040001, false)
    else if r.getD 1 0 + 256 * r.getD 2 0 ≠ idx ∨ r.getD 3 0 ≠ sub then (abort E s1 0x08000000, false)
    else ({ s1 with cl := { s1.cl with blksize := r.getD 4 0,
                                        crcSupported := decide (r.getD 0 0 &&& CRC_SUPPORTED ≠ 0) } }, true)
  | (s1, _) => (s1, false)

/-- continuation stack entries -/
inductive Item
  | write (b : Bytes) (retx : Bool)   -- a pending `self.write(b)`; `retx` = called from `_retransmit`
  | endRetx                           -- `self._retransmitting = False` after the loop of `_retransmit`
deriving DecidableEq, Repr

/-- what one `write` call did: raised, or returned after pushing further work -/
inductive WRes | err | cont (items : List Item)
deriving DecidableEq, Repr

/-- `_block_ack` after the response has been read -/
def ackResponse (E : Env) (s : Sys) (r : Bytes) : Sys × WRes :=
  if r.getD 0 0 &&& 0xE0 ≠ RESPONSE_BLOCK_DOWNLOAD then (abort E s 0x05040001, .err)
  else if r.getD 0 0 &&& 0x3 ≠ BLOCK_TRANSFER_RESPONSE then (abort E s 0x05040001, .err)
  else if r.getD 1 0 ≠ s.cl.blksize then
    -- `_retransmit(ackseq, blksize)`
    ({ s with cl := { s.cl with pos := s.cl.pos - (s.cl.currentBlock.drop (r.getD 1 0)).length * 7,
                                currentBlock := [], seqno := 0, blksize := r.getD 2 0,
                                retransmitting := true } },
     .cont (((s.cl.currentBlock.drop (r.getD 1 0)).map fun b => Item.write b true) ++ [Item.endRetx]))
  else ({ s with cl := { s.cl with currentBlock := [], blksize := r.getD 2 0, seqno := 0 } }, .cont [])

/-- `_block_ack` -/
def blockAck (E : Env) (s : Sys) : Sys × WRes :=
  match readResponse E s with
  | (s1, .resp r) => ackResponse E s1 r
  | (s1, _) => (s1, .err)

/-- the client attributes after `send(b, end)` has emitted its frame -/
def afterSend (c : Cl) (b : Bytes) (last : Bool) : Cl :=
  { c with seqno := c.seqno + 1,
           done := c.done || last,
           blksize := if last then c.seqno + 1 else c.blksize,
           lastBytesSent := if last then b.length else c.lastBytesSent,
           pos := c.pos + b.length,
           currentBlock := c.currentBlock ++ [b],
           crc := if c.crcSupported && !c.retransmitting then crcHqx b c.crc else c.crc }

def segFrame (seqno : Nat) (last : Bool) (b : Bytes) : Bytes :=
  (if last then seqno ||| NO_MORE_BLOCKS else seqno) :: padTo 7 b

/-- `send(b, end)` -/
def send (E : Env) (s : Sys) (b : Bytes) (last : Bool) : Sys × WRes :=
  let s1 := sendReq E s (segFrame (s.cl.seqno + 1) last b)
  let s2 := { s1 with cl := afterSend s1.cl b last }
  if s2.cl.seqno ≥ s2.cl.blksize then blockAck E s2 else (s2, .cont [])

/-- `write(b)`; `retx` says who called (only the treatment of a `None` return differs) -/
def writeStep (E : Env) (s : Sys) (b : Bytes) (retx : Bool) : Sys × WRes :=
  if s.cl.done then (s, .err)
  else
    let data := b.take 7
    if s.cl.size.isSome ∧ s.cl.pos + data.length ≥ s.cl.size.getD 0 then send E s data true
    else if data.length < 7 then (s, if retx then .cont [] else .err)
    else send E s data false

/-- the write phase: all pending `write` calls, innermost first -/
def run (E : Env) : Nat → Sys → List Item → Sys × Res
  | 0, s, _ => (s, .fuel)
  | _+1, s, [] => (s, .ok)
  | f+1, s, .endRetx :: t => run E f { s with cl := { s.cl with retransmitting := false } } t
  | f+1, s, .write b retx :: t =>
    match writeStep E s b retx with
    | (s1, .err) => (s1, .err)
    | (s1, .cont items) => run E f s1 (items ++ t)

/-- `close()` -/
def close (E : Env) (s : Sys) : Sys × Res :=
  let command := REQUEST_BLOCK_DOWNLOAD ||| END_BLOCK_TRANSFER ||| ((7 - s.cl.lastBytesSent) <<< 2)
  let req := command :: (if s.cl.crcSupported then leBytes 2 s.cl.crc else [0, 0]) ++ [0, 0, 0, 0, 0]
  match requestResponse E s req with
  | (s1, .resp r) => (s1, if r.getD 0 0 &&& END_BLOCK_TRANSFER = 0 then .err else .ok)
  | (s1, _) => (s1, .err)

/-- the 7-byte chunks a conforming caller makes `write` see -/
def chunks7 : Nat → Bytes → List Bytes
  | 0, _ => []
  | f+1, bs => if bs.isEmpty then [] else bs.take 7 :: chunks7 f (bs.drop 7)

def chunks (bs : Bytes) : List Bytes := chunks7 bs.length bs

def sys0 (crcCapable : Bool) : Sys := { cl := {}, srv := { crcCapable := crcCapable } }

/-- `with client.open(idx, sub, "wb", size=size, block_transfer=True, request_crc_support=crcReq)
    as fp: <caller writes payload>` -/
def blockDownload (E : Env) (fuel : Nat) (crcCapable : Bool) (idx sub : Nat) (payload : Bytes)
    (size : Option Nat) (crcReq : Bool) : Sys × Res :=
  match init E (sys0 crcCapable) idx sub size crcReq with
  | (s, false) => (s, .err)
  | (s, true) =>
    match run E fuel s ((chunks payload).map fun b => Item.write b false) with
    | (s1, .ok) => close E s1
    | (s1, r) => ((close E s1).1, r)

/-- fuel that always suffices for `nLost` lost frames (see `CanopenProofs/C12.lean`) -/
def fuelFor (payload : Bytes) (nLost : Nat) : Nat := 2 * (payload.length / 7 + 2) + 260 * (nLost + 1)

end Canopen.Sdo.BlockDown
