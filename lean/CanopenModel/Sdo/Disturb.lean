/-
Disturbances of an SDO exchange (C07), as wrappers around a peer: the requests reach the peer
unchanged, the *responses* the client finds in its queue are altered at one chosen request
index.  A frame withheld or duplicated "for later" is delivered together with (ahead of) the
responses to the next request the client sends — that is how a late or duplicated frame shows up
in the client's queue.
-/
import CanopenModel.Sdo.Client

namespace Canopen.Sdo
open Canopen

inductive Kind where
  | lost                         -- the response never arrives
  | replace (frame : Bytes)      -- something else arrives instead (an abort frame, junk, …)
  | flipToggle                   -- bit 4 of the command byte inverted
  | setScs (scs : Nat)           -- command specifier (top three bits) replaced
  | bumpMux                      -- index low byte of the response + 1
  | dup                          -- the response arrives twice, back to back
  | dupDeferred                  -- the copy arrives after the next request was sent
  | late                         -- the response arrives only after the client gave up
  | staleBetween (frame : Bytes) -- an old frame slips in between request and response
deriving Repr

structure DState where
  idx : Nat
  pending : List Bytes
deriving Repr

def alterFirst (f : Bytes → Bytes) : List Bytes → List Bytes
  | [] => []
  | r :: rs => f r :: rs

def flipToggleFrame : Bytes → Bytes
  | [] => []
  | c :: r => (c ^^^ 0x10) :: r

def setScsFrame (scs : Nat) : Bytes → Bytes
  | [] => []
  | c :: r => ((c &&& 0x1F) ||| (scs <<< 5)) :: r

def bumpMuxFrame : Bytes → Bytes
  | c :: i :: r => c :: ((i + 1) % 256) :: r
  | r => r

/-- disturb request number `at` (counting every frame the client sends, from 0) -/
def distPeer {σ} (P : Peer σ) (at_ : Nat) (kind : Kind) : Peer (σ × DState) :=
  fun (p, d) req =>
    let (p', rs) := P p req
    let pre := d.pending
    if d.idx = at_ then
      match kind with
      | .lost => ((p', { idx := d.idx + 1, pending := [] }), pre)
      | .replace f => ((p', { idx := d.idx + 1, pending := [] }), pre ++ [f])
      | .flipToggle => ((p', { idx := d.idx + 1, pending := [] }), pre ++ alterFirst flipToggleFrame rs)
      | .setScs scs => ((p', { idx := d.idx + 1, pending := [] }), pre ++ alterFirst (setScsFrame scs) rs)
      | .bumpMux => ((p', { idx := d.idx + 1, pending := [] }), pre ++ alterFirst bumpMuxFrame rs)
      | .dup => ((p', { idx := d.idx + 1, pending := [] }), pre ++ rs ++ rs)
      | .dupDeferred => ((p', { idx := d.idx + 1, pending := rs }), pre ++ rs)
      | .late => ((p', { idx := d.idx + 1, pending := rs }), pre)
      | .staleBetween f => ((p', { idx := d.idx + 1, pending := [] }), pre ++ [f] ++ rs)
    else ((p', { idx := d.idx + 1, pending := [] }), pre ++ rs)

/-- a schedule of simple disturbances, one decision per request index (any number of them) -/
inductive SKind where
  | pass
  | lost
  | dup
  | abort (code : Nat)
deriving Repr

def schedPeer {σ} (P : Peer σ) (sched : Nat → SKind) : Peer (σ × Nat) :=
  fun (p, i) req =>
    let (p', rs) := P p req
    ((p', i + 1),
      match sched i with
      | .pass => rs
      | .lost => []
      | .dup => rs ++ rs
      | .abort code => [[0x80, 0, 0, 0] ++ leBytes 4 code])

end Canopen.Sdo
