/-
Model of the SDO server side: `SdoServer.on_request` and everything it calls
(canopen/sdo/server.py), and `LocalNode.get_data / set_data / _find_object`
(canopen/node/local.py), including the exception plumbing:

  SdoAbortedError(c)          → abort frame with code c
  KeyError                    → abort frame 0x06020000
  any other exception         → abort frame 0x08000000 ("generic": struct.error on a short frame,
                                 TypeError / AttributeError when `_buffer is None`, a failing
                                 `encode_raw`, …)
  exception outside the `try` → raised into the receive path (only the zero-length frame)

State mutation order follows the code (for example `_index/_subindex` are assigned before
`get_data` can abort, the download buffer is extended before the final `set_data` can abort).
Index 0x1017 (heartbeat time, handled by `NmtSlave.on_write`) is outside this model.
-/
import CanopenModel.Codec
import CanopenModel.Generated.SdoConst

namespace Canopen.Sdo
open Canopen Canopen.Codec Canopen.Gen.SdoConst Canopen.Gen.Datatypes

/-! ### object dictionary and node -/

/-- access_type as a small code: 0 = "rw", 1 = "ro", 2 = "wo", 3 = "const", 4 = "rwr", 5 = "rww" -/
def accReadable (a : Nat) : Bool := a != 2      -- `"r" in access or access == "const"`
def accWritable (a : Nat) : Bool := a == 0 || a == 2 || a == 4 || a == 5   -- `"w" in access`

structure VarDesc where
  dtype : Option Nat
  access : Nat
  value : Option Val        -- ParameterValue (DCF)
  default : Option Val      -- DefaultValue (EDS)
deriving Repr

inductive Obj where
  | var (v : VarDesc)
  | record (ms : List (Nat × VarDesc))
  | array (ms : List (Nat × VarDesc))
deriving Repr

structure Node where
  od : List (Nat × Obj)
  store : List ((Nat × Nat) × Bytes)        -- `data_store`, latest binding first
  readCb : List ((Nat × Nat) × Val)         -- the application's read callback as a table
  writeLog : List (Nat × Nat × Bytes)       -- what the write callbacks were told, in order
  /-- an application write callback (registered ahead of the others) that refuses downloads to
      these objects by raising `SdoAbortedError(code)` -/
  refuse : List ((Nat × Nat) × Nat) := []
deriving Repr

inductive Err where
  | abort (code : Nat)
  | generic
deriving Repr, DecidableEq

def lookup {α β} [DecidableEq α] (k : α) : List (α × β) → Option β
  | [] => none
  | (k', v) :: r => if k' = k then some v else lookup k r

/-- `ODArray.__getitem__` / `__contains__`: defined members, else any sub-index 1..255 takes the
    attributes of member 1 (value is *not* copied, default is) -/
def arrayMember (ms : List (Nat × VarDesc)) (sub : Nat) : Option VarDesc :=
  match lookup sub ms with
  | some v => some v
  | none =>
    if 0 < sub ∧ sub < 256 then
      match lookup 1 ms with
      | some t => some { t with value := none }
      | none => none
    else none

/-- `LocalNode._find_object` -/
def findObject (n : Node) (index sub : Option Nat) : Except Err VarDesc :=
  match index with
  | none => .error (.abort 0x06020000)
  | some idx =>
    match lookup idx n.od with
    | none => .error (.abort 0x06020000)
    | some (.var v) => .ok v
    | some (.record ms) =>
      (match sub.bind (fun s => lookup s ms) with
       | some v => .ok v
       | none => .error (.abort 0x06090011))
    | some (.array ms) =>
      (match sub.bind (arrayMember ms) with
       | some v => .ok v
       | none => .error (.abort 0x06090011))

def encodeOrGeneric (t : Option Nat) (v : Val) : Except Err Bytes :=
  match encodeRaw t v with
  | some bs => .ok bs
  | none => .error .generic

/-- `LocalNode.get_data`: read callback → store → ParameterValue → DefaultValue → 0x060A0023 -/
def getData (n : Node) (idx sub : Nat) (checkReadable : Bool) : Except Err Bytes :=
  match findObject n (some idx) (some sub) with
  | .error e => .error e
  | .ok obj =>
    if checkReadable && !accReadable obj.access then .error (.abort 0x06010001)
    else match lookup (idx, sub) n.readCb with
      | some v => encodeOrGeneric obj.dtype v
      | none =>
        match lookup (idx, sub) n.store with
        | some bs => .ok bs
        | none =>
          match obj.value with
          | some v => encodeOrGeneric obj.dtype v
          | none =>
            match obj.default with
            | some v => encodeOrGeneric obj.dtype v
            | none => .error (.abort 0x060A0023)

def isNumberType (t : Option Nat) : Bool :=
  match t with
  | some t => NUMBER_TYPES.contains t
  | none => false

/-- `LocalNode.set_data` -/
def setData (n : Node) (index sub : Option Nat) (data : Bytes) (checkWritable : Bool) :
    Except Err Node :=
  match findObject n index sub with
  | .error e => .error e
  | .ok obj =>
    if checkWritable && !accWritable obj.access then .error (.abort 0x06010002)
    else if isNumberType obj.dtype && !(8 * data.length == bitLen obj.dtype) then
      .error (.abort 0x06070010)
    else
      let i := index.getD 0
      let s := sub.getD 0
      match lookup (i, s) n.refuse with
      | some code => .error (.abort code)      -- the callback raised: nothing is stored
      | none => .ok { n with writeLog := n.writeLog ++ [(i, s, data)], store := ((i, s), data) :: n.store }

/-! ### server -/

structure Srv where
  buffer : Option Bytes
  toggle : Nat               -- 0 or TOGGLE_BIT
  index : Option Nat
  sub : Option Nat
  lastErr : Nat
deriving Repr

def srvInit : Srv := { buffer := none, toggle := 0, index := none, sub := none, lastErr := 0 }

/-- outcome of one `on_request` call -/
structure Out where
  srv : Srv
  node : Node
  sent : List Bytes          -- frames handed to `send_response`
  raised : Bool              -- an exception escaped `on_request`

/-- `abort(code)`: `[0x80, index lo, index hi, subindex, code LE]`, a missing multiplexer packs as 0 -/
def abortFrame (s : Srv) (code : Nat) : Bytes :=
  RESPONSE_ABORTED :: (leBytes 2 (s.index.getD 0) ++ [s.sub.getD 0 % 256] ++ leBytes 4 code)

def errCode : Err → Nat
  | .abort c => c
  | .generic => 0x08000000

/-- result of a handler: new state, frames sent before any exception, optional exception -/
structure HRes where
  srv : Srv
  node : Node
  sent : List Bytes
  err : Option Err

def muxBytes (idx sub : Nat) : Bytes := leBytes 2 idx ++ [sub % 256]

/-- command byte of an expedited upload response carrying `size` bytes -/
def expUpCmd (size : Nat) : Nat :=
  RESPONSE_UPLOAD ||| SIZE_SPECIFIED ||| EXPEDITED ||| ((4 - size) <<< 2)

/-- command byte of an upload segment response -/
def segUpCmd (toggle len : Nat) (last : Bool) : Nat :=
  RESPONSE_SEGMENT_UPLOAD ||| toggle ||| ((7 - len) <<< 1) ||| (if last then NO_MORE_DATA else 0)

def initUpload (s : Srv) (n : Node) (req : Bytes) : HRes :=
  match req with
  | _ :: b1 :: b2 :: b3 :: _ =>
    let idx := b1 + 256 * b2
    let s1 := { s with index := some idx, sub := some b3 }
    match getData n idx b3 true with
    | .error e => ⟨s1, n, [], some e⟩
    | .ok data =>
      let size := data.length
      if 1 ≤ size ∧ size ≤ 4 then
        ⟨s1, n, [expUpCmd size :: (muxBytes idx b3 ++ padTo 4 data)], none⟩
      else if size < 2 ^ 32 then
        let cmd := RESPONSE_UPLOAD ||| SIZE_SPECIFIED
        ⟨{ s1 with buffer := some data, toggle := 0 }, n,
         [cmd :: (muxBytes idx b3 ++ leBytes 4 size)], none⟩
      else ⟨s1, n, [], some .generic⟩
  | _ => ⟨s, n, [], some .generic⟩           -- struct.error: frame shorter than 4 bytes

def segmentedUpload (s : Srv) (n : Node) (command : Nat) : HRes :=
  if command &&& TOGGLE_BIT ≠ s.toggle then ⟨s, n, [], some (.abort 0x05030000)⟩
  else match s.buffer with
    | none => ⟨s, n, [], some .generic⟩        -- TypeError: None is not subscriptable
    | some buf =>
      let data := buf.take 7
      let rest := buf.drop 7
      ⟨{ s with buffer := some rest, toggle := s.toggle ^^^ TOGGLE_BIT }, n,
       [segUpCmd s.toggle data.length rest.isEmpty :: padTo 7 data], none⟩

def initDownload (s : Srv) (n : Node) (req : Bytes) : HRes :=
  match req with
  | command :: b1 :: b2 :: b3 :: rest =>
    let idx := b1 + 256 * b2
    let s1 := { s with index := some idx, sub := some b3 }
    let resp : Bytes := RESPONSE_DOWNLOAD :: (muxBytes idx b3 ++ [0, 0, 0, 0])
    if command &&& EXPEDITED ≠ 0 then
      let size := if command &&& SIZE_SPECIFIED ≠ 0 then 4 - ((command >>> 2) &&& 3) else 4
      match setData n (some idx) (some b3) (rest.take size) true with
      | .error e => ⟨s1, n, [], some e⟩
      | .ok n' => ⟨s1, n', [resp], none⟩
    else if command &&& SIZE_SPECIFIED ≠ 0 ∧ rest.length < 4 then
      ⟨s1, n, [], some .generic⟩               -- struct.error reading the size field
    else ⟨{ s1 with buffer := some [], toggle := 0 }, n, [resp], none⟩
  | _ => ⟨s, n, [], some .generic⟩

/-- tail of `segmented_download`: the final `set_data` may raise; otherwise acknowledge and toggle -/
def segDownFinish (s1 : Srv) (n : Node) (fin : Except Err Node) : HRes :=
  match fin with
  | .error e => ⟨s1, n, [], some e⟩
  | .ok n' =>
    ⟨{ s1 with toggle := s1.toggle ^^^ TOGGLE_BIT }, n',
     [(RESPONSE_SEGMENT_DOWNLOAD ||| s1.toggle) :: List.replicate 7 0], none⟩

def segmentedDownload (s : Srv) (n : Node) (command : Nat) (req : Bytes) : HRes :=
  if command &&& TOGGLE_BIT ≠ s.toggle then ⟨s, n, [], some (.abort 0x05030000)⟩
  else
    let lastByte := 8 - ((command >>> 1) &&& 7)
    match s.buffer with
    | none => ⟨s, n, [], some .generic⟩        -- AttributeError: None has no `extend`
    | some buf =>
      let buf' := buf ++ (req.drop 1).take (lastByte - 1)
      let s1 := { s with buffer := some buf' }
      segDownFinish s1 n
        (if command &&& NO_MORE_DATA ≠ 0 then setData n s.index s.sub buf' true else .ok n)

def requestAborted (s : Srv) (n : Node) (req : Bytes) : HRes :=
  if req.length < 8 then ⟨s, n, [], some .generic⟩
  else ⟨{ s with lastErr := leVal ((req.drop 4).take 4) }, n, [], none⟩

/-- the `if/elif` chain of `on_request` -/
def dispatch (s : Srv) (n : Node) (command : Nat) (req : Bytes) : HRes :=
  let ccs := command &&& 0xE0
  if ccs = REQUEST_UPLOAD then initUpload s n req
  else if ccs = REQUEST_SEGMENT_UPLOAD then segmentedUpload s n command
  else if ccs = REQUEST_DOWNLOAD then initDownload s n req
  else if ccs = REQUEST_SEGMENT_DOWNLOAD then segmentedDownload s n command req
  else if ccs = REQUEST_BLOCK_UPLOAD then initUpload s n req
  else if ccs = REQUEST_BLOCK_DOWNLOAD then ⟨s, n, [], some (.abort 0x05040001)⟩
  else if ccs = REQUEST_ABORTED then requestAborted s n req
  else ⟨s, n, [], some (.abort 0x05040001)⟩

/-- the `except` clauses of `on_request`: an exception becomes an abort frame built from the
    state at that moment -/
def finish (r : HRes) : Out :=
  match r.err with
  | none => ⟨r.srv, r.node, r.sent, false⟩
  | some e => ⟨r.srv, r.node, r.sent ++ [abortFrame r.srv (errCode e)], false⟩

/-- `SdoServer.on_request(can_id, data, timestamp)` -/
def srvStep (s : Srv) (n : Node) (req : Bytes) : Out :=
  match req with
  | [] => ⟨s, n, [], true⟩                     -- struct.unpack_from("B", b"") outside the try
  | command :: _ => finish (dispatch s n command req)

/-- a whole request history -/
def srvRun (s : Srv) (n : Node) : List Bytes → Srv × Node × List (List Bytes × Bool)
  | [] => (s, n, [])
  | f :: fs =>
    let o := srvStep s n f
    let (s', n', outs) := srvRun o.srv o.node fs
    (s', n', (o.sent, o.raised) :: outs)

end Canopen.Sdo
