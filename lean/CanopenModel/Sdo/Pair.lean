/-
The library's SDO client talking to the library's own SDO server (C03): the server model as the
client model's peer, and the typed accessors on both sides
(`SdoVariable.raw` getter/setter on a `RemoteNode`, `local.sdo[…].raw` on the `LocalNode`).
-/
import CanopenModel.Sdo.Client
import CanopenModel.Sdo.Server

namespace Canopen.Sdo
open Canopen Canopen.Codec Canopen.Gen.Datatypes

/-- the local node's server answering on the bus -/
def libPeer : Peer (Srv × Node) := fun (s, n) req =>
  let o := srvStep s n req
  ((o.srv, o.node), o.sent)

/-- `remote.sdo[idx][sub].raw = v`: `encode_raw`, then `SdoClient.download` (size declared,
    forced segmentation exactly for DOMAIN, `BufferedWriter(7)` offering the whole remainder) -/
def remoteSet (c : Chan (Srv × Node)) (idx sub : Nat) (t : Option Nat) (v : Val) :
    Chan (Srv × Node) × Except CErr Unit :=
  match encodeRaw t v with
  | none => (c, .error .other)
  | some data => download libPeer c idx sub data true (t == some DOMAIN) []

/-- `remote.sdo[idx][sub].raw`: `SdoClient.upload` (with the dictionary-size rule), `decode_raw` -/
def remoteGet (c : Chan (Srv × Node)) (idx sub : Nat) (t : Option Nat) (fuel : Nat) :
    Chan (Srv × Node) × Except CErr Val :=
  match upload libPeer c idx sub (some t) fuel with
  | (c', .error e) => (c', .error e)
  | (c', .ok d) =>
    match decodeRaw t d with
    | some v => (c', .ok v)
    | none => (c', .error .other)

/-- `local.sdo[idx][sub].raw` on the local node itself: `get_data` without access check, `decode_raw` -/
def localGet (n : Node) (idx sub : Nat) (t : Option Nat) : Option Val :=
  match getData n idx sub false with
  | .ok d => decodeRaw t d
  | .error _ => none

/-- `local.sdo.upload(idx, sub)` (`SdoServer.upload`, the read path behind the local accessors):
    the bytes `get_data` gives the application, without access check -/
def localUpload (n : Node) (idx sub : Nat) : Option Bytes :=
  match getData n idx sub false with
  | .ok d => some d
  | .error _ => none

/-- `local.sdo[idx][sub].raw = v` on the local node itself: `encode_raw`, then `SdoServer.download`
    = `set_data` without access check (the application is not subject to the access rights the
    dictionary grants to the bus) -/
def localSet (n : Node) (idx sub : Nat) (t : Option Nat) (v : Val) : Except Err Node :=
  match encodeRaw t v with
  | none => .error .generic
  | some data => setData n (some idx) (some sub) data false

/-! ### two nodes on one bus: dispatch by COB-ID -/

/-- two local nodes `i ≠ j`; a request frame on `0x600 + k` reaches node `k`'s server only -/
structure Bus2 where
  idA : Nat
  idB : Nat
  a : Srv × Node
  b : Srv × Node

/-- one frame on the bus: (CAN id, data) → responses as (CAN id, data) -/
def busStep (bus : Bus2) (f : Nat × Bytes) : Bus2 × List (Nat × Bytes) :=
  if f.1 = 0x600 + bus.idA then
    let o := srvStep bus.a.1 bus.a.2 f.2
    ({ bus with a := (o.srv, o.node) }, o.sent.map fun r => (0x580 + bus.idA, r))
  else if f.1 = 0x600 + bus.idB then
    let o := srvStep bus.b.1 bus.b.2 f.2
    ({ bus with b := (o.srv, o.node) }, o.sent.map fun r => (0x580 + bus.idB, r))
  else (bus, [])

def busRun (bus : Bus2) : List (Nat × Bytes) → Bus2 × List (Nat × Bytes)
  | [] => (bus, [])
  | f :: fs =>
    let (b1, r1) := busStep bus f
    let (b2, r2) := busRun b1 fs
    (b2, r1 ++ r2)

end Canopen.Sdo
