/-
Model of the three "views" of an integer variable (property C20):

* `ODVariable.encode_bits` / `decode_bits` and `Bits._get_bits` / `__getitem__` / `__setitem__` /
  `read` / `write`            (canopen/objectdictionary/__init__.py, canopen/variable.py)
* `ODVariable.encode_desc` / `decode_desc`, `Variable.desc`
* `ODVariable.encode_phys` / `decode_phys`, `Variable.phys`
* `Variable.raw` (getter and setter) over an abstract store `get_data` / `set_data`
* `Variable.read(fmt)` / `Variable.write(value, fmt)` (the method spellings of the three views) and
  `Variable.data`

Python integers are unbounded and `&`, `|`, `~`, `<<`, `>>` act on the infinite two's complement
representation; `Int` with the bit operations below is that.  Physical values are rationals
(`Rat` of core Lean): IEEE rounding of `/` and `*` is *not* modelled (DESIGN §3); Python's `round`
is round-half-to-even.  Every Python exception is `none`: the property only distinguishes a
value from an error.  Only integer data types (`INTEGER_TYPES`) are modelled; BOOLEAN, REAL and
string variables are outside the property.
-/
import CanopenModel.Codec

namespace Canopen.Views
open Canopen Canopen.Codec
open Canopen.Gen.Datatypes (INTEGER_TYPES SIGNED_TYPES)

/-! ### Python `int` bit operations (infinite two's complement) -/

/-- bit `i` of a Python int -/
def tbit (x : Int) (i : Nat) : Bool :=
  match x with
  | .ofNat n => n.testBit i
  | .negSucc n => !n.testBit i

/-- `a & ~b` on naturals -/
def natAndNot (a b : Nat) : Nat := a ^^^ (a &&& b)

/-- `x & y` -/
def pyAnd (x y : Int) : Int :=
  match x, y with
  | .ofNat a, .ofNat b => .ofNat (a &&& b)
  | .ofNat a, .negSucc b => .ofNat (natAndNot a b)
  | .negSucc a, .ofNat b => .ofNat (natAndNot b a)
  | .negSucc a, .negSucc b => .negSucc (a ||| b)

/-- `x | y` -/
def pyOr (x y : Int) : Int :=
  match x, y with
  | .ofNat a, .ofNat b => .ofNat (a ||| b)
  | .ofNat a, .negSucc b => .negSucc (natAndNot b a)
  | .negSucc a, .ofNat b => .negSucc (natAndNot a b)
  | .negSucc a, .negSucc b => .negSucc (a &&& b)

/-- `~x` -/
def pyNot (x : Int) : Int :=
  match x with
  | .ofNat a => .negSucc a
  | .negSucc a => .ofNat a

/-- `x << k` (`k ≥ 0`) -/
def pyShl (x : Int) (k : Nat) : Int := x * ((2 ^ k : Nat) : Int)

/-- `x >> k` (`k ≥ 0`): floor division by `2^k` -/
def pyShr (x : Int) (k : Nat) : Int :=
  match x with
  | .ofNat a => .ofNat (a >>> k)
  | .negSucc a => .negSucc (a >>> k)

/-! ### `encode_bits` / `decode_bits` -/

/-- `mask = 0; for bit in bits: mask |= 1 << bit` — `none` is the `ValueError` of a negative
    shift count -/
def maskOf : List Int → Option Nat
  | [] => some 0
  | b :: r => if b < 0 then none else (maskOf r).map (· ||| 2 ^ b.toNat)

/-- `ODVariable.decode_bits(value, bits)` once `bits` is an iterable of ints:
    `(value & mask) >> min(bits)`; `min([])` raises -/
def decodeBits (value : Int) (bits : List Int) : Option Int :=
  match maskOf bits, bits.min? with
  | some mask, some lo => some (pyShr (pyAnd value (mask : Int)) lo.toNat)
  | _, _ => none

/-- the mask arithmetic of `ODVariable.encode_bits` on a Python int:
    `temp = original & ~mask; temp |= bit_value << min(bits)` -/
def encodeBits (orig : Int) (bits : List Int) (v : Int) : Option Int :=
  match maskOf bits, bits.min? with
  | some mask, some lo => some (pyOr (pyAnd orig (pyNot (mask : Int))) (pyShl v lo.toNat))
  | _, _ => none

/-- `temp &= (1 << len(self)) - 1` when `self.data_type in SIGNED_TYPES` (`sw = some len(self)`):
    the two's complement representation in the width of the type -/
def toPattern (sw : Option Nat) (x : Int) : Int :=
  match sw with
  | some n => pyAnd x ((2 ^ n - 1 : Nat) : Int)
  | none => x

/-- `if signed and temp >> (len(self) - 1) == 1: temp -= 1 << len(self)` -/
def fromPattern (sw : Option Nat) (x : Int) : Int :=
  match sw with
  | some n => if pyShr x (n - 1) = 1 then x - ((2 ^ n : Nat) : Int) else x
  | none => x

/-- `ODVariable.encode_bits(original_value, bits, bit_value)` as repaired (fix of the sign-bit
    defect): a signed value is taken to its two's complement pattern first and the result is read
    as a pattern again; bits set beyond the width leave a value that does not fit, exactly as for
    an unsigned type -/
def encodeBitsTyped (sw : Option Nat) (orig : Int) (bits : List Int) (v : Int) : Option Int :=
  (encodeBits (toPattern sw orig) bits v).map (fromPattern sw)

/-! ### keys of `Bits.__getitem__` / `__setitem__` -/

/-- a Python `str` as code points -/
abbrev Name := List Nat

/-- the key spellings of `var.bits[...]` -/
inductive Key where
  | num (i : Int)                            -- `bits[3]`
  | list (l : List Int)                      -- `bits[[3, 4]]`, `bits[3, 4]` (tuple)
  | slice (start stop step : Option Int)     -- `bits[a:b:c]`, `none` = omitted
  | name (n : Name)                          -- `bits["NAME"]`
deriving Repr, DecidableEq

/-- `x or d` for an optional int (`None` and `0` are both falsy) -/
def orDefault (x : Option Int) (d : Int) : Int :=
  match x with
  | some v => if v = 0 then d else v
  | none => d

def pyRangeLen (a b c : Int) : Nat :=
  if 0 < c then (if a < b then ((b - a + c - 1) / c).toNat else 0)
  else if c < 0 then (if b < a then ((a - b + (-c) - 1) / (-c)).toNat else 0)
  else 0

/-- `list(range(a, b, c))`; `none` = `ValueError` for a zero step -/
def pyRange (a b c : Int) : Option (List Int) :=
  if c = 0 then none else some ((List.range (pyRangeLen a b c)).map fun (k : Nat) => a + c * (k : Int))

/-- `Bits._get_bits` for a slice, as repaired (fix of F12):
    `range(key.start or 0, key.stop, key.step or 1)`; an omitted stop is a `TypeError` -/
def sliceBits (start stop step : Option Int) : Option (List Int) :=
  match stop with
  | none => none
  | some b => pyRange (orDefault start 0) b (orDefault step 1)

/-- `dict.__getitem__` on `bit_definitions` (keys of a dict are unique; first match) -/
def lookupDef (defs : List (Name × List Int)) (n : Name) : Option (List Int) :=
  match defs with
  | [] => none
  | (k, v) :: r => if k = n then some v else lookupDef r n

/-- `Bits._get_bits(key)` followed by the `self.bit_definitions[bits]` attempt at the top of
    `decode_bits` / `encode_bits`: the bit list the mask is built from.  An int becomes a
    one-element list; list, tuple and range are unhashable or not a key (`TypeError` /
    `KeyError`, swallowed) and are used as they are; a defined name is replaced by its
    definition; an undefined name is iterated character by character and `1 << "c"` raises
    (`min("")` raises for the empty name). -/
def resolveKey (defs : List (Name × List Int)) (k : Key) : Option (List Int) :=
  match k with
  | .num i => some [i]
  | .list l => some l
  | .slice a b c => sliceBits a b c
  | .name n => lookupDef defs n

/-! ### descriptions -/

/-- `ODVariable.decode_desc(value)`: error for an empty table or an undescribed value -/
def decodeDesc (tbl : List (Int × Name)) (value : Int) : Option Name :=
  match tbl with
  | [] => none
  | (v, d) :: r => if v = value then some d else decodeDesc r value

/-- `ODVariable.encode_desc(desc)`: first value in dict order whose description is `desc` -/
def encodeDesc (tbl : List (Int × Name)) (desc : Name) : Option Int :=
  match tbl with
  | [] => none
  | (v, d) :: r => if d = desc then some v else encodeDesc r desc

/-! ### scaling -/

/-- Python's `round(x)`: nearest integer, ties to even -/
def roundHalfEven (q : Rat) : Int :=
  let fl := q.floor
  let d := q - (fl : Rat)
  if d < 1 / 2 then fl
  else if 1 / 2 < d then fl + 1
  else if fl % 2 = 0 then fl else fl + 1

/-- `ODVariable.encode_phys(value)` on an integer type: `int(round(value / factor))`;
    `none` = `ZeroDivisionError` -/
def encodePhys (factor value : Rat) : Option Int :=
  if factor = 0 then none else some (roundHalfEven (value / factor))

/-- `ODVariable.decode_phys(value)` on an integer type: `value * factor` -/
def decodePhys (factor : Rat) (raw : Int) : Rat := (raw : Rat) * factor

/-! ### the variable over a store -/

/-- `get_data` / `set_data` of a `Variable` subclass; `none` = the call raised -/
structure Store (σ : Type) where
  get : σ → Option Bytes
  set : σ → Bytes → Option σ

/-- what the views need of the `ODVariable` -/
structure OdVar where
  dtype : Nat
  factor : Rat
  descs : List (Int × Name)
  bitdefs : List (Name × List Int)

/-- the int out of `decode_raw`'s result -/
def valInt : Option Val → Option Int
  | some (.int i) => some i
  | _ => none

/-- `Variable.raw` getter: `od.decode_raw(self.get_data())` -/
def readRaw {σ : Type} (t : Nat) (st : Store σ) (s : σ) : Option Int :=
  valInt ((st.get s).bind (decodeRaw (some t)))

/-- `Variable.raw` setter: `self.set_data(od.encode_raw(value))`; nothing is stored when the
    value does not fit -/
def writeRaw {σ : Type} (t : Nat) (st : Store σ) (s : σ) (v : Int) : Option σ :=
  (encodeRaw (some t) (.int v)).bind (st.set s)

/-- `var.bits[key]`: a fresh `Bits` object reads the raw value, then `decode_bits` -/
def getBits {σ : Type} (od : OdVar) (st : Store σ) (s : σ) (k : Key) : Option Int :=
  match readRaw od.dtype st s, resolveKey od.bitdefs k with
  | some raw, some bits => decodeBits raw bits
  | _, _ => none

/-- `some len(self)` when `self.data_type in SIGNED_TYPES` (generated tuple), else `none` -/
def signedWidth (t : Nat) : Option Nat :=
  if SIGNED_TYPES.contains t then some (bitLen (some t)) else none

/-- `var.bits[key] = v`: read, `encode_bits`, write back -/
def setBits {σ : Type} (od : OdVar) (st : Store σ) (s : σ) (k : Key) (v : Int) : Option σ :=
  match readRaw od.dtype st s, resolveKey od.bitdefs k with
  | some raw, some bits =>
    (encodeBitsTyped (signedWidth od.dtype) raw bits v).bind (writeRaw od.dtype st s)
  | _, _ => none

/-- `var.desc` -/
def getDesc {σ : Type} (od : OdVar) (st : Store σ) (s : σ) : Option Name :=
  (readRaw od.dtype st s).bind (decodeDesc od.descs)

/-- `var.desc = d` -/
def setDesc {σ : Type} (od : OdVar) (st : Store σ) (s : σ) (d : Name) : Option σ :=
  (encodeDesc od.descs d).bind (writeRaw od.dtype st s)

/-- `if self.data_type in INTEGER_TYPES` of `encode_phys` / `decode_phys` (generated tuple);
    other types pass the value through unscaled and are not modelled (`none`) -/
def scaled (t : Nat) : Bool := INTEGER_TYPES.contains t

/-- `var.phys` -/
def getPhys {σ : Type} (od : OdVar) (st : Store σ) (s : σ) : Option Rat :=
  if scaled od.dtype then (readRaw od.dtype st s).map (decodePhys od.factor) else none

/-- `var.phys = v` -/
def setPhys {σ : Type} (od : OdVar) (st : Store σ) (s : σ) (v : Rat) : Option σ :=
  if scaled od.dtype then (encodePhys od.factor v).bind (writeRaw od.dtype st s) else none

/-! ### the method spellings: `Variable.read(fmt)`, `Variable.write(value, fmt)`, `.data` -/

/-- a Python value handed to `write` / a setter, or returned by `read` / a getter -/
inductive PyVal where
  | int (i : Int)
  | num (q : Rat)          -- a float, or the int/float product of `decode_phys`, as a rational
  | str (s : Name)
  | bytes (b : Bytes)
  | none
deriving DecidableEq

/-- `"raw"`, `"phys"`, `"desc"` as code points -/
def fmtRaw : Name := [114, 97, 119]
def fmtPhys : Name := [112, 104, 121, 115]
def fmtDesc : Name := [100, 101, 115, 99]

/-- the three attribute views -/
inductive ViewK where
  | raw | phys | desc
deriving DecidableEq, Repr

/-- the `fmt` string naming a view -/
def viewFmt : ViewK → Name
  | .raw => fmtRaw
  | .phys => fmtPhys
  | .desc => fmtDesc

/-- the `if fmt == "raw": … elif fmt == "phys": … elif fmt == "desc": …` chain of `read` / `write` -/
def fmtView (fmt : Name) : Option ViewK :=
  if fmt = fmtRaw then some .raw
  else if fmt = fmtPhys then some .phys
  else if fmt = fmtDesc then some .desc
  else none

/-- `int(x)` of a Python float: truncation toward zero -/
def pyTrunc (q : Rat) : Int := Int.tdiv q.num q.den

/-- `var.raw = value` for a Python value: `encode_raw` passes `bytes` through as they are and
    applies `int(value)` on an integer type (`int(None)` raises; text is not modelled: the
    harness only hands over text that is no integer literal, for which `int` raises) -/
def setRawVal {σ : Type} (od : OdVar) (st : Store σ) (s : σ) (x : PyVal) : Option σ :=
  match x with
  | .int i => writeRaw od.dtype st s i
  | .num q => writeRaw od.dtype st s (pyTrunc q)
  | .bytes b => st.set s b
  | _ => none

/-- `var.phys = value`: a number is divided by the factor; text, bytes and `None` raise `TypeError` -/
def setPhysVal {σ : Type} (od : OdVar) (st : Store σ) (s : σ) (x : PyVal) : Option σ :=
  match x with
  | .int i => setPhys od st s (i : Rat)
  | .num q => setPhys od st s q
  | _ => none

/-- `var.desc = value`: only a `str` can equal a description (anything else ends in `ValueError`) -/
def setDescVal {σ : Type} (od : OdVar) (st : Store σ) (s : σ) (x : PyVal) : Option σ :=
  match x with
  | .str d => setDesc od st s d
  | _ => none

/-- the attribute getters `var.raw` / `var.phys` / `var.desc` as Python values -/
def getView {σ : Type} (od : OdVar) (st : Store σ) (s : σ) (v : ViewK) : Option PyVal :=
  match v with
  | .raw => (readRaw od.dtype st s).map .int
  | .phys => (getPhys od st s).map .num
  | .desc => (getDesc od st s).map .str

/-- the attribute setters `var.raw = x` / `var.phys = x` / `var.desc = x` -/
def setView {σ : Type} (od : OdVar) (st : Store σ) (s : σ) (v : ViewK) (x : PyVal) : Option σ :=
  match v with
  | .raw => setRawVal od st s x
  | .phys => setPhysVal od st s x
  | .desc => setDescVal od st s x

/-- `Variable.read(fmt="raw")`: `return self.raw` / `self.phys` / `self.desc`; any other `fmt`
    falls off the end of the chain and returns `None` (outer `none` = the getter raised) -/
def readFmt {σ : Type} (od : OdVar) (st : Store σ) (s : σ) (fmt : Name := fmtRaw) : Option PyVal :=
  if fmt = fmtRaw then (readRaw od.dtype st s).map .int
  else if fmt = fmtPhys then (getPhys od st s).map .num
  else if fmt = fmtDesc then (getDesc od st s).map .str
  else some .none

/-- `Variable.write(value, fmt="raw")`: `self.raw = value` / `self.phys = value` /
    `self.desc = value`; any other `fmt` does nothing (`none` = the setter raised) -/
def writeFmt {σ : Type} (od : OdVar) (st : Store σ) (s : σ) (value : PyVal) (fmt : Name := fmtRaw) :
    Option σ :=
  if fmt = fmtRaw then setRawVal od st s value
  else if fmt = fmtPhys then setPhysVal od st s value
  else if fmt = fmtDesc then setDescVal od st s value
  else some s

/-- `var.data` (property) = `var.get_data()` -/
def getData {σ : Type} (st : Store σ) (s : σ) : Option Bytes := st.get s

/-- `var.data = b` (property) = `var.set_data(b)` -/
def setData {σ : Type} (st : Store σ) (s : σ) (b : Bytes) : Option σ := st.set s b

/-- one access to a variable, with its spelling -/
inductive Access where
  | getP (v : ViewK)                       -- `var.raw`, `var.phys`, `var.desc`
  | getM (fmt : Option Name)               -- `var.read(fmt)`; `none` = `var.read()`
  | setP (v : ViewK) (x : PyVal)           -- `var.raw = x`, …
  | setM (x : PyVal) (fmt : Option Name)   -- `var.write(x, fmt)`; `none` = `var.write(x)`
  | getData                                -- `var.data`, `var.get_data()`
  | setData (b : Bytes)                    -- `var.data = b`, `var.set_data(b)`
  | getBits (k : Key)                      -- `var.bits[k]`
  | setBits (k : Key) (v : Int)            -- `var.bits[k] = v`

/-- outcome of a statement that stores: the new state and `None`, or the old state and an error -/
def setOut {σ : Type} (s : σ) (o : Option σ) : σ × Option PyVal :=
  match o with
  | some s' => (s', some .none)
  | none => (s, none)

/-- `read` with or without the `fmt` argument -/
def readOpt {σ : Type} (od : OdVar) (st : Store σ) (s : σ) (fmt : Option Name) : Option PyVal :=
  match fmt with
  | some f => readFmt od st s f
  | none => readFmt od st s

/-- `write` with or without the `fmt` argument -/
def writeOpt {σ : Type} (od : OdVar) (st : Store σ) (s : σ) (x : PyVal) (fmt : Option Name) : Option σ :=
  match fmt with
  | some f => writeFmt od st s x f
  | none => writeFmt od st s x

def accessStep {σ : Type} (od : OdVar) (st : Store σ) (s : σ) (a : Access) : σ × Option PyVal :=
  match a with
  | .getP v => (s, getView od st s v)
  | .getM fmt => (s, readOpt od st s fmt)
  | .setP v x => setOut s (setView od st s v x)
  | .setM x fmt => setOut s (writeOpt od st s x fmt)
  | .getData => (s, (getData st s).map .bytes)
  | .setData b => setOut s (setData st s b)
  | .getBits k => (s, (getBits od st s k).map .int)
  | .setBits k v => setOut s (setBits od st s k v)

/-- a history of accesses on one variable object -/
def accessRun {σ : Type} (od : OdVar) (st : Store σ) (s : σ) : List Access → σ × List (Option PyVal)
  | [] => (s, [])
  | a :: r =>
    let (s', o) := accessStep od st s a
    let (s'', os) := accessRun od st s' r
    (s'', o :: os)

/-- the same access spelt with the attribute instead of the method (an unknown `fmt` has no
    attribute spelling and stays) -/
def Access.toProp (a : Access) : Access :=
  match a with
  | .getM none => .getP .raw
  | .getM (some f) =>
    (match fmtView f with
     | some v => .getP v
     | none => .getM (some f))
  | .setM x none => .setP .raw x
  | .setM x (some f) =>
    (match fmtView f with
     | some v => .setP v x
     | none => .setM x (some f))
  | a => a

/-! ### one `Bits` object used for several accesses (`b = var.bits; b[k] = v; b[k2] …`) -/

/-- a held `Bits` object: the store and the cached `self.raw` -/
structure BitsObj (σ : Type) where
  store : σ
  cache : Int

inductive BitsOp where
  | get (k : Key)
  | set (k : Key) (v : Int)

/-- `Bits.__getitem__` uses the cache; `Bits.__setitem__` updates the cache first and then
    writes (`self.raw = …; self.write()`), so a rejected write leaves the cache changed -/
def bitsObjStep {σ : Type} (od : OdVar) (st : Store σ) (b : BitsObj σ) (op : BitsOp) :
    BitsObj σ × Option Int :=
  match op with
  | .get k => (b, (resolveKey od.bitdefs k).bind (decodeBits b.cache))
  | .set k v =>
    match (resolveKey od.bitdefs k).bind
        (fun bits => encodeBitsTyped (signedWidth od.dtype) b.cache bits v) with
    | none => (b, none)
    | some new =>
      match writeRaw od.dtype st b.store new with
      | some s' => (⟨s', new⟩, some 0)
      | none => (⟨b.store, new⟩, none)

def bitsObjRun {σ : Type} (od : OdVar) (st : Store σ) (b : BitsObj σ) :
    List BitsOp → BitsObj σ × List (Option Int)
  | [] => (b, [])
  | op :: r =>
    let (b', o) := bitsObjStep od st b op
    let (b'', os) := bitsObjRun od st b' r
    (b'', o :: os)

/-! ### two concrete stores -/

/-- a cell holding the bytes: the dict-backed `LocalNode.data_store` entry, and what an SDO
    client sees of a conformant server (C01–C03) -/
def cellStore : Store Bytes where
  get := fun s => some s
  set := fun _ x => some x

/-- a byte-aligned window `[off, off+n)` of a PDO frame (`PdoVariable` without bit offset):
    `data[off:off+n]` and `data[off:off+len(x)] = x` -/
def frameStore (off n : Nat) : Store Bytes where
  get := fun fr => some ((fr.drop off).take n)
  set := fun fr x => some (fr.take off ++ x ++ fr.drop (off + x.length))

end Canopen.Views
