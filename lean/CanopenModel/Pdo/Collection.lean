/-
Model of the PDO *collections* of a node: `PdoMaps.__init__` (which maps exist and in which order
they are iterated), `PDO.__init__` (canopen/pdo/__init__.py: `node.pdo` holds the receive maps
first, then the transmit maps), and `PdoBase.save` / `PdoBase.read` (canopen/pdo/base.py), which
call `PdoMap.save()` / `PdoMap.read(from_od)` on every map of the collection in iteration order.
An exception raised by one map ends the loop (nothing catches it); a map whose COB-ID was never set
is skipped by `PdoMap.save` itself, the loop goes on with the next map.

The device on the other side is any `Dev σ`; `multiDev` is the strict device with several PDOs of
Spec/StrictPdoDevice.lean as such a peer.

Subscriptions: `PdoMap.subscribe` / `PdoBase.subscribe` and the effect of all subscribe calls of
`read` / `save` / `subscribe` on `Network.subscribers`, which is the subscriber table of the C10
model (`Net/Network.lean`: `Subs`, `Net.subscribe` = `Network.subscribe`, append unless present).
-/
import CanopenModel.Pdo.Config
import CanopenModel.Spec.StrictPdoDevice
import CanopenModel.Net.Network

namespace Canopen.Pdo
open Canopen.Gen.PdoConfig Canopen.Spec.StrictPdo

/-- the strict device with several PDOs behind the SDO client -/
def multiDev : Dev (List PdoDev) where
  write := writeMulti
  read ds idx sub := (ds, readMulti ds idx sub)

/-- one `PdoMap` object of a node: its key in `node.rpdo` / `node.tpdo`, what its dictionary
    objects look like, its attributes, and the COB-IDs it has been subscribed to so far -/
structure MapSt where
  isTx : Bool
  n : Nat
  od : Od
  cfg : Cfg
  subs : List Nat
deriving Repr

def MapSt.isKey (isTx : Bool) (n : Nat) (m : MapSt) : Bool := m.isTx == isTx && m.n == n

/-- `PdoMaps.__init__`: `for map_no in range(512): if com_offset + map_no in object_dictionary:
    self.maps[map_no + 1] = PdoMap(…)` — the maps of one direction that the dictionary describes,
    in the order a dict filled that way is iterated -/
def pdoMaps (isTx : Bool) (maps : List MapSt) : List MapSt :=
  (List.range (if isTx then TPDO_COUNT else RPDO_COUNT)).filterMap fun k =>
    maps.find? (MapSt.isKey isTx (k + 1))

/-- the three collections of a node -/
inductive Coll where
  | rpdo | tpdo | pdo
deriving Repr, DecidableEq

/-- the maps `for pdo_map in self.map.values()` visits, in that order (`PDO.__init__` inserts
    the receive maps first, then the transmit maps) -/
def collMaps : Coll → List MapSt → List MapSt
  | .rpdo, ms => pdoMaps false ms
  | .tpdo, ms => pdoMaps true ms
  | .pdo, ms => pdoMaps false ms ++ pdoMaps true ms

/-- `PdoBase.save()`: `for pdo_map in self.map.values(): pdo_map.save()` -/
def saveAll {σ} (D : Dev σ) : List (Od × Cfg) → M σ (List SaveOut)
  | [] => M.pure []
  | (od, cfg) :: rest =>
    M.bind (save D od cfg) fun o => M.bind (saveAll D rest) fun os => M.pure (o :: os)

/-- `PdoBase.read(from_od)`: `for pdo_map in self.map.values(): pdo_map.read(from_od=from_od)` -/
def readAll {σ} (D : Dev σ) (src : Src) : List (Od × Cfg) → M σ (List ReadOut)
  | [] => M.pure []
  | (od, old) :: rest =>
    M.bind (read D od src old) fun r => M.bind (readAll D src rest) fun rs => M.pure (r :: rs)

/-! ### the attributes of the map objects after a collection call -/

def MapSt.afterSave (m : MapSt) (o : SaveOut) : MapSt :=
  { m with cfg := { m.cfg with map := o.map }, subs := m.subs ++ o.subs }

def MapSt.afterRead (m : MapSt) (r : ReadOut) : MapSt :=
  { m with cfg := r.cfg, subs := m.subs ++ r.subs }

/-- the node's maps (in any listing order) with the visited ones replaced -/
def mergeMaps (all upd : List MapSt) : List MapSt :=
  all.map fun m => (upd.find? (MapSt.isKey m.isTx m.n)).getD m

/-- `save()` on the maps `sel` (a collection in its iteration order, or single maps in the order
    the application calls them) -/
def saveMaps {σ} (D : Dev σ) (all sel : List MapSt) : M σ (List MapSt) :=
  M.bind (saveAll D (sel.map fun m => (m.od, m.cfg))) fun outs =>
  M.pure (mergeMaps all (List.zipWith MapSt.afterSave sel outs))

/-- `read(from_od)` on the maps `sel` -/
def readMaps {σ} (D : Dev σ) (src : Src) (all sel : List MapSt) : M σ (List MapSt) :=
  M.bind (readAll D src (sel.map fun m => (m.od, m.cfg))) fun outs =>
  M.pure (mergeMaps all (List.zipWith MapSt.afterRead sel outs))

/-! ### subscriptions -/

/-- `pdo_map.on_message` of map `(isTx, n)` of node object `o`: a bound method, one per map object -/
def mapCb (o : Nat) (isTx : Bool) (n : Nat) : Net.Cb :=
  .node o (.other (2 * n + (if isTx then 1 else 0)))

/-- `PdoMap.subscribe()`: `if self.enabled: network.subscribe(self.cob_id, self.on_message)` — the
    COB-IDs handed to `network.subscribe` -/
def subscribeCalls (cfg : Cfg) : List Nat := if cfg.enabled then cfg.cob.toList else []

def MapSt.subscribe (m : MapSt) : MapSt := { m with subs := m.subs ++ subscribeCalls m.cfg }

/-- `PdoBase.subscribe()`: `for pdo_map in self.map.values(): pdo_map.subscribe()` on the maps `sel` -/
def subscribeMaps (all sel : List MapSt) : List MapSt := mergeMaps all (sel.map MapSt.subscribe)

/-- the `network.subscribe(cob, on_message)` calls the maps `visited` made (their `subs`), in the
    order the maps were visited -/
def subsCalls (o : Nat) (visited : List MapSt) : List (Nat × Net.Cb) :=
  visited.flatMap fun m => m.subs.map fun c => (c, mapCb o m.isTx m.n)

/-- `Network.subscribers` after those calls, from any prior table -/
def tableAfter (o : Nat) (prior : Net.Subs) (visited : List MapSt) : Net.Subs :=
  Net.subscribeMany prior (subsCalls o visited)

end Canopen.Pdo
