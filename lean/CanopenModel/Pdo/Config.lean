/-
Model of the PDO configuration code of canopen/pdo/base.py: `PdoMap.save`, `PdoMap.read`
(live and `from_od=True`), `PdoMap.subscribe`, `PdoMap._fill_map`, the decoding done by
`PdoMap.add_variable` as far as `read` depends on it, and the numbering of `PdoMaps` as
instantiated by `RPDO`/`TPDO` (canopen/pdo/__init__.py); `RemoteNode.load_configuration`
(canopen/node/remote.py) is `read(from_od=True)` followed by `save()`.

The SDO layer is abstracted at the level the property observes: a download is
`(index, sub-index, byte count, little-endian value)`, an upload is `(index, sub-index)`; the
device on the other side is any `Dev σ` (state-passing, so that devices with counters or side
effects are covered).  Every SDO transaction the client performs is appended to a log.

Python exceptions: `Err.abort code` is `SdoAbortedError(code)` (the only exception class the code
under `save`/`read` distinguishes, together with `KeyError`); `key` = `KeyError` from the object
dictionary, `value` = `ValueError` from `encode_raw` (value does not fit the entry's type),
`type` = `TypeError` from arithmetic on `None` (`from_od` with neither value nor default).

The dictionary is described by what the code looks at: which sub-entries the communication record
and the mapping object have (a record, or an array whose missing sub-entries are created from
sub 1 as `ODArray.__getitem__` does), their `value`/`default`, which objects can be looked up by
`_get_variable`, and the `curtis_hack` flag of the node.  The entries are assumed to have their
CiA 301 types (UNSIGNED32 COB-ID and mapping entries, UNSIGNED8 transmission type / SYNC start /
number of entries, UNSIGNED16 inhibit time and event timer): that is what fixes the byte counts.
-/
import CanopenModel.Generated.PdoConfig

namespace Canopen.Pdo
open Canopen.Gen.PdoConfig

/-! ### data -/

structure MapEntry where
  idx : Nat
  sub : Nat
  len : Nat
deriving Repr, DecidableEq

/-- the attributes of a `PdoMap` that `save` writes and `read` sets -/
structure Cfg where
  cob : Option Nat        -- `cob_id` (`None` until set)
  enabled : Bool
  rtr : Bool              -- `rtr_allowed`
  tt : Option Nat         -- `trans_type`
  inhibit : Option Nat    -- `inhibit_time`
  event : Option Nat      -- `event_timer`
  sync : Option Nat       -- `sync_start_value`
  map : List MapEntry     -- `(var.index, var.subindex, var.length)` of `self.map`
deriving Repr, DecidableEq

/-- `PdoMap.__init__` -/
def Cfg.fresh : Cfg :=
  { cob := none, enabled := false, rtr := true, tt := none, inhibit := none, event := none,
    sync := none, map := [] }

inductive Err where
  | key | value | type
  | abort (code : Nat)
deriving Repr, DecidableEq

/-- one SDO transaction as the device saw it -/
inductive Ev where
  | w (idx sub size val : Nat) (abort : Option Nat)
  | r (idx sub : Nat) (res : Except Nat Nat)

/-- the peer behind the SDO client -/
structure Dev (σ : Type) where
  write : σ → Nat → Nat → Nat → Nat → σ × Option Nat
  read : σ → Nat → Nat → σ × Except Nat Nat

structure OdEntry where
  sub : Nat
  value : Option Nat      -- `ODVariable.value` (DCF ParameterValue)
  dflt : Option Nat       -- `ODVariable.default`
deriving Repr, DecidableEq

/-- what `save`/`read` look at in the node's object dictionary -/
structure Od where
  comIdx : Nat
  mapIdx : Nat
  com : List OdEntry                       -- members of the communication record
  map : List OdEntry                       -- members of the mapping object as listed
  mapIsArray : Bool                        -- `ODArray` (sub-entries created from sub 1) or `ODRecord`
  objs : List (Nat × Option (List Nat))    -- index ↦ plain variable, or the sub-indices of a record
  curtis : Bool                            -- `node.curtis_hack`
deriving Repr

def findSub (l : List OdEntry) (sub : Nat) : Option OdEntry := l.find? (·.sub = sub)

/-- `SdoRecord.__getitem__` / `SdoArray.__getitem__` on the OD object; `none` = `KeyError` -/
def Od.lookup (od : Od) (isCom : Bool) (sub : Nat) : Option OdEntry :=
  if isCom then findSub od.com sub
  else match findSub od.map sub with
    | some e => some e
    | none =>
      if od.mapIsArray && decide (0 < sub) && decide (sub < 256) then
        -- ODArray: new variable from the template sub 1 (`default` is copied, `value` is not)
        (findSub od.map 1).map fun t => { sub := sub, value := none, dflt := t.dflt }
      else none

def Od.index (od : Od) (isCom : Bool) : Nat := if isCom then od.comIdx else od.mapIdx

/-- byte size of the CiA 301 type of a PDO parameter entry -/
def width (isCom : Bool) (sub : Nat) : Nat :=
  if isCom then (if sub = 1 then 4 else if sub = 3 then 2 else if sub = 5 then 2 else 1)
  else (if sub = 0 then 1 else 4)

/-- `_get_variable(index, subindex)` finds an object (`false` = `KeyError`); the PDO's own
    parameter objects are objects of the dictionary too -/
def Od.knows (od : Od) (idx sub : Nat) : Bool :=
  if idx = od.comIdx then (od.lookup true sub).isSome
  else if idx = od.mapIdx then (od.lookup false sub).isSome
  else match od.objs.find? (·.1 = idx) with
    | none => false
    | some (_, none) => true
    | some (_, some subs) => subs.contains sub

/-! ### client state, error monad -/

structure Run (σ : Type) where
  dev : σ
  log : List Ev

def M (σ α : Type) := Run σ → Run σ × Except Err α

def M.pure {σ α} (a : α) : M σ α := fun st => (st, .ok a)

def M.bind {σ α β} (m : M σ α) (f : α → M σ β) : M σ β := fun st =>
  match m st with
  | (st', .ok a) => f a st'
  | (st', .error e) => (st', .error e)

instance {σ} : Monad (M σ) where
  pure := M.pure
  bind := M.bind

def M.throw {σ α} (e : Err) : M σ α := fun st => (st, .error e)

/-! ### SDO access through the dictionary (`SdoVariable.raw` getter / setter) -/

/-- `record[sub].raw = v` -/
def sdoWrite {σ} (D : Dev σ) (od : Od) (isCom : Bool) (sub v : Nat) : M σ Unit := fun st =>
  match od.lookup isCom sub with
  | none => (st, .error .key)
  | some _ =>
    if v ≥ 256 ^ width isCom sub then (st, .error .value)
    else
      let r := D.write st.dev (od.index isCom) sub (width isCom sub) v
      ({ dev := r.1, log := st.log ++ [Ev.w (od.index isCom) sub (width isCom sub) v r.2] },
        match r.2 with
        | none => .ok ()
        | some c => .error (.abort c))

/-- `record[sub].raw` -/
def sdoRead {σ} (D : Dev σ) (od : Od) (isCom : Bool) (sub : Nat) : M σ Nat := fun st =>
  match od.lookup isCom sub with
  | none => (st, .error .key)
  | some _ =>
    let r := D.read st.dev (od.index isCom) sub
    ({ dev := r.1, log := st.log ++ [Ev.r (od.index isCom) sub r.2] },
      match r.2 with
      | .ok v => .ok v
      | .error c => .error (.abort c))

/-- a list of writes, stopping at the first exception -/
def writeAll {σ} (D : Dev σ) (od : Od) : List (Bool × Nat × Nat) → M σ Unit
  | [] => M.pure ()
  | (c, s, v) :: rest => M.bind (sdoWrite D od c s v) fun _ => writeAll D od rest

/-! ### `PdoMap.save` -/

def rtrBit (rtr : Bool) : Nat := if rtr then 0 else RTR_NOT_ALLOWED

def optW (sub : Nat) : Option Nat → List (Bool × Nat × Nat)
  | some v => [(true, sub, v)]
  | none => []

/-- the writes to the communication record before the mapping is touched -/
def comWrites (cfg : Cfg) (cob : Nat) : List (Bool × Nat × Nat) :=
  (true, 1, cob ||| PDO_NOT_VALID ||| rtrBit cfg.rtr) ::
    (optW 2 cfg.tt ++ optW 3 cfg.inhibit ++ optW 5 cfg.event ++ optW 6 cfg.sync)

def entryWord (curtis : Bool) (e : MapEntry) : Nat :=
  if curtis then e.idx ||| e.sub <<< 16 ||| e.len <<< 24
  else e.idx <<< 16 ||| e.sub <<< 8 ||| e.len

def entryWrites (curtis : Bool) : Nat → List MapEntry → List (Bool × Nat × Nat)
  | _, [] => []
  | k, e :: rest => (false, k, entryWord curtis e) :: entryWrites curtis (k + 1) rest

/-- `_fill_map`: the dummy variable has index 0, sub-index 0, length 0 -/
def dummyEntry : MapEntry := { idx := 0, sub := 0, len := 0 }

def fillMap (map : List MapEntry) (needed : Nat) : List MapEntry :=
  map ++ List.replicate (needed - map.length) dummyEntry

/-- `map_array[0].raw = 0`, with the fixed-length-array fallback on *any* abort -/
def zeroStep {σ} (D : Dev σ) (od : Od) (map : List MapEntry) : M σ (List MapEntry) := fun st =>
  match sdoWrite D od false 0 0 st with
  | (st', .ok _) => (st', .ok map)
  | (st', .error (.abort _)) =>
    (match sdoRead D od false 0 st' with
     | (st'', .ok n) => (st'', .ok (fillMap map n))
     | (st'', .error e) => (st'', .error e))
  | (st', .error e) => (st', .error e)

/-- `map_array[0].raw = len(self.map)`; abort 0x06010002 is swallowed -/
def countStep {σ} (D : Dev σ) (od : Od) (n : Nat) : M σ Unit := fun st =>
  match sdoWrite D od false 0 n st with
  | (st', .error (.abort c)) => if c = 0x06010002 then (st', .ok ()) else (st', .error (.abort c))
  | r => r

/-- the last step: re-enable -/
def validateStep {σ} (D : Dev σ) (od : Od) (cfg : Cfg) (cob : Nat) : M σ Unit :=
  if cfg.enabled then sdoWrite D od true 1 (cob ||| rtrBit cfg.rtr) else M.pure ()

structure SaveOut where
  map : List MapEntry       -- `self.map` afterwards (`_fill_map` may have extended it)
  subs : List Nat           -- COB-IDs handed to `network.subscribe` by this call
deriving Repr, DecidableEq

def saveBody {σ} (D : Dev σ) (od : Od) (cfg : Cfg) (cob : Nat) : M σ SaveOut :=
  M.bind (writeAll D od (comWrites cfg cob)) fun _ =>
  M.bind (zeroStep D od cfg.map) fun map' =>
  M.bind (writeAll D od (entryWrites od.curtis 1 map')) fun _ =>
  M.bind (countStep D od map'.length) fun _ =>
  M.bind (validateStep D od cfg cob) fun _ =>
  M.pure { map := map', subs := if cfg.enabled then [cob] else [] }

/-- `PdoMap.save()` -/
def save {σ} (D : Dev σ) (od : Od) (cfg : Cfg) : M σ SaveOut :=
  match cfg.cob with
  | none => M.pure { map := cfg.map, subs := [] }
  | some cob => saveBody D od cfg cob

/-! ### `PdoMap.read` -/

/-- where `_raw_from` takes its numbers from -/
inductive Src where
  | live        -- `param.raw` (SDO upload)
  | od          -- `param.od.value`, else `param.od.default`

/-- `_raw_from(record[sub])`; `ok none` is Python's `None` (only possible with `from_od`) -/
def rawFrom {σ} (D : Dev σ) (od : Od) (src : Src) (isCom : Bool) (sub : Nat) : M σ (Option Nat) :=
  match src with
  | .live => M.bind (sdoRead D od isCom sub) fun v => M.pure (some v)
  | .od => fun st =>
    match od.lookup isCom sub with
    | none => (st, .error .key)
    | some e => (st, .ok (match e.value with | some v => some v | none => e.dflt))

/-- a number is needed (`None` in arithmetic raises `TypeError`) -/
def need {σ} : Option Nat → M σ Nat
  | some v => M.pure v
  | none => M.throw .type

/-- `try: x = _raw_from(com[sub]) except (KeyError, SdoAbortedError): pass` -/
def optParam {σ} (D : Dev σ) (od : Od) (src : Src) (sub : Nat) (old : Option Nat) :
    M σ (Option Nat) := fun st =>
  match rawFrom D od src true sub st with
  | (st', .ok v) => (st', .ok v)
  | (st', .error .key) => (st', .ok old)
  | (st', .error (.abort _)) => (st', .ok old)
  | (st', .error e) => (st', .error e)

/-- decoding of one mapping word and `add_variable`: the variable is appended unless index or
    size is zero or the dictionary does not know the object -/
def decodeEntry (od : Od) (v : Nat) : List MapEntry :=
  let idx := if od.curtis then v &&& 0xFFFF else v >>> 16
  let sub := if od.curtis then (v >>> 16) &&& 0xFF else (v >>> 8) &&& 0xFF
  let size := if od.curtis then (v >>> 24) &&& 0x7F else v &&& 0x7F
  if idx ≠ 0 ∧ size ≠ 0 ∧ od.knows idx sub then [{ idx := idx, sub := sub, len := size }] else []

/-- `for subindex in range(k, k + n): ...` -/
def readEntries {σ} (D : Dev σ) (od : Od) (src : Src) : Nat → Nat → M σ (List MapEntry)
  | _, 0 => M.pure []
  | k, n + 1 =>
    M.bind (rawFrom D od src false k) fun ov =>
    M.bind (need ov) fun v =>
    M.bind (readEntries D od src (k + 1) n) fun rest =>
    M.pure (decodeEntry od v ++ rest)

structure ReadOut where
  cfg : Cfg
  subs : List Nat
deriving Repr, DecidableEq

/-- the three optional parameters, read only for transmission types 254 and 255 -/
def readOptional {σ} (D : Dev σ) (od : Od) (src : Src) (old : Cfg) (tt : Nat) :
    M σ (Option Nat × Option Nat × Option Nat) :=
  if tt ≥ 254 then
    M.bind (optParam D od src 3 old.inhibit) fun inh =>
    M.bind (optParam D od src 5 old.event) fun ev =>
    M.bind (optParam D od src 6 old.sync) fun sy =>
    M.pure (inh, ev, sy)
  else M.pure (old.inhibit, old.event, old.sync)

/-- `PdoMap.read(from_od)` on a map whose attributes are `old` -/
def read {σ} (D : Dev σ) (od : Od) (src : Src) (old : Cfg) : M σ ReadOut :=
  M.bind (rawFrom D od src true 1) fun ow =>
  M.bind (need ow) fun w =>
  M.bind (rawFrom D od src true 2) fun ott =>
  M.bind (need ott) fun tt =>
  M.bind (readOptional D od src old tt) fun opt =>
  M.bind (rawFrom D od src false 0) fun on =>
  M.bind (need on) fun n =>
  M.bind (readEntries D od src 1 n) fun map =>
  let enabled := w &&& PDO_NOT_VALID == 0
  M.pure {
    cfg := { cob := some (w &&& 0x1FFFFFFF), enabled := enabled,
             rtr := w &&& RTR_NOT_ALLOWED == 0, tt := some tt,
             inhibit := opt.1, event := opt.2.1, sync := opt.2.2, map := map },
    subs := if enabled then [w &&& 0x1FFFFFFF] else [] }

/-! ### numbering (`PdoMaps.__init__` as called by `RPDO` / `TPDO`) -/

structure PdoSlot where
  comIdx : Nat
  mapIdx : Nat
  predefined : Option Nat
deriving Repr, DecidableEq

/-- map number `n` (1-based key of `node.rpdo` / `node.tpdo`) of a node with id `nodeId` -/
def slot (isTx : Bool) (n nodeId : Nat) : Option PdoSlot :=
  let count := if isTx then TPDO_COUNT else RPDO_COUNT
  if n = 0 ∨ n > count then none
  else
    let com := if isTx then TPDO_COM_BASE else RPDO_COM_BASE
    let mp := if isTx then TPDO_MAP_BASE else RPDO_MAP_BASE
    let cob := if isTx then TPDO_COB_BASE else RPDO_COB_BASE
    let npre := if isTx then TPDO_PREDEF_COUNT else RPDO_PREDEF_COUNT
    let step := if isTx then TPDO_PREDEF_STEP else RPDO_PREDEF_STEP
    some { comIdx := com + (n - 1), mapIdx := mp + (n - 1),
           predefined := if n ≤ npre then some (cob + (n - 1) * step + nodeId) else none }

end Canopen.Pdo
