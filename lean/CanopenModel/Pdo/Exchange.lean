/-
Model of PDO exchange (canopen/pdo/base.py: `PdoMap.on_message`, `transmit`, `remote_request`,
`subscribe`, `add_callback`, `wait_for_reception`; canopen/network.py: dispatch by COB-ID) for a
producing and a consuming node object that share a PDO configuration on one bus.
Variable access inside a frame is the C05 model (`readRaw` / `writeRaw`).
-/
import CanopenModel.Pdo.Bits

namespace Canopen.Pdo
open Canopen Canopen.Codec

structure PMap where
  cobId : Option Nat
  enabled : Bool
  rtrAllowed : Bool
  layout : List (Nat × Nat)          -- (data type, mapped bit length) per variable
  data : Bytes
  timestamp : Option Int
  period : Option Int
  isReceived : Bool
  running : Option Int               -- period of the running periodic task (`_task is not None`), else `none`
  callbacks : List Nat               -- registered callbacks, by tag
deriving Repr

/-- a periodic task is running (`_task is not None`) -/
def PMap.transmitting (m : PMap) : Bool := m.running.isSome

def lens (m : PMap) : List Nat := m.layout.map (·.2)

/-- a map as `add_variable` leaves it: all-zero data of `ceil(total/8)` bytes -/
def mkMap (cob : Option Nat) (enabled rtr : Bool) (layout : List (Nat × Nat)) : PMap :=
  { cobId := cob, enabled := enabled, rtrAllowed := rtr, layout := layout,
    data := List.replicate (dataSize (layout.map (·.2))) 0, timestamp := none, period := none,
    isReceived := false, running := none, callbacks := [] }

/-- `PdoMap.on_message(can_id, data, timestamp)`: new map and the callbacks invoked (in order) -/
def onMessage (m : PMap) (canId : Nat) (data : Bytes) (ts : Int) : PMap × List Nat :=
  if m.cobId = some canId ∧ ¬ m.transmitting then
    ({ m with isReceived := true, data := data,
              period := (match m.timestamp with | some t0 => some (ts - t0) | none => m.period),
              timestamp := some ts }, m.callbacks)
  else (m, [])

/-- `var.raw` of variable `i` of the map -/
def readVar (m : PMap) (i : Nat) : Option Val :=
  match m.layout[i]?, (offsets (lens m))[i]? with
  | some (t, len), some off => readRaw m.data (some t) off len
  | _, _ => none

/-- `var.raw = v` -/
def writeVar (m : PMap) (i : Nat) (v : Val) : Option PMap :=
  match m.layout[i]?, (offsets (lens m))[i]? with
  | some (t, len), some off => (writeRaw m.data (some t) off len v).map fun d => { m with data := d }
  | _, _ => none

/-- `transmit()`: the frame handed to `send_message` (`none`: no COB-ID, `send_message` raises) —
    exactly one frame, whether or not a periodic task of the map is running -/
def transmit (m : PMap) : Option (Nat × Bytes) := m.cobId.map fun c => (c, m.data)

/-! ### periodic transmission of a map: `start(period)`, `stop()`, `update()` -/

/-- the period `start(period)` works with: the argument, else the map's `period` attribute -/
def effPeriod (arg cur : Option Int) : Option Int :=
  match arg with
  | some q => some q
  | none => cur

/-- `PdoMap.stop()`: the running task (if any) is stopped and forgotten -/
def stop (m : PMap) : PMap := { m with running := none }

/-- what `start` leaves when it raises: the old task is stopped, `period` already assigned -/
def startFailed (m : PMap) (p : Option Int) : PMap := { m with running := none, period := p }

/-- `PdoMap.start(period)`: stops a running task first, stores a given period, raises (`false`) when
    there is no period (`None` or 0) or no COB-ID (`send_periodic` cannot build the message), else a
    task with that period runs -/
def start (m : PMap) (period : Option Int) : PMap × Bool :=
  match effPeriod period m.period, m.cobId with
  | some q, some _ =>
    if q = 0 then (startFailed m (some q), false)
    else ({ m with running := some q, period := some q }, true)
  | p, _ => (startFailed m p, false)

/-- `PdoMap.update()`: hands the current data to the running task; the map itself is unchanged -/
def update (m : PMap) : PMap := m

/-- a call of the periodic-transmission API -/
inductive Ctl where
  | start (period : Option Int)
  | stop
  | update
deriving Repr

def ctl (m : PMap) : Ctl → PMap
  | .start p => (start m p).1
  | .stop => stop m
  | .update => update m

/-- a step on one map of the producing side: a typed write to a mapped variable (a refused write
    leaves the map as it was) or a periodic-transmission call -/
inductive PStep where
  | write (i : Nat) (v : Val)
  | ctl (c : Ctl)

def PStep.isWrite : PStep → Bool
  | .write _ _ => true
  | .ctl _ => false

def pstep (m : PMap) : PStep → PMap
  | .write i v => (writeVar m i v).getD m
  | .ctl c => ctl m c

def runP (m : PMap) (steps : List PStep) : PMap := steps.foldl pstep m

/-- the map without its periodic-transmission state -/
def core (m : PMap) : PMap := { m with running := none, period := none }

/-- `remote_request()`: sent only for an enabled map that allows RTR -/
def remoteRequest (m : PMap) : Option (Option Nat) :=
  if m.enabled ∧ m.rtrAllowed then some m.cobId else none

/-- the consuming side: maps and the network's subscriber table (COB-ID ↦ map indices, in
    subscription order, no duplicates per COB-ID) -/
structure Consumer where
  maps : List PMap
  subs : List (Nat × Nat)
deriving Repr

/-- `PdoMap.subscribe()` of map `k` -/
def subscribeMap (c : Consumer) (k : Nat) : Consumer :=
  match c.maps[k]? with
  | some m =>
    (match m.enabled, m.cobId with
     | true, some cob => if c.subs.contains (cob, k) then c else { c with subs := c.subs ++ [(cob, k)] }
     | _, _ => c)
  | none => c

/-- `PdoMap.read(from_od=True)` of consumer map `k` whose communication parameter 1 holds
    `cob | (¬enabled)<<31 | (¬rtr)<<30` and whose mapping parameter names the map's own layout:
    COB-ID, valid and RTR flags are taken from the entry, the map is cleared and mapped again (data
    all zero), and the map is subscribed when enabled -/
def readFromOd (c : Consumer) (k : Nat) (cob : Nat) (enabled rtr : Bool) : Consumer :=
  match c.maps[k]? with
  | some m =>
    let m' := { m with cobId := some cob, enabled := enabled, rtrAllowed := rtr,
                       data := (mkMap (some cob) enabled rtr m.layout).data }
    subscribeMap { c with maps := c.maps.set k m' } k
  | none => c

/-- deliver to one map -/
def deliverTo (maps : List PMap) (k : Nat) (canId : Nat) (data : Bytes) (ts : Int) : List PMap × List (Nat × Nat) :=
  match maps[k]? with
  | some m =>
    let (m', cbs) := onMessage m canId data ts
    (maps.set k m', cbs.map fun cb => (k, cb))
  | none => (maps, [])

/-- `Network.notify(can_id, data, timestamp)` on the consumer's network: every handler subscribed
    to that id, in subscription order; returns the (map, callback) invocations in order -/
def notify (c : Consumer) (canId : Nat) (data : Bytes) (ts : Int) : Consumer × List (Nat × Nat) :=
  let targets := (c.subs.filter fun s => s.1 = canId).map (·.2)
  let (maps, log) := targets.foldl
    (fun (acc : List PMap × List (Nat × Nat)) k =>
      let (ms, l) := deliverTo acc.1 k canId data ts
      (ms, acc.2 ++ l)) (c.maps, [])
  ({ c with maps := maps }, log)

/-- `wait_for_reception(timeout)`: clears `is_received`, waits; the frames in `arrivals` are
    delivered meanwhile; returns the timestamp if one of them was for this map -/
def waitForReception (c : Consumer) (k : Nat) (arrivals : List (Nat × Bytes × Int)) :
    Consumer × Option Int :=
  let c0 : Consumer := match c.maps[k]? with
    | some m => { c with maps := c.maps.set k { m with isReceived := false } }
    | none => c
  let c1 := arrivals.foldl (fun acc a => (notify acc a.1 a.2.1 a.2.2).1) c0
  match c1.maps[k]? with
  | some m => (c1, if m.isReceived then m.timestamp else none)
  | none => (c1, none)

end Canopen.Pdo
