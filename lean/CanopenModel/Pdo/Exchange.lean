/-
Model of PDO exchange (canopen/pdo/base.py: `PdoMap.on_message`, `transmit`, `remote_request`,
`subscribe`, `add_callback`, `wait_for_reception`; canopen/network.py: dispatch by COB-ID) for a
producing and a consuming node object that share a PDO configuration on one bus.
Variable access inside a frame is the C05 model (`readRaw` / `writeRaw`).
-/
import CanopenModel.Pdo.Bits

namespace Canopen.Pdo
open Canopen Canopen.Codec

structure PMap where
  cobId : Option Nat
  enabled : Bool
  rtrAllowed : Bool
  layout : List (Nat × Nat)          -- (data type, mapped bit length) per variable
  data : Bytes
  timestamp : Option Int
  period : Option Int
  isReceived : Bool
  running : Option Int               -- period of the running periodic task (`_task is not None`), else `none`
  callbacks : List (Nat × Bool)      -- registered callbacks: tag, and whether the callback raises
deriving Repr

/-- a periodic task is running (`_task is not None`) -/
def PMap.transmitting (m : PMap) : Bool := m.running.isSome

def lens (m : PMap) : List Nat := m.layout.map (·.2)

/-- a map as `add_variable` leaves it: all-zero data of `ceil(total/8)` bytes -/
def mkMap (cob : Option Nat) (enabled rtr : Bool) (layout : List (Nat × Nat)) : PMap :=
  { cobId := cob, enabled := enabled, rtrAllowed := rtr, layout := layout,
    data := List.replicate (dataSize (layout.map (·.2))) 0, timestamp := none, period := none,
    isReceived := false, running := none, callbacks := [] }

/-! ### reception: `PdoMap.on_message` as an ordered sequence of effects -/

/-- what `on_message` leaves: the map, what every invoked callback saw (tag, the map at the moment of
    the call), whether the waiting readers were notified, whether a callback raised -/
structure Recv where
  map : PMap
  seen : List (Nat × PMap)
  woken : Bool
  raised : Bool
deriving Repr

/-- the callbacks invoked by `for callback in self.callbacks: callback(self)`: in order, up to and
    including the first one that raises -/
def invoked : List (Nat × Bool) → List (Nat × Bool)
  | [] => []
  | cb :: rest => if cb.2 then [cb] else cb :: invoked rest

def anyRaises (cbs : List (Nat × Bool)) : Bool := cbs.any (·.2)

/-- `if self.timestamp is not None: self.period = timestamp - self.timestamp` -/
def newPeriod (m : PMap) (ts : Int) : Option Int :=
  match m.timestamp with
  | some t0 => some (ts - t0)
  | none => m.period

/-- the statements of the receive block -/
inductive Effect where
  | received      -- `self.is_received = True`
  | data          -- `self.data = data`
  | period        -- `self.period = timestamp - self.timestamp` (when there was a timestamp)
  | timestamp     -- `self.timestamp = timestamp`
  | wake          -- `self.receive_condition.notify_all()`
  | callbacks     -- `for callback in self.callbacks: callback(self)`
deriving Repr, DecidableEq

def applyEffect (data : Bytes) (ts : Int) (r : Recv) : Effect → Recv
  | .received => { r with map := { r.map with isReceived := true } }
  | .data => { r with map := { r.map with data := data } }
  | .period => { r with map := { r.map with period := newPeriod r.map ts } }
  | .timestamp => { r with map := { r.map with timestamp := some ts } }
  | .wake => { r with woken := true }
  | .callbacks => { r with seen := r.seen ++ (invoked r.map.callbacks).map (fun cb => (cb.1, r.map)),
                           raised := anyRaises r.map.callbacks }

/-- statements run in order; an exception ends the block -/
def runEffects (data : Bytes) (ts : Int) (r : Recv) : List Effect → Recv
  | [] => r
  | e :: es => if r.raised then r else runEffects data ts (applyEffect data ts r e) es

/-- the order of the statements in `PdoMap.on_message` -/
def onMessageOrder : List Effect := [.received, .data, .period, .timestamp, .wake, .callbacks]

/-- `PdoMap.on_message(can_id, data, timestamp)` -/
def onMessage (m : PMap) (canId : Nat) (data : Bytes) (ts : Int) : Recv :=
  if m.cobId = some canId ∧ ¬ m.transmitting then
    runEffects data ts { map := m, seen := [], woken := false, raised := false } onMessageOrder
  else { map := m, seen := [], woken := false, raised := false }

/-- the map after an accepted frame -/
def accept (m : PMap) (data : Bytes) (ts : Int) : PMap :=
  { m with isReceived := true, data := data, period := newPeriod m ts, timestamp := some ts }

/-- `var.raw` of variable `i` of the map -/
def readVar (m : PMap) (i : Nat) : Option Val :=
  match m.layout[i]?, (offsets (lens m))[i]? with
  | some (t, len), some off => readRaw m.data (some t) off len
  | _, _ => none

/-- `var.raw = v` -/
def writeVar (m : PMap) (i : Nat) (v : Val) : Option PMap :=
  match m.layout[i]?, (offsets (lens m))[i]? with
  | some (t, len), some off => (writeRaw m.data (some t) off len v).map fun d => { m with data := d }
  | _, _ => none

/-- `transmit()`: the frame handed to `send_message` (`none`: no COB-ID, `send_message` raises) —
    exactly one frame, whether or not a periodic task of the map is running -/
def transmit (m : PMap) : Option (Nat × Bytes) := m.cobId.map fun c => (c, m.data)

/-! ### periodic transmission of a map: `start(period)`, `stop()`, `update()` -/

/-- the period `start(period)` works with: the argument, else the map's `period` attribute -/
def effPeriod (arg cur : Option Int) : Option Int :=
  match arg with
  | some q => some q
  | none => cur

/-- `PdoMap.stop()`: the running task (if any) is stopped and forgotten -/
def stop (m : PMap) : PMap := { m with running := none }

/-- what `start` leaves when it raises: the old task is stopped, `period` already assigned -/
def startFailed (m : PMap) (p : Option Int) : PMap := { m with running := none, period := p }

/-- `PdoMap.start(period)`: stops a running task first, stores a given period, raises (`false`) when
    there is no period (`None` or 0) or no COB-ID (`send_periodic` cannot build the message), else a
    task with that period runs -/
def start (m : PMap) (period : Option Int) : PMap × Bool :=
  match effPeriod period m.period, m.cobId with
  | some q, some _ =>
    if q = 0 then (startFailed m (some q), false)
    else ({ m with running := some q, period := some q }, true)
  | p, _ => (startFailed m p, false)

/-- `PdoMap.update()`: hands the current data to the running task; the map itself is unchanged -/
def update (m : PMap) : PMap := m

/-- a call of the periodic-transmission API -/
inductive Ctl where
  | start (period : Option Int)
  | stop
  | update
deriving Repr

def ctl (m : PMap) : Ctl → PMap
  | .start p => (start m p).1
  | .stop => stop m
  | .update => update m

/-- a step on one map of the producing side: a typed write to a mapped variable (a refused write
    leaves the map as it was) or a periodic-transmission call -/
inductive PStep where
  | write (i : Nat) (v : Val)
  | ctl (c : Ctl)

def PStep.isWrite : PStep → Bool
  | .write _ _ => true
  | .ctl _ => false

def pstep (m : PMap) : PStep → PMap
  | .write i v => (writeVar m i v).getD m
  | .ctl c => ctl m c

def runP (m : PMap) (steps : List PStep) : PMap := steps.foldl pstep m

/-- the map without its periodic-transmission state -/
def core (m : PMap) : PMap := { m with running := none, period := none }

/-- `remote_request()`: sent only for an enabled map that allows RTR -/
def remoteRequest (m : PMap) : Option (Option Nat) :=
  if m.enabled ∧ m.rtrAllowed then some m.cobId else none

/-- the consuming side: maps and the network's subscriber table (COB-ID ↦ map indices, in
    subscription order, no duplicates per COB-ID) -/
structure Consumer where
  maps : List PMap
  subs : List (Nat × Nat)
deriving Repr

/-- `PdoMap.subscribe()` of map `k` -/
def subscribeMap (c : Consumer) (k : Nat) : Consumer :=
  match c.maps[k]? with
  | some m =>
    (match m.enabled, m.cobId with
     | true, some cob => if c.subs.contains (cob, k) then c else { c with subs := c.subs ++ [(cob, k)] }
     | _, _ => c)
  | none => c

/-- `PdoMap.read(from_od=True)` of consumer map `k` whose communication parameter 1 holds
    `cob | (¬enabled)<<31 | (¬rtr)<<30` and whose mapping parameter names the map's own layout:
    COB-ID, valid and RTR flags are taken from the entry, the map is cleared and mapped again (data
    all zero), and the map is subscribed when enabled -/
def readFromOd (c : Consumer) (k : Nat) (cob : Nat) (enabled rtr : Bool) : Consumer :=
  match c.maps[k]? with
  | some m =>
    let m' := { m with cobId := some cob, enabled := enabled, rtrAllowed := rtr,
                       data := (mkMap (some cob) enabled rtr m.layout).data }
    subscribeMap { c with maps := c.maps.set k m' } k
  | none => c

/-- a callback invocation: consumer map, callback tag, the map as the callback saw it -/
abbrev Call := Nat × Nat × PMap

/-- deliver to one map: maps afterwards, invocations, whether a callback raised -/
def deliverTo (maps : List PMap) (k : Nat) (canId : Nat) (data : Bytes) (ts : Int) : List PMap × List Call × Bool :=
  match maps[k]? with
  | some m =>
    let r := onMessage m canId data ts
    (maps.set k r.map, r.seen.map (fun e => (k, e.1, e.2)), r.raised)
  | none => (maps, [], false)

/-- `for callback in callbacks: callback(can_id, data, timestamp)` in `Network.notify`: the handlers
    in subscription order; an exception out of a handler ends the loop -/
def notifyLoop (canId : Nat) (data : Bytes) (ts : Int) : List Nat → List PMap → List Call → List PMap × List Call × Bool
  | [], maps, log => (maps, log, false)
  | k :: ks, maps, log =>
    let r := deliverTo maps k canId data ts
    if r.2.2 then (r.1, log ++ r.2.1, true) else notifyLoop canId data ts ks r.1 (log ++ r.2.1)

/-- a received frame: `MessageListener.on_message_received` → `Network.notify(can_id, data, timestamp)`
    on the consumer's network: every handler subscribed to that id, in subscription order, until one
    raises (the listener logs and swallows the exception); returns the invocations in order -/
def notify (c : Consumer) (canId : Nat) (data : Bytes) (ts : Int) : Consumer × List Call :=
  let targets := (c.subs.filter fun s => s.1 = canId).map (·.2)
  let r := notifyLoop canId data ts targets c.maps []
  ({ c with maps := r.1 }, r.2.1)

/-- the state in which a wait starts: `is_received = False` -/
def clearReceived (c : Consumer) (k : Nat) : Consumer :=
  match c.maps[k]? with
  | some m => { c with maps := c.maps.set k { m with isReceived := false } }
  | none => c

/-- what `wait_for_reception` returns when it reads the map: `timestamp if is_received else None` -/
def waitResult (c : Consumer) (k : Nat) : Option Int :=
  match c.maps[k]? with
  | some m => if m.isReceived then m.timestamp else none
  | none => none

/-- `wait_for_reception(timeout)` with the frames in `arrivals` all delivered while the reader is
    inside `wait()` (scripted monitor): clears `is_received`, waits, then reads the map -/
def waitForReception (c : Consumer) (k : Nat) (arrivals : List (Nat × Bytes × Int)) :
    Consumer × Option Int :=
  let c1 := arrivals.foldl (fun acc a => (notify acc a.1 a.2.1 a.2.2).1) (clearReceived c k)
  (c1, waitResult c1 k)

/-- one arrival while a reader thread waits: the first frame after which the map says `is_received`
    ends the wait (the reader returns that moment's timestamp); later frames find nobody waiting -/
def threadedStep (k : Nat) (acc : Consumer × Option Int) (a : Nat × Bytes × Int) : Consumer × Option Int :=
  let c' := (notify acc.1 a.1 a.2.1 a.2.2).1
  (c', match acc.2 with
       | some r => some r
       | none => waitResult c' k)

/-- `wait_for_reception(timeout)` in a thread of its own, the frames delivered one after the other
    from another thread once the reader waits; `none`: time-out -/
def waitThreaded (c : Consumer) (k : Nat) (arrivals : List (Nat × Bytes × Int)) : Consumer × Option Int :=
  arrivals.foldl (threadedStep k) (clearReceived c k, none)

end Canopen.Pdo
