/-
Model of PDO bit mapping: `PdoMap.add_variable` (offsets, frame size), `PdoVariable.get_data`
and `PdoVariable.set_data` (canopen/pdo/base.py), composed with the codec model for the typed
accessors `Variable.raw` (canopen/variable.py).

A frame is a byte list; "bit i of the frame" is bit `i % 8` of byte `i / 8`, i.e. bit `i` of
`leVal frame` (bit 0 of byte 0 first, little-endian).
-/
import CanopenModel.Codec

namespace Canopen.Pdo
open Canopen Canopen.Codec Canopen.Gen.Datatypes

/-- the bit field `[off, off+len)` of a number -/
def field (x off len : Nat) : Nat := (x >>> off) % 2 ^ len

/-- `add_variable`: offset of each entry = running sum of the lengths before it -/
def offsets : List Nat → List Nat
  | [] => []
  | l :: ls => 0 :: (offsets ls).map (· + l)

/-- `_update_data_size`: `ceil(total / 8)` bytes -/
def dataSize (lens : List Nat) : Nat := (lens.sum + 7) / 8

def isSigned (t : Option Nat) : Bool :=
  match t with
  | some t => SIGNED_TYPES.contains t
  | none => false

/-- `PdoVariable.get_data`; `none` = an exception (OverflowError / ValueError) -/
def getData (frame : Bytes) (t : Option Nat) (off len : Nat) : Option Bytes :=
  if off % 8 ≠ 0 ∨ len % 8 ≠ 0 then
    let size := bitLen t / 8
    let value := field (leVal frame) off len
    let signed := isSigned t
    if signed ∧ len = 0 then none          -- `value >> -1`
    else
      let n : Int := if signed ∧ value.testBit (len - 1) then (value : Int) - ((2 ^ len : Nat) : Int)
                     else (value : Int)
      -- int.to_bytes(size, "little", signed=signed)
      if inRange (8 * size) signed n then some (leBytes size (ofSigned (8 * size) n)) else none
  else some ((frame.drop (off / 8)).take (bitLen t / 8))

/-- `PdoVariable.set_data`; `none` = OverflowError of `to_bytes` -/
def setData (frame : Bytes) (off len : Nat) (data : Bytes) : Option Bytes :=
  if off % 8 ≠ 0 ∨ len % 8 ≠ 0 then
    let mask := 2 ^ len - 1
    let value := leVal data &&& mask
    let fr := leVal frame
    -- frame & ~(mask << offset) | value << offset   (Python ints; clearing = xor with the part)
    let fr' := (fr ^^^ (fr &&& (mask <<< off))) ||| (value <<< off)
    if fr' < 256 ^ frame.length then some (leBytes frame.length fr') else none
  else some (frame.take (off / 8) ++ data ++ frame.drop (off / 8 + data.length))

/-- `var.raw` getter: `decode_raw(get_data())` -/
def readRaw (frame : Bytes) (t : Option Nat) (off len : Nat) : Option Val :=
  (getData frame t off len).bind (decodeRaw t)

/-- `var.raw = v` setter: `set_data(encode_raw(v))` -/
def writeRaw (frame : Bytes) (t : Option Nat) (off len : Nat) (v : Val) : Option Bytes :=
  (encodeRaw t v).bind (setData frame off len)

end Canopen.Pdo
