/-
Model of how a mapped PDO variable is *addressed* (canopen/pdo/base.py):

* `PdoMap.__getitem__` — an `int` in `range(0, 8)` is a position in the map, any other `int` an object
  index; a `str` that `int(key, 16)` accepts is an object index, any other `str` a name;
* `PdoMap.__getitem_by_index` / `__getitem_by_name` — first entry *with a non-zero length* whose
  index / whose full name (`Variable.name`: `"Parent.Member"` for members of records and arrays,
  the object's own name otherwise) equals the key, `KeyError` when there is none;
* `PdoBase.__getitem__` (`node.rpdo[...]`, `node.tpdo[...]`, `node.pdo[...]`) — map numbers select a
  map, every other key goes to the maps in order, a `KeyError` of one map moves on to the next, any
  other exception (the `IndexError` of a position beyond the map) ends the lookup.

The variable found is identified by (map number, position); its bit field is the one
`add_variable` gave that position (`offsets`), so reading / writing through a key is reading /
writing that field with `readRaw` / `writeRaw` of `Bits.lean`.
-/
import CanopenModel.Pdo.Bits

namespace Canopen.Pdo.Lookup
open Canopen Canopen.Codec Canopen.Pdo

/-- one entry of `PdoMap.map` as the lookups see it; `parent` = name of the record / array the
    object is a member of -/
structure MVar where
  typ : Nat
  len : Nat
  index : Nat
  sub : Nat
  parent : Option (List Char)
  own : List Char
deriving DecidableEq, Repr

/-- `Variable.__init__`: `od.parent.name + "." + od.name` for members of records and arrays -/
def MVar.fullName (v : MVar) : List Char :=
  match v.parent with
  | some p => p ++ '.' :: v.own
  | none => v.own

/-- `for var in self.map: if var.length: … if <test>: return var` — position of the first entry
    with a non-zero length that passes the test -/
def findPos (p : MVar → Bool) : List MVar → Option Nat
  | [] => none
  | v :: vs => if v.len ≠ 0 ∧ p v = true then some 0 else (findPos p vs).map (· + 1)

/-- `__getitem_by_index`: `var.index == value` (the sub-index plays no part) -/
def byIndex (m : List MVar) (k : Nat) : Option Nat := findPos (fun v => decide (v.index = k)) m

/-- `__getitem_by_name`: `var.name == value` -/
def byName (m : List MVar) (s : List Char) : Option Nat := findPos (fun v => decide (v.fullName = s)) m

/-- value of a string of hex digits, `none` when another character occurs -/
def hexValue (acc : Nat) : List Char → Option Nat
  | [] => some acc
  | c :: cs => match hexVal c with
    | some d => hexValue (acc * 16 + d) cs
    | none => none

def stripHexPrefix : List Char → List Char
  | '0' :: 'x' :: r => r
  | '0' :: 'X' :: r => r
  | s => s

/-- `int(key, 16)` for keys made of letters, digits and dots: an optional `0x` / `0X`, then at
    least one hex digit and nothing else; `none` = ValueError -/
def hexKey? (s : List Char) : Option Nat :=
  let d := stripHexPrefix s
  if d.isEmpty then none else hexValue 0 d

/-- the key of a `[...]` access -/
inductive Key where
  | int (k : Nat)
  | str (s : List Char)
deriving DecidableEq, Repr

/-- outcome of `PdoMap.__getitem__` -/
inductive Found where
  | var (pos : Nat)
  | keyError
  | indexError
deriving DecidableEq, Repr

def Found.ofOpt : Option Nat → Found
  | some i => .var i
  | none => .keyError

/-- `self.map[key]` for `key in range(0, 8)` -/
def byPosition (m : List MVar) (k : Nat) : Found :=
  if k < m.length then .var k else .indexError

/-- a `str` key: `try: by_index(int(key, 16)) except ValueError: by_name(key)` -/
def byString (m : List MVar) (s : List Char) : Found :=
  match hexKey? s with
  | some k => Found.ofOpt (byIndex m k)
  | none => Found.ofOpt (byName m s)

/-- `PdoMap.__getitem__` -/
def mapGet (m : List MVar) : Key → Found
  | .int k => if k < 8 then byPosition m k else Found.ofOpt (byIndex m k)
  | .str s => byString m s

/-- outcome of an access through a collection: a variable (map number, position), a whole map, or
    an exception -/
inductive CFound where
  | var (mi pos : Nat)
  | map (mi : Nat)
  | err
deriving DecidableEq, Repr

/-- what one map contributes to the loop of `PdoBase.__getitem__` -/
def scanStep (f : Found) (base : Nat) (rest : CFound) : CFound :=
  match f with
  | .var i => .var base i
  | .keyError => rest
  | .indexError => .err

/-- `for pdo_map in self.map.values(): try: return pdo_map[key] except KeyError: continue`, then
    `raise KeyError` -/
def scan (key : Key) : List (List MVar) → Nat → CFound
  | [], _ => .err
  | m :: ms, base => scanStep (mapGet m key) base (scan key ms (base + 1))

/-- the `int` keys `PdoBase.__getitem__` takes for the number of a map -/
def isMapKey (k : Nat) : Bool :=
  (0x1A00 ≤ k && k ≤ 0x1BFF) || (0x1600 ≤ k && k ≤ 0x17FF) || (0 < k && k ≤ 512)

/-- the collections: `node.rpdo` / `node.tpdo` (maps numbered from 1) and `node.pdo` (the first
    `nrx` maps are the receive maps, filed under `0x1A00 + i`, the others under `0x1600 + j`) -/
inductive Coll where
  | numbered
  | legacy (nrx : Nat)
deriving DecidableEq, Repr

/-- `self.map[key]` of the collection for a map-number key; `none` = KeyError -/
def selectMap (c : Coll) (n k : Nat) : Option Nat :=
  match c with
  | .numbered => if 0 < k ∧ k ≤ n then some (k - 1) else none
  | .legacy nrx =>
    if 0x1A00 ≤ k ∧ k < 0x1A00 + nrx then some (k - 0x1A00)
    else if 0x1600 ≤ k ∧ k < 0x1600 + (n - nrx) then some (nrx + (k - 0x1600))
    else none

def CFound.ofMap : Option Nat → CFound
  | some j => .map j
  | none => .err

/-- `PdoBase.__getitem__` -/
def collGet (c : Coll) (maps : List (List MVar)) : Key → CFound
  | .int k => if isMapKey k = true then CFound.ofMap (selectMap c maps.length k) else scan (.int k) maps 0
  | .str s => scan (.str s) maps 0

/-- where the access starts: one map directly (`node.tpdo[j + 1][key]`) or a collection -/
inductive How where
  | direct (j : Nat)
  | coll (c : Coll)
deriving DecidableEq, Repr

def directFound (j : Nat) : Found → CFound
  | .var i => .var j i
  | _ => .err

def directGet (maps : List (List MVar)) (j : Nat) (key : Key) : CFound :=
  match maps[j]? with
  | some m => directFound j (mapGet m key)
  | none => .err

/-- the variable an access reaches -/
def resolve (h : How) (maps : List (List MVar)) (key : Key) : CFound :=
  match h with
  | .direct j => directGet maps j key
  | .coll c => collGet c maps key

/-! ### the bit field of a position, typed access through a key -/

def lens (m : List MVar) : List Nat := m.map (·.len)

/-- type, bit offset (`add_variable`: running sum of the lengths before it) and length of entry `i` -/
def slot (m : List MVar) (i : Nat) : Option (Nat × Nat × Nat) :=
  match m[i]?, (offsets (lens m))[i]? with
  | some v, some off => some (v.typ, off, v.len)
  | _, _ => none

/-- `m.map[i].raw` -/
def readAt (m : List MVar) (frame : Bytes) (i : Nat) : Option Val :=
  match slot m i with
  | some (t, off, len) => readRaw frame (some t) off len
  | none => none

/-- `m.map[i].raw = v`; the new frame -/
def writeAt (m : List MVar) (frame : Bytes) (i : Nat) (v : Val) : Option Bytes :=
  match slot m i with
  | some (t, off, len) => writeRaw frame (some t) off len v
  | none => none

/-- read through a key: the variable reached and what its `raw` gives (`none` = exception) -/
def keyedRead (h : How) (maps : List (List MVar)) (frames : List Bytes) (key : Key) :
    Option (Nat × Nat × Option Val) :=
  match resolve h maps key with
  | .var mi i =>
    match maps[mi]?, frames[mi]? with
    | some m, some fr => some (mi, i, readAt m fr i)
    | _, _ => none
  | _ => none

/-- the frames after a write that produced `new` for map `mi` (`none`: exception, nothing changes) -/
def putFrame (frames : List Bytes) (mi : Nat) (new : Option Bytes) : Option (List Bytes) :=
  match new with
  | some fr => some (frames.set mi fr)
  | none => none

/-- write through a key: the variable reached and the frames of all maps afterwards -/
def keyedWrite (h : How) (maps : List (List MVar)) (frames : List Bytes) (key : Key) (v : Val) :
    Option (Nat × Nat × Option (List Bytes)) :=
  match resolve h maps key with
  | .var mi i =>
    match maps[mi]?, frames[mi]? with
    | some m, some fr => some (mi, i, putFrame frames mi (writeAt m fr i v))
    | _, _ => none
  | _ => none

end Canopen.Pdo.Lookup
