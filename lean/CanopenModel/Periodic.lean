/-
Periodic transmissions (C17): `SyncProducer.start/stop` (canopen/sync.py), `PdoMap.start/stop/update`,
`PdoVariable.set_data → update`, `PdoMap.on_message` (the period measured between two receptions),
`PdoBase.stop` (canopen/pdo/base.py), the public `period` attributes of `SyncProducer` and `PdoMap`, `NmtSlave.start_heartbeat/
stop_heartbeat/update_heartbeat/on_write/send_command/on_command/state setter`, `NmtMaster.start_/
stop_node_guarding` (canopen/nmt.py), `Network.send_periodic/disconnect`, `PeriodicMessageTask`
(canopen/network.py), `LocalNode.set_data` for object 0x1017 (canopen/node/local.py).

The bus is the simulated bus of the harness: `send_periodic(msg, period)` registers a *recording*
cyclic task (a snapshot of id, payload, remote flag, period and a `live` flag cleared by `stop()`),
in one of two flavours: with `modify_data` (payload replaced in place) or without.

Conventions.  Periods are natural numbers of microseconds (the harness hands the real code
`µs / 1e6` and reads the recorded float back as `round(p · 1e6)`); `Option Nat` is Python's
`Optional[float]`; `some 0` is the falsy period `0`.  A Python call that raises becomes the flag
`false` in the result pair; the state returned is the state the raise leaves behind.

`slots o` is the task-handle attribute of producer `o`:
  `Owner.sync`      ↦ `network.sync._task`
  `Owner.pdo n k`   ↦ `network[n].pdo[k]._task`
  `Owner.hb n`      ↦ `network[n].nmt._send_task`            (local node, `NmtSlave`)
  `Owner.guard n`   ↦ `network[n].nmt._node_guarding_producer` (remote node, `NmtMaster`; n = 0 is
                      `network.nmt`)
Every bus task carries the producer that created it as a ghost field `owner` (never printed, never
read by the model's control flow); the theorems of C17 are stated with it.
-/
import CanopenModel.Bytes
import CanopenModel.Generated.PeriodicTables

namespace Canopen.Periodic
open Canopen

inductive Owner where
  | sync
  | pdo (n k : Nat)
  | hb (n : Nat)
  | guard (n : Nat)
deriving DecidableEq, Repr

/-- one cyclic task registered at the simulated bus -/
structure BusTask where
  canId : Nat
  data : Bytes
  remote : Bool
  period : Nat
  owner : Owner
  live : Bool
deriving Repr

/-- the simulated bus: tasks `0 … n-1` in creation order -/
structure Bus where
  n : Nat
  task : Nat → BusTask

/-- `bus.send_periodic(msg, period)` -/
def Bus.send (b : Bus) (bt : BusTask) : Bus :=
  ⟨b.n + 1, fun i => if i = b.n then bt else b.task i⟩

/-- `task.stop()` of the recording task -/
def Bus.stop (b : Bus) (i : Nat) : Bus :=
  ⟨b.n, fun j => if j = i then { b.task j with live := false } else b.task j⟩

/-- `task.modify_data(msg)` of the recording task (flavour with `modify_data`) -/
def Bus.modifyData (b : Bus) (i : Nat) (d : Bytes) : Bus :=
  ⟨b.n, fun j => if j = i then { b.task j with data := d } else b.task j⟩

/-- `canopen.network.PeriodicMessageTask`: `.msg` (id, data, remote), `.period`, and `._task`
    (index of the bus-level cyclic task it currently drives) -/
structure PTask where
  canId : Nat
  data : Bytes
  remote : Bool
  period : Nat
  idx : Nat
deriving DecidableEq, Repr

/-- the attributes of a `PdoMap` that matter here (`nvars` = number of mapped one-byte variables) -/
structure PdoF where
  cob : Option Nat
  nvars : Nat
  data : Bytes
  period : Option Nat
  /-- `PdoMap.timestamp`: time (µs) of the last frame `on_message` accepted -/
  stamp : Option Nat := none
deriving Repr

/-- the attributes of an `NmtSlave` and the value its node holds for object 0x1017
    (`none`: neither stored data nor ParameterValue nor DefaultValue → reading aborts) -/
structure SlaveF where
  st : Nat
  hbTime : Int
  od1017 : Option Nat
deriving Repr

structure State where
  bus : Bus
  connected : Bool
  slots : Owner → Option PTask
  syncPeriod : Option Nat
  pdo : Nat → Nat → PdoF
  slave : Nat → SlaveF
  /-- the clock of the environment (µs): the time stamp the next received frame carries; it only
      moves forward -/
  now : Nat := 0

/-- what is fixed during a history -/
structure Cfg where
  /-- the bus's cyclic tasks have `modify_data` -/
  modify : Bool
  /-- `network.sync.cob_id` -/
  syncCob : Nat
  /-- the `(node, map)` pairs that exist, in `network.nodes` / `pdo.map` iteration order -/
  pdos : List (Nat × Nat)
  /-- ids of the local nodes, in the order they were added -/
  locals : List Nat
  /-- ids of the remote nodes -/
  remotes : List Nat

def Cfg.valid (c : Cfg) : Owner → Bool
  | .sync => true
  | .pdo n k => c.pdos.contains (n, k)
  | .hb n => c.locals.contains n
  | .guard n => n == 0 || c.remotes.contains n

def setSlot (s : State) (o : Owner) (v : Option PTask) : State :=
  { s with slots := fun o' => if o' = o then v else s.slots o' }

def setPdo (s : State) (n k : Nat) (p : PdoF) : State :=
  { s with pdo := fun n' k' => if n' = n ∧ k' = k then p else s.pdo n' k' }

def setSlave (s : State) (n : Nat) (v : SlaveF) : State :=
  { s with slave := fun n' => if n' = n then v else s.slave n' }

/-! ### canopen/network.py -/

/-- `Network.send_periodic(can_id, data, period, remote)` → `PeriodicMessageTask(...)`:
    `can.Message(is_extended_id=can_id > 0x7FF, …)` raises `TypeError` for `can_id = None`,
    `self.bus.send_periodic` raises `AttributeError` after `disconnect()` (`network.bus is None`).
    Result: new bus and the task handle, or `none` when it raised (nothing changed). -/
def sendPeriodic (s : State) (o : Owner) (canId : Option Nat) (data : Bytes) (period : Nat)
    (remote : Bool) : Option (Bus × PTask) :=
  match canId with
  | none => none
  | some id =>
    if s.connected then
      some (s.bus.send ⟨id, data, remote, period, o, true⟩, ⟨id, data, remote, period, s.bus.n⟩)
    else none

/-- `PeriodicMessageTask.update(data)`: in place when the bus task has `modify_data`, otherwise
    stop-and-restart, and only when the payload differs. -/
def ptUpdate (modify : Bool) (b : Bus) (o : Owner) (t : PTask) (d : Bytes) : Bus × PTask :=
  if modify then (b.modifyData t.idx d, { t with data := d })
  else if d ≠ t.data then
    ((b.stop t.idx).send ⟨t.canId, d, t.remote, t.period, o, true⟩, { t with data := d, idx := b.n })
  else (b, { t with data := d })

/-! ### the three shapes in which producers use their handle -/

/-- `if self._task is not None: self._task.stop()`  (`SyncProducer.stop`: handle kept) -/
def stopKeep (s : State) (o : Owner) : State :=
  match s.slots o with
  | none => s
  | some t => { s with bus := s.bus.stop t.idx }

/-- `if self._task is not None: self._task.stop(); self._task = None`
    (`PdoMap.stop`, `NmtSlave.stop_heartbeat`, `NmtMaster.stop_node_guarding`) -/
def stopClear (s : State) (o : Owner) : State :=
  match s.slots o with
  | none => s
  | some t => setSlot { s with bus := s.bus.stop t.idx } o none

/-- `if self._task is not None: self._task.update(data)`
    (`PdoMap.update`, `NmtSlave.update_heartbeat`) -/
def updateSlot (c : Cfg) (s : State) (o : Owner) (d : Bytes) : State :=
  match s.slots o with
  | none => s
  | some t =>
    let r := ptUpdate c.modify s.bus o t d
    setSlot { s with bus := r.1 } o (some r.2)

/-- `self._task = self.network.send_periodic(...)` -/
def startSlot (s : State) (o : Owner) (canId : Option Nat) (data : Bytes) (period : Nat)
    (remote : Bool) : State × Bool :=
  match sendPeriodic s o canId data period remote with
  | none => (s, false)
  | some r => (setSlot { s with bus := r.1 } o (some r.2), true)

/-! ### canopen/sync.py (with the repair of finding F3: `start` stops a running task first) -/

/-- the period check shared by `SyncProducer.start` and `PdoMap.start`:
    `if not self.period: raise ValueError` -/
def validPeriod : Option Nat → Option Nat
  | some 0 => none
  | p => p

/-- `if not self.period: raise ValueError(…)` followed by
    `self._task = self.network.send_periodic(cob_id, data, self.period)` -/
def startIfValid (s : State) (o : Owner) (period : Option Nat) (canId : Option Nat) (data : Bytes) :
    State × Bool :=
  match validPeriod period with
  | none => (s, false)
  | some v => startSlot s o canId data v false

/-- `SyncProducer.start(period)` -/
def syncStart (c : Cfg) (s : State) (p : Option Nat) : State × Bool :=
  let s1 := stopKeep s .sync
  let s2 := match p with
    | some v => { s1 with syncPeriod := some v }
    | none => s1
  startIfValid s2 .sync s2.syncPeriod (some c.syncCob) []

/-- `SyncProducer.start(period)` as it was before the repair (kept for the counterexample of F3) -/
def syncStartUnrepaired (c : Cfg) (s : State) (p : Option Nat) : State × Bool :=
  let s2 := match p with
    | some v => { s with syncPeriod := some v }
    | none => s
  startIfValid s2 .sync s2.syncPeriod (some c.syncCob) []

/-- `SyncProducer.stop()` -/
def syncStop (s : State) : State := stopKeep s .sync

/-- `network.sync.period = p` (the attribute is public; `start()` without argument reads it) -/
def syncSetPeriod (s : State) (p : Option Nat) : State := { s with syncPeriod := p }

/-! ### canopen/pdo/base.py -/

/-- `PdoMap.start(period)` -/
def pdoStart (s : State) (n k : Nat) (p : Option Nat) : State × Bool :=
  let s1 := stopClear s (.pdo n k)
  let s2 := match p with
    | some v => setPdo s1 n k { s1.pdo n k with period := some v }
    | none => s1
  startIfValid s2 (.pdo n k) (s2.pdo n k).period (s2.pdo n k).cob (s2.pdo n k).data

/-- `PdoMap.stop()` -/
def pdoStop (s : State) (n k : Nat) : State := stopClear s (.pdo n k)

/-- `pdo.period = p` ("Set explicitly or using the `start()` method") -/
def pdoSetPeriod (s : State) (n k : Nat) (p : Option Nat) : State :=
  setPdo s n k { s.pdo n k with period := p }

/-- what `PdoMap.on_message` stores for a frame stamped `t` when the map is not transmitting:
    the payload, the time since the previous accepted frame as `period` (kept when there was none),
    and the stamp -/
def received (f : PdoF) (t : Nat) (d : Bytes) : PdoF :=
  { f with data := d,
           period := match f.stamp with
             | some t0 => some (t - t0)
             | none => f.period,
           stamp := some t }

/-- `PdoMap.on_message(cob_id, d, now + dt)`: a frame of this map arrives `dt` µs after the previous
    event of the environment; ignored while the map itself transmits (`self._task is not None`) -/
def pdoReceive (s : State) (n k dt : Nat) (d : Bytes) : State :=
  let s1 := { s with now := s.now + dt }
  match s1.slots (.pdo n k) with
  | some _ => s1
  | none => setPdo s1 n k (received (s1.pdo n k) s1.now d)

/-- `pdo.data = bytearray(d); pdo.update()` -/
def pdoUpdate (c : Cfg) (s : State) (n k : Nat) (d : Bytes) : State :=
  let s1 := setPdo s n k { s.pdo n k with data := d }
  updateSlot c s1 (.pdo n k) d

/-- Python's `data[i:i+1] = bytes([v])` (appends when `i` is past the end) -/
def spliceByte (d : Bytes) (i v : Nat) : Bytes := d.take i ++ [v] ++ d.drop (i + 1)

/-- `pdo[i].raw = v` for the `i`-th mapped UNSIGNED8 variable (byte offset `i`):
    `PdoMap.__getitem__` (`IndexError`/`KeyError` past the mapped variables), `encode_raw`
    (`struct.error` for `v > 255`), the byte-aligned branch of `PdoVariable.set_data`, then
    `self.pdo_parent.update()`. -/
def pdoSetByte (c : Cfg) (s : State) (n k i v : Nat) : State × Bool :=
  if i < (s.pdo n k).nvars ∧ v < 256 then
    (pdoUpdate c s n k (spliceByte (s.pdo n k).data i v), true)
  else (s, false)

/-- stop every map in a list (`PdoBase.stop` of `node.pdo`, and the loop of `Network.disconnect`) -/
def stopAll (s : State) : List (Nat × Nat) → State
  | [] => s
  | (n, k) :: r => stopAll (pdoStop s n k) r

/-- `network[n].pdo.stop()` -/
def pdoStopNode (c : Cfg) (s : State) (n : Nat) : State :=
  stopAll s (c.pdos.filter fun e => e.1 == n)

/-! ### canopen/nmt.py, `NmtSlave` -/

def cmdToState (code : Nat) : Option Nat :=
  (Gen.PeriodicTables.COMMAND_TO_STATE.find? fun e => e.1 == code).map (·.2)

def hbId (n : Nat) : Nat := 0x700 + n

/-- `NmtSlave.stop_heartbeat()` -/
def hbStop (s : State) (n : Nat) : State := stopClear s (.hb n)

/-- `NmtSlave.start_heartbeat(heartbeat_time_ms)` -/
def hbStart (s : State) (n : Nat) (ms : Int) : State × Bool :=
  let s1 := setSlave s n { s.slave n with hbTime := ms }
  let s2 := hbStop s1 n
  if ms > 0 then startSlot s2 (.hb n) (some (hbId n)) [(s2.slave n).st] (ms.toNat * 1000) false
  else (s2, true)

/-- `NmtSlave.update_heartbeat()` -/
def hbUpdate (c : Cfg) (s : State) (n : Nat) : State :=
  updateSlot c s (.hb n) [(s.slave n).st]

/-- `NmtSlave.on_write(index, data)`; `struct.unpack_from("<H", data)` raises on fewer than
    two bytes -/
def onWrite (s : State) (n idx : Nat) (data : Bytes) : State × Bool :=
  if idx = 0x1017 then
    match data with
    | lo :: hi :: _ =>
      let ht := lo + 256 * hi
      if ht = 0 then (hbStop s n, true) else hbStart s n ht
    | _ => (s, false)
  else (s, true)

/-- `node.sdo[0x1017].raw = v` on the local node: `encode_raw` (UNSIGNED16 range), then
    `LocalNode.set_data`: write callbacks (`nmt.on_write`) first, store only if none raised -/
def writeHbTime (s : State) (n v : Nat) : State × Bool :=
  if v < 65536 then
    let r := onWrite s n 0x1017 (leBytes 2 v)
    if r.2 then (setSlave r.1 n { r.1.slave n with od1017 := some v }, true) else (r.1, false)
  else (s, false)

/-- the same write arriving as an expedited SDO download on `0x600 + n`: `SdoServer.on_request`
    swallows every exception of the write and answers; the answer itself raises out of
    `Network.send_message` after `disconnect()` -/
def sdoWriteHbTime (s : State) (n v : Nat) : State × Bool :=
  ((writeHbTime s n v).1, s.connected)

/-- `NmtBase.send_command`/`on_command` core: `if code in COMMAND_TO_STATE: self._state = …` -/
def applyCmd (s : State) (n code : Nat) : State :=
  match cmdToState code with
  | some ns => setSlave s n { s.slave n with st := ns }
  | none => s

/-- the tail of `NmtSlave.send_command` after the boot-up message -/
def sendCommandTail (c : Cfg) (s1 : State) (n old : Nat) : State × Bool :=
  if old = 0 ∧ (s1.slave n).st = 127 then
    match (s1.slave n).od1017 with
    | none => (s1, false)                      -- `self._local_node.sdo[0x1017].raw` aborts
    | some v => hbStart s1 n v
  else (hbUpdate c s1 n, true)

/-- `NmtSlave.send_command(code)`: the boot-up message `send_message(0x700 + id, [0])` raises
    `RuntimeError` on a disconnected network, after the state has changed -/
def sendCommand (c : Cfg) (s : State) (n code : Nat) : State × Bool :=
  let old := (s.slave n).st
  let s1 := applyCmd s n code
  if (s1.slave n).st = 0 ∧ s1.connected = false then (s1, false)
  else sendCommandTail c s1 n old

/-- `nmt.state = name` -/
def setState (c : Cfg) (s : State) (n : Nat) (name : String) : State × Bool :=
  match Gen.PeriodicTables.NMT_COMMANDS.find? fun e => e.1 == name with
  | some e => sendCommand c s n e.2
  | none => (s, false)

/-- `NmtSlave.on_command` of local node `n` for a frame `[cmd, nid, …]` on COB-ID 0 -/
def onCommand (c : Cfg) (s : State) (cmd nid n : Nat) : State :=
  let s1 := if nid = n ∨ nid = 0 then applyCmd s n cmd else s
  hbUpdate c s1 n

def onCommandAll (c : Cfg) (s : State) (cmd nid : Nat) : List Nat → State
  | [] => s
  | n :: r => onCommandAll c (onCommand c s cmd nid n) cmd nid r

/-- `network.notify(0, data, t)`: every node's `nmt.on_command` (`struct.unpack_from("BB", data)`
    raises in the first subscriber when `data` is shorter than two bytes); the masters of remote
    nodes only track a state of their own -/
def nmtFrame (c : Cfg) (s : State) (data : Bytes) : State × Bool :=
  match data with
  | cmd :: nid :: _ => (onCommandAll c s cmd nid c.locals, true)
  | _ => (s, c.locals.isEmpty && c.remotes.isEmpty)

/-! ### canopen/nmt.py, `NmtMaster` -/

/-- `NmtMaster.stop_node_guarding()` -/
def guardStop (s : State) (n : Nat) : State := stopClear s (.guard n)

/-- `NmtMaster.start_node_guarding(period)` -/
def guardStart (s : State) (n : Nat) (period : Nat) : State × Bool :=
  let s1 := match s.slots (.guard n) with
    | some _ => guardStop s n
    | none => s
  startSlot s1 (.guard n) (some (hbId n)) [] period true

/-! ### `Network.disconnect`, `Network.__exit__`, `Network.connect` -/

def disconnect (c : Cfg) (s : State) : State :=
  { stopAll s c.pdos with connected := false }

/-- the ways a network is left other than by calling `disconnect()`: the end of a `with network:`
    block, reached normally or through an exception, and `Network.__exit__` called directly without /
    with an exception triple.  `__exit__` is `self.disconnect()` whatever its arguments (and returns
    `None`: an exception on its way up keeps going). -/
inductive ExitWay where
  | withNormal
  | withException
  | exitNormal
  | exitException
deriving DecidableEq, Repr

/-- `Network.connect()`: a bus is created only when there is none (`if self.bus is None`); the
    handles of the producers are not touched -/
def connect (s : State) : State := { s with connected := true }

/-! ### histories -/

inductive Op where
  | syncStart (p : Option Nat)
  | syncStop
  | syncSetPeriod (p : Option Nat)
  | pdoSetPeriod (n k : Nat) (p : Option Nat)
  | pdoReceive (n k dt : Nat) (d : Bytes)
  | pdoStart (n k : Nat) (p : Option Nat)
  | pdoStop (n k : Nat)
  | pdoUpdate (n k : Nat) (d : Bytes)
  | pdoSetByte (n k i v : Nat)
  | pdoStopNode (n : Nat)
  | hbStart (n : Nat) (ms : Int)
  | hbStop (n : Nat)
  | hbUpdate (n : Nat)
  | hbWrite (n v : Nat)
  | hbSdoWrite (n v : Nat)
  | onWrite (n idx : Nat) (d : Bytes)
  | sendCommand (n code : Nat)
  | setState (n : Nat) (name : String)
  | nmtFrame (d : Bytes)
  | guardStart (n p : Nat)
  | guardStop (n : Nat)
  | disconnect
  | exitWith (w : ExitWay)
  | connect
deriving DecidableEq, Repr

/-- the producer an operation addresses (operations on objects that do not exist in the network
    cannot be written down by a caller; they are rejected without effect) -/
def Op.target : Op → Option Owner
  | .pdoStart n k _ | .pdoStop n k | .pdoUpdate n k _ | .pdoSetByte n k _ _ | .pdoSetPeriod n k _
  | .pdoReceive n k _ _ => some (.pdo n k)
  | .hbStart n _ | .hbStop n | .hbUpdate n | .hbWrite n _ | .hbSdoWrite n _ | .onWrite n _ _
  | .sendCommand n _ | .setState n _ => some (.hb n)
  | .guardStart n _ | .guardStop n => some (.guard n)
  | _ => none

def Op.wellAddressed (c : Cfg) (op : Op) : Bool :=
  match op with
  | .pdoStopNode n => c.locals.contains n || c.remotes.contains n
  | op => match op.target with
    | some o => c.valid o
    | none => true

def exec (c : Cfg) (s : State) : Op → State × Bool
  | .syncStart p => syncStart c s p
  | .syncStop => (syncStop s, true)
  | .syncSetPeriod p => (syncSetPeriod s p, true)
  | .pdoSetPeriod n k p => (pdoSetPeriod s n k p, true)
  | .pdoReceive n k dt d => (pdoReceive s n k dt d, true)
  | .pdoStart n k p => pdoStart s n k p
  | .pdoStop n k => (pdoStop s n k, true)
  | .pdoUpdate n k d => (pdoUpdate c s n k d, true)
  | .pdoSetByte n k i v => pdoSetByte c s n k i v
  | .pdoStopNode n => (pdoStopNode c s n, true)
  | .hbStart n ms => hbStart s n ms
  | .hbStop n => (hbStop s n, true)
  | .hbUpdate n => (hbUpdate c s n, true)
  | .hbWrite n v => writeHbTime s n v
  | .hbSdoWrite n v => sdoWriteHbTime s n v
  | .onWrite n idx d => onWrite s n idx d
  | .sendCommand n code => sendCommand c s n code
  | .setState n name => setState c s n name
  | .nmtFrame d => nmtFrame c s d
  | .guardStart n p => guardStart s n p
  | .guardStop n => (guardStop s n, true)
  | .disconnect => (disconnect c s, true)
  | .exitWith _ => (disconnect c s, true)
  | .connect => (connect s, true)

/-- one API call -/
def step (c : Cfg) (s : State) (op : Op) : State × Bool :=
  if op.wellAddressed c then exec c s op else (s, false)

/-- a history of API calls -/
def run (c : Cfg) (s : State) : List Op → State
  | [] => s
  | op :: r => run c (step c s op).1 r

/-! ### observation -/

/-- indices of the live cyclic tasks, in creation order -/
def liveTasks (s : State) : List Nat :=
  (List.range s.bus.n).filter fun i => (s.bus.task i).live

/-- indices of the live cyclic tasks created by producer `o` -/
def liveOwned (s : State) (o : Owner) : List Nat :=
  (List.range s.bus.n).filter fun i => (s.bus.task i).live && decide ((s.bus.task i).owner = o)

end Canopen.Periodic
