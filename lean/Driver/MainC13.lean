import Driver.Loop
import CanopenModel.Driver.C13
def main : IO Unit := Driver.run "C13" Canopen.Driver.C13.step
