/-
Line-protocol loop shared by the per-property drivers (DESIGN.md §2): one operation per input
line (`Cxx op args…`, the leading id is optional), one canonical output line per operation.
-/
namespace Driver

partial def loop (pid : String) (step : List String → String) (h out : IO.FS.Stream) : IO Unit := do
  let line ← h.getLine
  if line.isEmpty then return ()
  let toks := (line.trimAscii.toString.splitOn " ").filter (· ≠ "")
  let args := match toks with
    | t :: rest => if t = pid then rest else toks
    | [] => []
  out.putStrLn (step args)
  loop pid step h out

def run (pid : String) (step : List String → String) : IO Unit := do
  let out ← IO.getStdout
  loop pid step (← IO.getStdin) out
  out.flush

end Driver
