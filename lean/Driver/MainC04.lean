import Driver.Loop
import CanopenModel.Driver.C04
def main : IO Unit := Driver.run "C04" Canopen.Driver.C04.step
