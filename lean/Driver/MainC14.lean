import Driver.Loop
import CanopenModel.Driver.C14
def main : IO Unit := Driver.run "C14" Canopen.Driver.C14.step
