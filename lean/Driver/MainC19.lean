import Driver.Loop
import CanopenModel.Driver.C19
def main : IO Unit := Driver.run "C19" Canopen.Driver.C19.step
