import Driver.Loop
import CanopenModel.Driver.C12
def main : IO Unit := Driver.run "C12" Canopen.Driver.C12.step
