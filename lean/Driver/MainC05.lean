import Driver.Loop
import CanopenModel.Driver.C05
def main : IO Unit := Driver.run "C05" Canopen.Driver.C05.step
