import Driver.Loop
import CanopenModel.Driver.C16
def main : IO Unit := Driver.run "C16" Canopen.Driver.C16.step
