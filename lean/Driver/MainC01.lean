import Driver.Loop
import CanopenModel.Driver.C01
def main : IO Unit := Driver.run "C01" Canopen.Driver.C01.step
