import Driver.Loop
import CanopenModel.Driver.C17
def main : IO Unit := Driver.run "C17" Canopen.Driver.C17.step
