import Driver.Loop
import CanopenModel.Driver.C07
def main : IO Unit := Driver.run "C07" Canopen.Driver.C07.step
