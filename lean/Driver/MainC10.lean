import Driver.Loop
import CanopenModel.Driver.C10
def main : IO Unit := Driver.run "C10" Canopen.Driver.C10.step
