import Driver.Loop
import CanopenModel.Driver.C18
def main : IO Unit := Driver.run "C18" Canopen.Driver.C18.step
