import Driver.Loop
import CanopenModel.Driver.C20
def main : IO Unit := Driver.run "C20" Canopen.Driver.C20.step
