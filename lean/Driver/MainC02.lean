import Driver.Loop
import CanopenModel.Driver.C02
def main : IO Unit := Driver.run "C02" Canopen.Driver.C02.step
