import Driver.Loop
import CanopenModel.Driver.C02
-- C06 uses the same operations as C02 (the server / local-node model)
def main : IO Unit := Driver.run "C06" Canopen.Driver.C02.step
