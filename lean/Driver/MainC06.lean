import Driver.Loop
import CanopenModel.Driver.C06
-- C06: the operations of C02 (server / local-node model) plus the client's decoding of abort frames
def main : IO Unit := Driver.run "C06" Canopen.Driver.C06.step
