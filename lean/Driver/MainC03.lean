import Driver.Loop
import CanopenModel.Driver.C03
def main : IO Unit := Driver.run "C03" Canopen.Driver.C03.stepAll
