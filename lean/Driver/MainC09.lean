import Driver.Loop
import CanopenModel.Driver.C09
def main : IO Unit := Driver.run "C09" Canopen.Driver.C09.step
