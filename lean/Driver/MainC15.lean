import Driver.Loop
import CanopenModel.Driver.C15
def main : IO Unit := Driver.run "C15" Canopen.Driver.C15.step
