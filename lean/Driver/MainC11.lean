import Driver.Loop
import CanopenModel.Driver.C11
def main : IO Unit := Driver.run "C11" Canopen.Driver.C11.step
