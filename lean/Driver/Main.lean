/-
Line-protocol driver (DESIGN.md §2): one operation per input line, `Cxx op args…`, one
canonical output line per operation.  Imports only the Mathlib-free model.
-/
import CanopenModel.Driver.C04

def dispatch (line : String) : String :=
  match (line.trimAscii.toString.splitOn " ").filter (· ≠ "") with
  | "C04" :: args => Canopen.Driver.C04.step args
  | _ => "bad-op"

partial def loop (h : IO.FS.Stream) (out : IO.FS.Stream) : IO Unit := do
  let line ← h.getLine
  if line.isEmpty then return ()
  out.putStrLn (dispatch line)
  loop h out

def main : IO Unit := do
  let out ← IO.getStdout
  loop (← IO.getStdin) out
  out.flush
