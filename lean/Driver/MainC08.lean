import Driver.Loop
import CanopenModel.Driver.C08
def main : IO Unit := Driver.run "C08" Canopen.Driver.C08.step
