import CanopenModel.Bytes
import CanopenModel.Codec
import CanopenModel.Spec.Cia301Types
import CanopenModel.Driver.C04
