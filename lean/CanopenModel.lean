import CanopenModel.Bytes
import CanopenModel.Codec
import CanopenModel.Spec.Cia301Types
import CanopenModel.Driver.C04
import CanopenModel.Pdo.Bits
import CanopenModel.Driver.C05
