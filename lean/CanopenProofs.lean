import CanopenProofs.C04
