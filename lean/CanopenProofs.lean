import CanopenProofs.C04
import CanopenProofs.C05
import CanopenProofs.C02
import CanopenProofs.C06
import CanopenProofs.C01
