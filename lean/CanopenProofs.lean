import CanopenProofs.C04
import CanopenProofs.C05
