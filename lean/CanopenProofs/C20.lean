/-
C20 — Physical, described and bit-field views agree with the raw value.

Theorems about `CanopenModel/Views.lean` (model of `ODVariable.encode_/decode_ bits/desc/phys`,
`Bits`, `Variable.raw/phys/desc/bits`) composed with the C04 codec over the generated
`STRUCT_TYPES` table.  Raw values are Python ints (`Int`, infinite two's complement, `tbit`);
bit ranges are unbounded (the property's "within 32 bits" is a special case); physical values
are rationals.
-/
import CanopenModel.Views
import CanopenProofs.Lemmas.Views
import CanopenProofs.C04

namespace Canopen.C20
open Canopen Canopen.Codec Canopen.Views

/-! ## bit fields on Python ints -/

/-- `encode_bits` for any bit list: the result is `orig` outside the mask, and `v << min(bits)`
    or-ed in.  (`v` a natural number: field values that "fit" are non-negative.) -/
theorem encodeBits_tbit (raw : Int) (bits : List Int) (v : Nat) (lo : Nat)
    (hnn : ∀ b ∈ bits, 0 ≤ b) (hmin : bits.min? = some (lo : Int)) :
    ∃ new, encodeBits raw bits v = some new ∧
      ∀ i, tbit new i = ((tbit raw i && !decide ((i : Int) ∈ bits)) ||
                          (decide (lo ≤ i) && v.testBit (i - lo))) := by
  obtain ⟨m, hm, hbit⟩ := maskOf_some bits hnn
  refine ⟨_, by simp only [encodeBits, hm, hmin]; rfl, ?_⟩
  intro i
  rw [tbit_pyOr, tbit_pyAnd, tbit_pyNot, tbit_natCast, hbit i, Int.toNat_natCast, tbit_pyShl_nat]

/-- `decode_bits` for any bit list: bit `j` of the result is bit `min(bits)+j` of the value if
    that position is in the list, else 0. -/
theorem decodeBits_tbit (x : Int) (bits : List Int) (lo : Nat)
    (hnn : ∀ b ∈ bits, 0 ≤ b) (hmin : bits.min? = some (lo : Int)) :
    ∃ r, decodeBits x bits = some r ∧
      ∀ j, tbit r j = (tbit x (lo + j) && decide (((lo + j : Nat) : Int) ∈ bits)) := by
  obtain ⟨m, hm, hbit⟩ := maskOf_some bits hnn
  refine ⟨_, by simp only [decodeBits, hm, hmin]; rfl, ?_⟩
  intro j
  rw [Int.toNat_natCast, tbit_pyShr, tbit_pyAnd, tbit_natCast, hbit]

theorem testBit_lt_of_lt_two_pow (v n j : Nat) (hv : v < 2 ^ n) (hj : v.testBit j = true) : j < n := by
  apply Classical.byContradiction
  intro h
  have : v < 2 ^ j := Nat.lt_of_lt_of_le hv (Nat.pow_le_pow_right (by decide) (Nat.le_of_not_lt h))
  rw [Nat.testBit_lt_two_pow this] at hj
  cases hj

/-- **T bits_set_exact.**  For every raw value (any Python int), every contiguous bit range
    `[lo, hi)` and every field value that fits, `encode_bits` yields a value that has the field
    value's bits in `[lo, hi)` and the old bits everywhere else. -/
theorem bits_set_exact (raw : Int) (lo hi v : Nat) (h : lo < hi) (hv : v < 2 ^ (hi - lo)) :
    ∃ new, encodeBits raw (contig lo hi) v = some new ∧
      ∀ i, tbit new i = if lo ≤ i ∧ i < hi then v.testBit (i - lo) else tbit raw i := by
  obtain ⟨new, hnew, hb⟩ := encodeBits_tbit raw (contig lo hi) v lo (contig_nonneg lo hi) (contig_min lo hi h)
  refine ⟨new, hnew, ?_⟩
  intro i
  rw [hb i]
  have hmem : ((i : Int) ∈ contig lo hi) ↔ (lo ≤ i ∧ i < hi) := by
    rw [mem_contig]; omega
  by_cases hi' : lo ≤ i ∧ i < hi
  · simp [hmem.mpr hi', hi']
  · have hnm : ¬ ((i : Int) ∈ contig lo hi) := fun hc => hi' (hmem.mp hc)
    simp only [hnm, hi', if_false, decide_false, Bool.not_false, Bool.and_true]
    by_cases hlo : lo ≤ i
    · have : v.testBit (i - lo) = false := by
        cases hq : v.testBit (i - lo) with
        | false => rfl
        | true => have := testBit_lt_of_lt_two_pow v _ _ hv hq; omega
      simp [this]
    · simp [hlo]

/-- **T bits_get.**  Reading a contiguous field returns exactly the bits `[lo, hi)` of the raw
    value, moved down to position 0 (`(raw >> lo) mod 2^(hi-lo)` in two's complement). -/
theorem bits_get (raw : Int) (lo hi : Nat) (h : lo < hi) :
    ∃ r, decodeBits raw (contig lo hi) = some r ∧
      ∀ j, tbit r j = (decide (j < hi - lo) && tbit raw (lo + j)) := by
  obtain ⟨r, hr, hb⟩ := decodeBits_tbit raw (contig lo hi) lo (contig_nonneg lo hi) (contig_min lo hi h)
  refine ⟨r, hr, ?_⟩
  intro j
  rw [hb j, Bool.and_comm]
  congr 1
  have : (((lo + j : Nat) : Int) ∈ contig lo hi) ↔ j < hi - lo := by rw [mem_contig]; omega
  exact decide_eq_decide.mpr this

/-- **T bits_get_set.**  Reading a field back after assigning a fitting value returns the value,
    and reading any *disjoint* field returns what it returned before. -/
theorem bits_get_set (raw : Int) (lo hi v : Nat) (h : lo < hi) (hv : v < 2 ^ (hi - lo)) :
    ∃ new, encodeBits raw (contig lo hi) v = some new ∧
      decodeBits new (contig lo hi) = some (v : Int) ∧
      ∀ lo' hi', lo' < hi' → (hi' ≤ lo ∨ hi ≤ lo') →
        decodeBits new (contig lo' hi') = decodeBits raw (contig lo' hi') := by
  obtain ⟨new, hnew, hb⟩ := bits_set_exact raw lo hi v h hv
  refine ⟨new, hnew, ?_, ?_⟩
  · obtain ⟨r, hr, hrb⟩ := bits_get new lo hi h
    rw [hr]; congr 1
    apply tbit_ext
    intro j
    rw [hrb j, hb (lo + j), tbit_natCast]
    by_cases hj : j < hi - lo
    · have : lo ≤ lo + j ∧ lo + j < hi := by omega
      simp [hj, this]
    · have : v.testBit j = false := by
        cases hq : v.testBit j with
        | false => rfl
        | true => exact absurd (testBit_lt_of_lt_two_pow v _ _ hv hq) hj
      simp [hj, this]
  · intro lo' hi' h' hdis
    obtain ⟨r1, hr1, hb1⟩ := bits_get new lo' hi' h'
    obtain ⟨r2, hr2, hb2⟩ := bits_get raw lo' hi' h'
    rw [hr1, hr2]; congr 1
    apply tbit_ext
    intro j
    rw [hb1 j, hb2 j, hb (lo' + j)]
    by_cases hj : j < hi' - lo'
    · have : ¬ (lo ≤ lo' + j ∧ lo' + j < hi) := by omega
      simp [this]
    · simp [hj]

/-- **T bits_set_exact_any_list.**  The same for *any* bit list (the "list" spelling in general,
    contiguous or not, in any order, with repetitions): if the bits of `v << min(bits)` lie inside
    the list, assignment puts them there and leaves every bit outside the list alone, and reading
    the list back returns `v`. -/
theorem bits_set_exact_any_list (raw : Int) (bits : List Int) (v lo : Nat)
    (hnn : ∀ b ∈ bits, 0 ≤ b) (hmin : bits.min? = some (lo : Int))
    (hv : ∀ j, v.testBit j = true → ((lo + j : Nat) : Int) ∈ bits) :
    ∃ new, encodeBits raw bits v = some new ∧
      (∀ i : Nat, tbit new i = if (i : Int) ∈ bits then v.testBit (i - lo) else tbit raw i) ∧
      decodeBits new bits = some (v : Int) := by
  obtain ⟨new, hnew, hb⟩ := encodeBits_tbit raw bits v lo hnn hmin
  have hle : ∀ i : Nat, (i : Int) ∈ bits → lo ≤ i := by
    intro i hi
    have := (List.min?_eq_some_iff.mp hmin).2 _ hi
    omega
  have hexact : ∀ i : Nat, tbit new i = if (i : Int) ∈ bits then v.testBit (i - lo) else tbit raw i := by
    intro i
    rw [hb i]
    by_cases hi : (i : Int) ∈ bits
    · simp [hi, hle i hi]
    · simp only [hi, decide_false, Bool.not_false, Bool.and_true, if_false]
      by_cases hlo : lo ≤ i
      · have : v.testBit (i - lo) = false := by
          cases hq : v.testBit (i - lo) with
          | false => rfl
          | true =>
            have := hv _ hq
            rw [show lo + (i - lo) = i by omega] at this
            exact absurd this hi
        simp [this]
      · simp [hlo]
  refine ⟨new, hnew, hexact, ?_⟩
  obtain ⟨r, hr, hrb⟩ := decodeBits_tbit new bits lo hnn hmin
  rw [hr]; congr 1
  apply tbit_ext
  intro j
  rw [hrb j, hexact (lo + j), tbit_natCast]
  by_cases hj : ((lo + j : Nat) : Int) ∈ bits
  · simp only [hj, if_true, decide_true, Bool.and_true, Nat.add_sub_cancel_left]
  · have : v.testBit j = false := by
      cases hq : v.testBit j with
      | false => rfl
      | true => exact absurd (hv j hq) hj
    simp only [hj, if_false, decide_false, Bool.and_false, this]

/-! ## the four spellings of a bit range -/

theorem lookupDef_of_mem (defs : List (Name × List Int)) (hk : (defs.map (·.1)).Nodup)
    (n : Name) (b : List Int) (h : (n, b) ∈ defs) : lookupDef defs n = some b := by
  induction defs with
  | nil => cases h
  | cons e r ih =>
    obtain ⟨k, v⟩ := e
    simp only [List.map_cons, List.nodup_cons] at hk
    rcases List.mem_cons.mp h with he | hr
    · cases he; simp [lookupDef]
    · have hne : k ≠ n := by
        intro e; apply hk.1; rw [e]
        exact List.mem_map.mpr ⟨(n, b), hr, rfl⟩
      simp only [lookupDef, hne, if_false]
      exact ih hk.2 hr

theorem contig_single (lo : Nat) : contig lo (lo + 1) = [(lo : Int)] := by
  simp [contig]

theorem orDefault_nat (lo : Nat) : orDefault (some (lo : Int)) 0 = (lo : Int) := by
  unfold orDefault; split <;> simp_all

/-- **T spellings_agree.**  A bit number, a list, a slice `lo:hi` (also `lo:hi:1`, and `:hi` when
    `lo = 0`) and a defined name denote the same bit list, hence — `getBits`/`setBits` depending
    on the key only through `resolveKey` — the same field.  (The slice case holds for the code
    as repaired for F12; before the repair `lo:hi` raised `TypeError`.) -/
theorem spellings_agree (defs : List (Name × List Int)) (lo hi : Nat) :
    resolveKey defs (.list (contig lo hi)) = some (contig lo hi) ∧
    resolveKey defs (.slice (some (lo : Int)) (some (hi : Int)) none) = some (contig lo hi) ∧
    resolveKey defs (.slice (some (lo : Int)) (some (hi : Int)) (some 1)) = some (contig lo hi) ∧
    (lo = 0 → resolveKey defs (.slice none (some (hi : Int)) none) = some (contig lo hi)) ∧
    (hi = lo + 1 → resolveKey defs (.num (lo : Int)) = some (contig lo hi)) ∧
    (∀ n, (defs.map (·.1)).Nodup → (n, contig lo hi) ∈ defs →
      resolveKey defs (.name n) = some (contig lo hi)) := by
  refine ⟨rfl, ?_, ?_, ?_, ?_, ?_⟩
  · simp only [resolveKey, sliceBits, orDefault_nat]
    exact pyRange_step_one lo hi
  · simp only [resolveKey, sliceBits, orDefault_nat]
    exact pyRange_step_one lo hi
  · intro h0; subst h0
    exact pyRange_step_one 0 hi
  · intro h1; subst h1
    simp [resolveKey, contig_single]
  · intro n hk hm
    exact lookupDef_of_mem defs hk n _ hm

/-- the views use the key only through `resolveKey`: keys that resolve alike read and write alike -/
theorem key_only_through_resolve {σ : Type} (od : OdVar) (st : Store σ) (s : σ) (k k' : Key)
    (h : resolveKey od.bitdefs k = resolveKey od.bitdefs k') :
    getBits od st s k = getBits od st s k' ∧ ∀ v, setBits od st s k v = setBits od st s k' v := by
  simp only [getBits, setBits, h, and_self, implies_true]

/-! ## descriptions -/

theorem decodeDesc_iff (tbl : List (Int × Name)) (hk : (tbl.map (·.1)).Nodup) (v : Int) (d : Name) :
    decodeDesc tbl v = some d ↔ (v, d) ∈ tbl := by
  induction tbl with
  | nil => simp [decodeDesc]
  | cons e r ih =>
    obtain ⟨k, x⟩ := e
    simp only [List.map_cons, List.nodup_cons] at hk
    by_cases hkv : k = v
    · subst hkv
      simp only [decodeDesc, if_true, Option.some.injEq, List.mem_cons, Prod.mk.injEq, true_and]
      constructor
      · intro h; exact Or.inl h.symm
      · rintro (h | h)
        · exact h.symm
        · exact absurd (List.mem_map.mpr ⟨(k, d), h, rfl⟩) hk.1
    · simp only [decodeDesc, hkv, if_false, List.mem_cons, Prod.mk.injEq]
      rw [ih hk.2]
      constructor
      · intro h; exact Or.inr h
      · rintro (h | h)
        · exact absurd h.1.symm hkv
        · exact h

theorem encodeDesc_mem (tbl : List (Int × Name)) (d : Name) (v : Int)
    (h : encodeDesc tbl d = some v) : (v, d) ∈ tbl := by
  induction tbl with
  | nil => simp [encodeDesc] at h
  | cons e r ih =>
    obtain ⟨k, x⟩ := e
    by_cases hx : x = d
    · subst hx; simp [encodeDesc] at h; subst h; exact List.mem_cons_self ..
    · simp only [encodeDesc, hx, if_false] at h
      exact List.mem_cons_of_mem _ (ih h)

theorem encodeDesc_of_mem (tbl : List (Int × Name)) (hd : (tbl.map (·.2)).Nodup) (d : Name) (v : Int)
    (h : (v, d) ∈ tbl) : encodeDesc tbl d = some v := by
  induction tbl with
  | nil => cases h
  | cons e r ih =>
    obtain ⟨k, x⟩ := e
    simp only [List.map_cons, List.nodup_cons] at hd
    rcases List.mem_cons.mp h with he | hr
    · cases he; simp [encodeDesc]
    · have hne : x ≠ d := by
        intro e; apply hd.1; rw [e]
        exact List.mem_map.mpr ⟨(v, d), hr, rfl⟩
      simp only [encodeDesc, hne, if_false]
      exact ih hd.2 hr

theorem encodeDesc_some_of_named (tbl : List (Int × Name)) (d : Name) (v : Int) (h : (v, d) ∈ tbl) :
    ∃ v', encodeDesc tbl d = some v' := by
  induction tbl with
  | nil => cases h
  | cons e r ih =>
    obtain ⟨k, x⟩ := e
    by_cases hx : x = d
    · exact ⟨k, by simp [encodeDesc, hx]⟩
    · rcases List.mem_cons.mp h with he | hr
      · cases he; exact absurd rfl hx
      · obtain ⟨v', hv'⟩ := ih hr
        exact ⟨v', by simp only [encodeDesc, hx, if_false]; exact hv'⟩

/-- **T desc_roundtrip.**  For a description table (a dict: values unique):
    * a description that names some value is accepted and encodes to a value it names — exactly
      the value it names when descriptions are unique — and that value decodes to the
      description again;
    * a value decodes to its own description, and (unique descriptions) that description encodes
      to the value;
    * unknown descriptions and undescribed values are errors. -/
theorem desc_roundtrip (tbl : List (Int × Name)) (hk : (tbl.map (·.1)).Nodup) :
    (∀ d v, (v, d) ∈ tbl → ∃ v', encodeDesc tbl d = some v' ∧ (v', d) ∈ tbl ∧
        decodeDesc tbl v' = some d ∧ ((tbl.map (·.2)).Nodup → v' = v)) ∧
    (∀ v d, decodeDesc tbl v = some d ↔ (v, d) ∈ tbl) ∧
    (∀ v d, (tbl.map (·.2)).Nodup → decodeDesc tbl v = some d → encodeDesc tbl d = some v) ∧
    (∀ d, (∀ v, (v, d) ∉ tbl) → encodeDesc tbl d = none) ∧
    (∀ v, (∀ d, (v, d) ∉ tbl) → decodeDesc tbl v = none) := by
  refine ⟨?_, fun v d => decodeDesc_iff tbl hk v d, ?_, ?_, ?_⟩
  · intro d v hm
    obtain ⟨v', hv'⟩ := encodeDesc_some_of_named tbl d v hm
    have hm' := encodeDesc_mem tbl d v' hv'
    refine ⟨v', hv', hm', (decodeDesc_iff tbl hk v' d).mpr hm', ?_⟩
    intro hd
    have := encodeDesc_of_mem tbl hd d v hm
    rw [hv'] at this; exact Option.some.inj this
  · intro v d hd h
    exact encodeDesc_of_mem tbl hd d v ((decodeDesc_iff tbl hk v d).mp h)
  · intro d h
    cases hq : encodeDesc tbl d with
    | none => rfl
    | some v => exact absurd (encodeDesc_mem tbl d v hq) (h v)
  · intro v h
    cases hq : decodeDesc tbl v with
    | none => rfl
    | some d => exact absurd ((decodeDesc_iff tbl hk v d).mp hq) (h d)

/-! ## scaling, over ℚ -/

/-- **T phys_half_step.**  For every non-zero factor and every rational physical value `v`:
    `encode_phys` yields an integer `r` that is a nearest integer of `v / factor` (within 1/2, no
    integer nearer, exact ties to the even one), and decoding it again differs from `v` by at
    most half a scaling step. -/
theorem phys_half_step (f v : Rat) (hf : f ≠ 0) :
    ∃ r, encodePhys f v = some r ∧
      (decodePhys f r - v).abs ≤ f.abs / 2 ∧
      (v / f - (r : Rat)).abs ≤ 1 / 2 ∧
      (∀ n : Int, (v / f - (r : Rat)).abs ≤ (v / f - (n : Rat)).abs) ∧
      (v / f - ((v / f).floor : Rat) = 1 / 2 → r % 2 = 0) := by
  refine ⟨roundHalfEven (v / f), by simp [encodePhys, hf], ?_, (roundHalfEven_nearest _ 0).1,
    fun n => (roundHalfEven_nearest _ n).2, roundHalfEven_tie _⟩
  have hb := (roundHalfEven_nearest (v / f) 0).1
  have hv : v / f * f = v := Rat.div_mul_cancel hf
  unfold decodePhys
  generalize v / f = q at hb hv ⊢
  generalize (roundHalfEven q : Rat) = r at hb ⊢
  have hb1 : q - r ≤ 1 / 2 := by grind [Rat.abs]
  have hb2 : -(1 / 2) ≤ q - r := by grind [Rat.abs]
  rcases Rat.le_total (a := 0) (b := f) with h0 | h0
  · have m1 := Rat.mul_le_mul_of_nonneg_right hb1 h0
    have m2 := Rat.mul_le_mul_of_nonneg_right hb2 h0
    grind [Rat.abs]
  · have h0' : 0 ≤ -f := by grind
    have m1 := Rat.mul_le_mul_of_nonneg_right hb1 h0'
    have m2 := Rat.mul_le_mul_of_nonneg_right hb2 h0'
    grind [Rat.abs]

/-- a zero factor is an error (`ZeroDivisionError`), never a value -/
theorem phys_zero_factor (v : Rat) : encodePhys 0 v = none := by simp [encodePhys]

/-! ## the views over any store -/

/-- A store is lawful for `n`-byte values on the states satisfying `ok`: `set_data` of `n` bytes
    succeeds, `get_data` then returns exactly these bytes, and `ok` is kept.  (What C01–C03 prove
    of an SDO client talking to a conformant server, and C05 of a PDO variable.) -/
def Lawful {σ : Type} (st : Store σ) (n : Nat) (ok : σ → Prop) : Prop :=
  ∀ s x, ok s → x.length = n → ∃ s', st.set s x = some s' ∧ st.get s' = some x ∧ ok s'

open Canopen.C04 in
/-- `var.raw = v` then `var.raw`: an in-range value is stored as its CiA 301 pattern and read
    back; an out-of-range value is rejected and nothing is written. -/
theorem write_read {σ : Type} (st : Store σ) (ok : σ → Prop) :
    ∀ e ∈ intTypes, Lawful st (e.2.1 / 8) ok → ∀ (s : σ) (v : Int), ok s →
      (inRange e.2.1 e.2.2 v = true →
        ∃ s', writeRaw e.1 st s v = some s' ∧ ok s' ∧ readRaw e.1 st s' = some v ∧
          st.get s' = some (leBytes (e.2.1 / 8) (ofSigned e.2.1 v))) ∧
      (inRange e.2.1 e.2.2 v = false → writeRaw e.1 st s v = none) := by
  intro e he hl s v hs
  constructor
  · intro hv
    have henc := encode_is_twos_complement_le e he v hv
    obtain ⟨s', hset, hget, hok⟩ := hl s _ hs (leBytes_length (e.2.1 / 8) (ofSigned e.2.1 v))
    refine ⟨s', ?_, hok, ?_, hget⟩
    · simp only [writeRaw, henc, Option.bind_some, hset]
    · have hde := decode_encode e he v hv
      rw [henc, Option.bind_some] at hde
      simp only [readRaw, hget, Option.bind_some, hde, valInt]
  · intro hv
    simp only [writeRaw, encode_rejects_out_of_range e he v hv, Option.bind_none]

open Canopen.C04 in
/-- the width `encode_bits` uses (`len(self)` when the generated `SIGNED_TYPES` tuple has the type)
    is the CiA 301 width, for exactly the signed types -/
theorem signedWidth_table :
    ∀ e ∈ intTypes, signedWidth e.1 = (if e.2.2 then some e.2.1 else none) ∧ 0 < e.2.1 := by
  decide

/-- `encode_bits` of a type, on patterns: for an in-range raw value, a contiguous field inside the
    width and a value that fits, the result is in range and its `w`-bit two's complement pattern
    is the old pattern with exactly the field replaced. -/
theorem encodeBitsTyped_pattern (w : Nat) (hw : 0 < w) (sg : Bool) (raw : Int)
    (hr : inRange w sg raw = true) (lo hi v : Nat) (h : lo < hi) (hhi : hi ≤ w)
    (hv : v < 2 ^ (hi - lo)) :
    ∃ new, encodeBitsTyped (if sg then some w else none) raw (contig lo hi) v = some new ∧
      inRange w sg new = true ∧
      ∀ i, (ofSigned w new).testBit i =
        if lo ≤ i ∧ i < hi then v.testBit (i - lo) else (ofSigned w raw).testBit i := by
  cases sg with
  | false =>
    obtain ⟨new, hnew, hb⟩ := bits_set_exact raw lo hi v h hv
    have hin : inRange w false new = true := by
      rw [inRange_unsigned_iff] at hr ⊢
      intro i hi'
      rw [hb i, if_neg (by omega)]
      exact hr i hi'
    refine ⟨new, ?_, hin, ?_⟩
    · simp only [Bool.false_eq_true, if_false, encodeBitsTyped, toPattern, fromPattern, hnew,
        Option.map_some]
    · intro i
      rw [testBit_ofSigned, testBit_ofSigned, hb i]
      by_cases hf : lo ≤ i ∧ i < hi
      · have : i < w := by omega
        simp [hf, this]
      · simp [hf]
  | true =>
    obtain ⟨new', hnew', hb⟩ := bits_set_exact ((ofSigned w raw : Nat) : Int) lo hi v h hv
    have hun : inRange w false new' = true := by
      rw [inRange_unsigned_iff]
      intro i hi'
      rw [hb i, if_neg (by omega), tbit_natCast, testBit_ofSigned]
      simp [Nat.not_lt.mpr hi']
    have hnn : 0 ≤ new' ∧ new' < ((2 ^ w : Nat) : Int) := by
      simpa [inRange] using hun
    obtain ⟨p, hp⟩ : ∃ p : Nat, new' = (p : Int) := ⟨new'.toNat, by omega⟩
    subst hp
    have hplt : p < 2 ^ w := by omega
    refine ⟨toSigned w p, ?_, toSigned_inRange w hw p hplt, ?_⟩
    · simp only [if_true, encodeBitsTyped, toPattern_some, hnew', Option.map_some,
        fromPattern_lt w hw p hplt]
    · intro i
      rw [ofSigned_toSigned w hw p hplt]
      have := hb i
      rw [tbit_natCast, tbit_natCast] at this
      exact this

open Canopen.C04 in
/-- **T stored_pattern.**  The raw value behind well-formed stored bytes: it is in range and its
    `w`-bit two's complement pattern is the little-endian value of the bytes. -/
theorem stored_pattern : ∀ e ∈ intTypes, ∀ bs : Bytes, AllBytes bs → bs.length = e.2.1 / 8 →
    ∃ raw : Int, decodeRaw (some e.1) bs = some (.int raw) ∧ inRange e.2.1 e.2.2 raw = true ∧
      ofSigned e.2.1 raw = leVal bs := by
  intro e he bs hb hl
  obtain ⟨raw, hdec, hin, henc⟩ := encode_decode e he bs hb hl
  refine ⟨raw, hdec, hin, ?_⟩
  rw [encode_is_twos_complement_le e he raw hin] at henc
  have := congrArg leVal (Option.some.inj henc)
  rw [leVal_leBytes, (intTypes_wf e he).2, Nat.mod_eq_of_lt (ofSigned_lt _ _)] at this
  exact this

open Canopen.C04 in
/-- **T bits_through_store.**  Through the typed accessor of any lawful store, for every integer
    type **signed or unsigned**, every in-range raw value, every key spelling that resolves to a
    contiguous range `[lo, hi)` inside the type's width (the sign bit included) and every field
    value that fits: `var.bits[key] = v` succeeds; the value read afterwards is in range and its
    two's complement pattern is the old pattern with exactly `v` in `[lo, hi)` and every other
    bit unchanged; the stored bytes are that pattern, little-endian; and `var.bits[key]` returns
    `v`. -/
theorem bits_through_store {σ : Type} (st : Store σ) (ok : σ → Prop) (od : OdVar) :
    ∀ e ∈ intTypes, od.dtype = e.1 → Lawful st (e.2.1 / 8) ok →
    ∀ (s : σ) (raw : Int) (k : Key) (lo hi v : Nat), ok s →
      readRaw od.dtype st s = some raw → inRange e.2.1 e.2.2 raw = true →
      resolveKey od.bitdefs k = some (contig lo hi) → lo < hi → hi ≤ e.2.1 →
      v < 2 ^ (hi - lo) →
      ∃ s' new, setBits od st s k v = some s' ∧ ok s' ∧
        readRaw od.dtype st s' = some new ∧ inRange e.2.1 e.2.2 new = true ∧
        (∀ i, (ofSigned e.2.1 new).testBit i =
          if lo ≤ i ∧ i < hi then v.testBit (i - lo) else (ofSigned e.2.1 raw).testBit i) ∧
        st.get s' = some (leBytes (e.2.1 / 8) (ofSigned e.2.1 new)) ∧
        getBits od st s' k = some (v : Int) := by
  intro e he hdt hl s raw k lo hi v hs hraw hr hk hlt hhi hv
  obtain ⟨hsw, hw0⟩ := signedWidth_table e he
  obtain ⟨new, hnew, hin, hb⟩ := encodeBitsTyped_pattern e.2.1 hw0 e.2.2 raw hr lo hi v hlt hhi hv
  obtain ⟨s', hw, hok, hrd, hget⟩ := (write_read st ok e he hl s new hs).1 hin
  rw [hdt] at hraw
  refine ⟨s', new, ?_, hok, ?_, hin, hb, hget, ?_⟩
  · simp only [setBits, hdt, hraw, hk, hsw, hnew, Option.bind_some, hw]
  · rw [hdt]; exact hrd
  · obtain ⟨r, hr', hrb⟩ := bits_get new lo hi hlt
    simp only [getBits, hdt, hrd, hk, hr']
    congr 1
    apply tbit_ext
    intro j
    rw [hrb j, tbit_natCast]
    by_cases hj : j < hi - lo
    · have h1 := hb (lo + j)
      rw [testBit_ofSigned, if_pos (by omega), Nat.add_sub_cancel_left] at h1
      have hlt' : lo + j < e.2.1 := by omega
      simp only [hlt', decide_true, Bool.true_and] at h1
      simp [hj, h1]
    · have : v.testBit j = false := by
        cases hq : v.testBit j with
        | false => rfl
        | true => exact absurd (testBit_lt_of_lt_two_pow v _ _ hv hq) hj
      simp [hj, this]

open Canopen.C04 in
/-- **T bits_through_store_bytes.**  The same in terms of the bytes behind the variable: if the
    store holds well-formed bytes `bs`, after `var.bits[key] = v` it holds the little-endian bytes
    of the number whose bits are those of `bs` with exactly the field replaced. -/
theorem bits_through_store_bytes {σ : Type} (st : Store σ) (ok : σ → Prop) (od : OdVar) :
    ∀ e ∈ intTypes, od.dtype = e.1 → Lawful st (e.2.1 / 8) ok →
    ∀ (s : σ) (bs : Bytes) (k : Key) (lo hi v : Nat), ok s →
      st.get s = some bs → AllBytes bs → bs.length = e.2.1 / 8 →
      resolveKey od.bitdefs k = some (contig lo hi) → lo < hi → hi ≤ e.2.1 →
      v < 2 ^ (hi - lo) →
      ∃ s' p, setBits od st s k v = some s' ∧ ok s' ∧
        st.get s' = some (leBytes (e.2.1 / 8) p) ∧ p < 2 ^ e.2.1 ∧
        (∀ i, p.testBit i =
          if lo ≤ i ∧ i < hi then v.testBit (i - lo) else (leVal bs).testBit i) ∧
        getBits od st s' k = some (v : Int) := by
  intro e he hdt hl s bs k lo hi v hs hget hb hlen hk hlt hhi hv
  obtain ⟨raw, hdec, hin, hpat⟩ := stored_pattern e he bs hb hlen
  have hraw : readRaw od.dtype st s = some raw := by
    simp only [readRaw, hget, Option.bind_some, hdt, hdec, valInt]
  obtain ⟨s', new, hset, hok, _, _, hbits, hget', hgb⟩ :=
    bits_through_store st ok od e he hdt hl s raw k lo hi v hs hraw hin hk hlt hhi hv
  refine ⟨s', ofSigned e.2.1 new, hset, hok, hget', ofSigned_lt _ _, ?_, hgb⟩
  intro i
  rw [hbits i, hpat]

open Canopen.C04 in
/-- **T signbit_write_sets_sign.**  For every signed type and every field `[lo, w)` that contains
    the sign bit: the assignment is accepted whatever the old sign, and the value read afterwards
    is negative exactly when the top bit of the field value is set (INTEGERn `r` with bit `n-1`
    written becomes the two's complement reinterpretation). -/
theorem signbit_write_sets_sign {σ : Type} (st : Store σ) (ok : σ → Prop) (od : OdVar) :
    ∀ e ∈ intTypes, e.2.2 = true → od.dtype = e.1 → Lawful st (e.2.1 / 8) ok →
    ∀ (s : σ) (raw : Int) (k : Key) (lo v : Nat), ok s →
      readRaw od.dtype st s = some raw → inRange e.2.1 true raw = true →
      resolveKey od.bitdefs k = some (contig lo e.2.1) → lo < e.2.1 → v < 2 ^ (e.2.1 - lo) →
      ∃ s' new, setBits od st s k v = some s' ∧ readRaw od.dtype st s' = some new ∧
        (new < 0 ↔ v.testBit (e.2.1 - 1 - lo) = true) ∧
        (∀ i, i < lo → tbit new i = tbit raw i) := by
  intro e he hsg hdt hl s raw k lo v hs hraw hr hk hlt hv
  have hr' : inRange e.2.1 e.2.2 raw = true := by rw [hsg]; exact hr
  obtain ⟨s', new, hset, _, hrd, hin, hbits, _, _⟩ :=
    bits_through_store st ok od e he hdt hl s raw k lo e.2.1 v hs hraw hr' hk hlt (Nat.le_refl _) hv
  rw [hsg] at hin
  have hw0 := (signedWidth_table e he).2
  refine ⟨s', new, hset, hrd, ?_, ?_⟩
  · rw [neg_iff_tbit e.2.1 new hin]
    have h1 := hbits (e.2.1 - 1)
    rw [testBit_ofSigned, if_pos (by omega)] at h1
    have : e.2.1 - 1 < e.2.1 := by omega
    simp only [this, decide_true, Bool.true_and] at h1
    rw [h1]
  · intro i hi
    have h1 := hbits i
    rw [testBit_ofSigned, testBit_ofSigned, if_neg (by omega)] at h1
    have : i < e.2.1 := by omega
    simpa [this] using h1

open Canopen.C04 in
/-- **T bits_beyond_width_rejected.**  Bits do not exist beyond the type's width, for signed types
    exactly as for unsigned ones: if the mask arithmetic on the `w`-bit pattern yields a number of
    more than `w` bits (a bit number `≥ w` set, a field value wider than the room left), the
    assignment raises and nothing is stored — never a silently truncated value. -/
theorem bits_beyond_width_rejected {σ : Type} (st : Store σ) (od : OdVar) :
    ∀ e ∈ intTypes, od.dtype = e.1 →
    ∀ (s : σ) (raw : Int) (k : Key) (bits : List Int) (v : Int) (p : Nat),
      readRaw od.dtype st s = some raw → inRange e.2.1 e.2.2 raw = true →
      resolveKey od.bitdefs k = some bits →
      encodeBits ((ofSigned e.2.1 raw : Nat) : Int) bits v = some (p : Int) → 2 ^ e.2.1 ≤ p →
      setBits od st s k v = none := by
  intro e he hdt s raw k bits v p hraw hr hk henc hp
  obtain ⟨hsw, hw0⟩ := signedWidth_table e he
  rw [hdt] at hraw
  have hpat : toPattern (if e.2.2 then some e.2.1 else none) raw = ((ofSigned e.2.1 raw : Nat) : Int) := by
    cases hsg : e.2.2 with
    | true => simp only [if_true]; exact toPattern_some _ _
    | false =>
      rw [hsg] at hr
      simp only [Bool.false_eq_true, if_false, toPattern]
      exact (ofSigned_nonneg e.2.1 raw hr).symm
  have hfrom : fromPattern (if e.2.2 then some e.2.1 else none) (p : Int) = (p : Int) := by
    cases e.2.2 with
    | true => simp only [if_true]; exact fromPattern_ge _ hw0 p hp
    | false => rfl
  have hout : inRange e.2.1 e.2.2 (p : Int) = false := by
    have h2 : 2 ^ (e.2.1 - 1) ≤ 2 ^ e.2.1 := Nat.pow_le_pow_right (by decide) (Nat.sub_le _ _)
    cases hq : inRange e.2.1 e.2.2 (p : Int) with
    | false => rfl
    | true =>
      exfalso
      cases hsg : e.2.2 with
      | false =>
        rw [hsg] at hq
        simp only [inRange, Bool.false_eq_true, if_false, Bool.and_eq_true, decide_eq_true_eq] at hq
        omega
      | true =>
        rw [hsg] at hq
        simp only [inRange, if_true, Bool.and_eq_true, decide_eq_true_eq] at hq
        omega
  simp only [setBits, hdt, hraw, hk, hsw, encodeBitsTyped, hpat, henc, Option.map_some, hfrom,
    Option.bind_some, writeRaw, encode_rejects_out_of_range e he _ hout, Option.bind_none]

open Canopen.C04 in
/-- **T desc_through_store.**  `var.desc = d` for a description naming an in-range value stores
    exactly a value it names, and `var.desc` then returns `d`. -/
theorem desc_through_store {σ : Type} (st : Store σ) (ok : σ → Prop) (od : OdVar) :
    ∀ e ∈ intTypes, od.dtype = e.1 → Lawful st (e.2.1 / 8) ok → (od.descs.map (·.1)).Nodup →
    ∀ (s : σ) (d : Name) (v : Int), ok s → (v, d) ∈ od.descs →
      (∀ v', (v', d) ∈ od.descs → inRange e.2.1 e.2.2 v' = true) →
      ∃ s' v', setDesc od st s d = some s' ∧ ok s' ∧ (v', d) ∈ od.descs ∧
        ((od.descs.map (·.2)).Nodup → v' = v) ∧
        readRaw od.dtype st s' = some v' ∧
        st.get s' = some (leBytes (e.2.1 / 8) (ofSigned e.2.1 v')) ∧
        getDesc od st s' = some d := by
  intro e he hdt hl hk s d v hs hm hin
  obtain ⟨v', henc, hm', hdec, huniq⟩ := (desc_roundtrip od.descs hk).1 d v hm
  obtain ⟨s', hw, hok, hrd, hget⟩ := (write_read st ok e he hl s v' hs).1 (hin v' hm')
  refine ⟨s', v', ?_, hok, hm', huniq, ?_, hget, ?_⟩
  · simp only [setDesc, henc, Option.bind_some, hdt, hw]
  · rw [hdt]; exact hrd
  · simp only [getDesc, hdt, hrd, Option.bind_some, hdec]

open Canopen.C04 in
/-- **T integer_types_table.**  The generated `INTEGER_TYPES` tuple (the guard of `encode_phys` /
    `decode_phys`) holds exactly the sixteen CiA 301 integer types the theorems range over. -/
theorem integer_types_table :
    (∀ e ∈ intTypes, scaled e.1 = true) ∧
    (∀ t ∈ Gen.Datatypes.INTEGER_TYPES, ∃ e ∈ intTypes, e.1 = t) := by
  decide

open Canopen.C04 in
/-- **T phys_through_store.**  `var.phys = v` stores the nearest integer of `v / factor` when it
    is in the type's range (and is rejected, storing nothing, when it is not), and `var.phys`
    then returns a value within half a scaling step of `v`. -/
theorem phys_through_store {σ : Type} (st : Store σ) (ok : σ → Prop) (od : OdVar) :
    ∀ e ∈ intTypes, od.dtype = e.1 → Lawful st (e.2.1 / 8) ok → od.factor ≠ 0 →
    ∀ (s : σ) (v : Rat), ok s →
      (inRange e.2.1 e.2.2 (roundHalfEven (v / od.factor)) = true →
        ∃ s' p, setPhys od st s v = some s' ∧ ok s' ∧
          readRaw od.dtype st s' = some (roundHalfEven (v / od.factor)) ∧
          getPhys od st s' = some p ∧ (p - v).abs ≤ od.factor.abs / 2) ∧
      (inRange e.2.1 e.2.2 (roundHalfEven (v / od.factor)) = false → setPhys od st s v = none) := by
  intro e he hdt hl hf s v hs
  obtain ⟨r, henc, hhalf, _⟩ := phys_half_step od.factor v hf
  have hr : r = roundHalfEven (v / od.factor) := by
    simp [encodePhys, hf] at henc; exact henc.symm
  subst hr
  have hsc : scaled e.1 = true := integer_types_table.1 e he
  constructor
  · intro hin
    obtain ⟨s', hw, hok, hrd, _⟩ := (write_read st ok e he hl s _ hs).1 hin
    refine ⟨s', decodePhys od.factor (roundHalfEven (v / od.factor)), ?_, hok, ?_, ?_, hhalf⟩
    · simp only [setPhys, henc, Option.bind_some, hdt, hw, hsc, if_true]
    · rw [hdt]; exact hrd
    · simp only [getPhys, hdt, hrd, Option.map_some, hsc, if_true]
  · intro hout
    simp only [setPhys, henc, Option.bind_some, hdt, hsc, if_true,
      (write_read st ok e he hl s _ hs).2 hout]

/-- two outcomes of a setter on two stores are alike: both raise, or both succeed and the two
    variables then hold the same bytes -/
def SameOutcome {σ τ : Type} (st1 : Store σ) (ok1 : σ → Prop) (st2 : Store τ) (ok2 : τ → Prop)
    (o1 : Option σ) (o2 : Option τ) : Prop :=
  match o1, o2 with
  | some a, some b => ok1 a ∧ ok2 b ∧ st1.get a = st2.get b
  | none, none => True
  | _, _ => False

open Canopen.C04 in
theorem writeRaw_same {σ τ : Type} (st1 : Store σ) (ok1 : σ → Prop) (st2 : Store τ) (ok2 : τ → Prop) :
    ∀ e ∈ intTypes, Lawful st1 (e.2.1 / 8) ok1 → Lawful st2 (e.2.1 / 8) ok2 →
    ∀ (s1 : σ) (s2 : τ) (x : Option Int), ok1 s1 → ok2 s2 →
      SameOutcome st1 ok1 st2 ok2 (x.bind (writeRaw e.1 st1 s1)) (x.bind (writeRaw e.1 st2 s2)) := by
  intro e he h1 h2 s1 s2 x hs1 hs2
  cases x with
  | none => simp [SameOutcome]
  | some v =>
    simp only [Option.bind_some, writeRaw]
    cases henc : encodeRaw (some e.1) (.int v) with
    | none => simp [SameOutcome]
    | some bs =>
      have hlen := (encode_length e he v bs henc).1
      obtain ⟨a, ha, hga, hoa⟩ := h1 s1 bs hs1 hlen
      obtain ⟨b, hb, hgb, hob⟩ := h2 s2 bs hs2 hlen
      simp only [Option.bind_some, ha, hb, SameOutcome]
      exact ⟨hoa, hob, by rw [hga, hgb]⟩

open Canopen.C04 in
/-- **T views_over_any_store.**  The three views are functions of `get_data` / `set_data` only:
    on any two lawful stores (for instance the SDO variable of a remote node and a PDO variable)
    whose variables currently hold the same bytes, every read through a view returns the same
    result, and every assignment through a view either raises on both or succeeds on both and
    leaves the same bytes behind. -/
theorem views_over_any_store {σ τ : Type} (st1 : Store σ) (ok1 : σ → Prop) (st2 : Store τ)
    (ok2 : τ → Prop) (od : OdVar) :
    ∀ e ∈ intTypes, od.dtype = e.1 → Lawful st1 (e.2.1 / 8) ok1 → Lawful st2 (e.2.1 / 8) ok2 →
    ∀ (s1 : σ) (s2 : τ), ok1 s1 → ok2 s2 → st1.get s1 = st2.get s2 →
      (∀ k, getBits od st1 s1 k = getBits od st2 s2 k) ∧
      getDesc od st1 s1 = getDesc od st2 s2 ∧
      getPhys od st1 s1 = getPhys od st2 s2 ∧
      (∀ k v, SameOutcome st1 ok1 st2 ok2 (setBits od st1 s1 k v) (setBits od st2 s2 k v)) ∧
      (∀ d, SameOutcome st1 ok1 st2 ok2 (setDesc od st1 s1 d) (setDesc od st2 s2 d)) ∧
      (∀ v, SameOutcome st1 ok1 st2 ok2 (setPhys od st1 s1 v) (setPhys od st2 s2 v)) := by
  intro e he hdt h1 h2 s1 s2 hs1 hs2 hget
  have hraw : readRaw e.1 st1 s1 = readRaw e.1 st2 s2 := by
    simp only [readRaw, hget]
  refine ⟨?_, ?_, ?_, ?_, ?_, ?_⟩
  · intro k; simp only [getBits, hdt, hraw]
  · simp only [getDesc, hdt, hraw]
  · simp only [getPhys, hdt, hraw]
  · intro k v
    simp only [setBits, hdt, hraw]
    cases readRaw e.1 st2 s2 with
    | none => simp [SameOutcome]
    | some raw =>
      cases resolveKey od.bitdefs k with
      | none => simp [SameOutcome]
      | some bits => exact writeRaw_same st1 ok1 st2 ok2 e he h1 h2 s1 s2 _ hs1 hs2
  · intro d
    simp only [setDesc, hdt]
    exact writeRaw_same st1 ok1 st2 ok2 e he h1 h2 s1 s2 _ hs1 hs2
  · intro v
    simp only [setPhys, hdt, integer_types_table.1 e he, if_true]
    exact writeRaw_same st1 ok1 st2 ok2 e he h1 h2 s1 s2 _ hs1 hs2

/-! ### the two concrete stores are lawful -/

/-- **T store_instances.**  The cell store (dict-backed `data_store` entry; an SDO variable of a
    conformant server) is lawful for every length; the byte-aligned PDO window `[off, off+n)` is
    lawful on frames that contain the window, and assignment leaves the frame's length and all
    bytes outside the window unchanged. -/
theorem store_instances :
    (∀ n, Lawful cellStore n (fun _ => True)) ∧
    (∀ off n, Lawful (frameStore off n) n (fun fr => off + n ≤ fr.length)) ∧
    (∀ off n (fr x : Bytes), off + n ≤ fr.length → x.length = n →
      ∃ fr', (frameStore off n).set fr x = some fr' ∧ fr'.length = fr.length ∧
        fr'.take off = fr.take off ∧ fr'.drop (off + n) = fr.drop (off + n)) := by
  refine ⟨?_, ?_, ?_⟩
  · intro n s x _ _; exact ⟨x, rfl, rfl, trivial⟩
  · intro off n fr x hfr hx
    refine ⟨_, rfl, ?_, ?_⟩
    · have h1 : (fr.take off).length = off := by simp; omega
      simp only [frameStore, List.append_assoc]
      rw [List.drop_append_of_le_length (by omega), List.drop_of_length_le (by omega),
        List.nil_append, List.take_append_of_le_length (by omega), ← hx, List.take_length]
    · simp only [List.length_append, List.length_take, List.length_drop]; omega
  · intro off n fr x hfr hx
    refine ⟨_, rfl, ?_, ?_, ?_⟩
    · simp only [List.length_append, List.length_take, List.length_drop]; omega
    · have h1 : (fr.take off).length = off := by simp; omega
      rw [List.append_assoc, List.take_append_of_le_length (by omega), List.take_take]
      simp
    · have h1 : (fr.take off ++ x).length = off + n := by simp; omega
      rw [← h1, List.drop_left, h1, hx]

/-! ## regression: the sign bit of a signed type through `bits` (repaired defect) -/

/-- the INTEGER8 variable of the regression examples -/
def int8Var : OdVar := ⟨Gen.Datatypes.INTEGER8, 1, [], []⟩

-- INTEGER8 holding 0: `var.bits[7] = 1` stores 0x80 and the raw value reads −128 (raised
-- `ValueError` and stored nothing before the repair); −1 with `bits[7] = 0` becomes 127;
-- `bits[4:8]` likewise; a bit beyond the width is still refused, as for UNSIGNED8
example :
    setBits int8Var cellStore [0x00] (.num 7) 1 = some [0x80] ∧
    readRaw int8Var.dtype cellStore [0x80] = some (-128) ∧
    setBits int8Var cellStore [0xFF] (.num 7) 0 = some [0x7F] ∧
    setBits int8Var cellStore [0x00] (.slice (some 4) (some 8) none) 8 = some [0x80] ∧
    setBits int8Var cellStore [0xFF] (.slice (some 4) (some 8) none) 7 = some [0x7F] ∧
    getBits int8Var cellStore [0x7F] (.slice (some 4) (some 8) none) = some 7 ∧
    setBits int8Var cellStore [0x00] (.num 8) 1 = none ∧
    setBits int8Var cellStore [0xFF] (.num 8) 1 = none ∧
    setBits ⟨Gen.Datatypes.UNSIGNED8, 1, [], []⟩ cellStore [0xFF] (.num 8) 1 = none := by
  decide

/-! ## a held `Bits` object -/

open Canopen.C04 in
/-- **T bitsObj_coherent.**  A held `Bits` object (`b = var.bits`) whose cache agrees with the
    store behaves like a fresh `var.bits[...]` access: a read returns what `var.bits[key]`
    returns; an accepted assignment stores what `var.bits[key] = v` stores and leaves cache and
    store in agreement; a refused assignment stores nothing (but, as coded, leaves the *cache*
    changed — see the example below). -/
theorem bitsObj_coherent {σ : Type} (st : Store σ) (ok : σ → Prop) (od : OdVar) :
    ∀ e ∈ intTypes, od.dtype = e.1 → Lawful st (e.2.1 / 8) ok →
    ∀ (b : BitsObj σ), ok b.store → readRaw od.dtype st b.store = some b.cache →
      (∀ k, bitsObjStep od st b (.get k) = (b, getBits od st b.store k)) ∧
      (∀ k v, ((bitsObjStep od st b (.set k v)).2.isSome = true →
                 ok (bitsObjStep od st b (.set k v)).1.store ∧
                 readRaw od.dtype st (bitsObjStep od st b (.set k v)).1.store
                   = some (bitsObjStep od st b (.set k v)).1.cache ∧
                 setBits od st b.store k v = some (bitsObjStep od st b (.set k v)).1.store) ∧
               ((bitsObjStep od st b (.set k v)).2 = none →
                 (bitsObjStep od st b (.set k v)).1.store = b.store ∧
                 setBits od st b.store k v = none)) := by
  intro e he hdt hl b hs hraw
  constructor
  · intro k
    simp only [bitsObjStep, getBits, hraw]
    cases resolveKey od.bitdefs k <;> rfl
  · intro k v
    simp only [bitsObjStep, setBits, hraw]
    cases hk : resolveKey od.bitdefs k with
    | none => simp
    | some bits =>
      simp only [Option.bind_some]
      cases hn : encodeBitsTyped (signedWidth od.dtype) b.cache bits v with
      | none => simp
      | some new =>
        simp only [Option.bind_some]
        have hwr := write_read st ok e he hl b.store new hs
        rw [← hdt] at hwr
        cases hin : inRange e.2.1 e.2.2 new with
        | true =>
          obtain ⟨s', hw, hok, hrd, _⟩ := hwr.1 hin
          simp [hw, hok, hrd]
        | false =>
          simp [hwr.2 hin]

/-- the one way a held `Bits` object goes out of step (as coded): UNSIGNED8 holding 0,
    `b[8] = 1` is refused and nothing is stored, yet `b[8]` afterwards reads the unsaved 1 -/
example :
    let r := bitsObjRun ⟨5, 1, [], []⟩ cellStore ⟨[0x00], 0⟩ [.set (.num 8) 1, .get (.num 8)]
    r.1.store = [0x00] ∧ r.1.cache = 256 ∧ r.2 = [none, some 1] := by decide

/-! ## non-vacuity: hypotheses are met by concrete, non-trivial instances -/

-- 0xA5 with 0b110 assigned to bits 2..4 (all four spellings resolve alike)
example : encodeBits 0xA5 (contig 2 5) 6 = some 0xB9 ∧ decodeBits 0xB9 (contig 2 5) = some 6 ∧
    resolveKey [([82], [2, 3, 4])] (.name [82]) = some (contig 2 5) ∧
    resolveKey [] (.slice (some 2) (some 5) none) = some (contig 2 5) ∧
    resolveKey [] (.list [2, 3, 4]) = some (contig 2 5) := by decide
-- a negative raw value (INTEGER16 −2 = …11111110): clearing bits 1..3
example : encodeBits (-2) (contig 1 4) 0 = some (-16) ∧ decodeBits (-2) (contig 1 4) = some 7 := by decide
-- a non-contiguous list, out of order, within `bits_set_exact_any_list`'s hypotheses
example : ([5, 1, 3] : List Int).min? = some 1 ∧ encodeBits 0xFF [5, 1, 3] 0b10001 = some 0xF7 ∧
    decodeBits 0xF7 [5, 1, 3] = some 0b10001 := by decide
-- description table with unique values; duplicate descriptions resolve to the first
example : encodeDesc [(0, [79, 70, 70]), (1, [79, 78]), (3, [79, 78])] [79, 78] = some 1 ∧
    decodeDesc [(0, [79, 70, 70]), (1, [79, 78]), (3, [79, 78])] 3 = some [79, 78] ∧
    ([(0, [79, 70, 70]), (1, [79, 78]), (3, [79, 78])].map (·.1)).Nodup := by decide
-- scaling: exact ties go to the even neighbour (2.5 → 2, 3.5 → 4, −3.5 → −4); 3.7 → 4
example : encodePhys (1 / 4) (5 / 8) = some 2 ∧ encodePhys (1 / 4) (7 / 8) = some 4 ∧
    encodePhys (-1 / 4) (7 / 8) = some (-4) ∧ encodePhys (1 / 10) (37 / 100) = some 4 ∧
    decodePhys (1 / 10) 4 = 2 / 5 := by decide +kernel
-- lawful stores exist, with a non-trivial state: UNSIGNED16 at byte 1 of a 4-byte frame
example : (6, 16, false) ∈ Canopen.C04.intTypes ∧
    setBits ⟨6, 1, [], []⟩ (frameStore 1 2) [0xAA, 0x34, 0x12, 0xDD] (.slice (some 8) (some 12) none) 0xF
      = some [0xAA, 0x34, 0x1F, 0xDD] ∧
    getBits ⟨6, 1, [], []⟩ (frameStore 1 2) [0xAA, 0x34, 0x1F, 0xDD] (.slice (some 8) (some 12) none)
      = some 15 := by decide
-- sign bit: INTEGER24 −1 over a PDO window, field [20,24) := 3 gives 0x3FFFFF (positive)
example : (16, 24, true) ∈ Canopen.C04.intTypes ∧
    setBits ⟨16, 1, [], []⟩ (frameStore 1 3) [0xAA, 0xFF, 0xFF, 0xFF, 0xBB] (.slice (some 20) (some 24) none) 3
      = some [0xAA, 0xFF, 0xFF, 0x3F, 0xBB] ∧
    readRaw 16 (frameStore 1 3) [0xAA, 0xFF, 0xFF, 0x3F, 0xBB] = some 4194303 := by decide

end Canopen.C20
