/-
C14 — Exporting a dictionary to EDS/DCF and importing it again loses nothing.

Property theorems about `CanopenModel/Eds/Export.lean` (the model of `export_eds`, `export_dcf`,
`_revert_variable`) composed with the importer model of C08.  Stated over the exported **document**;
`configparser`'s writing and re-reading of the text, the three destinations and `[FileInfo]` are
differential-only.
-/
import CanopenModel.Eds.Export
import CanopenProofs.Lemmas.EdsExport

namespace Canopen.C14
open Canopen.Eds Canopen.Spec Canopen.Spec.EdsWriter Canopen.Gen.Datatypes Canopen.Gen.EdsTables

/-! ## T lists_partition -/

/-- Every index from 0x1000 on lands in exactly one of the three object lists of `export_eds`
    (over the generated constants of its three predicates); below 0x1000 in none. -/
theorem lists_partition (i : Nat) :
    (0x1000 ≤ i →
      (isMandatory i = true ∧ isOptional i = false ∧ isManufacturer i = false) ∨
      (isMandatory i = false ∧ isOptional i = true ∧ isManufacturer i = false) ∨
      (isMandatory i = false ∧ isOptional i = false ∧ isManufacturer i = true)) ∧
    (i < 0x1000 → isMandatory i = false ∧ isOptional i = false ∧ isManufacturer i = false) := by
  have hm : isMandatory i = true ↔ (i = 4096 ∨ i = 4097 ∨ i = 4120) := by
    unfold isMandatory MANDATORY; simp
  have hf : isManufacturer i = true ↔ (8192 ≤ i ∧ i < 24576) := by
    unfold isManufacturer MANUFACTURER_LO MANUFACTURER_HI; simp
  have ho : isOptional i = true ↔ (4097 < i ∧ isMandatory i = false ∧ isManufacturer i = false) := by
    unfold isOptional OPTIONAL_ABOVE; simp [and_assoc]
  cases hM : isMandatory i <;> cases hF : isManufacturer i <;> cases hO : isOptional i <;>
    simp_all <;> omega

/-! ## T revert_convert -/

/-- `_convert_variable ∘ _revert_variable` is the identity on every value of the kind its data type
    calls for: any integer — **negative ones included** (F4) — for the integer-like types, any byte
    string for OCTET_STRING/DOMAIN, any text for the string types, any float text for the reals. -/
theorem revert_convert (nid : Option Int) (t : Nat) :
    (isIntLike t = true → ∀ i : Int,
      (revertVariable (t : Int) (.int i)).bind (convertVariable nid (t : Int)) = some (.int i)) ∧
    (isBlobType t = true → ∀ bs : List Nat, (∀ b ∈ bs, b < 256) →
      (revertVariable (t : Int) (.bytes bs)).bind (convertVariable nid (t : Int)) = some (.bytes bs)) ∧
    (isTextType t = true → ∀ s : Str,
      (revertVariable (t : Int) (.str s)).bind (convertVariable nid (t : Int)) = some (.str s)) ∧
    (isRealType t = true → ∀ txt : Str, floatOk txt = true →
      (revertVariable (t : Int) (.real txt)).bind (convertVariable nid (t : Int)) = some (.real txt)) := by
  refine ⟨fun ht i => ?_, fun ht bs hb => ?_, fun ht s => ?_, fun ht txt hf => ?_⟩
  · obtain ⟨h1, h2, h3⟩ := intLike_classes t ht
    have hc := convertVariable_text nid t (.num i spHex2) ht
    simp only [SVal.text, SVal.denote] at hc
    simp only [revertVariable, h1, h2, h3, if_false, Bool.false_eq_true, Option.bind_some, revertInt_eq, hc]
  · have hc := convertVariable_text nid t (.bytes bs false false) ⟨ht, hb⟩
    simp only [SVal.text, SVal.denote] at hc
    have h1 : ((t : Nat) : Int) = (OCTET_STRING : Int) ∨ ((t : Nat) : Int) = (DOMAIN : Int) := by
      simp only [isBlobType, Bool.or_eq_true, decide_eq_true_eq] at ht
      simp only [OCTET_STRING, DOMAIN]; omega
    simp only [revertVariable, h1, if_true, Option.bind_some, toHexStr_eq, hc]
  · have hc := convertVariable_text nid t (.str s) ht
    simp only [SVal.text, SVal.denote] at hc
    simp only [isTextType, Bool.or_eq_true, decide_eq_true_eq] at ht
    have h1 : ¬ (((t : Nat) : Int) = (OCTET_STRING : Int) ∨ ((t : Nat) : Int) = (DOMAIN : Int)) := by
      simp only [OCTET_STRING, DOMAIN]; omega
    have h2 : ((t : Nat) : Int) = (VISIBLE_STRING : Int) ∨ ((t : Nat) : Int) = (UNICODE_STRING : Int) := by
      simp only [VISIBLE_STRING, UNICODE_STRING]; omega
    simp only [revertVariable, h1, h2, if_false, if_true, Option.bind_some, hc]
  · have hc := convertVariable_text nid t (.real txt) ⟨ht, hf⟩
    simp only [SVal.text, SVal.denote] at hc
    simp only [isRealType, Bool.or_eq_true, decide_eq_true_eq] at ht
    have h1 : ¬ (((t : Nat) : Int) = (OCTET_STRING : Int) ∨ ((t : Nat) : Int) = (DOMAIN : Int)) := by
      simp only [OCTET_STRING, DOMAIN]; omega
    have h2 : ¬ (((t : Nat) : Int) = (VISIBLE_STRING : Int) ∨ ((t : Nat) : Int) = (UNICODE_STRING : Int)) := by
      simp only [VISIBLE_STRING, UNICODE_STRING]; omega
    have h3 : isFloatType (t : Int) = true := by rcases ht with rfl | rfl <;> decide
    simp only [revertVariable, h1, h2, h3, if_false, if_true, Option.bind_some, hc]

example : revertVariable 3 (.int (-5)) = some c!"-0x05" := by decide
example : (revertVariable 3 (.int (-5))).bind (convertVariable none 3) = some (.int (-5)) := by decide
/-- the spelling the unrepaired code used (`f"0x{-5:02X}"`) is not a number for `int(x, 0)` -/
example : convertVariable none 3 c!"0x-5" = none := by decide

/-! ## T export_variable_import -/

/-- the value kinds `_revert_variable` is meant for, per data type -/
def valueFits (t : Nat) : Value → Prop
  | .int _ => isIntLike t = true
  | .bytes bs => isBlobType t = true ∧ ∀ b ∈ bs, b < 256
  | .str _ => isTextType t = true
  | .real txt => isRealType t = true ∧ floatOk txt = true

/-- a variable of the property's domain: a CiA 301 data type `t`, a lower-case access type, value
    kinds agreeing with the type, limits of signed types in range, and — when the variable carries
    the original texts of an import — texts that denote its values -/
structure VarOK (nid : Option Int) (v : Var) (t : Nat) : Prop where
  dt : v.dataType = (t : Int)
  dt_pos : 0 < t
  dt_le : t ≤ 0x1B
  access_lower : lower v.accessType = v.accessType
  access_ne : v.accessType ≠ []
  default_fits : ∀ x, v.default = some x → v.defaultRaw = none → valueFits t x
  value_fits : ∀ x, v.value = some x → v.valueRaw = none → valueFits t x
  default_raw : ∀ r, v.defaultRaw = some r → convertVariable nid (t : Int) r = v.default
  value_raw : ∀ r, v.valueRaw = some r → convertVariable nid (t : Int) r = v.value
  min_ok : ∀ m, v.min = some m → SLim.okFor t { v := m }
  max_ok : ∀ m, v.max = some m → SLim.okFor t { v := m }
  storage_ok : v.storage ≠ some []
  factor_ok : ∀ f, v.factor = some f → floatOk f = true

/-- the text `export_variable` writes for a value: the original text, else the value reverted -/
def valueTextOf (t : Int) (raw : Option Str) (x : Option Value) : Option Str :=
  match raw with
  | some r => some r
  | none => x.bind (revertVariable t)

/-- what the round trip may change: the original texts become the exported ones, "relative" is
    recomputed from the text, and an EDS (as opposed to a DCF) carries no parameter values -/
def afterRoundTrip (dcf : Bool) (v : Var) : Var :=
  { v with defaultRaw := valueTextOf v.dataType v.defaultRaw v.default,
           relative := (valueTextOf v.dataType v.defaultRaw v.default).any containsNodeid,
           value := if dcf then v.value else none,
           valueRaw := if dcf then valueTextOf v.dataType v.valueRaw v.value else none }

theorem revert_fits (nid : Option Int) (t : Nat) (x : Value) (h : valueFits t x) :
    ∃ txt, revertVariable (t : Int) x = some txt ∧ convertVariable nid (t : Int) txt = some x := by
  obtain ⟨r1, r2, r3, r4⟩ := revert_convert nid t
  cases x with
  | int i =>
    have := r1 h i
    cases hr : revertVariable (t : Int) (.int i) with
    | none => rw [hr] at this; exact absurd this (by simp)
    | some txt => rw [hr] at this; exact ⟨txt, rfl, by simpa using this⟩
  | bytes bs =>
    have := r2 h.1 bs h.2
    cases hr : revertVariable (t : Int) (.bytes bs) with
    | none => rw [hr] at this; exact absurd this (by simp)
    | some txt => rw [hr] at this; exact ⟨txt, rfl, by simpa using this⟩
  | str s =>
    have := r3 h s
    cases hr : revertVariable (t : Int) (.str s) with
    | none => rw [hr] at this; exact absurd this (by simp)
    | some txt => rw [hr] at this; exact ⟨txt, rfl, by simpa using this⟩
  | real txt' =>
    have := r4 h.1 txt' h.2
    cases hr : revertVariable (t : Int) (.real txt') with
    | none => rw [hr] at this; exact absurd this (by simp)
    | some txt => rw [hr] at this; exact ⟨txt, rfl, by simpa using this⟩

/-- the text written for a value is read back as that value -/
theorem valueText_roundtrip (nid : Option Int) (t : Nat) (raw : Option Str) (x : Option Value)
    (hfit : ∀ y, x = some y → raw = none → valueFits t y)
    (hraw : ∀ r, raw = some r → convertVariable nid (t : Int) r = x) :
    valueText (t : Int) raw x = some (valueTextOf (t : Int) raw x) ∧
    (valueTextOf (t : Int) raw x).bind (convertVariable nid (t : Int)) = x := by
  cases raw with
  | some r => exact ⟨rfl, hraw r rfl⟩
  | none =>
    cases x with
    | none => exact ⟨rfl, rfl⟩
    | some y =>
      obtain ⟨txt, h1, h2⟩ := revert_fits nid t y (hfit y rfl rfl)
      simp [valueText, valueTextOf, h1, h2]

theorem nonEmpty_getD (s : Str) : (nonEmpty s).getD [] = s := by
  unfold nonEmpty
  cases s <;> rfl

/-- **One variable.**  `export_variable` followed by `build_variable` gives the variable back:
    name, index, sub-index, data type, access type, PDO mapping, default value (negative ones
    included), limits (every signed width), storage location, factor, unit, description, and for
    DCF the parameter value. -/
theorem export_variable_import (nid : Option Int) (v : Var) (t : Nat) (hv : VarOK nid v t)
    (dcf nested : Bool) (doc : Doc) :
    ∃ d p, exportVariable dcf nested v = some { name := varSecName nested v, opts := varSecOpts v d p } ∧
      buildVariable doc { name := varSecName nested v, opts := varSecOpts v d p } nid v.index v.subindex
        = some (afterRoundTrip dcf v) := by
  have hdt := hv.dt
  obtain ⟨hd1, hd2⟩ := valueText_roundtrip nid t v.defaultRaw v.default hv.default_fits hv.default_raw
  obtain ⟨hp1, hp2⟩ := valueText_roundtrip nid t v.valueRaw v.value hv.value_fits hv.value_raw
  have hne : v.dataType ≠ 0 := by rw [hdt]; have := hv.dt_pos; omega
  refine ⟨valueTextOf (t : Int) v.defaultRaw v.default,
    (if dcf then valueTextOf (t : Int) v.valueRaw v.value else none), ?_, ?_⟩
  · unfold exportVariable
    rw [hdt, hd1]
    cases dcf
    · simp
    · simp [hp1]
  · have hres : resolveDataType doc (t : Int) = some (t : Int) := by
      unfold resolveDataType
      split
      · rename_i h; simp only [CUSTOM_TYPE_ABOVE] at h; have := hv.dt_le; omega
      · rfl
    have hacc : nonEmpty v.accessType = some v.accessType := by
      unfold nonEmpty
      cases h : v.accessType with
      | nil => exact absurd h hv.access_ne
      | cons c r => rfl
    have hstor : truthyStr v.storage = v.storage := by
      unfold truthyStr
      cases h : v.storage with
      | none => rfl
      | some s =>
        cases s with
        | nil => exact absurd h hv.storage_ok
        | cons c r => rfl
    have hpdo : pyInt0 (if v.pdoMappable then c!"0x1" else c!"0x0") = some (if v.pdoMappable then 1 else 0) := by
      cases v.pdoMappable <;> decide
    have hmin : limitOf (t : Int) (v.min.map intStr) = v.min := by
      cases h : v.min with
      | none => rfl
      | some m =>
        have := limitOf_text t hv.dt_le { v := m } (hv.min_ok m h)
        simp only [Option.map_some, intStr_eq]
        unfold SLim.text at this
        cases hs : signedWidth t <;> simp only [hs] at this <;> simpa using this
    have hmax : limitOf (t : Int) (v.max.map intStr) = v.max := by
      cases h : v.max with
      | none => rfl
      | some m =>
        have := limitOf_text t hv.dt_le { v := m } (hv.max_ok m h)
        simp only [Option.map_some, intStr_eq]
        unfold SLim.text at this
        cases hs : signedWidth t <;> simp only [hs] at this <;> simpa using this
    unfold buildVariable
    simp only [Sec.get, get_varSec_ParameterName v hne, get_varSec_DataType v hne, get_varSec_AccessType v hne,
      get_varSec_StorageLocation v hne, get_varSec_PDOMapping v hne, get_varSec_LowLimit v hne,
      get_varSec_HighLimit v hne, get_varSec_DefaultValue v hne, get_varSec_ParameterValue v hne,
      get_varSec_Factor v hne, get_varSec_Description v hne, get_varSec_Unit v hne, hdt, hex04_eq,
      pyInt0_spellNat, Option.bind_some, hacc, hres, Option.getD_some, hpdo, hv.access_lower, hstor, hmin, hmax,
      hd2, factorOf_ok v.factor hv.factor_ok, nonEmpty_getD]
    simp only [afterRoundTrip, hdt]
    cases dcf
    · cases v.pdoMappable <;> simp
    · cases v.pdoMappable <;> simp [hp2]

/-! ## T export_object_import -/

/-- a top-level variable: its exported section, met by the section loop of `import_eds`, adds the
    variable back -/
theorem export_var_section_import (doc : Doc) (nid : Option Int) (od : OD) (v : Var) (t : Nat)
    (hv : VarOK nid v t) (hi : v.index < 65536) (hs : v.subindex = 0) (dcf : Bool) :
    ∃ sec, exportVariable dcf false v = some sec ∧
      processSection doc nid od sec = some (od.addObject (.var (afterRoundTrip dcf v))) := by
  obtain ⟨d, p, he, hb⟩ := export_variable_import nid v t hv dcf false doc
  refine ⟨_, he, ?_⟩
  have hne : v.dataType ≠ 0 := by rw [hv.dt]; have := hv.dt_pos; omega
  have hname : varSecName false v = hex4 true v.index := by
    simp only [varSecName, Bool.false_eq_true, if_false]; exact fmtHexPad4_eq_hex4 v.index hi
  rw [hname] at hb ⊢
  rw [processSection_index doc nid od _ v.index (by simpa using isDummy_hex4_append true v.index hi [])
    (matchIndex_hex4 true v.index hi)]
  unfold processIndex
  have hot : objectTypeOf (some c!"0x7") = some (OT_VAR : Int) := by decide
  simp only [Sec.get, get_varSec_ParameterName v hne, get_varSec_ObjectType v hne, hot]
  rw [hs] at hb
  simp [hb, OT_VAR]

/-- the members of a record/array as `export_record` walks them: by ascending sub-index -/
def membersInOrder (c : Coll) : List Var := c.iter.filterMap fun s => dictGet s c.subs

/-- a record/array of the property's domain -/
structure CollOK (nid : Option Int) (c : Coll) : Prop where
  index_lt : c.index < 65536
  storage_ok : c.storage ≠ some []
  members_ok : ∀ v ∈ membersInOrder c, ∃ t, VarOK nid v t
  members_index : ∀ v ∈ membersInOrder c, v.index = c.index
  keys_found : ∀ s ∈ c.iter, (dictGet s c.subs).isSome

/-- the record/array the round trip yields: same name, index, kind and storage location, the
    members in ascending order, each as `afterRoundTrip` leaves it -/
def collAfterRoundTrip (dcf : Bool) (c : Coll) : Coll :=
  ((membersInOrder c).map (afterRoundTrip dcf)).foldl Coll.addMember
    { isArray := c.isArray, name := c.name, index := c.index, storage := c.storage }

theorem export_member_section_import (doc : Doc) (nid : Option Int) (od : OD) (c0 : Coll)
    (hi : c0.index < 65536) (v : Var) (t : Nat) (hv : VarOK nid v t) (hvi : v.index = c0.index) (dcf : Bool) :
    ∃ sec, exportVariable dcf true v = some sec ∧
      processSection doc nid (od.addObject (.coll c0)) sec
        = some (od.addObject (.coll (c0.addMember (afterRoundTrip dcf v)))) := by
  obtain ⟨d, p, he, hb⟩ := export_variable_import nid v t hv dcf true doc
  refine ⟨_, he, ?_⟩
  have hname : varSecName true v = subSectionName true c0.index { sub := v.subindex, v := { name := [], dataType := 0 } } := by
    simp only [varSecName, if_true, subSectionName, Bool.false_eq_true, if_false, zpad]
    rw [hvi, fmtHexPad4_eq_hex4 c0.index hi]
    simp
  rw [hname] at hb ⊢
  have hd : isDummySection (subSectionName true c0.index { sub := v.subindex, v := { name := [], dataType := 0 } }) = false := by
    unfold subSectionName; exact isDummy_hex4_append true c0.index hi _
  have hmi : matchIndex (subSectionName true c0.index { sub := v.subindex, v := { name := [], dataType := 0 } }) = none := by
    unfold subSectionName; exact matchIndex_hex4_append true c0.index hi _ _
  rw [processSection_sub doc nid _ _ c0.index v.subindex hd hmi (matchSub_subSection true c0.index hi _)
    (matchName_subSection true c0.index hi _)]
  unfold processSub
  have h1 := indices_addObject od (.coll c0)
  simp only [Obj.index] at h1
  rw [hvi] at hb
  simp only [h1, deref_addObject, hb, Option.map_some]
  rw [setHeap_addObject od (.coll c0) (.coll (c0.addMember (afterRoundTrip dcf v))) rfl rfl]

theorem collMain_section_import (doc : Doc) (nid : Option Int) (od : OD) (c : Coll) (hi : c.index < 65536)
    (hst : c.storage ≠ some []) :
    processSection doc nid od (collMainSec c)
      = some (od.addObject (.coll { isArray := c.isArray, name := c.name, index := c.index,
                                    storage := c.storage })) := by
  have hname : (collMainSec c).name = hex4 true c.index := fmtHexPad4_eq_hex4 c.index hi
  have hstor : truthyStr c.storage = c.storage := by
    unfold truthyStr
    cases h : c.storage with
    | none => rfl
    | some s =>
      cases s with
      | nil => exact absurd h hst
      | cons x r => rfl
  rw [processSection_index doc nid od _ c.index (by rw [hname]; simpa using isDummy_hex4_append true c.index hi [])
    (by rw [hname]; exact matchIndex_hex4 true c.index hi)]
  unfold processIndex
  have g1 : (collMainSec c).get kParameterName = some c.name := by
    simp [Sec.get, collMainSec, dictGet_dictSet, dictGet_setOpt, dictGet, kParameterName, kObjectType,
      kSubNumberX, kStorageLocation]
  have g2 : (collMainSec c).get kObjectType = some (if c.isArray then c!"0x8" else c!"0x9") := by
    simp [Sec.get, collMainSec, dictGet_dictSet]
  have g3 : (collMainSec c).get kStorageLocation = c.storage := by
    simp only [Sec.get, collMainSec, dictGet_dictSet, dictGet_setOpt, hstor]
    simp [dictGet, kParameterName, kObjectType, kSubNumberX, kStorageLocation]
    cases c.storage <;> rfl
  have g4 : (collMainSec c).has kCompactSubObj = false := by
    simp [Sec.has, dictHas, collMainSec, dictGet_dictSet, dictGet_setOpt, dictGet, kParameterName, kObjectType,
      kSubNumberX, kStorageLocation, kCompactSubObj]
  have h8 : objectTypeOf (some c!"0x8") = some (OT_ARR : Int) := by decide
  have h9 : objectTypeOf (some c!"0x9") = some (OT_RECORD : Int) := by decide
  simp only [g1, g2, g3, g4]
  cases c.isArray
  · simp [h9, OT_VAR, OT_DOMAIN, OT_ARR, OT_RECORD]
  · simp [h8, OT_VAR, OT_DOMAIN, OT_ARR]

/-- the member sections of one record/array, in the order `export_record` writes them -/
theorem export_members_import (doc : Doc) (nid : Option Int) (od : OD) (dcf : Bool) :
    ∀ (vs : List Var) (c0 : Coll), c0.index < 65536 → (∀ v ∈ vs, ∃ t, VarOK nid v t) →
      (∀ v ∈ vs, v.index = c0.index) →
      ∃ secs, vs.mapM (exportVariable dcf true) = some secs ∧
        secs.foldlM (processSection doc nid) (od.addObject (.coll c0))
          = some (od.addObject (.coll ((vs.map (afterRoundTrip dcf)).foldl Coll.addMember c0))) := by
  intro vs
  induction vs with
  | nil => intro c0 _ _ _; exact ⟨[], rfl, rfl⟩
  | cons v r ih =>
    intro c0 hi hok hidx
    obtain ⟨t, hv⟩ := hok v (by simp)
    obtain ⟨sec, he, hp⟩ := export_member_section_import doc nid od c0 hi v t hv (hidx v (by simp)) dcf
    obtain ⟨secs, hes, hps⟩ := ih (c0.addMember (afterRoundTrip dcf v)) (by simpa [Coll.addMember] using hi)
      (fun x hx => hok x (by simp [hx])) (fun x hx => by simpa [Coll.addMember] using hidx x (by simp [hx]))
    refine ⟨sec :: secs, ?_, ?_⟩
    · simp [List.mapM_cons, he, hes]
    · simp only [List.foldlM_cons, hp, Option.bind_eq_bind, Option.bind_some, List.map_cons, List.foldl_cons]
      exact hps

/-- **One record or array.**  Its exported sections, met by the section loop of `import_eds`, add
    it back with all its members. -/
theorem export_coll_import (doc : Doc) (nid : Option Int) (od : OD) (c : Coll) (hc : CollOK nid c) (dcf : Bool) :
    ∃ secs, exportColl dcf c = some secs ∧
      secs.foldlM (processSection doc nid) od = some (od.addObject (.coll (collAfterRoundTrip dcf c))) := by
  have hm : c.iter.mapM (fun s => (dictGet s c.subs).bind (exportVariable dcf true))
      = (membersInOrder c).mapM (exportVariable dcf true) := by
    unfold membersInOrder
    have hk := hc.keys_found
    generalize c.iter = l at hk
    induction l with
    | nil => rfl
    | cons s r ih =>
      have hs := hk s (by simp)
      cases hg : dictGet s c.subs with
      | none => rw [hg] at hs; exact absurd hs (by simp)
      | some v =>
        simp only [List.mapM_cons, hg, Option.bind_some, List.filterMap_cons]
        rw [ih (fun x hx => hk x (by simp [hx]))]
  obtain ⟨secs, hes, hps⟩ := export_members_import doc nid od dcf (membersInOrder c)
    { isArray := c.isArray, name := c.name, index := c.index, storage := c.storage } hc.index_lt
    hc.members_ok hc.members_index
  refine ⟨collMainSec c :: secs, ?_, ?_⟩
  · simp [exportColl, hm, hes]
  · simp only [List.foldlM_cons, collMain_section_import doc nid od c hc.index_lt hc.storage_ok,
      Option.bind_eq_bind, Option.bind_some]
    exact hps

/-- an object of the property's domain -/
def ObjOK (nid : Option Int) : Obj → Prop
  | .var v => (∃ t, VarOK nid v t) ∧ v.index < 65536 ∧ v.subindex = 0
  | .coll c => CollOK nid c

def objAfterRoundTrip (dcf : Bool) : Obj → Obj
  | .var v => .var (afterRoundTrip dcf v)
  | .coll c => .coll (collAfterRoundTrip dcf c)

/-- **One object.**  Whatever `export_object` writes for it, the section loop of `import_eds` turns
    back into the object. -/
theorem export_object_import (doc : Doc) (nid : Option Int) (od : OD) (o : Obj) (ho : ObjOK nid o)
    (dcf : Bool) :
    ∃ secs, exportObject dcf o = some secs ∧
      secs.foldlM (processSection doc nid) od = some (od.addObject (objAfterRoundTrip dcf o)) := by
  cases o with
  | var v =>
    obtain ⟨⟨t, hv⟩, hi, hs⟩ := ho
    obtain ⟨sec, he, hp⟩ := export_var_section_import doc nid od v t hv hi hs dcf
    exact ⟨[sec], by simp [exportObject, he], by simp [hp, objAfterRoundTrip]⟩
  | coll c =>
    obtain ⟨secs, he, hp⟩ := export_coll_import doc nid od c ho dcf
    exact ⟨secs, by simp [exportObject, he], by simpa [objAfterRoundTrip] using hp⟩

/-! ## T export_objects_import -/

/-- every listed index is the index of an object of the property's domain -/
def ListedOK (nid : Option Int) (od : OD) (l : List Nat) : Prop :=
  ∀ i ∈ l, ∃ o, od.byIndex i = some o ∧ ObjOK nid o

/-- the objects of `l` after the round trip, added in list order -/
def addListed (dcf : Bool) (od : OD) (l : List Nat) (acc : OD) : OD :=
  l.foldl (fun a i => match od.byIndex i with
                      | some o => a.addObject (objAfterRoundTrip dcf o)
                      | none => a) acc

theorem listNames_ignored : ∀ n ∈ [sMandatoryObjects, sOptionalObjects, sManufacturerObjects, sDeviceInfo,
      sDeviceComissioning, sComments],
    isDummySection n = false ∧ matchIndex n = none ∧ matchSub n = none ∧ matchName n = none := by decide

theorem export_listed_import (doc : Doc) (nid : Option Int) (od : OD) (dcf : Bool) :
    ∀ (l : List Nat) (acc : OD), ListedOK nid od l →
      ∃ ss, l.mapM (fun i => (od.byIndex i).bind (exportObject dcf)) = some ss ∧
        ss.flatten.foldlM (processSection doc nid) acc = some (addListed dcf od l acc) := by
  intro l
  induction l with
  | nil => intro acc _; exact ⟨[], rfl, rfl⟩
  | cons i r ih =>
    intro acc hok
    obtain ⟨o, hbi, hoo⟩ := hok i (by simp)
    obtain ⟨secs, he, hp⟩ := export_object_import doc nid acc o hoo dcf
    obtain ⟨ss, hes, hps⟩ := ih (acc.addObject (objAfterRoundTrip dcf o)) (fun x hx => hok x (by simp [hx]))
    refine ⟨secs :: ss, by simp [List.mapM_cons, hbi, he, hes], ?_⟩
    simp only [List.flatten_cons, List.foldlM_append, hp, Option.bind_eq_bind, Option.bind_some, addListed,
      List.foldl_cons, hbi]
    exact hps

/-- one object list (`[MandatoryObjects]`, …) with the sections of its objects -/
theorem export_addList_import (doc : Doc) (nid : Option Int) (od : OD) (dcf : Bool) (name : Str)
    (hn : name ∈ [sMandatoryObjects, sOptionalObjects, sManufacturerObjects]) (l : List Nat) (acc : OD)
    (hok : ListedOK nid od l) :
    ∃ secs, addList dcf od name l = some secs ∧
      secs.foldlM (processSection doc nid) acc = some (addListed dcf od l acc) := by
  obtain ⟨ss, he, hp⟩ := export_listed_import doc nid od dcf l acc hok
  refine ⟨({ name := name, opts := (kSupportedObjects, natStr 10 false l.length) :: listEntries 1 l } : Sec)
    :: ss.flatten, by simp [addList, he], ?_⟩
  obtain ⟨h1, h2, h3, h4⟩ := listNames_ignored name (by
    simp only [List.mem_cons, List.not_mem_nil, or_false] at hn ⊢
    rcases hn with h | h | h <;> simp [h])
  simp only [List.foldlM_cons]
  rw [processSection_ignored doc nid acc _ h1 h2 h3 h4]
  simpa using hp

/-- the `[DummyUsage]` section `export_eds` writes is read back as the same dummy entries -/
theorem export_dummy_import (doc : Doc) (nid : Option Int) (od acc : OD) :
    processSection doc nid acc
        { name := sDummyUsage,
          opts := (List.range 7).map fun k =>
            (dummyKey (k + 1), if od.contains (.name (dummyKey (k + 1))) then c!"1" else c!"0") }
      = some (addDummies
          { d1 := od.contains (.name (dummyKey 1)), d2 := od.contains (.name (dummyKey 2)),
            d3 := od.contains (.name (dummyKey 3)), d4 := od.contains (.name (dummyKey 4)),
            d5 := od.contains (.name (dummyKey 5)), d6 := od.contains (.name (dummyKey 6)),
            d7 := od.contains (.name (dummyKey 7)) } acc) := by
  have := processSection_dummy doc nid acc
    { d1 := od.contains (.name (dummyKey 1)), d2 := od.contains (.name (dummyKey 2)),
      d3 := od.contains (.name (dummyKey 3)), d4 := od.contains (.name (dummyKey 4)),
      d5 := od.contains (.name (dummyKey 5)), d6 := od.contains (.name (dummyKey 6)),
      d7 := od.contains (.name (dummyKey 7)) }
  exact this

/-- the dummy entries the exported `[DummyUsage]` section announces -/
def dummiesOf (od : OD) : SDummy :=
  { d1 := od.contains (.name (dummyKey 1)), d2 := od.contains (.name (dummyKey 2)),
    d3 := od.contains (.name (dummyKey 3)), d4 := od.contains (.name (dummyKey 4)),
    d5 := od.contains (.name (dummyKey 5)), d6 := od.contains (.name (dummyKey 6)),
    d7 := od.contains (.name (dummyKey 7)) }

/-- **All objects.**  For a dictionary whose objects from index 0x1000 on are of the property's
    domain, `export_eds` produces sections (no exception) and the section loop of `import_eds` over
    *all* of them — header sections, the three object lists, every object — yields the dummy
    entries and then every object of the three lists, each as the round trip leaves it. -/
theorem export_objects_import (doc : Doc) (nid : Option Int) (od acc : OD) (dcf : Bool)
    (hok : ListedOK nid od (od.iter.filter fun i => isMandatory i || isOptional i || isManufacturer i)) :
    ∃ secs, exportSections od dcf = some secs ∧
      secs.foldlM (processSection doc nid) acc
        = some (addListed dcf od (od.iter.filter isManufacturer)
            (addListed dcf od (od.iter.filter isOptional)
              (addListed dcf od (od.iter.filter isMandatory) (addDummies (dummiesOf od) acc)))) := by
  have sub : ∀ p : Nat → Bool, (∀ i, p i = true → (isMandatory i || isOptional i || isManufacturer i) = true) →
      ListedOK nid od (od.iter.filter p) := by
    intro p hp i hi
    rw [List.mem_filter] at hi
    exact hok i (List.mem_filter.mpr ⟨hi.1, hp i hi.2⟩)
  obtain ⟨a, ha, hpa⟩ := export_addList_import doc nid od dcf sMandatoryObjects (by simp)
    (od.iter.filter isMandatory) (addDummies (dummiesOf od) acc) (sub _ (by intro i h; simp [h]))
  obtain ⟨b, hb, hpb⟩ := export_addList_import doc nid od dcf sOptionalObjects (by simp)
    (od.iter.filter isOptional) (addListed dcf od (od.iter.filter isMandatory) (addDummies (dummiesOf od) acc))
    (sub _ (by intro i h; simp [h]))
  obtain ⟨c, hc, hpc⟩ := export_addList_import doc nid od dcf sManufacturerObjects (by simp)
    (od.iter.filter isManufacturer)
    (addListed dcf od (od.iter.filter isOptional)
      (addListed dcf od (od.iter.filter isMandatory) (addDummies (dummiesOf od) acc)))
    (sub _ (by intro i h; simp [h]))
  refine ⟨exportHeader od dcf ++ a ++ b ++ c, by simp [exportSections, ha, hb, hc], ?_⟩
  have ign : ∀ (n : Str) (opts : List (Str × Str)) (x : OD),
      n ∈ [sMandatoryObjects, sOptionalObjects, sManufacturerObjects, sDeviceInfo, sDeviceComissioning, sComments] →
      processSection doc nid x ⟨n, opts⟩ = some x := by
    intro n opts x hn
    obtain ⟨h1, h2, h3, h4⟩ := listNames_ignored n hn
    exact processSection_ignored doc nid x _ h1 h2 h3 h4
  have hhdr : (exportHeader od dcf).foldlM (processSection doc nid) acc = some (addDummies (dummiesOf od) acc) := by
    unfold exportHeader
    simp only [List.foldlM_append, List.foldlM_cons, List.foldlM_nil, ign _ _ _ (by simp : sDeviceInfo ∈ _),
      Option.bind_eq_bind, Option.bind_some]
    split
    · simp only [List.foldlM_cons, List.foldlM_nil, ign _ _ _ (by simp : sDeviceComissioning ∈ _),
        ign _ _ _ (by simp : sComments ∈ _), Option.bind_eq_bind, Option.bind_some, Option.pure_def]
      rw [export_dummy_import doc nid od acc]; rfl
    · simp only [List.foldlM_nil, ign _ _ _ (by simp : sComments ∈ _), Option.bind_eq_bind, Option.bind_some,
        Option.pure_def]
      rw [export_dummy_import doc nid od acc]; rfl
  simp only [List.foldlM_append, hhdr, hpa, hpb, hpc, Option.bind_eq_bind, Option.bind_some]

/-! ## T export_import -/

theorem sec_none_of_not_contains (d : Doc) (n : Str) (h : (d.map (·.name)).contains n = false) :
    Doc.sec d n = none := by
  apply sec_none_of_ne
  intro s hs he
  have : (d.map (·.name)).contains n = true := by
    simp only [List.contains_eq_mem, List.mem_map, decide_eq_true_eq]
    exact ⟨s, hs, he⟩
  rw [h] at this
  exact Bool.noConfusion this

/- Full statement (target of DESIGN §5 C14):

     theorem export_import (od : OD) (hwf : WF od) (dcf : Bool) (nid : Option Int) :
         ∃ d, exportDoc od dcf = some d ∧ importEds d nid = some (od as the round trip leaves it)

   Proved below: everything the statement says about **objects** — for every dictionary whose
   objects from 0x1000 on are of the property's domain, whenever `export_eds` gets through
   (`exportDoc od dcf = some d`, i.e. no two sections of the same name) and the three header blocks of
   the re-import are read, the re-imported dictionary consists of exactly the dummy entries and
   every object of the three lists as `export_object_import` leaves it (all attributes of the
   property's list).  The header blocks have their own theorems (`export_commissioning_import`,
   `export_comments_import`).  Missing for the full statement: (a) that distinct indexes give
   distinct section names (`namesOk`), (b) the `[DeviceInfo]` block (14 attributes + bit rates) read
   back from what `export_eds` writes — both rest on the correspondence run. -/
theorem export_import_objects (od : OD) (dcf : Bool) (nid : Option Int)
    (hok : ListedOK nid od (od.iter.filter fun i => isMandatory i || isOptional i || isManufacturer i))
    (d : Doc) (hd : exportDoc od dcf = some d)
    (com : Str) (bauds : List Nat) (props : List (Str × DevVal)) (br odNid : Option Int)
    (h1 : importComments d = some com) (h2 : importDeviceInfo d = some (bauds, props))
    (h3 : importCommissioning d nid = some (br, odNid, nid)) :
    importEds d nid = some
      (addListed dcf od (od.iter.filter isManufacturer)
        (addListed dcf od (od.iter.filter isOptional)
          (addListed dcf od (od.iter.filter isMandatory)
            (addDummies (dummiesOf od)
              { comments := com, bauds := bauds, devInfo := props, bitrate := br, nodeId := odNid })))) := by
  unfold exportDoc at hd
  cases hs : exportSections od dcf with
  | none => rw [hs] at hd; exact absurd hd (by simp)
  | some secs =>
    rw [hs] at hd
    simp only [] at hd
    split at hd
    · rename_i hn
      simp only [Option.some.injEq] at hd
      subst hd
      have hfi : Doc.sec secs sFileInfo = none := by
        apply sec_none_of_not_contains
        simp only [namesOk, Bool.and_eq_true, Bool.not_eq_true'] at hn
        exact hn.2
      obtain ⟨secs', he, hp⟩ := export_objects_import secs nid od
        { comments := com, bauds := bauds, devInfo := props, bitrate := br, nodeId := odNid } dcf hok
      rw [hs] at he
      simp only [Option.some.injEq] at he
      subst he
      unfold importEds
      simp only [h1, h2, h3, hfi, Option.map_none]
      exact hp
    · exact absurd hd (by simp)

/-- the objects of the three lists are exactly the objects from index 0x1000 on, each once -/
theorem lists_cover (l : List Nat) :
    ∀ i, (i ∈ l.filter isMandatory ∨ i ∈ l.filter isOptional ∨ i ∈ l.filter isManufacturer) ↔
      (i ∈ l ∧ 0x1000 ≤ i) := by
  intro i
  obtain ⟨hge, hlt⟩ := lists_partition i
  simp only [List.mem_filter]
  constructor
  · intro h
    refine ⟨by rcases h with h | h | h <;> exact h.1, ?_⟩
    by_cases hi : 0x1000 ≤ i
    · exact hi
    · obtain ⟨a, b, c⟩ := hlt (by omega)
      rcases h with h | h | h
      · rw [a] at h; exact absurd h.2 (by simp)
      · rw [b] at h; exact absurd h.2 (by simp)
      · rw [c] at h; exact absurd h.2 (by simp)
  · intro ⟨hm, hi⟩
    rcases hge hi with ⟨a, _, _⟩ | ⟨_, b, _⟩ | ⟨_, _, c⟩
    · exact Or.inl ⟨hm, a⟩
    · exact Or.inr (Or.inl ⟨hm, b⟩)
    · exact Or.inr (Or.inr ⟨hm, c⟩)

/-! ## header blocks -/

theorem pyInt10_intStr (i : Int) : pyInt10 (intStr i) = some i := by
  unfold intStr
  split
  · rename_i h
    unfold pyInt10
    rw [strip_of_noSpace _ (by
      intro c hc
      rcases List.mem_cons.mp hc with rfl | hc
      · decide
      · exact natStr_notSpace 10 (by omega) (by omega) false _ c hc)]
    have hp := parseBody_padded 10 (by omega) (by omega) false 0 (-i).toNat
    rw [← natStr_eq_padded] at hp
    simp only [splitSign, if_true, hp, Option.map_some, applySign]
    congr 1; omega
  · rename_i h
    rw [pyInt10_natStr]; congr 1; omega

/-- **Bit rate and node id (DCF).**  What `export_eds` writes into `[DeviceComissioning]` is read back
    as the same bit rate (a multiple of 1000) and node id; an explicit node id argument wins. -/
theorem export_commissioning_import (d : Doc) (nm : Str) (od : OD) (arg : Option Int)
    (hsec : Doc.sec d sDeviceComissioning = some ⟨nm, commissioningOptsX od⟩)
    (hbr : ∀ b, od.bitrate = some b → ∃ k : Int, b = k * 1000) :
    importCommissioning d arg =
      some (truthyInt od.bitrate, pickNodeId arg ((truthyInt od.nodeId).map fun n => (n, ({} : NumSp))),
            pickNodeId arg ((truthyInt od.nodeId).map fun n => (n, ({} : NumSp)))) := by
  unfold importCommissioning
  rw [hsec]
  have hk1 : ¬ (kNodeID = kBaudrate) := by decide
  have hk2 : ¬ (kBaudrate = kNodeID) := by decide
  have hne : ∀ n : Int, ¬ (spellInt {} n = []) := fun n h => by
    have := spellInt_ne_nil {} n; simp [h] at this
  have hne' : ∀ n : Int, (spellInt {} n).isEmpty = false := fun n => spellInt_ne_nil {} n
  have hp10 : ∀ n : Int, pyInt10 (spellInt {} n) = some n := fun n => by
    rw [← intStr_eq]; exact pyInt10_intStr n
  cases hb : truthyInt od.bitrate with
  | none =>
    cases hn : truthyInt od.nodeId with
    | none =>
      cases arg <;>
        simp [Sec.get, commissioningOptsX, hb, hn, dictGet, pickNodeId]
    | some n =>
      cases arg <;>
        simp [Sec.get, commissioningOptsX, hb, hn, dictGet, hk1, pickNodeId, intStr_eq, pyInt0_spellInt, hne']
  | some b =>
    have hb0 : b ≠ 0 ∧ od.bitrate = some b := by
      unfold truthyInt at hb
      cases ho : od.bitrate with
      | none => rw [ho] at hb; exact absurd hb (by simp)
      | some x =>
        rw [ho] at hb
        simp only [] at hb
        split at hb
        · exact absurd hb (by simp)
        · rename_i hx; simp only [Option.some.injEq] at hb; subst hb; exact ⟨hx, rfl⟩
    obtain ⟨k, hk⟩ := hbr b hb0.2
    have hkne : k ≠ 0 := by intro h0; subst h0; exact hb0.1 (by simpa using hk)
    subst hk
    have hq : (k * 1000).tdiv 1000 = k := Int.mul_tdiv_cancel k (by decide)
    cases hn : truthyInt od.nodeId with
    | none =>
      cases arg <;>
        simp [Sec.get, commissioningOptsX, hb, hn, dictGet, hk2, hq, pyInt10_intStr, hkne, pickNodeId]
    | some n =>
      cases arg <;>
        simp [Sec.get, commissioningOptsX, hb, hn, dictGet, hk1, hk2, hq, hp10, hkne, pickNodeId,
          intStr_eq, pyInt0_spellInt, hne']

theorem commentOptsX_eq : ∀ (ls : List Str) (k : Nat), commentOptsX k ls = numbered c!"Line" k ls := by
  intro ls
  induction ls with
  | nil => intro k; rfl
  | cons l r ih => intro k; simp only [commentOptsX, numbered, ih]

theorem dictGet_numbered_none (pre key : Str) (h : ∀ k, key ≠ pre ++ natStr 10 false k) :
    ∀ (ls : List Str) (k : Nat), dictGet key (numbered pre k ls) = none := by
  intro ls
  induction ls with
  | nil => intro k; rfl
  | cons l r ih =>
    intro k
    simp only [numbered, dictGet]
    rw [if_neg (fun he => h k he.symm)]
    exact ih (k + 1)

theorem kLines_ne_line (k : Nat) : kLines ≠ c!"Line" ++ natStr 10 false k := by
  obtain ⟨d, r, hr, hd⟩ := natStr10_head k
  have hs : digitChar false d ≠ 's' := (digitChar_props16 ⟨d, by omega⟩ false).2.2.2.2.2.2.2.2.2.1
  rw [hr, kLines]
  intro he
  simp only [List.cons_append, List.nil_append, List.cons.injEq] at he
  exact hs he.2.2.2.2.1.symm

/-- **Comments.**  What `export_eds` writes into `[Comments]` is read back as the lines of the comment
    text joined by line feeds. -/
theorem export_comments_import (d : Doc) (nm : Str) (od : OD)
    (hsec : Doc.sec d sComments = some ⟨nm, commentsOptsX od⟩) :
    importComments d = some (joinWith c!"\n" (splitLines od.comments)) := by
  unfold importComments
  rw [hsec]
  have hl : Sec.get ⟨nm, commentsOptsX od⟩ kLines = some (natStr 10 false (splitLines od.comments).length) := by
    simp only [Sec.get, commentsOptsX, commentOptsX_eq, dictGet_append,
      dictGet_numbered_none c!"Line" kLines kLines_ne_line, dictGet, if_true]
  have hp : pyInt0 (natStr 10 false (splitLines od.comments).length) = some ((splitLines od.comments).length : Int) :=
    pyInt0_spellNat {} _
  simp only [hl, Option.bind_some, hp, Int.toNat_natCast]
  rw [commentLines_eq _ (splitLines od.comments) 1 (fun j h => by
    simp only [Sec.get, commentsOptsX, commentOptsX_eq, dictGet_append,
      dictGet_numbered c!"Line" (splitLines od.comments) 1 j h])]
  rfl

theorem splitLinesAux_cons (c : Char) (r cur : Str) (hc : c ≠ '\r') :
    splitLinesAux (c :: r) cur =
      if isLineBreak c then cur.reverse :: splitLinesAux r [] else splitLinesAux r (c :: cur) := by
  cases r <;> simp [splitLinesAux, hc]

theorem splitLinesAux_line (l : Str) (hl : ∀ c ∈ l, isLineBreak c = false) (rest cur : Str) :
    splitLinesAux (l ++ rest) cur = splitLinesAux rest (l.reverse ++ cur) := by
  induction l generalizing cur with
  | nil => rfl
  | cons c r ih =>
    have hc : isLineBreak c = false := hl c (by simp)
    have hcr : c ≠ '\r' := by intro h; subst h; exact absurd hc (by decide)
    simp only [List.cons_append]
    rw [splitLinesAux_cons c _ cur hcr]
    simp only [hc, Bool.false_eq_true, if_false]
    rw [ih (fun x hx => hl x (by simp [hx]))]
    simp

/-- a comment text made of lines without line-break characters, the last one not empty, is what
    `splitlines()` takes apart and `'\n'.join` puts together again -/
theorem splitLines_join : ∀ (ls : List Str), (∀ l ∈ ls, ∀ c ∈ l, isLineBreak c = false) →
    ls.getLast? ≠ some [] → splitLines (joinWith ['\n'] ls) = ls := by
  intro ls
  unfold splitLines
  induction ls with
  | nil => intro _ _; rfl
  | cons a r ih =>
    intro hl hlast
    cases r with
    | nil =>
      have ha : a ≠ [] := by intro h; subst h; exact hlast rfl
      have := splitLinesAux_line a (hl a (by simp)) [] []
      simp only [List.append_nil] at this
      simp only [joinWith, this, splitLinesAux]
      cases a with
      | nil => exact absurd rfl ha
      | cons x xs => simp
    | cons b r' =>
      have h1 := splitLinesAux_line a (hl a (by simp)) ('\n' :: joinWith ['\n'] (b :: r')) []
      have hn : ('\n' : Char) ≠ '\r' := by decide
      have hb : isLineBreak '\n' = true := by decide
      simp only [joinWith, List.singleton_append, List.append_assoc, List.cons_append, List.nil_append]
      rw [h1, splitLinesAux_cons _ _ _ hn]
      simp only [hb, if_true, List.append_nil, List.reverse_reverse]
      rw [ih (fun l hm => hl l (by simp [hm])) (by simpa using hlast)]

/-- comments of the property's domain come back unchanged -/
theorem export_comments_import_wf (d : Doc) (nm : Str) (od : OD) (ls : List Str)
    (hc : od.comments = joinWith ['\n'] ls) (hl : ∀ l ∈ ls, ∀ c ∈ l, isLineBreak c = false)
    (hlast : ls.getLast? ≠ some [])
    (hsec : Doc.sec d sComments = some ⟨nm, commentsOptsX od⟩) :
    importComments d = some od.comments := by
  rw [export_comments_import d nm od hsec, hc, splitLines_join ls hl hlast]

/-! ### `[DeviceInfo]` -/

theorem dictGet_map_mem {α β : Type} (g : Str × α → β) : ∀ (l : List (Str × α)), (l.map (·.1)).Nodup →
    ∀ row ∈ l, dictGet row.1 (l.map fun r => (r.1, g r)) = some (g row) := by
  intro l
  induction l with
  | nil => intro _ row h; simp at h
  | cons x r ih =>
    intro hnd row hrow
    simp only [List.map_cons, List.nodup_cons] at hnd
    rcases List.mem_cons.mp hrow with rfl | hr
    · simp [dictGet]
    · have hne : ¬ (x.1 = row.1) := by
        intro he
        exact hnd.1 (by rw [he]; exact List.mem_map.mpr ⟨row, hr, rfl⟩)
      simp only [List.map_cons, dictGet, hne, if_false]
      exact ih hnd.2 row hr

theorem mapM_eq_some_map {α β : Type} (f : α → Option β) (g : α → β) :
    ∀ l : List α, (∀ x ∈ l, f x = some (g x)) → l.mapM f = some (l.map g) := by
  intro l
  induction l with
  | nil => intro _; rfl
  | cons x r ih =>
    intro h
    simp [List.mapM_cons, h x (by simp), ih (fun y hy => h y (by simp [hy]))]

/-- the values a `[DeviceInfo]` attribute may have for its row of the import table -/
def kindOK (kind : Nat) : DevVal → Prop
  | .str _ => kind = 0
  | .int _ => kind = 1
  | .bool _ => kind = 2

/-- device information of the property's domain: texts where the library keeps texts, numbers where
    it keeps numbers, truth values where it keeps truth values, and standard bit rates -/
structure DevOK (od : OD) : Prop where
  kinds : ∀ row ∈ DEVINFO_IMPORT, ∀ v, dictGet row.2.2 od.devInfo = some v → kindOK row.1 v

theorem importDevProp_back (s : Sec) (kind : Nat) (key attr : Str) (o : Option DevVal)
    (hget : s.get key = o.map devValText) (hkind : ∀ v, o = some v → kindOK kind v) :
    importDevProp s (kind, key, attr) = some (o.map fun v => (attr, v)) := by
  unfold importDevProp
  simp only [hget]
  cases o with
  | none => rfl
  | some v =>
    have hk := hkind v rfl
    cases v with
    | str t => simp only [kindOK] at hk; subst hk; rfl
    | int i =>
      simp only [kindOK] at hk; subst hk
      simp [devValText, intStr_eq, pyInt0_spellInt]
    | bool b =>
      simp only [kindOK] at hk; subst hk
      cases b
      · have : pyInt0 c!"0" = some 0 := by decide
        simp [devValText, this]
      · have : pyInt0 c!"1" = some 1 := by decide
        simp [devValText, this]

def baudKey (q : Nat) : Str := c!"BaudRate_" ++ natStr 10 false q

theorem natStr_no_dot (n : Nat) : '.' ∉ natStr 10 false n := by
  intro h
  simp only [natStr, List.mem_map] at h
  obtain ⟨d, hd, he⟩ := h
  have hlt := natDigits_lt 10 (by omega) n d hd
  have := digitChar_isHex false d (by omega)
  rw [he] at this
  exact absurd this (by decide)

theorem dictGet_bauds1 (rate : Nat) : ∀ bauds : List Nat,
    dictGet (baudKey rate) (bauds.map fun r => (baudKey (r / 1000), c!"1"))
      = if bauds.any (fun r => r / 1000 = rate) then some c!"1" else none := by
  intro bauds
  induction bauds with
  | nil => rfl
  | cons r rs ih =>
    simp only [List.map_cons, dictGet, List.any_cons]
    by_cases h : r / 1000 = rate
    · simp [h]
    · have hne : ¬ (baudKey (r / 1000) = baudKey rate) := by
        intro he
        exact h (natStr10_inj _ _ (List.append_cancel_left he))
      simp [hne, h, ih]

theorem dictGet_bauds0 (rate : Nat) : ∀ l : List Nat,
    dictGet (baudKey rate) (l.map fun r => (baudKey (r / 1000) ++ c!".0", c!"0")) = none := by
  intro l
  induction l with
  | nil => rfl
  | cons r rs ih =>
    have hne : ¬ (baudKey (r / 1000) ++ c!".0" = baudKey rate) := by
      intro he
      simp only [baudKey, List.append_assoc] at he
      have h2 := List.append_cancel_left he
      have : '.' ∈ natStr 10 false rate := by rw [← h2]; simp
      exact natStr_no_dot rate this
    simp only [List.map_cons, dictGet, hne, if_false]
    exact ih

theorem dictGet_noBaudPrefix (key : Str) (h : (c!"BaudRate_").isPrefixOf key = false) :
    ∀ (l : List Nat) (f : Nat → Str) (v : Str), dictGet key (l.map fun r => (baudKey (r / 1000) ++ f r, v)) = none := by
  intro l f v
  induction l with
  | nil => rfl
  | cons r rs ih =>
    have hne : ¬ (baudKey (r / 1000) ++ f r = key) := by
      intro he
      have : (c!"BaudRate_").isPrefixOf key = true := by
        rw [← he]; simp [baudKey, List.isPrefixOf, List.append_assoc]
      rw [h] at this; exact Bool.noConfusion this
    simp only [List.map_cons, dictGet, hne, if_false]
    exact ih

/-- the first block of the exported `[DeviceInfo]` as rows (key, optional text) -/
def devRowsX (od : OD) : List (Str × Option Str) :=
  DEVINFO_EXPORT.map fun row => (row.1, (dictGet row.2 od.devInfo).map devValText)

theorem deviceInfoOpts_eq (od : OD) :
    deviceInfoOpts od = optRows (devRowsX od) ++
      ((od.bauds.map fun r => (baudKey (r / 1000), c!"1")) ++
       ((EXPORT_BAUDS.filter fun r => !od.bauds.contains r).map fun r => (baudKey (r / 1000) ++ c!".0", c!"0"))) := by
  have h : ∀ l : List (Str × Str),
      (l.filterMap fun row => (dictGet row.2 od.devInfo).map fun v => (row.1, devValText v))
        = optRows (l.map fun row => (row.1, (dictGet row.2 od.devInfo).map devValText)) := by
    intro l
    induction l with
    | nil => rfl
    | cons x r ih =>
      simp only [List.filterMap_cons, List.map_cons, optRows] at ih ⊢
      cases dictGet x.2 od.devInfo <;> simp [ih]
  simp only [deviceInfoOpts, devRowsX, h, List.append_assoc, baudKey]

theorem devRowsX_keys (od : OD) : (devRowsX od).map (·.1) = DEVINFO_EXPORT.map (·.1) := by
  simp [devRowsX, List.map_map, Function.comp]

theorem exportKeys_nodup : (DEVINFO_EXPORT.map (·.1)).Nodup := by decide

theorem importRows_eq : DEVINFO_IMPORT.map (·.2) = DEVINFO_EXPORT := by decide

theorem exportKeys_noBaud : ∀ row ∈ DEVINFO_EXPORT, (c!"BaudRate_").isPrefixOf row.1 = false := by decide

theorem baudKeys_notDev : ∀ rate ∈ BAUD_RATES, baudKey rate ∉ DEVINFO_EXPORT.map (·.1) := by decide

/-- what the re-import makes of the allowed bit rates -/
def baudsBack (od : OD) : List Nat :=
  BAUD_RATES.filterMap fun rate => if od.bauds.any (fun r => r / 1000 = rate) then some (rate * BAUD_UNIT) else none

/-- what the re-import makes of the device attributes: the known ones, in table order -/
def devInfoBack (od : OD) : List (Str × DevVal) :=
  DEVINFO_IMPORT.filterMap fun row => (dictGet row.2.2 od.devInfo).map fun v => (row.2.2, v)

/-- **Device information.**  What `export_eds` writes into `[DeviceInfo]` is read back as the same
    attribute values and the same allowed bit rates. -/
theorem export_devinfo_import (d : Doc) (nm : Str) (od : OD) (hk : DevOK od)
    (hsec : Doc.sec d sDeviceInfo = some ⟨nm, deviceInfoOpts od⟩) :
    importDeviceInfo d = some (baudsBack od, devInfoBack od) := by
  unfold importDeviceInfo
  rw [hsec]
  have hprops : DEVINFO_IMPORT.mapM (importDevProp ⟨nm, deviceInfoOpts od⟩)
      = some (DEVINFO_IMPORT.map fun row => (dictGet row.2.2 od.devInfo).map fun v => (row.2.2, v)) := by
    apply mapM_eq_some_map
    intro row hrow
    have hmem : row.2 ∈ DEVINFO_EXPORT := by
      rw [← importRows_eq]; exact List.mem_map.mpr ⟨row, hrow, rfl⟩
    obtain ⟨kind, key, attr⟩ := row
    apply importDevProp_back _ kind key attr (dictGet attr od.devInfo) _ (fun v hv => hk.kinds _ hrow v hv)
    simp only [Sec.get, deviceInfoOpts_eq, dictGet_append,
      dictGet_optRows key (devRowsX od) (by rw [devRowsX_keys]; exact exportKeys_nodup)]
    have h1 : dictGet key (devRowsX od) = some ((dictGet attr od.devInfo).map devValText) :=
      dictGet_map_mem (fun r : Str × Str => (dictGet r.2 od.devInfo).map devValText) DEVINFO_EXPORT
        exportKeys_nodup (key, attr) hmem
    have hnb := exportKeys_noBaud (key, attr) hmem
    have h2 := dictGet_noBaudPrefix key hnb od.bauds (fun _ => []) c!"1"
    have h3 := dictGet_noBaudPrefix key hnb (EXPORT_BAUDS.filter fun r => !od.bauds.contains r) (fun _ => c!".0") c!"0"
    simp only [List.append_nil] at h2
    rw [h1]
    simp only [Option.join_some]
    cases dictGet attr od.devInfo with
    | some v => rfl
    | none => simp only [Option.map_none, h2, h3]
  have hbauds : BAUD_RATES.mapM (importBaud ⟨nm, deviceInfoOpts od⟩)
      = some (BAUD_RATES.map fun rate =>
          if od.bauds.any (fun r => r / 1000 = rate) then some (rate * BAUD_UNIT) else none) := by
    apply mapM_eq_some_map
    intro rate hrate
    unfold importBaud
    have hget : Sec.get ⟨nm, deviceInfoOpts od⟩ (c!"BaudRate_" ++ natStr 10 false rate)
        = if od.bauds.any (fun r => r / 1000 = rate) then some c!"1" else none := by
      have hk' : baudKey rate ∉ (devRowsX od).map (·.1) := by
        rw [devRowsX_keys]; exact baudKeys_notDev rate hrate
      show dictGet (baudKey rate) (deviceInfoOpts od) = _
      simp only [deviceInfoOpts_eq, dictGet_append, dictGet_optRows_absent (baudKey rate) (devRowsX od) hk',
        dictGet_bauds1, dictGet_bauds0]
      cases od.bauds.any (fun r => decide (r / 1000 = rate)) <;> rfl
    rw [hget]
    have h1 : pyInt0 c!"1" = some 1 := by decide
    have h0 : pyInt0 c!"0" = some 0 := by decide
    cases od.bauds.any (fun r => decide (r / 1000 = rate)) <;> simp [h1, h0]
  simp only [hprops, hbauds, baudsBack, devInfoBack, List.filterMap_map]
  rfl

/-! ### the whole document -/

theorem mapM_mem {α β : Type} (f : α → Option β) : ∀ (l : List α) (ys : List β), l.mapM f = some ys →
    ∀ y ∈ ys, ∃ x ∈ l, f x = some y := by
  intro l
  induction l with
  | nil => intro ys h y hy; simp at h; subst h; simp at hy
  | cons a r ih =>
    intro ys h y hy
    simp only [List.mapM_cons, Option.pure_def, Option.bind_eq_bind] at h
    cases hfa : f a with
    | none => rw [hfa] at h; simp at h
    | some b =>
      rw [hfa] at h
      simp only [Option.bind_some] at h
      cases hr : r.mapM f with
      | none => rw [hr] at h; simp at h
      | some bs =>
        rw [hr] at h
        simp only [Option.bind_some, Option.some.injEq] at h
        subst h
        rcases List.mem_cons.mp hy with rfl | hy'
        · exact ⟨a, by simp, hfa⟩
        · obtain ⟨x, hx, hfx⟩ := ih bs hr y hy'
          exact ⟨x, by simp [hx], hfx⟩

theorem exportVariable_name (dcf nested : Bool) (v : Var) (sec : Sec) (h : exportVariable dcf nested v = some sec) :
    sec.name = varSecName nested v := by
  unfold exportVariable at h
  split at h
  · simp only [Option.some.injEq] at h; rw [← h]
  · exact absurd h (by simp)

/-- every section of an exported object is named with the four hex digits of its index in front -/
theorem exportObject_names (nid : Option Int) (dcf : Bool) (o : Obj) (ho : ObjOK nid o) (secs : List Sec)
    (he : exportObject dcf o = some secs) : ∀ s ∈ secs, ∃ i r, s.name = hex4 true i ++ r := by
  intro s hs
  cases o with
  | var v =>
    obtain ⟨_, hi, _⟩ := ho
    simp only [exportObject, Option.map_eq_some_iff] at he
    obtain ⟨sec, hsec, rfl⟩ := he
    simp only [List.mem_singleton] at hs
    subst hs
    refine ⟨v.index, [], ?_⟩
    rw [exportVariable_name dcf false v s hsec]
    simp only [varSecName, Bool.false_eq_true, if_false, List.append_nil]
    exact fmtHexPad4_eq_hex4 v.index hi
  | coll c =>
    simp only [exportObject, exportColl, Option.map_eq_some_iff] at he
    obtain ⟨ms, hms, rfl⟩ := he
    rcases List.mem_cons.mp hs with rfl | hm
    · exact ⟨c.index, [], by simp only [collMainSec, List.append_nil]; exact fmtHexPad4_eq_hex4 c.index ho.index_lt⟩
    · obtain ⟨k, hk, hfk⟩ := mapM_mem _ _ _ hms s hm
      cases hg : dictGet k c.subs with
      | none => rw [hg] at hfk; simp at hfk
      | some v =>
        rw [hg] at hfk
        simp only [Option.bind_some] at hfk
        have hv : v ∈ membersInOrder c := by
          unfold membersInOrder
          exact List.mem_filterMap.mpr ⟨k, hk, hg⟩
        refine ⟨c.index, c!"sub" ++ natStr 16 true v.subindex, ?_⟩
        rw [exportVariable_name dcf true v s hfk]
        simp only [varSecName, if_true, ho.members_index v hv, fmtHexPad4_eq_hex4 c.index ho.index_lt,
          List.append_assoc]

theorem addList_names (nid : Option Int) (dcf : Bool) (od : OD) (name : Str) (l : List Nat)
    (hok : ListedOK nid od l) (secs : List Sec) (he : addList dcf od name l = some secs) :
    ∀ s ∈ secs, s.name = name ∨ ∃ i r, s.name = hex4 true i ++ r := by
  intro s hs
  simp only [addList, Option.map_eq_some_iff] at he
  obtain ⟨ss, hss, rfl⟩ := he
  rcases List.mem_cons.mp hs with rfl | hm
  · exact Or.inl rfl
  · right
    obtain ⟨grp, hgrp, hsg⟩ := List.mem_flatten.mp hm
    obtain ⟨i, hi, hfi⟩ := mapM_mem _ _ _ hss grp hgrp
    obtain ⟨o, hbi, hoo⟩ := hok i hi
    rw [hbi] at hfi
    exact exportObject_names nid dcf o hoo grp hfi s hsg

theorem notHex_names : ∀ n ∈ [sDeviceComissioning, sMandatoryObjects, sOptionalObjects, sManufacturerObjects],
    (n.take 4).all isHexDigit = false := by decide

/-- a dictionary of the property's domain -/
structure ODOK (nid : Option Int) (od : OD) : Prop where
  objs : ListedOK nid od (od.iter.filter fun i => isMandatory i || isOptional i || isManufacturer i)
  dev : DevOK od
  bitrate : ∀ b, od.bitrate = some b → ∃ k : Int, b = k * 1000

/-- `[DeviceComissioning]` is written for a DCF that has a bit rate or a node id -/
def commWritten (od : OD) (dcf : Bool) : Prop :=
  dcf = true ∧ ((truthyInt od.bitrate).isSome = true ∨ (truthyInt od.nodeId).isSome = true)

instance (od : OD) (dcf : Bool) : Decidable (commWritten od dcf) := by unfold commWritten; infer_instance

theorem exportSections_shape (od : OD) (dcf : Bool) (secs : List Sec) (h : exportSections od dcf = some secs) :
    ∃ a b c, addList dcf od sMandatoryObjects (od.iter.filter isMandatory) = some a ∧
      addList dcf od sOptionalObjects (od.iter.filter isOptional) = some b ∧
      addList dcf od sManufacturerObjects (od.iter.filter isManufacturer) = some c ∧
      secs = exportHeader od dcf ++ a ++ b ++ c := by
  unfold exportSections at h
  simp only [] at h
  split at h
  · rename_i a b c ha hb hc
    simp only [Option.some.injEq] at h
    exact ⟨a, b, c, ha, hb, hc, h.symm⟩
  · exact absurd h (by simp)

/-- **Whole dictionary.**  Whenever `export_eds` / `export_dcf` returns a document for a dictionary
    of the property's domain (it does unless two sections get the same name), importing that document
    under the node id in force yields: the same comment lines, allowed bit rates and device
    attributes; for DCF the same bit rate and node id; the dummy entries; and every object of the
    three lists with every attribute of the property's list (`objAfterRoundTrip`).

    `_partial` only in that "export returns" is a hypothesis: that distinct indexes give distinct
    section names is not proved here (the correspondence run covers it). -/
theorem export_import_partial (od : OD) (dcf : Bool) (arg : Option Int) (hod : ODOK arg od)
    (harg : arg.isSome = true ∨ truthyInt od.nodeId = none ∨ dcf = false)
    (d : Doc) (hd : exportDoc od dcf = some d) :
    importEds d arg = some
      (addListed dcf od (od.iter.filter isManufacturer)
        (addListed dcf od (od.iter.filter isOptional)
          (addListed dcf od (od.iter.filter isMandatory)
            (addDummies (dummiesOf od)
              { comments := joinWith c!"\n" (splitLines od.comments), bauds := baudsBack od,
                devInfo := devInfoBack od,
                bitrate := if commWritten od dcf then truthyInt od.bitrate else none,
                nodeId := if commWritten od dcf then arg else none })))) := by
  have hd0 := hd
  unfold exportDoc at hd
  cases hs : exportSections od dcf with
  | none => rw [hs] at hd; exact absurd hd (by simp)
  | some secs =>
    rw [hs] at hd
    simp only [] at hd
    split at hd
    · simp only [Option.some.injEq] at hd
      subst hd
      obtain ⟨a, b, c, ha, hb, hc, hshape⟩ := exportSections_shape od dcf secs hs
      have sub : ∀ p : Nat → Bool, (∀ i, p i = true → (isMandatory i || isOptional i || isManufacturer i) = true) →
          ListedOK arg od (od.iter.filter p) := by
        intro p hp i hi
        rw [List.mem_filter] at hi
        exact hod.objs i (List.mem_filter.mpr ⟨hi.1, hp i hi.2⟩)
      -- names of the object part
      have hrest : ∀ s ∈ a ++ b ++ c, s.name ≠ sDeviceComissioning := by
        intro s hs'
        have hcases : s.name = sMandatoryObjects ∨ s.name = sOptionalObjects ∨ s.name = sManufacturerObjects ∨
            ∃ i r, s.name = hex4 true i ++ r := by
          rcases List.mem_append.mp hs' with h | h
          · rcases List.mem_append.mp h with h | h
            · rcases addList_names arg dcf od _ _ (sub _ (by intro i h; simp [h])) a ha s h with h | h
              · exact Or.inl h
              · exact Or.inr (Or.inr (Or.inr h))
            · rcases addList_names arg dcf od _ _ (sub _ (by intro i h; simp [h])) b hb s h with h | h
              · exact Or.inr (Or.inl h)
              · exact Or.inr (Or.inr (Or.inr h))
          · rcases addList_names arg dcf od _ _ (sub _ (by intro i h; simp [h])) c hc s h with h | h
            · exact Or.inr (Or.inr (Or.inl h))
            · exact Or.inr (Or.inr (Or.inr h))
        rcases hcases with h | h | h | ⟨i, r, h⟩
        · rw [h]; decide
        · rw [h]; decide
        · rw [h]; decide
        · rw [h]; exact hex4_append_ne true i r _ (notHex_names _ (by simp))
      -- the three header blocks
      have hsecDev : Doc.sec secs sDeviceInfo = some ⟨sDeviceInfo, deviceInfoOpts od⟩ := by
        rw [hshape]; simp [exportHeader, Doc.sec]
      have hsecCom : Doc.sec secs sComments = some ⟨sComments, commentsOptsX od⟩ := by
        rw [hshape]
        have h1 : ¬ (sDeviceInfo = sComments) := by decide
        have h2 : ¬ (sDeviceComissioning = sComments) := by decide
        simp only [exportHeader, List.append_assoc, List.cons_append, List.nil_append, Doc.sec, h1, if_false]
        split <;> simp [Doc.sec, h2]
      have h1 := export_comments_import secs sComments od hsecCom
      have h2 := export_devinfo_import secs sDeviceInfo od hod.dev hsecDev
      have h3 : importCommissioning secs arg
          = some ((if commWritten od dcf then truthyInt od.bitrate else none),
                  (if commWritten od dcf then arg else none), arg) := by
        by_cases hc' : commWritten od dcf
        · have hsecC : Doc.sec secs sDeviceComissioning = some ⟨sDeviceComissioning, commissioningOptsX od⟩ := by
            rw [hshape]
            have hn1 : ¬ (sDeviceInfo = sDeviceComissioning) := by decide
            have hcond : dcf = true ∧ ((truthyInt od.bitrate).isSome = true ∨ (truthyInt od.nodeId).isSome = true) := hc'
            simp [exportHeader, Doc.sec, hn1, hcond]
          rw [export_commissioning_import secs sDeviceComissioning od arg hsecC hod.bitrate]
          have hpick : pickNodeId arg ((truthyInt od.nodeId).map fun n => (n, ({} : NumSp))) = arg := by
            rcases harg with h | h | h
            · cases arg with
              | none => simp at h
              | some n => rfl
            · rw [h]; cases arg <;> rfl
            · exact absurd hc'.1 (by simp [h])
          simp only [hc', if_true, hpick]
        · have hsecC : Doc.sec secs sDeviceComissioning = none := by
            rw [hshape]
            have hn1 : ¬ (sDeviceInfo = sDeviceComissioning) := by decide
            have hn2 : ¬ (sComments = sDeviceComissioning) := by decide
            have hn3 : ¬ (sDummyUsage = sDeviceComissioning) := by decide
            have hcond : ¬ (dcf = true ∧ ((truthyInt od.bitrate).isSome = true ∨ (truthyInt od.nodeId).isSome = true)) := hc'
            simp only [exportHeader, hcond, if_false, List.append_assoc, List.cons_append, List.nil_append,
              Doc.sec, hn1, hn2, hn3]
            exact sec_none_of_ne _ _ (by simpa [List.append_assoc] using hrest)
          unfold importCommissioning
          simp only [hsecC, hc', if_false]
      exact export_import_objects od dcf arg hod.objs secs hd0 _ _ _ _ _ h1 h2 h3
    · exact absurd hd (by simp)

/-! ### `export_eds` returns: no two sections of the same name -/

/-- the section names `export_object` uses for an object -/
def objNames : Obj → List Str
  | .var v => [hex4 true v.index]
  | .coll c => hex4 true c.index ::
      (membersInOrder c).map fun v => hex4 true c.index ++ ('s' :: 'u' :: 'b' :: natStr 16 true v.subindex)

theorem mapM_names {α : Type} (f : α → Option Sec) (h : α → Str) : ∀ (l : List α) (ys : List Sec),
    l.mapM f = some ys → (∀ x ∈ l, ∀ y, f x = some y → y.name = h x) → ys.map (·.name) = l.map h := by
  intro l
  induction l with
  | nil => intro ys hm _; simp at hm; subst hm; rfl
  | cons a r ih =>
    intro ys hm hn
    simp only [List.mapM_cons, Option.pure_def, Option.bind_eq_bind] at hm
    cases hfa : f a with
    | none => rw [hfa] at hm; simp at hm
    | some b =>
      rw [hfa] at hm
      simp only [Option.bind_some] at hm
      cases hr : r.mapM f with
      | none => rw [hr] at hm; simp at hm
      | some bs =>
        rw [hr] at hm
        simp only [Option.bind_some, Option.some.injEq] at hm
        subst hm
        simp only [List.map_cons, hn a (by simp) b hfa,
          ih bs hr (fun x hx y hy => hn x (by simp [hx]) y hy)]

theorem exportObject_nameList (nid : Option Int) (dcf : Bool) (o : Obj) (ho : ObjOK nid o) (secs : List Sec)
    (he : exportObject dcf o = some secs) : secs.map (·.name) = objNames o := by
  cases o with
  | var v =>
    obtain ⟨_, hi, _⟩ := ho
    simp only [exportObject, Option.map_eq_some_iff] at he
    obtain ⟨sec, hsec, rfl⟩ := he
    simp only [List.map_cons, List.map_nil, objNames, exportVariable_name dcf false v sec hsec, varSecName,
      Bool.false_eq_true, if_false, fmtHexPad4_eq_hex4 v.index hi]
  | coll c =>
    simp only [exportObject, exportColl, Option.map_eq_some_iff] at he
    obtain ⟨ms, hms, rfl⟩ := he
    have hm : c.iter.mapM (fun s => (dictGet s c.subs).bind (exportVariable dcf true))
        = (membersInOrder c).mapM (exportVariable dcf true) := by
      unfold membersInOrder
      have hk := ho.keys_found
      generalize c.iter = l at hk
      induction l with
      | nil => rfl
      | cons s r ih =>
        have hs := hk s (by simp)
        cases hg : dictGet s c.subs with
        | none => rw [hg] at hs; exact absurd hs (by simp)
        | some v =>
          simp only [List.mapM_cons, hg, Option.bind_some, List.filterMap_cons]
          rw [ih (fun x hx => hk x (by simp [hx]))]
    rw [hm] at hms
    have hnames := mapM_names (exportVariable dcf true)
      (fun v => hex4 true c.index ++ ('s' :: 'u' :: 'b' :: natStr 16 true v.subindex))
      (membersInOrder c) ms hms (by
        intro v hv y hy
        rw [exportVariable_name dcf true v y hy]
        simp only [varSecName, if_true, ho.members_index v hv, fmtHexPad4_eq_hex4 c.index ho.index_lt]
        rfl)
    simp only [List.map_cons, objNames, hnames, collMainSec, fmtHexPad4_eq_hex4 c.index ho.index_lt]

/-- the names of the objects listed in `l`, in file order -/
def listedNames (od : OD) (l : List Nat) : List Str :=
  l.flatMap fun i => match od.byIndex i with | some o => objNames o | none => []

theorem addList_nameList (nid : Option Int) (dcf : Bool) (od : OD) (name : Str) (l : List Nat)
    (hok : ListedOK nid od l) (secs : List Sec) (he : addList dcf od name l = some secs) :
    secs.map (·.name) = name :: listedNames od l := by
  simp only [addList, Option.map_eq_some_iff] at he
  obtain ⟨ss, hss, rfl⟩ := he
  simp only [List.map_cons, List.cons.injEq, true_and]
  clear name
  induction l generalizing ss with
  | nil => simp at hss; subst hss; rfl
  | cons i r ih =>
    simp only [List.mapM_cons, Option.pure_def, Option.bind_eq_bind] at hss
    obtain ⟨o, hbi, hoo⟩ := hok i (by simp)
    rw [hbi] at hss
    simp only [Option.bind_some] at hss
    cases he : exportObject dcf o with
    | none => rw [he] at hss; simp at hss
    | some secs =>
      rw [he] at hss
      simp only [Option.bind_some] at hss
      cases hr : r.mapM (fun i => (od.byIndex i).bind (exportObject dcf)) with
      | none => rw [hr] at hss; simp at hss
      | some rs =>
        rw [hr] at hss
        simp only [Option.bind_some, Option.some.injEq] at hss
        subst hss
        simp only [List.flatten_cons, List.map_append, listedNames, List.flatMap_cons, hbi,
          exportObject_nameList nid dcf o hoo secs he]
        congr 1
        exact ih (fun x hx => hok x (by simp [hx])) rs hr

theorem hex4_inj (i j : Nat) (hi : i < 65536) (hj : j < 65536) (r r' : Str)
    (h : hex4 true i ++ r = hex4 true j ++ r') : i = j := by
  have h4 : hex4 true i = hex4 true j := by
    have := congrArg (List.take 4) h
    simpa [hex4] using this
  have := congrArg hexVal h4
  rwa [hexVal_hex4 true i hi, hexVal_hex4 true j hj] at this

theorem natStr16_inj (a b : Nat) (h : natStr 16 true a = natStr 16 true b) : a = b := by
  have := congrArg hexVal h
  rwa [natStr_eq_padded, natStr_eq_padded, hexVal_padded, hexVal_padded] at this

/-- an object whose sections can be told apart: index below 0x10000 and, for a record/array,
    members with pairwise different sub-indices -/
def ObjNamesOK : Obj → Prop
  | .var v => v.index < 65536
  | .coll c => c.index < 65536 ∧ ((membersInOrder c).map (·.subindex)).Nodup

/-- every name of an object: the four hex digits of its index, alone or followed by `sub…` -/
theorem objNames_form (o : Obj) : ∀ n ∈ objNames o,
    n = hex4 true o.index ∨ ∃ t, n = hex4 true o.index ++ ('s' :: 'u' :: 'b' :: t) := by
  intro n hn
  cases o with
  | var v => simp only [objNames, List.mem_singleton] at hn; exact Or.inl hn
  | coll c =>
    simp only [objNames, List.mem_cons, List.mem_map] at hn
    rcases hn with rfl | ⟨v, _, rfl⟩
    · exact Or.inl rfl
    · exact Or.inr ⟨_, rfl⟩

theorem objNames_nodup (o : Obj) (ho : ObjNamesOK o) : (objNames o).Nodup := by
  cases o with
  | var v => simp [objNames]
  | coll c =>
    obtain ⟨_, hs⟩ := ho
    simp only [objNames, List.nodup_cons, List.mem_map, not_exists, not_and]
    refine ⟨fun v _ he => ?_, ?_⟩
    · have := congrArg List.length he
      simp [hex4] at this
    · generalize membersInOrder c = ms at hs
      induction ms with
      | nil => exact List.Pairwise.nil
      | cons v r ih =>
        simp only [List.map_cons, List.nodup_cons, List.mem_map, not_exists, not_and] at hs ⊢
        refine ⟨fun w hw he => ?_, ih hs.2⟩
        have h1 := List.append_cancel_left he
        simp only [List.cons.injEq, true_and] at h1
        exact hs.1 w hw (natStr16_inj _ _ h1)

theorem objNames_ne (o p : Obj) (ho : o.index < 65536) (hp : p.index < 65536) (hne : o.index ≠ p.index) :
    ∀ x ∈ objNames o, ∀ y ∈ objNames p, x ≠ y := by
  intro x hx y hy he
  subst he
  rcases objNames_form o x hx with h1 | ⟨t1, h1⟩ <;> rcases objNames_form p x hy with h2 | ⟨t2, h2⟩
  · exact hne (hex4_inj _ _ ho hp [] [] (by simpa using h1.symm.trans h2))
  · exact hne (hex4_inj _ _ ho hp [] _ (by simpa using h1.symm.trans h2))
  · exact hne (hex4_inj _ _ ho hp _ [] (by simpa using h1.symm.trans h2))
  · exact hne (hex4_inj _ _ ho hp _ _ (h1.symm.trans h2))

theorem fixed_shape : ∀ f ∈ [sDeviceInfo, sDeviceComissioning, sComments, sDummyUsage,
      sMandatoryObjects, sOptionalObjects, sManufacturerObjects, sFileInfo, c!"DEFAULT"],
    (f.take 4).all isHexDigit = false ∨ f = c!"DEFAULT" := by decide

/-- names that are not names of object sections -/
theorem fixed_not_objName (o : Obj) : ∀ f ∈ [sDeviceInfo, sDeviceComissioning, sComments, sDummyUsage,
      sMandatoryObjects, sOptionalObjects, sManufacturerObjects, sFileInfo, c!"DEFAULT"],
    f ∉ objNames o := by
  intro f hf hm
  have hshape := fixed_shape f hf
  rcases objNames_form o f hm with h | ⟨t, h⟩
  · rcases hshape with h' | h'
    · exact hex4_append_ne true o.index [] f h' (by simpa using h.symm)
    · rw [h'] at h
      have := congrArg List.length h
      simp [hex4] at this
  · rcases hshape with h' | h'
    · exact hex4_append_ne true o.index _ f h' h.symm
    · rw [h'] at h
      simp only [hex4, List.cons_append, List.nil_append, List.cons.injEq] at h
      exact absurd h.2.2.2.2.1 (by decide)

/-- the listed objects can be told apart by their section names -/
def ListedNamesOK (od : OD) (l : List Nat) : Prop :=
  ∀ i ∈ l, ∃ o, od.byIndex i = some o ∧ o.index = i ∧ ObjNamesOK o

theorem objNamesOK_index (o : Obj) (h : ObjNamesOK o) : o.index < 65536 := by
  cases o with
  | var v => exact h
  | coll c => exact h.1

theorem listedNames_mem (od : OD) (l : List Nat) (hok : ListedNamesOK od l) :
    ∀ n ∈ listedNames od l, ∃ i ∈ l, ∃ o, od.byIndex i = some o ∧ o.index = i ∧ ObjNamesOK o ∧ n ∈ objNames o := by
  intro n hn
  simp only [listedNames, List.mem_flatMap] at hn
  obtain ⟨i, hi, hni⟩ := hn
  obtain ⟨o, hbi, hoi, hoo⟩ := hok i hi
  rw [hbi] at hni
  exact ⟨i, hi, o, hbi, hoi, hoo, hni⟩

theorem listedNames_nodup (od : OD) (l : List Nat) (hok : ListedNamesOK od l) (hnd : l.Nodup) :
    (listedNames od l).Nodup := by
  unfold listedNames List.Nodup
  rw [List.pairwise_flatMap]
  refine ⟨fun i hi => ?_, ?_⟩
  · obtain ⟨o, hbi, _, hoo⟩ := hok i hi
    rw [hbi]; exact objNames_nodup o hoo
  · have hnd' : List.Pairwise (fun a b => a ≠ b) l := hnd
    refine List.Pairwise.imp_of_mem ?_ hnd'
    intro a b ha hb hab x hx y hy
    obtain ⟨o, hbo, hoi, hoo⟩ := hok a ha
    obtain ⟨p, hbp, hpi, hpp⟩ := hok b hb
    rw [hbo] at hx
    rw [hbp] at hy
    exact objNames_ne o p (objNamesOK_index o hoo) (objNamesOK_index p hpp) (by rw [hoi, hpi]; exact hab) x hx y hy

theorem listedNames_disjoint (od : OD) (l1 l2 : List Nat) (h1 : ListedNamesOK od l1) (h2 : ListedNamesOK od l2)
    (hd : ∀ i ∈ l1, ∀ j ∈ l2, i ≠ j) : ∀ x ∈ listedNames od l1, ∀ y ∈ listedNames od l2, x ≠ y := by
  intro x hx y hy
  obtain ⟨i, hi, o, _, hoi, hoo, hxo⟩ := listedNames_mem od l1 h1 x hx
  obtain ⟨j, hj, p, _, hpj, hpp, hyp⟩ := listedNames_mem od l2 h2 y hy
  exact objNames_ne o p (objNamesOK_index o hoo) (objNamesOK_index p hpp)
    (by rw [hoi, hpj]; exact hd i hi j hj) x hxo y hyp

theorem fixed_not_listed (od : OD) (l : List Nat) (hok : ListedNamesOK od l) :
    ∀ f ∈ [sDeviceInfo, sDeviceComissioning, sComments, sDummyUsage, sMandatoryObjects, sOptionalObjects,
      sManufacturerObjects, sFileInfo, c!"DEFAULT"], f ∉ listedNames od l := by
  intro f hf hm
  obtain ⟨i, _, o, _, _, _, hfo⟩ := listedNames_mem od l hok f hm
  exact fixed_not_objName o f hf hfo

theorem list_preds_disjoint (i : Nat) :
    (isMandatory i = true → isOptional i = false ∧ isManufacturer i = false) ∧
    (isOptional i = true → isManufacturer i = false) := by
  obtain ⟨hge, hlt⟩ := lists_partition i
  by_cases h : 0x1000 ≤ i
  · rcases hge h with ⟨a, b, c⟩ | ⟨a, b, c⟩ | ⟨a, b, c⟩ <;> simp [a, b, c]
  · obtain ⟨a, b, c⟩ := hlt (by omega)
    simp [a, b, c]

theorem headerNames (od : OD) (dcf : Bool) :
    (exportHeader od dcf).map (·.name) =
      if commWritten od dcf then [sDeviceInfo, sDeviceComissioning, sComments, sDummyUsage]
      else [sDeviceInfo, sComments, sDummyUsage] := by
  unfold exportHeader commWritten
  split
  · rename_i h; simp [h]
  · rename_i h; simp [h]

/-- **`export_eds` returns.**  For a dictionary of the property's domain whose iteration yields each
    index once, whose objects carry the index they are filed under and whose members have pairwise
    different sub-indices, no two sections get the same name (and none is called `DEFAULT` or
    `FileInfo`): the export produces a document. -/
theorem export_returns (od : OD) (dcf : Bool) (nid : Option Int)
    (hok : ListedOK nid od (od.iter.filter fun i => isMandatory i || isOptional i || isManufacturer i))
    (hnames : ListedNamesOK od (od.iter.filter fun i => isMandatory i || isOptional i || isManufacturer i))
    (hnd : od.iter.Nodup) : ∃ d, exportDoc od dcf = some d := by
  obtain ⟨secs, hs, _⟩ := export_objects_import [] nid od {} dcf hok
  obtain ⟨a, b, c, ha, hb, hc, hshape⟩ := exportSections_shape od dcf secs hs
  have sub : ∀ p : Nat → Bool, (∀ i, p i = true → (isMandatory i || isOptional i || isManufacturer i) = true) →
      ListedOK nid od (od.iter.filter p) ∧ ListedNamesOK od (od.iter.filter p) ∧ (od.iter.filter p).Nodup := by
    intro p hp
    refine ⟨fun i hi => ?_, fun i hi => ?_, List.Pairwise.filter p hnd⟩
    · rw [List.mem_filter] at hi
      exact hok i (List.mem_filter.mpr ⟨hi.1, hp i hi.2⟩)
    · rw [List.mem_filter] at hi
      exact hnames i (List.mem_filter.mpr ⟨hi.1, hp i hi.2⟩)
  obtain ⟨okA, nmA, ndA⟩ := sub isMandatory (by intro i h; simp [h])
  obtain ⟨okB, nmB, ndB⟩ := sub isOptional (by intro i h; simp [h])
  obtain ⟨okC, nmC, ndC⟩ := sub isManufacturer (by intro i h; simp [h])
  have hna := addList_nameList nid dcf od _ _ okA a ha
  have hnb := addList_nameList nid dcf od _ _ okB b hb
  have hnc := addList_nameList nid dcf od _ _ okC c hc
  have hnames_eq : secs.map (·.name) =
      (exportHeader od dcf).map (·.name) ++ (sMandatoryObjects :: listedNames od (od.iter.filter isMandatory)) ++
        (sOptionalObjects :: listedNames od (od.iter.filter isOptional)) ++
        (sManufacturerObjects :: listedNames od (od.iter.filter isManufacturer)) := by
    rw [hshape]; simp only [List.map_append, hna, hnb, hnc]
  -- fixed names against listed names
  have fl := fun (l : List Nat) (h : ListedNamesOK od l) => fixed_not_listed od l h
  have dAB : ∀ x ∈ listedNames od (od.iter.filter isMandatory), ∀ y ∈ listedNames od (od.iter.filter isOptional), x ≠ y :=
    listedNames_disjoint od _ _ nmA nmB (by
      intro i hi j hj he; subst he
      rw [List.mem_filter] at hi hj
      have := ((list_preds_disjoint i).1 hi.2).1
      rw [this] at hj; exact absurd hj.2 (by simp))
  have dAC : ∀ x ∈ listedNames od (od.iter.filter isMandatory), ∀ y ∈ listedNames od (od.iter.filter isManufacturer), x ≠ y :=
    listedNames_disjoint od _ _ nmA nmC (by
      intro i hi j hj he; subst he
      rw [List.mem_filter] at hi hj
      have := ((list_preds_disjoint i).1 hi.2).2
      rw [this] at hj; exact absurd hj.2 (by simp))
  have dBC : ∀ x ∈ listedNames od (od.iter.filter isOptional), ∀ y ∈ listedNames od (od.iter.filter isManufacturer), x ≠ y :=
    listedNames_disjoint od _ _ nmB nmC (by
      intro i hi j hj he; subst he
      rw [List.mem_filter] at hi hj
      have := (list_preds_disjoint i).2 hi.2
      rw [this] at hj; exact absurd hj.2 (by simp))
  have hH : ∀ n ∈ (exportHeader od dcf).map (·.name),
      n ∈ [sDeviceInfo, sDeviceComissioning, sComments, sDummyUsage] := by
    intro n hn
    rw [headerNames] at hn
    split at hn <;> simp only [List.mem_cons, List.not_mem_nil, or_false] at hn ⊢
    · exact hn
    · rcases hn with h | h | h <;> simp [h]
  have hHnd : ((exportHeader od dcf).map (·.name)).Nodup := by
    rw [headerNames]; split <;> decide
  have notIn : ∀ (f : Str), f ∈ [sDeviceInfo, sDeviceComissioning, sComments, sDummyUsage, sMandatoryObjects,
        sOptionalObjects, sManufacturerObjects, sFileInfo, c!"DEFAULT"] →
      ∀ l, ListedNamesOK od l → f ∉ listedNames od l := fun f hf l hl => fl l hl f hf
  have hnodup : (secs.map (·.name)).Nodup := by
    rw [hnames_eq]
    refine List.nodup_append.mpr ⟨List.nodup_append.mpr ⟨List.nodup_append.mpr ⟨hHnd, ?_, ?_⟩, ?_, ?_⟩, ?_, ?_⟩
    · exact List.nodup_cons.mpr ⟨notIn _ (by simp) _ nmA, listedNames_nodup od _ nmA ndA⟩
    · intro x hx y hy he
      subst he
      have hx4 := hH x hx
      rcases List.mem_cons.mp hy with h | h
      · subst h; revert hx4; decide
      · exact notIn x (by
          simp only [List.mem_cons, List.not_mem_nil, or_false] at hx4 ⊢
          rcases hx4 with h' | h' | h' | h' <;> simp [h']) _ nmA h
    · exact List.nodup_cons.mpr ⟨notIn _ (by simp) _ nmB, listedNames_nodup od _ nmB ndB⟩
    · intro x hx y hy he
      subst he
      rcases List.mem_append.mp hx with hx | hx
      · have hx4 := hH x hx
        rcases List.mem_cons.mp hy with h | h
        · subst h; revert hx4; decide
        · exact notIn x (by
            simp only [List.mem_cons, List.not_mem_nil, or_false] at hx4 ⊢
            rcases hx4 with h' | h' | h' | h' <;> simp [h']) _ nmB h
      · rcases List.mem_cons.mp hx with hx | hx
        · subst hx
          rcases List.mem_cons.mp hy with h | h
          · exact absurd h (by decide)
          · exact notIn _ (by simp) _ nmB h
        · rcases List.mem_cons.mp hy with h | h
          · subst h; exact notIn _ (by simp) _ nmA hx
          · exact dAB x hx x h rfl
    · exact List.nodup_cons.mpr ⟨notIn _ (by simp) _ nmC, listedNames_nodup od _ nmC ndC⟩
    · intro x hx y hy he
      subst he
      rcases List.mem_append.mp hx with hx | hx
      · rcases List.mem_append.mp hx with hx | hx
        · have hx4 := hH x hx
          rcases List.mem_cons.mp hy with h | h
          · subst h; revert hx4; decide
          · exact notIn x (by
              simp only [List.mem_cons, List.not_mem_nil, or_false] at hx4 ⊢
              rcases hx4 with h' | h' | h' | h' <;> simp [h']) _ nmC h
        · rcases List.mem_cons.mp hx with hx | hx
          · subst hx
            rcases List.mem_cons.mp hy with h | h
            · exact absurd h (by decide)
            · exact notIn _ (by simp) _ nmC h
          · rcases List.mem_cons.mp hy with h | h
            · subst h; exact notIn _ (by simp) _ nmA hx
            · exact dAC x hx x h rfl
      · rcases List.mem_cons.mp hx with hx | hx
        · subst hx
          rcases List.mem_cons.mp hy with h | h
          · exact absurd h (by decide)
          · exact notIn _ (by simp) _ nmC h
        · rcases List.mem_cons.mp hy with h | h
          · subst h; exact notIn _ (by simp) _ nmB hx
          · exact dBC x hx x h rfl
  have hnot : ∀ f, f = sFileInfo ∨ f = c!"DEFAULT" → f ∉ secs.map (·.name) := by
    intro f hf hm
    have hf9 : f ∈ [sDeviceInfo, sDeviceComissioning, sComments, sDummyUsage, sMandatoryObjects,
        sOptionalObjects, sManufacturerObjects, sFileInfo, c!"DEFAULT"] := by
      rcases hf with h | h <;> simp [h]
    rw [hnames_eq] at hm
    simp only [List.mem_append, List.mem_cons] at hm
    rcases hm with ((hm | hm | hm) | hm | hm) | hm | hm
    · have := hH f hm
      rcases hf with h | h <;> (subst h; revert this; decide)
    · rcases hf with h | h <;> (subst h; exact absurd hm (by decide))
    · exact notIn f hf9 _ nmA hm
    · rcases hf with h | h <;> (subst h; exact absurd hm (by decide))
    · exact notIn f hf9 _ nmB hm
    · rcases hf with h | h <;> (subst h; exact absurd hm (by decide))
    · exact notIn f hf9 _ nmC hm
  refine ⟨secs, ?_⟩
  unfold exportDoc
  rw [hs]
  have hok' : namesOk secs = true := by
    unfold namesOk
    simp only [Bool.and_eq_true, decide_eq_true_eq, Bool.not_eq_true', List.contains_eq_mem,
      decide_eq_false_iff_not]
    exact ⟨⟨hnodup, hnot _ (Or.inr rfl)⟩, hnot _ (Or.inl rfl)⟩
  simp [hok']

/-- **Export → import, whole dictionary** (`export_returns` and `export_import_partial` together):
    for a dictionary of the property's domain, `export_eds`/`export_dcf` returns a document and
    importing it under the node id in force gives the dictionary back — objects, kinds, names,
    sub-indices, data types, access types, PDO mapping, defaults (negative ones included), limits,
    storage locations, factor/unit/description, device information, comments, dummy entries and for
    DCF parameter values, bit rate and node id. -/
theorem export_import (od : OD) (dcf : Bool) (arg : Option Int) (hod : ODOK arg od)
    (hnames : ListedNamesOK od (od.iter.filter fun i => isMandatory i || isOptional i || isManufacturer i))
    (hnd : od.iter.Nodup) (harg : arg.isSome = true ∨ truthyInt od.nodeId = none ∨ dcf = false) :
    ∃ d, exportDoc od dcf = some d ∧ importEds d arg = some
      (addListed dcf od (od.iter.filter isManufacturer)
        (addListed dcf od (od.iter.filter isOptional)
          (addListed dcf od (od.iter.filter isMandatory)
            (addDummies (dummiesOf od)
              { comments := joinWith c!"\n" (splitLines od.comments), bauds := baudsBack od,
                devInfo := devInfoBack od,
                bitrate := if commWritten od dcf then truthyInt od.bitrate else none,
                nodeId := if commWritten od dcf then arg else none })))) := by
  obtain ⟨d, hd⟩ := export_returns od dcf arg hod.objs hnames hnd
  exact ⟨d, hd, export_import_partial od dcf arg hod harg d hd⟩

/-! ## the hypotheses are satisfiable: a concrete dictionary built in code -/

def exVar : Var :=
  { name := c!"Torque limit = 5 %", index := 0x6072, subindex := 0, dataType := 0x10, accessType := c!"rw",
    pdoMappable := true, min := some (-8388608), max := some 8388607, default := some (.int (-5)),
    value := some (.int 7), storage := some c!"RAM", factor := some c!"0.1", unit := c!"%" }

theorem exVar_ok : VarOK (some 5) exVar 0x10 where
  dt := rfl
  dt_pos := by decide
  dt_le := by decide
  access_lower := by decide
  access_ne := by decide
  default_fits := by
    intro x h _; simp only [exVar, Option.some.injEq] at h; subst h
    show isIntLike 0x10 = true; decide
  value_fits := by
    intro x h _; simp only [exVar, Option.some.injEq] at h; subst h
    show isIntLike 0x10 = true; decide
  default_raw := by intro r h; simp [exVar] at h
  value_raw := by intro r h; simp [exVar] at h
  min_ok := by
    intro m h; simp only [exVar, Option.some.injEq] at h; subst h
    have hw : signedWidth 0x10 = some 24 := by decide
    simp only [SLim.okFor, hw]; decide
  max_ok := by
    intro m h; simp only [exVar, Option.some.injEq] at h; subst h
    have hw : signedWidth 0x10 = some 24 := by decide
    simp only [SLim.okFor, hw]; decide
  storage_ok := by decide
  factor_ok := by intro f h; simp only [exVar, Option.some.injEq] at h; subst h; decide

def exRec : Coll :=
  (({ isArray := false, name := c!"Identity", index := 0x1018 } : Coll).addMember
    { name := c!"Highest sub-index", index := 0x1018, subindex := 0, dataType := 5, accessType := c!"const",
      default := some (.int 1) }).addMember
    { name := c!"Vendor-ID", index := 0x1018, subindex := 1, dataType := 7, accessType := c!"ro",
      default := some (.int 0x12345678) }

def exOD : OD :=
  (((({ comments := c!"line 1\nline 2", bitrate := some 500000, nodeId := some 5 } : OD).addObject
    (.var exVar)).addObject (.coll exRec)).addObject
    (.var { name := c!"Device type", index := 0x1000, subindex := 0, dataType := 7, accessType := c!"ro",
            default := some (.int 0x191) }))

/-- the re-imported dictionary of the model's round trip on the example -/
def exBack : Option OD := (roundTrip exOD true (some 5)).bind (·.2)

/-- the model's round trip on the example: exported, re-imported, and nothing of the property's
    attribute list lost — negative default, 24-bit limits, record members, bit rate, node id -/
example : exBack.map (·.iter) = some [0x1000, 0x1018, 0x6072] := by decide +kernel
example : (exBack.bind (·.byIndex 0x6072)).map (fun o => match o with
      | .var v => (v.default, v.min, v.max, v.value) | _ => (none, none, none, none)) =
    some (some (.int (-5)), some (-8388608), some 8388607, some (.int 7)) := by decide +kernel
example : (exBack.bind (·.byIndex 0x6072)).map (fun o => match o with
      | .var v => (v.factor, v.unit, v.storage, v.name) | _ => (none, [], none, [])) =
    some (some c!"0.1", c!"%", some c!"RAM", c!"Torque limit = 5 %") := by decide +kernel
example : (exBack.bind (·.byIndex 0x1018)).map (fun o => match o with
      | .coll c => c.subs.map (fun p => (p.1, p.2.name, p.2.default)) | _ => []) =
    some [(0, c!"Highest sub-index", some (.int 1)), (1, c!"Vendor-ID", some (.int 0x12345678))] := by
  decide +kernel
example : exBack.map (fun od => (od.bitrate, od.nodeId, od.comments)) =
    some (some 500000, some 5, c!"line 1\nline 2") := by decide +kernel

/-- a one-object dictionary satisfying every hypothesis of `export_import` -/
def exOD1 : OD := ({ comments := c!"line 1\nline 2", bitrate := some 500000, nodeId := some 5,
                     bauds := [125000, 500000], devInfo := [(c!"vendor_name", .str c!"ACME")] } : OD).addObject
  (.var exVar)

theorem exOD1_ok : ODOK (some 5) exOD1 where
  objs := by
    intro i hi
    have : i = 0x6072 := by
      have h : (exOD1.iter.filter fun i => isMandatory i || isOptional i || isManufacturer i) = [0x6072] := by decide
      rw [h] at hi; simpa using hi
    subst this
    exact ⟨.var exVar, by decide, ⟨0x10, exVar_ok⟩, by decide, by decide⟩
  dev := by
    constructor
    intro row hrow v hv
    have hall : ∀ r ∈ DEVINFO_IMPORT,
        (r.2.2 = c!"vendor_name" ∧ r.1 = 0) ∨ dictGet r.2.2 exOD1.devInfo = none := by decide
    rcases hall row hrow with ⟨h, hk⟩ | h
    · have hk : row.1 = 0 := hk
      rw [h] at hv
      have : v = .str c!"ACME" := by
        have hv' : dictGet c!"vendor_name" exOD1.devInfo = some (.str c!"ACME") := by decide
        rw [hv'] at hv; exact (Option.some.inj hv).symm
      subst this; exact hk
    · rw [h] at hv; exact absurd hv (by simp)
  bitrate := by
    intro b hb
    have : b = 500000 := by
      have h : exOD1.bitrate = some 500000 := by decide
      rw [h] at hb; exact (Option.some.inj hb).symm
    exact ⟨500, by omega⟩

example : ∃ d, exportDoc exOD1 true = some d ∧ (importEds d (some 5)).isSome = true := by
  obtain ⟨d, h1, h2⟩ := export_import exOD1 true (some 5) exOD1_ok
    (by
      intro i hi
      have h : (exOD1.iter.filter fun i => isMandatory i || isOptional i || isManufacturer i) = [0x6072] := by decide
      rw [h] at hi
      have : i = 0x6072 := by simpa using hi
      subst this
      exact ⟨.var exVar, by decide, by decide, (by decide : exVar.index < 65536)⟩)
    (by decide) (Or.inl rfl)
  exact ⟨d, h1, by rw [h2]; rfl⟩

/-! ## T export_import_history -/

/-- the dictionary `export_import` says the re-import yields -/
def backOf (od : OD) (dcf : Bool) (arg : Option Int) : OD :=
  addListed dcf od (od.iter.filter isManufacturer)
    (addListed dcf od (od.iter.filter isOptional)
      (addListed dcf od (od.iter.filter isMandatory)
        (addDummies (dummiesOf od)
          { comments := joinWith c!"\n" (splitLines od.comments), bauds := baudsBack od,
            devInfo := devInfoBack od,
            bitrate := if commWritten od dcf then truthyInt od.bitrate else none,
            nodeId := if commWritten od dcf then arg else none })))

/-- a round of a history within the property's domain: the hypotheses of `export_import` on its
    dictionary, and a file name that `import_od` takes for an EDS/DCF -/
structure StepOK (s : RoundStep) : Prop where
  od : ODOK s.nodeId s.od
  names : ListedNamesOK s.od (s.od.iter.filter fun i => isMandatory i || isOptional i || isManufacturer i)
  nodup : s.od.iter.Nodup
  arg : s.nodeId.isSome = true ∨ truthyInt s.od.nodeId = none ∨ s.dcf = false
  path : ∀ p, s.dest = .file p → suffixOf p = c!".eds" ∨ suffixOf p = c!".dcf"

theorem roundStep_ok (fs : Files) (s : RoundStep) (h : StepOK s) :
    (roundStep fs s).2 = roundTrip s.od s.dcf s.nodeId ∧
    ∃ d, roundTrip s.od s.dcf s.nodeId = some (d, some (backOf s.od s.dcf s.nodeId)) := by
  obtain ⟨d, hd, hi⟩ := export_import s.od s.dcf s.nodeId h.od h.names h.nodup h.arg
  refine ⟨?_, d, by simp only [roundTrip, hd, Option.map_some, hi]; rfl⟩
  unfold roundStep roundTrip
  rw [hd]
  cases hdest : s.dest with
  | stream => rfl
  | file p =>
    have hp := h.path p hdest
    simp only [importPath, Files.write, dictGet_dictSet_same, importOd, Option.map_some]
    rw [if_pos hp]

/-- **Histories.**  Several export/import rounds within one process — to the same file names again and
    again with other dictionaries, to other names, through text streams or standard output, in any
    order and from any file system to start with: *every* round of the history is the round trip of
    its own dictionary alone (nothing of an earlier round survives), and that round trip returns the
    dictionary exported in that round (`export_import`, step by step). -/
theorem export_import_history (steps : List RoundStep) (hok : ∀ s ∈ steps, StepOK s) (fs : Files) :
    roundHistory fs steps = steps.map (fun s => roundTrip s.od s.dcf s.nodeId) ∧
    ∀ s ∈ steps, ∃ d, roundTrip s.od s.dcf s.nodeId = some (d, some (backOf s.od s.dcf s.nodeId)) := by
  refine ⟨?_, fun s hs => (roundStep_ok fs s (hok s hs)).2⟩
  induction steps generalizing fs with
  | nil => rfl
  | cons s r ih =>
    simp only [roundHistory, List.map_cons, List.cons.injEq]
    exact ⟨(roundStep_ok fs s (hok s (by simp))).1, ih (fun x hx => hok x (by simp [hx])) _⟩

/-- the same file exported to twice with different dictionaries, a stream round in between: the model's
    history returns, round by round, what a single round returns -/
def exOD2 : OD := ({ comments := c!"1\n2\n3\n4\n5\n6\n7\n8\n9\n10\n11\n12", nodeId := some 4 } : OD).addObject
  (.var { exVar with default := some (.int 1234) })

example :
    roundHistory [] [{ od := exOD1, dcf := true, dest := .file c!"device.dcf", nodeId := some 5 },
                     { od := exOD, dcf := false, dest := .stream, nodeId := some 5 },
                     { od := exOD2, dcf := true, dest := .file c!"device.dcf", nodeId := some 4 }]
      = [roundTrip exOD1 true (some 5), roundTrip exOD false (some 5), roundTrip exOD2 true (some 4)] := by
  decide +kernel

/-- … and the third round brings back the twelve comment lines in their order and the new default -/
example :
    ((roundTrip exOD2 true (some 4)).bind (·.2)).map (fun od => (od.comments, od.nodeId,
      (od.byIndex 0x6072).map fun o => match o with | .var v => v.default | _ => none))
      = some (c!"1\n2\n3\n4\n5\n6\n7\n8\n9\n10\n11\n12", some 4, some (some (.int 1234))) := by
  decide +kernel

example : StepOK { od := exOD1, dcf := true, dest := .file c!"device.dcf", nodeId := some 5 } where
  od := exOD1_ok
  names := by
    intro i hi
    have h : (exOD1.iter.filter fun i => isMandatory i || isOptional i || isManufacturer i) = [0x6072] := by decide
    have hi' : i ∈ [0x6072] := by rw [← h]; exact hi
    have : i = 0x6072 := by simpa using hi'
    subst this
    exact ⟨.var exVar, by decide, by decide, (by decide : exVar.index < 65536)⟩
  nodup := by decide
  arg := Or.inl rfl
  path := by
    intro p hp
    cases hp
    exact Or.inr (by decide)

/-! ## T export_import_nodeid -/

theorem addListed_nodeId (dcf : Bool) (od : OD) : ∀ (l : List Nat) (acc : OD),
    (addListed dcf od l acc).nodeId = acc.nodeId := by
  intro l
  induction l with
  | nil => intro acc; rfl
  | cons i r ih =>
    intro acc
    show (addListed dcf od r (match od.byIndex i with
                              | some o => acc.addObject (objAfterRoundTrip dcf o)
                              | none => acc)).nodeId = acc.nodeId
    rw [ih]
    cases od.byIndex i <;> rfl

theorem addDummyIf_nodeId (b : Bool) (i : Nat) (od : OD) : (addDummyIf b i od).nodeId = od.nodeId := by
  cases b <;> rfl

theorem addDummies_nodeId (f : SDummy) (od : OD) : (addDummies f od).nodeId = od.nodeId := by
  simp only [addDummies, addDummyIf_nodeId]

theorem backOf_nodeId (od : OD) (dcf : Bool) (arg : Option Int) :
    (backOf od dcf arg).nodeId = if commWritten od dcf then arg else none := by
  simp only [backOf, addListed_nodeId, addDummies_nodeId]

/-- **Node id of a DCF, read from the file.**  For a dictionary of the property's domain with a node id
    `n ≠ 0` (every valid id 1 … 127 — the largest one included — and beyond), the exported DCF carries
    that node id: importing it *without* an explicit node id gives the same dictionary as importing it
    under `n`, and that dictionary's node id is `n`. -/
theorem export_import_nodeid (od : OD) (n : Int) (hn : od.nodeId = some n) (hn0 : n ≠ 0)
    (hod : ODOK (some n) od)
    (hnames : ListedNamesOK od (od.iter.filter fun i => isMandatory i || isOptional i || isManufacturer i))
    (hnd : od.iter.Nodup) :
    ∃ d, exportDoc od true = some d ∧ importEds d none = some (backOf od true (some n)) ∧
      (backOf od true (some n)).nodeId = some n := by
  obtain ⟨d, hd, hi⟩ := export_import od true (some n) hod hnames hnd (Or.inl rfl)
  have htn : truthyInt od.nodeId = some n := by simp [truthyInt, hn, hn0]
  have hcw : commWritten od true := ⟨rfl, Or.inr (by simp [htn])⟩
  refine ⟨d, hd, ?_, by rw [backOf_nodeId, if_pos hcw]⟩
  -- the section `[DeviceComissioning]` of the exported document
  have hd0 := hd
  unfold exportDoc at hd
  cases hs : exportSections od true with
  | none => rw [hs] at hd; exact absurd hd (by simp)
  | some secs =>
    rw [hs] at hd
    simp only [] at hd
    split at hd
    · simp only [Option.some.injEq] at hd
      subst hd
      obtain ⟨a, b, c, _, _, _, hshape⟩ := exportSections_shape od true secs hs
      have hsecC : Doc.sec secs sDeviceComissioning = some ⟨sDeviceComissioning, commissioningOptsX od⟩ := by
        rw [hshape]
        have hn1 : ¬ (sDeviceInfo = sDeviceComissioning) := by decide
        have hcond : (true = true) ∧ ((truthyInt od.bitrate).isSome = true ∨ (truthyInt od.nodeId).isSome = true) := hcw
        simp [exportHeader, Doc.sec, hn1, hcond]
      have h1 := export_commissioning_import secs sDeviceComissioning od none hsecC hod.bitrate
      have h2 := export_commissioning_import secs sDeviceComissioning od (some n) hsecC hod.bitrate
      have hsame : importCommissioning secs none = importCommissioning secs (some n) := by
        rw [h1, h2, htn]; rfl
      have : importEds secs none = importEds secs (some n) := by
        unfold importEds
        rw [hsame]
      rw [this]
      exact hi
    · exact absurd hd (by simp)

/-- node id 127, no bit rate: the `NodeID` line is what carries it -/
def exOD127 : OD := ({ nodeId := some 127 } : OD).addObject
  (.var { name := c!"COB-ID", index := 0x1400, subindex := 0, dataType := 7, accessType := c!"rw",
          default := some (.int 0x27F), relative := true, defaultRaw := some c!"$NODEID+0x200" })

example : ((roundTrip exOD127 true none).bind (·.2)).map (fun od => (od.nodeId,
      (od.byIndex 0x1400).map fun o => match o with | .var v => v.default | _ => none))
    = some (some 127, some (some (.int 0x27F))) := by decide +kernel

end Canopen.C14
