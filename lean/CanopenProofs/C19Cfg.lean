/-
C19 — the PDO-carried statusword under every configuration history of the node object.

Model: `CanopenModel/P402Cfg.lean` (`setup_pdos` / `setup_402_state_machine` / `_init_tpdo_values` /
`on_TPDOs_update_callback`, `PdoMap.read` / `clear` / `add_variable` / `save` / `subscribe` as far as they touch the
variable objects, callbacks, subscriptions of two TPDO maps; the drive's side of the TPDO configuration).

* `cache_after_frame` — whatever the node object went through: when a frame of a subscribed TPDO with a registered
  callback arrives, the cache holds, for every index the map carries, that frame's field - regardless of which
  `PdoVariable` object carries the index - and every other cached index is untouched;
* `cfg_live` — after EVERY configuration history (set up again, configuration read again, TPDOs re-mapped, in any
  order and number) every TPDO the drive transmits is enabled, subscribed, has a callback and carries on the node
  object exactly what the drive put in it; statusword and mode display are cached objects whose pointer names TPDO1;
* `statusword_after_frame`, `statusword_after_frames` — hence after every history the `statusword` getter returns
  the field of the last received frame of either TPDO that carries 0x6041 ("the drive's latest statusword");
* `statusword_after_cycle`, `pdo_served_iff` — after a transmission cycle of the drive the getter returns that cycle's
  statusword, and the TPDO the profile waits for is transmitted unless the application switched TPDO1 off: this is
  exactly what the transition model's `pdo = true` assumes (its view of the drive is the statusword of the last
  TPDO), so `never_illegal`, `reaches_target`, `target_entered`, `decode_of_drive`, the mode theorems hold unchanged
  under every served configuration history (the driver runs that very model for them).
-/
import CanopenModel.P402Cfg

namespace Canopen.C19
open Canopen.P402

/-! ## dict lemmas -/

theorem getV_setV_same (l : List (Nat × Nat)) (i v : Nat) : getV (setV l i v) i = some v := by
  induction l with
  | nil => simp [setV, getV]
  | cons x r ih =>
    obtain ⟨j, w⟩ := x
    by_cases h : j = i
    · simp [setV, getV, h]
    · simp [setV, getV, h, ih]

theorem getV_setV_other (l : List (Nat × Nat)) (i j v : Nat) (h : j ≠ i) : getV (setV l i v) j = getV l j := by
  induction l with
  | nil => simp [setV, getV, Ne.symm h]
  | cons x r ih =>
    obtain ⟨k, w⟩ := x
    by_cases hk : k = i
    · subst hk
      simp [setV, getV, Ne.symm h]
    · by_cases hj : k = j
      · subst hj
        simp [setV, getV, hk]
      · simp [setV, getV, hk, hj, ih]

/-- what the callback leaves in the cache -/
theorem storeFields_get (field : Nat → Nat) (vars : List PVar) :
    ∀ (vals : List (Nat × Nat)) (i : Nat),
      getV (storeFields field vars vals) i =
        if i ∈ vars.map PVar.idx then some (field i) else getV vals i := by
  induction vars with
  | nil => intro vals i; simp [storeFields]
  | cons v r ih =>
    intro vals i
    simp only [storeFields, List.map_cons, List.mem_cons]
    rw [ih]
    by_cases hr : i ∈ r.map PVar.idx
    · simp [hr]
    · by_cases hv : i = v.idx
      · subst hv; simp [hr, getV_setV_same]
      · simp [hr, hv, getV_setV_other _ _ _ _ hv]

/-! ## T cache_after_frame -/

/-- A frame of TPDO `k` arrives at a node object in ANY configuration state in which the map is subscribed and has
    the profile's callback: for every index the map carries the cache then holds the frame's field (the identity of
    the `PdoVariable` object that carries it plays no part), every other index keeps its value, and nothing else of
    the node object changes. -/
theorem cache_after_frame (c : NodeCfg) (k : Nat) (field : Nat → Nat)
    (hs : (c.tmap k).subscribed = true) (hc : (c.tmap k).callbacks > 0) :
    (∀ i, i ∈ (c.tmap k).vars.map PVar.idx → getV (recvFrame c k field).values i = some (field i)) ∧
    (∀ i, i ∉ (c.tmap k).vars.map PVar.idx → getV (recvFrame c k field).values i = getV c.values i) ∧
    (recvFrame c k field).t1 = c.t1 ∧ (recvFrame c k field).t2 = c.t2 ∧ (recvFrame c k field).ptrs = c.ptrs := by
  have e : recvFrame c k field = { c with values := storeFields field (c.tmap k).vars c.values } := by
    unfold recvFrame; simp [hs, hc]
  rw [e]
  refine ⟨?_, ?_, rfl, rfl, rfl⟩
  · intro i hi; simp only; rw [storeFields_get]; simp [hi]
  · intro i hi; simp only; rw [storeFields_get]; simp [hi]

/-- two variable objects for one index, and a stale pointer: the cache still follows the frame -/
example :
    let c : NodeCfg := { t1 := { enabled := true, vars := [⟨0x6041, 7⟩, ⟨0x6061, 8⟩], callbacks := 2, subscribed := true },
                         t2 := { enabled := false, vars := [], callbacks := 0, subscribed := false },
                         values := [(0x6041, 0x250), (0x6061, 0)], ptrs := [(0x6041, 1, 0), (0x6061, 1, 1)], nextId := 9 }
    getV (recvFrame c 1 (fun i => if i = 0x6041 then 0x237 else 3)).values 0x6041 = some 0x237 := by decide

/-! ## the invariant of every configuration history -/

/-- the node object is in step with what the drive transmits -/
structure LiveN (d : DriveCfg) (n : NodeCfg) : Prop where
  tx : ∀ k idxs, d.tx k = some idxs →
    (n.tmap k).enabled = true ∧ (n.tmap k).subscribed = true ∧ (n.tmap k).callbacks > 0 ∧
    (n.tmap k).vars.map PVar.idx = idxs
  swCached : (getV n.values SW_INDEX).isSome = true
  dispCached : (getV n.values DISP_INDEX).isSome = true
  swPtr : ∃ o, getP n.ptrs SW_INDEX = some (1, o)
  dispPtr : ∃ o, getP n.ptrs DISP_INDEX = some (1, o)

theorem mkVars_idx (idxs : List Nat) : ∀ n, (mkVars idxs n).map PVar.idx = idxs := by
  induction idxs with
  | nil => intro n; rfl
  | cons i r ih => intro n; simp [mkVars, ih]

theorem getV_append_some (l x : List (Nat × Nat)) (i : Nat) (h : (getV l i).isSome = true) :
    getV (l ++ x) i = getV l i := by
  induction l with
  | nil => simp [getV] at h
  | cons y r ih =>
    obtain ⟨j, w⟩ := y
    by_cases hj : j = i
    · simp [getV, hj]
    · simp only [getV, hj, if_false, List.cons_append] at h ⊢
      exact ih h

theorem getP_append_some (l x : List (Nat × Nat × Nat)) (i : Nat) (p : Nat × Nat) (h : getP l i = some p) :
    getP (l ++ x) i = some p := by
  induction l with
  | nil => simp [getP] at h
  | cons y r ih =>
    obtain ⟨j, w⟩ := y
    by_cases hj : j = i
    · simp only [getP, hj, if_true, List.cons_append] at h ⊢; exact h
    · simp only [getP, hj, if_false, List.cons_append] at h ⊢
      exact ih h

/-- `_init_tpdo_values` never touches an index that is cached already, nor its pointer -/
theorem initVars_keeps (k : Nat) (vars : List PVar) :
    ∀ (acc : List (Nat × Nat) × List (Nat × Nat × Nat)) (i : Nat),
      ((getV acc.1 i).isSome = true → (getV (initVars k vars acc).1 i).isSome = true) ∧
      (∀ p, getP acc.2 i = some p → getP (initVars k vars acc).2 i = some p) := by
  induction vars with
  | nil => intro acc i; exact ⟨id, fun _ h => h⟩
  | cons v r ih =>
    intro acc i
    obtain ⟨vals, ptrs⟩ := acc
    simp only [initVars]
    by_cases hv : (getV vals v.idx).isSome = true
    · simp only [hv, if_true]; exact ih (vals, ptrs) i
    · simp only [hv]
      have h := ih (vals ++ [(v.idx, 0)], ptrs ++ [(v.idx, k, v.oid)]) i
      constructor
      · intro hi
        apply h.1
        simp only
        rw [getV_append_some _ _ _ hi]; exact hi
      · intro p hp
        apply h.2
        exact getP_append_some _ _ _ _ hp

theorem initOf_keeps (k : Nat) (m : TMap) (acc : List (Nat × Nat) × List (Nat × Nat × Nat)) (i : Nat) :
    ((getV acc.1 i).isSome = true → (getV (initOf k m acc).1 i).isSome = true) ∧
    (∀ p, getP acc.2 i = some p → getP (initOf k m acc).2 i = some p) := by
  unfold initOf
  split
  · exact initVars_keeps k m.vars acc i
  · exact ⟨id, fun _ h => h⟩

theorem tmap_cases (n : NodeCfg) (k : Nat) : (k = 1 ∧ n.tmap k = n.t1) ∨ (k ≠ 1 ∧ n.tmap k = n.t2) := by
  unfold NodeCfg.tmap
  by_cases h : k = 1 <;> simp [h]

/-- `_init_tpdo_values` on a node whose transmitted maps are enabled and subscribed and carry the right objects -/
theorem initTpdoValues_live (d : DriveCfg) (n : NodeCfg)
    (htx : ∀ k idxs, d.tx k = some idxs →
      (n.tmap k).enabled = true ∧ (n.tmap k).subscribed = true ∧ (n.tmap k).vars.map PVar.idx = idxs)
    (h1 : (getV n.values SW_INDEX).isSome = true) (h2 : (getV n.values DISP_INDEX).isSome = true)
    (h3 : ∃ o, getP n.ptrs SW_INDEX = some (1, o)) (h4 : ∃ o, getP n.ptrs DISP_INDEX = some (1, o)) :
    LiveN d (initTpdoValues n) := by
  have keep : ∀ i, ((getV n.values i).isSome = true → (getV (initTpdoValues n).values i).isSome = true) ∧
      (∀ p, getP n.ptrs i = some p → getP (initTpdoValues n).ptrs i = some p) := by
    intro i
    have a := initOf_keeps 1 n.t1 (n.values, n.ptrs) i
    have b := initOf_keeps 2 n.t2 (initOf 1 n.t1 (n.values, n.ptrs)) i
    exact ⟨fun h => b.1 (a.1 h), fun p h => b.2 p (a.2 p h)⟩
  refine ⟨?_, (keep _).1 h1, (keep _).1 h2, ?_, ?_⟩
  · intro k idxs hk
    obtain ⟨he, hs, hv⟩ := htx k idxs hk
    rcases tmap_cases n k with ⟨hk1, e⟩ | ⟨hk1, e⟩
    · have e' : (initTpdoValues n).tmap k = addCallback n.t1 := by
        unfold NodeCfg.tmap initTpdoValues; simp [hk1]
      rw [e] at he hs hv
      rw [e']; unfold addCallback; simp [he, hs, hv]
    · have e' : (initTpdoValues n).tmap k = addCallback n.t2 := by
        unfold NodeCfg.tmap initTpdoValues; simp [hk1]
      rw [e] at he hs hv
      rw [e']; unfold addCallback; simp [he, hs, hv]
  · obtain ⟨o, ho⟩ := h3; exact ⟨o, (keep _).2 _ ho⟩
  · obtain ⟨o, ho⟩ := h4; exact ⟨o, (keep _).2 _ ho⟩

theorem setupLocal_live (c : PdoCfg)
    (htx : ∀ k idxs, c.drive.tx k = some idxs →
      (c.node.tmap k).enabled = true ∧ (c.node.tmap k).vars.map PVar.idx = idxs)
    (h1 : (getV c.node.values SW_INDEX).isSome = true) (h2 : (getV c.node.values DISP_INDEX).isSome = true)
    (h3 : ∃ o, getP c.node.ptrs SW_INDEX = some (1, o)) (h4 : ∃ o, getP c.node.ptrs DISP_INDEX = some (1, o)) :
    LiveN (setupLocal c).drive (setupLocal c).node := by
  unfold setupLocal
  apply initTpdoValues_live
  · intro k idxs hk
    obtain ⟨he, hv⟩ := htx k idxs hk
    rcases tmap_cases c.node k with ⟨hk1, e⟩ | ⟨hk1, e⟩
    · rw [e] at he hv
      have e' : NodeCfg.tmap { c.node with t1 := mapSubscribe c.node.t1, t2 := mapSubscribe c.node.t2 } k =
          mapSubscribe c.node.t1 := by unfold NodeCfg.tmap; simp [hk1]
      rw [e']; unfold mapSubscribe; simp [he, hv]
    · rw [e] at he hv
      have e' : NodeCfg.tmap { c.node with t1 := mapSubscribe c.node.t1, t2 := mapSubscribe c.node.t2 } k =
          mapSubscribe c.node.t2 := by unfold NodeCfg.tmap; simp [hk1]
      rw [e']; unfold mapSubscribe; simp [he, hv]
  · exact h1
  · exact h2
  · exact h3
  · exact h4

theorem tx_cases (d : DriveCfg) (k : Nat) : (k = 1 ∧ d.tx k = d.d1) ∨ (k ≠ 1 ∧ d.tx k = d.d2) := by
  unfold DriveCfg.tx
  by_cases h : k = 1 <;> simp [h]

/-- `tpdo.read()` keeps the node in step (the callbacks stay on the map objects, the variable objects are new) -/
theorem readTpdos_live (c : PdoCfg) (h : LiveN c.drive c.node) : LiveN (readTpdos c).drive (readTpdos c).node := by
  refine ⟨?_, h.swCached, h.dispCached, h.swPtr, h.dispPtr⟩
  intro k idxs hk
  have hk' : c.drive.tx k = some idxs := hk
  obtain ⟨_, _, hcb, _⟩ := h.tx k idxs hk'
  rcases tx_cases c.drive k with ⟨hk1, e⟩ | ⟨hk1, e⟩
  · rw [e] at hk'
    rcases tmap_cases c.node k with ⟨_, en⟩ | ⟨hne, _⟩
    · rw [en] at hcb
      have e' : (readTpdos c).node.tmap k = mapRead c.node.t1 c.drive.d1 c.node.nextId := by
        unfold NodeCfg.tmap readTpdos; simp [hk1]
      rw [e', hk']; simp [mapRead, mkVars_idx, hcb]
    · exact absurd hk1 hne
  · rw [e] at hk'
    rcases tmap_cases c.node k with ⟨heq, _⟩ | ⟨_, en⟩
    · exact absurd heq hk1
    · rw [en] at hcb
      have e' : (readTpdos c).node.tmap k = mapRead c.node.t2 c.drive.d2 (c.node.nextId + txLen c.drive.d1) := by
        unfold NodeCfg.tmap readTpdos; simp [hk1]
      rw [e', hk']; simp [mapRead, mkVars_idx, hcb]

theorem setupUpload_live (c : PdoCfg) (h : LiveN c.drive c.node) :
    LiveN (setupUpload c).drive (setupUpload c).node := by
  have hr := readTpdos_live c h
  unfold setupUpload
  apply initTpdoValues_live
  · intro k idxs hk
    obtain ⟨he, hs, _, hv⟩ := hr.tx k idxs hk
    exact ⟨he, hs, hv⟩
  · exact hr.swCached
  · exact hr.dispCached
  · exact hr.swPtr
  · exact hr.dispPtr

theorem remap_live (l : Layout) (c : PdoCfg) (h : LiveN c.drive c.node) :
    LiveN (remap l c).drive (remap l c).node := by
  unfold remap
  apply setupLocal_live
  · intro k idxs hk
    simp only at hk
    rcases tx_cases l.drive k with ⟨hk1, e⟩ | ⟨hk1, e⟩
    · rw [e] at hk
      simp [NodeCfg.tmap, hk1, mapSet, hk, mkVars_idx]
    · rw [e] at hk
      simp [NodeCfg.tmap, hk1, mapSet, hk, mkVars_idx]
  · exact h.swCached
  · exact h.dispCached
  · exact h.swPtr
  · exact h.dispPtr

theorem setupLocal_live' (c : PdoCfg) (h : LiveN c.drive c.node) :
    LiveN (setupLocal c).drive (setupLocal c).node :=
  setupLocal_live c (fun k idxs hk => ⟨(h.tx k idxs hk).1, (h.tx k idxs hk).2.2.2⟩)
    h.swCached h.dispCached h.swPtr h.dispPtr

theorem cfgStep_live (c : PdoCfg) (op : CfgOp) (h : LiveN c.drive c.node) :
    LiveN (cfgStep c op).drive (cfgStep c op).node := by
  cases op with
  | setupLocal => exact setupLocal_live' c h
  | setupUpload => exact setupUpload_live c h
  | machine => exact setupUpload_live c h
  | readT => exact readTpdos_live c h
  | readR => exact h
  | readAll => exact readTpdos_live c h
  | remap l => exact remap_live l c h

theorem start_live : LiveN PdoCfg.start.drive PdoCfg.start.node := by
  refine ⟨?_, by decide, by decide, ⟨0, by decide⟩, ⟨1, by decide⟩⟩
  intro k idxs hk
  rcases tx_cases PdoCfg.start.drive k with ⟨hk1, e⟩ | ⟨hk1, e⟩
  · subst hk1
    have : idxs = [SW_INDEX, DISP_INDEX] := by
      have : PdoCfg.start.drive.tx 1 = some [SW_INDEX, DISP_INDEX] := by decide
      rw [this] at hk; exact (Option.some.inj hk).symm
    subst this
    decide
  · rw [e] at hk
    have : PdoCfg.start.drive.d2 = none := by decide
    rw [this] at hk; cases hk

theorem runCfg_live (ops : List CfgOp) :
    ∀ c : PdoCfg, LiveN c.drive c.node → LiveN (runCfg c ops).drive (runCfg c ops).node := by
  induction ops with
  | nil => intro c h; exact h
  | cons op rest ih =>
    intro c h
    show LiveN (runCfg (cfgStep c op) rest).drive (runCfg (cfgStep c op) rest).node
    exact ih _ (cfgStep_live c op h)

/-- After EVERY configuration history of the node object - set up again (locally, with upload, through
    `setup_402_state_machine`), TPDO / RPDO / all PDO configuration read again, the TPDOs re-mapped (statusword in two
    TPDOs, moved to TPDO2, TPDO1 switched off, back), in any order and number - every TPDO the drive transmits is
    enabled, subscribed, has the profile's callback and carries on the node object what the drive put in it; statusword
    and mode display are cached objects, their pointers name TPDO1. -/
theorem cfg_live (ops : List CfgOp) :
    LiveN (runCfg PdoCfg.start ops).drive (runCfg PdoCfg.start ops).node :=
  runCfg_live ops PdoCfg.start start_live

/-- … and the drive's side is always one of the four layouts -/
theorem drive_layout (ops : List CfgOp) : ∀ c : PdoCfg, (∃ l : Layout, c.drive = l.drive) →
    ∃ l : Layout, (runCfg c ops).drive = l.drive := by
  induction ops with
  | nil => intro c h; exact h
  | cons op rest ih =>
    intro c h
    show ∃ l : Layout, (runCfg (cfgStep c op) rest).drive = l.drive
    apply ih
    cases op with
    | remap l => exact ⟨l, rfl⟩
    | setupLocal => exact h
    | setupUpload => exact h
    | machine => exact h
    | readT => exact h
    | readR => exact h
    | readAll => exact h

/-! ## T statusword_after_frame(s) -/

/-- After every configuration history: a frame of a TPDO in which the drive transmits the statusword arrives - the
    `statusword` getter (hence `state`, hence every step of the `state` setter) returns that frame's statusword. -/
theorem statusword_after_frame (ops : List CfgOp) (k : Nat) (idxs : List Nat) (field : Nat → Nat) (sdo : Nat)
    (hk : (runCfg PdoCfg.start ops).drive.tx k = some idxs) (hsw : SW_INDEX ∈ idxs) :
    statuswordOf (recvFrame (runCfg PdoCfg.start ops).node k field) sdo = field SW_INDEX := by
  have h := cfg_live ops
  obtain ⟨_, hs, hc, hv⟩ := h.tx k idxs hk
  have hf := (cache_after_frame (runCfg PdoCfg.start ops).node k field hs hc).1 SW_INDEX (by rw [hv]; exact hsw)
  unfold statuswordOf
  rw [hf]

/-- a received frame leaves the node in step with the drive -/
theorem recvFrame_live (d : DriveCfg) (n : NodeCfg) (k : Nat) (field : Nat → Nat) (h : LiveN d n) :
    LiveN d (recvFrame n k field) := by
  unfold recvFrame
  split
  · have keep : ∀ i, (getV n.values i).isSome = true →
        (getV (storeFields field (n.tmap k).vars n.values) i).isSome = true := by
      intro i hi; rw [storeFields_get]; split <;> simp [hi]
    exact ⟨h.tx, keep _ h.swCached, keep _ h.dispCached, h.swPtr, h.dispPtr⟩
  · exact h

/-- the statusword of the last frame among `frames` (TPDO number, content) that carries it; `cur` if none does -/
def lastStatusword (d : DriveCfg) (cur : Nat) : List (Nat × (Nat → Nat)) → Nat
  | [] => cur
  | (k, f) :: rest =>
    match d.tx k with
    | some idxs => lastStatusword d (if SW_INDEX ∈ idxs then f SW_INDEX else cur) rest
    | none => lastStatusword d cur rest

def recvAll (n : NodeCfg) : List (Nat × (Nat → Nat)) → NodeCfg
  | [] => n
  | (k, f) :: rest => recvAll (recvFrame n k f) rest

theorem statusword_after_frames_aux (d : DriveCfg) (frames : List (Nat × (Nat → Nat))) (sdo : Nat) :
    ∀ n : NodeCfg, LiveN d n → (∀ x ∈ frames, (d.tx x.1).isSome = true) →
      statuswordOf (recvAll n frames) sdo = lastStatusword d (statuswordOf n sdo) frames := by
  induction frames with
  | nil => intro n _ _; rfl
  | cons x rest ih =>
    intro n h hall
    obtain ⟨k, f⟩ := x
    have hk := hall (k, f) (List.mem_cons_self ..)
    simp only at hk
    have hrest : ∀ y ∈ rest, (d.tx y.1).isSome = true := fun y hy => hall y (List.mem_cons_of_mem _ hy)
    simp only [recvAll, lastStatusword]
    rw [ih (recvFrame n k f) (recvFrame_live d n k f h) hrest]
    cases hd : d.tx k with
    | none => rw [hd] at hk; cases hk
    | some idxs =>
      simp only
      obtain ⟨_, hs, hc, hv⟩ := h.tx k idxs hd
      have hf := cache_after_frame n k f hs hc
      congr 1
      unfold statuswordOf
      by_cases hsw : SW_INDEX ∈ idxs
      · rw [hf.1 SW_INDEX (by rw [hv]; exact hsw)]; simp [hsw]
      · rw [hf.2.1 SW_INDEX (by rw [hv]; exact hsw)]; simp [hsw]

/-- After every configuration history and ANY sequence of frames of the TPDOs the drive transmits, the `statusword`
    getter returns the statusword of the LAST frame that carries it - of either TPDO when it is mapped in both. -/
theorem statusword_after_frames (ops : List CfgOp) (frames : List (Nat × (Nat → Nat))) (sdo : Nat)
    (hall : ∀ x ∈ frames, ((runCfg PdoCfg.start ops).drive.tx x.1).isSome = true) :
    statuswordOf (recvAll (runCfg PdoCfg.start ops).node frames) sdo =
      lastStatusword (runCfg PdoCfg.start ops).drive (statuswordOf (runCfg PdoCfg.start ops).node sdo) frames :=
  statusword_after_frames_aux _ frames sdo _ (cfg_live ops) hall

/-- second `setup_402_state_machine()`, then `tpdo.read()`; statusword additionally mapped in TPDO2: TPDO1 shows
    0x0250, then TPDO2 0x0237 - the getter returns 0x0237 -/
example :
    statuswordOf (recvAll (runCfg PdoCfg.start [.machine, .readT, .remap .l2, .setupUpload]).node
      [(1, fun i => if i = SW_INDEX then 0x250 else 0), (2, fun i => if i = SW_INDEX then 0x237 else 0)]) 0 = 0x237 := by
  decide

/-! ## T statusword_after_cycle, pdo_served_iff -/

/-- After every configuration history, one transmission cycle of the drive (every TPDO it transmits, same sample)
    leaves the `statusword` getter at that sample: the view of the drive that the transition model's PDO transport
    (`pdo = true`) works with. -/
theorem statusword_after_cycle (ops : List CfgOp) (field : Nat → Nat) (sdo : Nat) :
    statuswordOf (receiveCycle (runCfg PdoCfg.start ops) field) sdo = field SW_INDEX := by
  have h := cfg_live ops
  obtain ⟨l, hl⟩ := drive_layout ops PdoCfg.start ⟨.l1, rfl⟩
  generalize runCfg PdoCfg.start ops = c at h hl
  have frames : ∀ (fs : List (Nat × (Nat → Nat))), (∀ x ∈ fs, (c.drive.tx x.1).isSome = true) →
      statuswordOf (recvAll c.node fs) sdo = lastStatusword c.drive (statuswordOf c.node sdo) fs :=
    fun fs hfs => statusword_after_frames_aux c.drive fs sdo c.node h hfs
  cases l with
  | l1 =>
    have e : receiveCycle c field = recvAll c.node [(1, field)] := by unfold receiveCycle; rw [hl]; rfl
    rw [e, frames _ (by rw [hl]; simp [DriveCfg.tx, Layout.drive]), hl]; simp [lastStatusword, DriveCfg.tx, Layout.drive, SW_INDEX, DISP_INDEX]
  | l2 =>
    have e : receiveCycle c field = recvAll c.node [(1, field), (2, field)] := by unfold receiveCycle; rw [hl]; rfl
    rw [e, frames _ (by rw [hl]; simp [DriveCfg.tx, Layout.drive]), hl]; simp [lastStatusword, DriveCfg.tx, Layout.drive, SW_INDEX, DISP_INDEX]
  | l3 =>
    have e : receiveCycle c field = recvAll c.node [(1, field), (2, field)] := by unfold receiveCycle; rw [hl]; rfl
    rw [e, frames _ (by rw [hl]; simp [DriveCfg.tx, Layout.drive]), hl]; simp [lastStatusword, DriveCfg.tx, Layout.drive, SW_INDEX, DISP_INDEX]
  | l4 =>
    have e : receiveCycle c field = recvAll c.node [(2, field)] := by unfold receiveCycle; rw [hl]; rfl
    rw [e, frames _ (by rw [hl]; simp [DriveCfg.tx, Layout.drive]), hl]; simp [lastStatusword, DriveCfg.tx, Layout.drive, SW_INDEX, DISP_INDEX]

/-- After every configuration history the TPDO that `check_statusword` and the `op_mode` getter wait for is TPDO1
    (the pointers are never renewed), so the PDO transport is served exactly when the drive still transmits TPDO1 -
    always, unless the application switched TPDO1 off (layout `l4`). -/
theorem pdo_served_iff (ops : List CfgOp) :
    pdoServed (runCfg PdoCfg.start ops) = (runCfg PdoCfg.start ops).drive.d1.isSome ∧
    ∃ l : Layout, (runCfg PdoCfg.start ops).drive = l.drive ∧
      (pdoServed (runCfg PdoCfg.start ops) = true ↔ l ≠ .l4) := by
  have h := cfg_live ops
  obtain ⟨l, hl⟩ := drive_layout ops PdoCfg.start ⟨.l1, rfl⟩
  generalize runCfg PdoCfg.start ops = c at h hl
  obtain ⟨o1, h1⟩ := h.swPtr
  obtain ⟨o2, h2⟩ := h.dispPtr
  have e : pdoServed c = c.drive.d1.isSome := by
    unfold pdoServed waitServed
    rw [h1, h2, h.swCached, h.dispCached]
    simp [DriveCfg.tx]
  refine ⟨e, l, hl, ?_⟩
  rw [e, hl]
  cases l <;> decide

example : pdoServed (runCfg PdoCfg.start [.machine, .remap .l3, .readAll, .setupUpload]) = true ∧
    pdoServed (runCfg PdoCfg.start [.remap .l4, .setupUpload]) = false := by decide

end Canopen.C19
