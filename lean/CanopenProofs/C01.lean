/-
C01 — SDO client transfers exactly the caller's bytes in conformant CiA 301 frames.

Theorems about the client model `CanopenModel/Sdo/Client.lean` (`WritableStream`,
`ReadableStream`, `request_response`, `upload`, `download`) composed with the independent
strict server specification `CanopenModel/Spec/SdoServer.lean`, which checks every request
frame against CiA 301 and records the first illegality.  "No illegal frame" below therefore
means: every request was 8 bytes, had the right command specifier for the protocol step and
the multiplexer, toggle alternating from 0, correct unused-byte count, last-segment flag set
exactly once, declared size equal to the bytes actually sent, padding zero.
-/
import CanopenModel.Sdo.Client
import CanopenModel.Spec.SdoServer
import CanopenProofs.Lemmas.SdoClient

namespace Canopen.C01
open Canopen Canopen.Sdo Canopen.Spec Canopen.Gen.SdoConst

/-! ## single exchanges -/

/-- `request_response` when the peer answers the request with exactly one non-abort frame: any
    stale queue content is discarded, the response is returned -/
theorem rr_one (c : Chan PS) (req r : Bytes) (s' : SS) (c0 : Nat) (rt : Bytes)
    (hstep : ssStep c.peer.1 req = (s', [r])) (hr : r = c0 :: rt) (hne : c0 ≠ RESPONSE_ABORTED) :
    requestResponse specPeer c req =
      ({ peer := (s', c.peer.2 ++ [r]), queue := [], sent := c.sent ++ [req] }, .ok r) := by
  obtain ⟨⟨s, log⟩, q, snt⟩ := c
  simp only [requestResponse, send, specPeer] at hstep ⊢
  simp only [hstep, List.nil_append]
  subst hr
  simp [decodeResponse, hne]

/-! ## segmented download -/

/-- the strict server on a well-formed download segment (`last` = flagged as last) -/
theorem ss_downSeg (s : SS) (declared : Option Nat) (buf chunk : Bytes) (tg last : Bool)
    (hph : s.phase = .down declared buf tg) (hill : s.illegal = none) (hc : chunk.length ≤ 7)
    (hdecl : ∀ d, declared = some d → (buf ++ chunk).length ≤ d ∧ (last = true → d = (buf ++ chunk).length))
    (hne : last = false → chunk.length ≠ 0) :
    ssStep s (segDownCmd (tb tg) chunk.length last :: padTo 7 chunk) =
      (if last then { s with phase := .idle, held := (s.mux, buf ++ chunk) :: s.held,
                             commits := s.commits ++ [(s.mux, buf ++ chunk)] }
       else { s with phase := .down declared (buf ++ chunk) (!tg) },
       [(0x20 + tb tg) :: List.replicate 7 0]) := by
  obtain ⟨f1, f2, f3, f4⟩ := segDownCmd_fields tg _ (mem07 _ hc) last
  have hl : (segDownCmd (tb tg) chunk.length last :: padTo 7 chunk).length = 8 := by
    simp [padTo_len 7 chunk hc]
  have h77 : 7 - (7 - chunk.length) = chunk.length := by omega
  simp only [ssStep, hl, ne_eq, not_true_eq_false, if_false, List.headD_cons, f1,
    show ¬ ((0 : Nat) = 1) from by decide, if_true, onDownSeg, hph, f2, f3, f4, List.drop_succ_cons,
    List.drop_zero, h77, padTo_take', padTo_drop_zero, bne_self_eq_false, Bool.not_true, flagIf_false]
  have hd1 : exceeds declared (buf ++ chunk).length = false := by
    cases declared with
    | none => rfl
    | some d => have := (hdecl d rfl).1; simp only [exceeds, decide_eq_false_iff_not]; omega
  rw [hd1, flagIf_false]
  cases last
  · have : (chunk.length == 0) = false := by simpa using hne rfl
    simp [this, flagIf_false]
  · have hd2 : differs declared (buf.length + chunk.length) = false := by
      cases declared with
      | none => rfl
      | some d => have := (hdecl d rfl).2 rfl; simp [differs, this]
    simp [hd2, flagIf_false]

/-- one raw `write(b)` of a segmented download against the strict server, fully evaluated -/
theorem wsWrite_seg (c : Chan PS) (w : WS) (b : Bytes) (declared : Option Nat) (buf : Bytes) (tg : Bool)
    (hph : c.peer.1.phase = .down declared buf tg) (hill : c.peer.1.illegal = none)
    (hexp : w.expHeader = none) (hnd : w.done = false) (htg : w.toggle = tb tg)
    (hpos : w.pos = buf.length) (hsz : w.size = declared) (hb : b ≠ [])
    (hdecl : ∀ d, declared = some d → buf.length + min b.length 7 ≤ d) :
    wsWrite specPeer c w b =
      ({ peer := ((if reachesSize declared (buf.length + min b.length 7) then
                    { c.peer.1 with phase := .idle, held := (c.peer.1.mux, buf ++ b.take (min b.length 7)) :: c.peer.1.held,
                                    commits := c.peer.1.commits ++ [(c.peer.1.mux, buf ++ b.take (min b.length 7))] }
                  else { c.peer.1 with phase := .down declared (buf ++ b.take (min b.length 7)) (!tg) }),
                  c.peer.2 ++ [(0x20 + tb tg) :: List.replicate 7 0]),
         queue := [],
         sent := c.sent ++ [segDownCmd (tb tg) (min b.length 7) (reachesSize declared (buf.length + min b.length 7))
                              :: padTo 7 (b.take (min b.length 7))] },
       .ok ({ w with toggle := tb (!tg), done := reachesSize declared (buf.length + min b.length 7),
                     pos := buf.length + min b.length 7 }, min b.length 7)) := by
  have hlen : (b.take (min b.length 7)).length = min b.length 7 := by
    simp only [List.length_take]; omega
  have hc : (b.take (min b.length 7)).length ≤ 7 := by rw [hlen]; omega
  have hbl : 1 ≤ b.length := by
    cases b with
    | nil => exact absurd rfl hb
    | cons x xs => simp
  have hstep := ss_downSeg c.peer.1 declared buf (b.take (min b.length 7)) tg
    (reachesSize declared (buf.length + min b.length 7)) hph hill hc
    (by
      intro d hd
      have h1 := hdecl d hd
      rw [List.length_append, hlen]
      refine ⟨h1, ?_⟩
      intro hl
      simp only [hd, reachesSize, decide_eq_true_eq] at hl
      omega)
    (by intro _; rw [hlen]; omega)
  rw [hlen] at hstep
  obtain ⟨r1, r2⟩ := resp_fields.2 tg
  have hrr := rr_one c _ _ _ (0x20 + tb tg) (List.replicate 7 0) hstep rfl r1
  simp only [wsWrite, hnd, Bool.false_eq_true, if_false, hexp, htg, hpos, hsz, tb_xor]
  rw [hrr]
  simp only [List.headD_cons, r2, ne_eq, not_true_eq_false, if_false]

theorem take_take_min (rem : Bytes) (k : Nat) :
    (rem.take k).take (min (rem.take k).length 7) = rem.take (min (min k rem.length) 7) := by
  rw [List.take_take, List.length_take]
  congr 1
  omega

/-- outcome of feeding the payload through raw writes: either the declared size was reached (the
    server has committed) or the stream is still open with everything delivered -/
def FeedDone (payload : Bytes) (mux : Nat × Nat) (declared : Option Nat) (c c' : Chan PS) (w' : WS) : Prop :=
  c'.peer.1.illegal = none ∧ c'.peer.1.mux = mux ∧ w'.expHeader = none ∧ w'.size = declared ∧
  c'.peer.1.style = c.peer.1.style ∧
  ((w'.done = true ∧ c'.peer.1.phase = .idle ∧
      c'.peer.1.commits = c.peer.1.commits ++ [(mux, payload)] ∧
      c'.peer.1.held = (mux, payload) :: c.peer.1.held) ∨
   (w'.done = false ∧ c'.peer.1.commits = c.peer.1.commits ∧ c'.peer.1.held = c.peer.1.held ∧
      ∃ tg', c'.peer.1.phase = .down declared payload tg' ∧ w'.toggle = tb tg'))

theorem wsFeed_seg (payload : Bytes) (mux : Nat × Nat) (declared : Option Nat)
    (hd : declared = none ∨ declared = some payload.length) :
    ∀ (fuel : Nat) (c : Chan PS) (w : WS) (rem : Bytes) (offers : List Nat) (buf : Bytes) (tg : Bool),
      c.peer.1.phase = .down declared buf tg → c.peer.1.illegal = none → c.peer.1.mux = mux →
      w.expHeader = none → w.done = false → w.toggle = tb tg → w.pos = buf.length → w.size = declared →
      buf ++ rem = payload → rem.length < fuel →
      ∃ c' w', wsFeed specPeer fuel c w rem offers = (c', .ok w') ∧ FeedDone payload mux declared c c' w' := by
  intro fuel
  induction fuel with
  | zero => intro c w rem offers buf tg _ _ _ _ _ _ _ _ _ hf; omega
  | succ fuel ih =>
    intro c w rem offers buf tg hph hill hmux hexp hnd htg hpos hsz hacc hf
    unfold wsFeed
    by_cases hre : rem.isEmpty
    · have : rem = [] := by simpa using hre
      subst this
      simp only [List.isEmpty_nil, if_true]
      refine ⟨c, w, rfl, hill, hmux, hexp, hsz, rfl, Or.inr ⟨hnd, rfl, rfl, tg, ?_, htg⟩⟩
      rw [hph]; simp at hacc; rw [hacc]
    · have hrne : rem ≠ [] := by simpa using hre
      have hrl : 1 ≤ rem.length := by
        cases rem with
        | nil => exact absurd rfl hrne
        | cons x xs => simp
      simp only [hre, Bool.false_eq_true, if_false]
      generalize hk : nextOffer offers rem.length = k
      have hk1 : 1 ≤ k := by
        cases offers with
        | nil => simp [nextOffer] at hk; omega
        | cons a as => simp [nextOffer] at hk; omega
      have hbne : rem.take k ≠ [] := by
        intro h
        have := congrArg List.length h
        simp only [List.length_take, List.length_nil] at this
        omega
      have hbl : (rem.take k).length = min k rem.length := List.length_take
      have hsent1 : 1 ≤ min (rem.take k).length 7 := by rw [hbl]; omega
      have hsentle : min (rem.take k).length 7 ≤ rem.length := by rw [hbl]; omega
      have hplen : payload.length = buf.length + rem.length := by rw [← hacc]; simp
      have hw := wsWrite_seg c w (rem.take k) declared buf tg hph hill hexp hnd htg hpos hsz hbne
        (by intro d hd'
            rcases hd with h | h
            · rw [h] at hd'; cases hd'
            · rw [h] at hd'; cases hd'; omega)
      rw [hw]
      simp only []
      generalize hsent : min (rem.take k).length 7 = sent at *
      have htt : (rem.take k).take sent = rem.take sent := by
        rw [List.take_take]; congr 1; omega
      rw [htt]
      by_cases hlast : reachesSize declared (buf.length + sent) = true
      · -- the declared size is reached: committed, the next iteration finds nothing left
        have hds : declared = some payload.length := by
          rcases hd with h | h
          · rw [h] at hlast; simp [reachesSize] at hlast
          · exact h
        have hall : sent = rem.length := by
          rw [hds] at hlast
          simp only [reachesSize, decide_eq_true_eq] at hlast
          omega
        have hdrop : rem.drop sent = [] := by rw [hall]; simp
        have htake : rem.take sent = rem := by rw [hall]; simp
        simp only [hlast, if_true, hdrop, htake, hacc]
        cases fuel with
        | zero => omega
        | succ f =>
          unfold wsFeed
          simp only [List.isEmpty_nil, if_true]
          refine ⟨_, _, rfl, hill, hmux, hexp, hsz, rfl, Or.inl ⟨rfl, rfl, ?_, ?_⟩⟩
          · simp [hmux]
          · simp [hmux]
      · have hl' : reachesSize declared (buf.length + sent) = false := by simpa using hlast
        simp only [hl', Bool.false_eq_true, if_false]
        have := ih { peer := ({ c.peer.1 with phase := .down declared (buf ++ rem.take sent) (!tg) },
                              c.peer.2 ++ [(0x20 + tb tg) :: List.replicate 7 0]),
                     queue := [],
                     sent := c.sent ++ [segDownCmd (tb tg) sent false :: padTo 7 (rem.take sent)] }
          { w with toggle := tb (!tg), done := false, pos := buf.length + sent } (rem.drop sent) offers.tail
          (buf ++ rem.take sent) (!tg) rfl hill hmux hexp rfl rfl
          (by simp only [List.length_append, List.length_take]; omega) hsz
          (by rw [List.append_assoc, List.take_append_drop]; exact hacc)
          (by simp only [List.length_drop]; omega)
        obtain ⟨c', w', hfeed, hdone⟩ := this
        exact ⟨c', w', hfeed, hdone⟩

/-! ## initiate, close, expedited -/

theorem muxB_getD (idx sub : Nat) (c0 : Nat) (rest : Bytes) (hidx : idx < 65536) (hsub : sub < 256) :
    (c0 :: (muxB idx sub ++ rest)).getD 1 0 + 256 * (c0 :: (muxB idx sub ++ rest)).getD 2 0 = idx ∧
    (c0 :: (muxB idx sub ++ rest)).getD 3 0 = sub ∧
    (c0 :: (muxB idx sub ++ rest)).drop 4 = rest ∧
    (c0 :: (muxB idx sub ++ rest)).length = rest.length + 4 := by
  have : sub % 256 = sub := Nat.mod_eq_of_lt hsub
  simp [muxB, leBytes, this]
  omega

/-- the strict server on the client's segmented download initiate -/
theorem ss_downInit (s : SS) (idx sub : Nat) (size : Option Nat) (hidx : idx < 65536) (hsub : sub < 256)
    (hill : s.illegal = none) (hsz : ∀ n, size = some n → n < 2 ^ 32) :
    ssStep s ((REQUEST_DOWNLOAD ||| (if size.isSome then SIZE_SPECIFIED else 0)) ::
        (muxB idx sub ++ sizeField size)) =
      ({ s with phase := .down size [] false, mux := (idx, sub) },
       [[0x60, idx % 256, idx / 256 % 256, sub % 256, 0, 0, 0, 0]]) := by
  obtain ⟨m1, m2, m3, m4⟩ := muxB_getD idx sub
    (REQUEST_DOWNLOAD ||| (if size.isSome then SIZE_SPECIFIED else 0))
    (sizeField size) hidx hsub
  obtain ⟨f1, f2, f3, f4, f5⟩ := downInitCmd_fields size.isSome
  have hl4 : (sizeField size).length = 4 := by
    cases size <;> simp [sizeField]
  simp only [ssStep, m4, hl4, ne_eq, not_true_eq_false, if_false, List.headD_cons, f1, if_true, onDownInit,
    m1, m2, m3, f2, f3, f4, f5, flagIf_false, Bool.false_eq_true, bne_self_eq_false, Bool.not_false,
    Bool.true_and, Bool.false_and]
  cases size with
  | none => simp [allZeroB, flagIf_false, sizeField]
  | some n =>
    have : leVal (leBytes 4 n) = n := by
      rw [leVal_leBytes]; exact Nat.mod_eq_of_lt (by simpa using hsz n rfl)
    simp [this, flagIf_false, sizeField]

/-- `WritableStream.__init__` for a segmented download against the strict server -/
theorem wsInit_seg (c : Chan PS) (idx sub : Nat) (size : Option Nat) (force : Bool)
    (hidx : idx < 65536) (hsub : sub < 256) (hill : c.peer.1.illegal = none)
    (hsz : ∀ n, size = some n → n < 2 ^ 32)
    (hseg : isSegmented size force = true) :
    wsInit specPeer c idx sub size force =
      ({ peer := ({ c.peer.1 with phase := .down size [] false, mux := (idx, sub) },
                  c.peer.2 ++ [[0x60, idx % 256, idx / 256 % 256, sub % 256, 0, 0, 0, 0]]),
         queue := [],
         sent := c.sent ++ [(REQUEST_DOWNLOAD ||| (if size.isSome then SIZE_SPECIFIED else 0)) ::
           (muxB idx sub ++ sizeField size)] },
       .ok { size := size, pos := 0, toggle := 0, expHeader := none, done := false }) := by
  have hstep := ss_downInit c.peer.1 idx sub size hidx hsub hill hsz
  have hrr := rr_one c _ _ _ 0x60 _ hstep rfl resp_fields.1.1
  unfold wsInit
  simp only [hseg, if_true]
  rw [hrr]
  simp [RESPONSE_DOWNLOAD]

/-- `close()` of an unfinished segmented download: the empty last segment commits what was sent -/
theorem wsClose_open (c : Chan PS) (w : WS) (declared : Option Nat) (buf : Bytes) (tg : Bool)
    (hph : c.peer.1.phase = .down declared buf tg) (hill : c.peer.1.illegal = none)
    (hexp : w.expHeader = none) (hnd : w.done = false) (htg : w.toggle = tb tg)
    (hdecl : ∀ d, declared = some d → d = buf.length) :
    ∃ c', wsClose specPeer c w = (c', .ok { w with done := true }) ∧
      c'.peer.1 = { c.peer.1 with phase := .idle, held := (c.peer.1.mux, buf) :: c.peer.1.held,
                                  commits := c.peer.1.commits ++ [(c.peer.1.mux, buf)] } := by
  have hcmd : (REQUEST_SEGMENT_DOWNLOAD ||| NO_MORE_DATA ||| tb tg ||| (7 <<< 1)) = segDownCmd (tb tg) 0 true := by
    cases tg <;> decide
  have hstep := ss_downSeg c.peer.1 declared buf [] tg true hph hill (by simp)
    (by intro d hd; have := hdecl d hd; simp; omega) (by intro h; cases h)
  simp only [List.length_nil, padTo, List.nil_append, Nat.sub_zero, List.append_nil, if_true] at hstep
  obtain ⟨r1, r2⟩ := resp_fields.2 tg
  have hrr := rr_one c _ _ _ (0x20 + tb tg) (List.replicate 7 0) hstep rfl r1
  refine ⟨{ peer := (_, c.peer.2 ++ [(0x20 + tb tg) :: List.replicate 7 0]), queue := [],
             sent := c.sent ++ [segDownCmd (tb tg) 0 true :: List.replicate 7 0] }, ?_, rfl⟩
  simp only [wsClose, hnd, hexp, Option.isNone_none, Bool.not_false, Bool.and_self, if_true, htg, hcmd]
  rw [hrr]

/-- the strict server on the client's expedited download request -/
theorem ss_downExp (s : SS) (idx sub : Nat) (data : Bytes) (hidx : idx < 65536) (hsub : sub < 256)
    (hill : s.illegal = none) (h1 : 1 ≤ data.length) (h4 : data.length ≤ 4) :
    ssStep s (((REQUEST_DOWNLOAD ||| EXPEDITED ||| SIZE_SPECIFIED ||| ((4 - data.length) <<< 2)) :: muxB idx sub)
        ++ padTo 4 data) =
      ({ s with phase := .idle, mux := (idx, sub), held := ((idx, sub), data) :: s.held,
                commits := s.commits ++ [((idx, sub), data)] },
       [[0x60, idx % 256, idx / 256 % 256, sub % 256, 0, 0, 0, 0]]) := by
  obtain ⟨m1, m2, m3, m4⟩ := muxB_getD idx sub
    (REQUEST_DOWNLOAD ||| EXPEDITED ||| SIZE_SPECIFIED ||| ((4 - data.length) <<< 2)) (padTo 4 data) hidx hsub
  obtain ⟨f1, f2, f3, f4, f5⟩ := expDownCmd_fields data.length (mem14 _ h1 h4)
  have h44 : 4 - (4 - data.length) = data.length := by omega
  simp only [List.cons_append, ssStep, m4, padTo_len 4 data h4, ne_eq, not_true_eq_false, if_false,
    List.headD_cons, f1, if_true, onDownInit, m1, m2, m3, f2, f3, f4, f5, flagIf_false, h44, padTo_take',
    padTo_drop_zero, Bool.not_true, Bool.false_and, Bool.and_false]

/-- the single raw write that carries an expedited download -/
theorem wsWrite_exp (c : Chan PS) (w : WS) (idx sub : Nat) (payload : Bytes)
    (hidx : idx < 65536) (hsub : sub < 256) (hill : c.peer.1.illegal = none)
    (h1 : 1 ≤ payload.length) (h4 : payload.length ≤ 4) (hnd : w.done = false)
    (hsz : w.size = some payload.length)
    (hexp : w.expHeader = some ((REQUEST_DOWNLOAD ||| EXPEDITED ||| SIZE_SPECIFIED |||
      ((4 - payload.length) <<< 2)) :: muxB idx sub)) :
    wsWrite specPeer c w payload =
      ({ peer := ({ c.peer.1 with phase := .idle, mux := (idx, sub),
                                  held := ((idx, sub), payload) :: c.peer.1.held,
                                  commits := c.peer.1.commits ++ [((idx, sub), payload)] },
                  c.peer.2 ++ [[0x60, idx % 256, idx / 256 % 256, sub % 256, 0, 0, 0, 0]]),
         queue := [],
         sent := c.sent ++ [((REQUEST_DOWNLOAD ||| EXPEDITED ||| SIZE_SPECIFIED |||
           ((4 - payload.length) <<< 2)) :: muxB idx sub) ++ padTo 4 payload] },
       .ok ({ w with done := true, pos := w.pos + payload.length }, payload.length)) := by
  have hstep := ss_downExp c.peer.1 idx sub payload hidx hsub hill h1 h4
  have hrr := rr_one c _ _ _ 0x60 _ hstep rfl resp_fields.1.1
  have hn1 : ¬ payload.length < payload.length := by omega
  have hn2 : ¬ payload.length > 4 := by omega
  simp only [wsWrite, hnd, Bool.false_eq_true, if_false, hexp, hsz, Option.getD_some, hn1, hn2]
  rw [hrr]
  simp [resp_fields.1.2.2]

/-- feeding an expedited download: offers shorter than the declared size are refused with 0 (the
    caller retries with its next offer), the first offer that covers the payload sends it -/
theorem wsFeed_exp (idx sub : Nat) (payload : Bytes) (hidx : idx < 65536) (hsub : sub < 256)
    (h1 : 1 ≤ payload.length) (h4 : payload.length ≤ 4) :
    ∀ (offers : List Nat) (fuel : Nat) (c : Chan PS) (w : WS),
      c.peer.1.illegal = none → w.done = false → w.size = some payload.length →
      w.expHeader = some ((REQUEST_DOWNLOAD ||| EXPEDITED ||| SIZE_SPECIFIED |||
        ((4 - payload.length) <<< 2)) :: muxB idx sub) →
      offers.length + 2 ≤ fuel →
      ∃ c' w', wsFeed specPeer fuel c w payload offers = (c', .ok w') ∧ w'.done = true ∧
        w'.expHeader = w.expHeader ∧
        c'.peer.1 = { c.peer.1 with phase := .idle, mux := (idx, sub),
                                    held := ((idx, sub), payload) :: c.peer.1.held,
                                    commits := c.peer.1.commits ++ [((idx, sub), payload)] } := by
  intro offers
  induction offers with
  | nil =>
    intro fuel c w hill hnd hsz hexp hf
    obtain ⟨f, rfl⟩ : ∃ f, fuel = f + 2 := ⟨fuel - 2, by omega⟩
    have hne : payload.isEmpty = false := by
      cases payload with
      | nil => simp at h1
      | cons x xs => rfl
    unfold wsFeed
    simp only [hne, Bool.false_eq_true, if_false, nextOffer, List.take_length]
    rw [wsWrite_exp c w idx sub payload hidx hsub hill h1 h4 hnd hsz hexp]
    simp only [List.drop_length]
    unfold wsFeed
    simp only [List.isEmpty_nil, if_true]
    exact ⟨_, _, rfl, rfl, rfl, rfl⟩
  | cons k ks ih =>
    intro fuel c w hill hnd hsz hexp hf
    obtain ⟨f, rfl⟩ : ∃ f, fuel = f + 2 := ⟨fuel - 2, by omega⟩
    have hne : payload.isEmpty = false := by
      cases payload with
      | nil => simp at h1
      | cons x xs => rfl
    unfold wsFeed
    simp only [hne, Bool.false_eq_true, if_false, nextOffer]
    by_cases hk : max k 1 < payload.length
    · -- offer too short: write returns 0, nothing sent
      have hlt : (payload.take (max k 1)).length < payload.length := by
        simp only [List.length_take]; omega
      have hw : wsWrite specPeer c w (payload.take (max k 1)) = (c, .ok (w, 0)) := by
        simp only [wsWrite, hnd, Bool.false_eq_true, if_false, hexp, hsz, Option.getD_some, hlt, if_true]
      rw [hw]
      simp only [List.drop_zero, List.tail_cons]
      exact ih (f + 1) c w hill hnd hsz hexp (by simp only [List.length_cons] at hf; omega)
    · have htk : payload.take (max k 1) = payload := List.take_of_length_le (by omega)
      rw [htk, wsWrite_exp c w idx sub payload hidx hsub hill h1 h4 hnd hsz hexp]
      simp only [List.drop_length]
      unfold wsFeed
      simp only [List.isEmpty_nil, if_true]
      exact ⟨_, _, rfl, rfl, rfl, rfl⟩

/-- **A completed download delivers exactly the payload, in legal frames.**

For every multiplexer, every payload (any length ≥ 0, any content), size declared or not, forced
segmentation or not, every caller (any list of offer sizes), every prior state of the strict
server that has not yet seen an illegal frame (any phase: also right after an aborted or
unfinished transfer) and every stale content of the client's response queue:

* the call returns normally,
* the server has committed exactly `payload` under exactly `(idx, sub)` — once — and holds it,
* the server found **no illegal request frame** (see the file header for what it checks),
* the server is idle again and its answer style is untouched. -/
theorem download_delivers (c : Chan PS) (idx sub : Nat) (payload : Bytes) (sized force : Bool)
    (offers : List Nat) (hidx : idx < 65536) (hsub : sub < 256) (hlen : payload.length < 2 ^ 32)
    (hill : c.peer.1.illegal = none) :
    ∃ c', download specPeer c idx sub payload sized force offers = (c', .ok ()) ∧
      c'.peer.1.illegal = none ∧ c'.peer.1.phase = .idle ∧
      c'.peer.1.commits = c.peer.1.commits ++ [((idx, sub), payload)] ∧
      c'.peer.1.held = ((idx, sub), payload) :: c.peer.1.held ∧
      c'.peer.1.style = c.peer.1.style := by
  unfold download
  generalize hsize : (if sized then some payload.length else none) = size
  have hsz32 : ∀ n, size = some n → n < 2 ^ 32 := by
    intro n hn; cases sized <;> simp at hsize <;> rw [← hsize] at hn <;> cases hn; exact hlen
  have hdecl : size = none ∨ size = some payload.length := by
    cases sized <;> simp at hsize <;> rw [← hsize] <;> simp
  by_cases hseg : isSegmented size force = true
  · rw [wsInit_seg c idx sub size force hidx hsub hill hsz32 hseg]
    simp only []
    obtain ⟨c2, w2, hfeed, hi2, hm2, he2, hs2, hst2, hcase⟩ :=
      wsFeed_seg payload (idx, sub) size hdecl (2 * payload.length + offers.length + 2)
        { peer := ({ c.peer.1 with phase := .down size [] false, mux := (idx, sub) },
                   c.peer.2 ++ [[0x60, idx % 256, idx / 256 % 256, sub % 256, 0, 0, 0, 0]]),
          queue := [],
          sent := c.sent ++ [(REQUEST_DOWNLOAD ||| (if size.isSome then SIZE_SPECIFIED else 0)) ::
            (muxB idx sub ++ sizeField size)] }
        { size := size, pos := 0, toggle := 0, expHeader := none, done := false }
        payload offers [] false rfl hill rfl rfl rfl rfl rfl rfl (by simp) (by omega)
    rw [hfeed]
    simp only []
    rcases hcase with ⟨hd, hph, hco, hhe⟩ | ⟨hd, hco, hhe, tg', hph, htg⟩
    · simp only [wsClose, hd, Bool.not_true, Bool.false_and, Bool.false_eq_true, if_false]
      exact ⟨c2, rfl, hi2, hph, hco, hhe, hst2⟩
    · obtain ⟨c3, hcl, hc3⟩ := wsClose_open c2 w2 size payload tg' hph hi2 he2 hd htg
        (by intro d hd'; rcases hdecl with h | h <;> rw [h] at hd' <;> cases hd'; rfl)
      rw [hcl]
      simp only []
      refine ⟨c3, rfl, ?_, ?_, ?_, ?_, ?_⟩ <;> rw [hc3] <;> simp [hi2, hm2, hco, hhe, hst2]
  · -- expedited: declared 1..4 bytes, not forced
    have hnseg : isSegmented size force = false := by simpa using hseg
    have hsz : size = some payload.length ∧ 1 ≤ payload.length ∧ payload.length ≤ 4 := by
      rcases hdecl with h | h
      · rw [h] at hnseg; simp [isSegmented] at hnseg
      · rw [h] at hnseg
        simp only [isSegmented, Bool.or_eq_false_iff, decide_eq_false_iff_not] at hnseg
        exact ⟨h, by omega, by omega⟩
    obtain ⟨hs, h1, h4⟩ := hsz
    subst hs
    simp only [wsInit, hnseg, Bool.false_eq_true, if_false, Option.getD_some]
    obtain ⟨c2, w2, hfeed, hd, he, hc2⟩ :=
      wsFeed_exp idx sub payload hidx hsub h1 h4 offers (2 * payload.length + offers.length + 2) c
        { size := some payload.length, pos := 0, toggle := 0,
          expHeader := some ((REQUEST_DOWNLOAD ||| EXPEDITED ||| SIZE_SPECIFIED |||
            ((4 - payload.length) <<< 2)) :: muxB idx sub), done := false }
        hill rfl rfl rfl (by omega)
    rw [hfeed]
    simp only [wsClose, hd, Bool.not_true, Bool.false_and, Bool.false_eq_true, if_false]
    refine ⟨c2, rfl, ?_, ?_, ?_, ?_, ?_⟩ <;> rw [hc2] <;> simp [hill]

end Canopen.C01
