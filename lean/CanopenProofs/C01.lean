/-
C01 — SDO client transfers exactly the caller's bytes in conformant CiA 301 frames.

Theorems about the client model `CanopenModel/Sdo/Client.lean` (`WritableStream`,
`ReadableStream`, `request_response`, `upload`, `download`) composed with the independent
strict server specification `CanopenModel/Spec/SdoServer.lean`, which checks every request
frame against CiA 301 and records the first illegality.  "No illegal frame" below therefore
means: every request was 8 bytes, had the right command specifier for the protocol step and
the multiplexer, toggle alternating from 0, correct unused-byte count, last-segment flag set
exactly once, declared size equal to the bytes actually sent, padding zero.
-/
import CanopenModel.Sdo.Client
import CanopenModel.Spec.SdoServer
import CanopenProofs.Lemmas.SdoClient

namespace Canopen.C01
open Canopen Canopen.Sdo Canopen.Spec Canopen.Gen.SdoConst

/-! ## single exchanges -/

/-- `request_response` when the peer answers the request with exactly one non-abort frame: any
    stale queue content is discarded, the response is returned -/
theorem rr_one (c : Chan PS) (req r : Bytes) (s' : SS) (c0 : Nat) (rt : Bytes)
    (hstep : ssStep c.peer.1 req = (s', [r])) (hr : r = c0 :: rt) (hne : c0 ≠ RESPONSE_ABORTED) :
    requestResponse specPeer c req =
      ({ peer := (s', c.peer.2 ++ [r]), queue := [], sent := c.sent ++ [req] }, .ok r) := by
  obtain ⟨⟨s, log⟩, q, snt⟩ := c
  simp only [requestResponse, send, specPeer] at hstep ⊢
  simp only [hstep, List.nil_append]
  subst hr
  simp [decodeResponse, hne]

/-! ## segmented download -/

/-- the strict server on a well-formed download segment (`last` = flagged as last) -/
theorem ss_downSeg (s : SS) (declared : Option Nat) (buf chunk : Bytes) (tg last : Bool)
    (hph : s.phase = .down declared buf tg) (hc : chunk.length ≤ 7)
    (hdecl : ∀ d, declared = some d → (buf ++ chunk).length ≤ d ∧ (last = true → d = (buf ++ chunk).length))
    (hne : last = false → chunk.length ≠ 0) :
    ssStep s (segDownCmd (tb tg) chunk.length last :: padTo 7 chunk) =
      (if last then { s with phase := .idle, held := (s.mux, buf ++ chunk) :: s.held,
                             commits := s.commits ++ [(s.mux, buf ++ chunk)] }
       else { s with phase := .down declared (buf ++ chunk) (!tg) },
       [(0x20 + tb tg) :: List.replicate 7 0]) := by
  obtain ⟨f1, f2, f3, f4⟩ := segDownCmd_fields tg _ (mem07 _ hc) last
  have hl : (segDownCmd (tb tg) chunk.length last :: padTo 7 chunk).length = 8 := by
    simp [padTo_len 7 chunk hc]
  have h77 : 7 - (7 - chunk.length) = chunk.length := by omega
  simp only [ssStep, hl, ne_eq, not_true_eq_false, if_false, List.headD_cons, f1,
    show ¬ ((0 : Nat) = 1) from by decide, if_true, onDownSeg, hph, f2, f3, f4, List.drop_succ_cons,
    List.drop_zero, h77, padTo_take', padTo_drop_zero, bne_self_eq_false, Bool.not_true, flagIf_false]
  have hd1 : exceeds declared (buf ++ chunk).length = false := by
    cases declared with
    | none => rfl
    | some d => have := (hdecl d rfl).1; simp only [exceeds, decide_eq_false_iff_not]; omega
  rw [hd1, flagIf_false]
  cases last
  · have : (chunk.length == 0) = false := by simpa using hne rfl
    simp [this, flagIf_false]
  · have hd2 : differs declared (buf.length + chunk.length) = false := by
      cases declared with
      | none => rfl
      | some d => have := (hdecl d rfl).2 rfl; simp [differs, this]
    simp [hd2, flagIf_false]

/-- one raw `write(b)` of a segmented download against the strict server, fully evaluated -/
theorem wsWrite_seg (c : Chan PS) (w : WS) (b : Bytes) (declared : Option Nat) (buf : Bytes) (tg : Bool)
    (hph : c.peer.1.phase = .down declared buf tg)
    (hexp : w.expHeader = none) (hnd : w.done = false) (htg : w.toggle = tb tg)
    (hpos : w.pos = buf.length) (hsz : w.size = declared) (hb : b ≠ [])
    (hdecl : ∀ d, declared = some d → buf.length + min b.length 7 ≤ d) :
    wsWrite specPeer c w b =
      ({ peer := ((if reachesSize declared (buf.length + min b.length 7) then
                    { c.peer.1 with phase := .idle, held := (c.peer.1.mux, buf ++ b.take (min b.length 7)) :: c.peer.1.held,
                                    commits := c.peer.1.commits ++ [(c.peer.1.mux, buf ++ b.take (min b.length 7))] }
                  else { c.peer.1 with phase := .down declared (buf ++ b.take (min b.length 7)) (!tg) }),
                  c.peer.2 ++ [(0x20 + tb tg) :: List.replicate 7 0]),
         queue := [],
         sent := c.sent ++ [segDownCmd (tb tg) (min b.length 7) (reachesSize declared (buf.length + min b.length 7))
                              :: padTo 7 (b.take (min b.length 7))] },
       .ok ({ w with toggle := tb (!tg), done := reachesSize declared (buf.length + min b.length 7),
                     pos := buf.length + min b.length 7 }, min b.length 7)) := by
  have hlen : (b.take (min b.length 7)).length = min b.length 7 := by
    simp only [List.length_take]; omega
  have hc : (b.take (min b.length 7)).length ≤ 7 := by rw [hlen]; omega
  have hbl : 1 ≤ b.length := by
    cases b with
    | nil => exact absurd rfl hb
    | cons x xs => simp
  have hstep := ss_downSeg c.peer.1 declared buf (b.take (min b.length 7)) tg
    (reachesSize declared (buf.length + min b.length 7)) hph hc
    (by
      intro d hd
      have h1 := hdecl d hd
      rw [List.length_append, hlen]
      refine ⟨h1, ?_⟩
      intro hl
      simp only [hd, reachesSize, decide_eq_true_eq] at hl
      omega)
    (by intro _; rw [hlen]; omega)
  rw [hlen] at hstep
  obtain ⟨r1, r2⟩ := resp_fields.2 tg
  have hrr := rr_one c _ _ _ (0x20 + tb tg) (List.replicate 7 0) hstep rfl r1
  simp only [wsWrite, hnd, Bool.false_eq_true, if_false, hexp, htg, hpos, hsz, tb_xor]
  rw [hrr]
  simp only [List.headD_cons, r2, ne_eq, not_true_eq_false, if_false]

theorem take_take_min (rem : Bytes) (k : Nat) :
    (rem.take k).take (min (rem.take k).length 7) = rem.take (min (min k rem.length) 7) := by
  rw [List.take_take, List.length_take]
  congr 1
  omega

/-- outcome of feeding the payload through raw writes: either the declared size was reached (the
    server has committed) or the stream is still open with everything delivered -/
def FeedDone (payload : Bytes) (mux : Nat × Nat) (declared : Option Nat) (c c' : Chan PS) (w' : WS) : Prop :=
  c'.peer.1.illegal = c.peer.1.illegal ∧ c'.peer.1.mux = mux ∧ w'.expHeader = none ∧ w'.size = declared ∧
  c'.peer.1.style = c.peer.1.style ∧
  ((w'.done = true ∧ c'.peer.1.phase = .idle ∧
      c'.peer.1.commits = c.peer.1.commits ++ [(mux, payload)] ∧
      c'.peer.1.held = (mux, payload) :: c.peer.1.held) ∨
   (w'.done = false ∧ c'.peer.1.commits = c.peer.1.commits ∧ c'.peer.1.held = c.peer.1.held ∧
      ∃ tg', c'.peer.1.phase = .down declared payload tg' ∧ w'.toggle = tb tg'))

theorem wsFeed_seg (payload : Bytes) (mux : Nat × Nat) (declared : Option Nat)
    (hd : declared = none ∨ declared = some payload.length) :
    ∀ (fuel : Nat) (c : Chan PS) (w : WS) (rem : Bytes) (offers : List Nat) (buf : Bytes) (tg : Bool),
      c.peer.1.phase = .down declared buf tg → c.peer.1.mux = mux →
      w.expHeader = none → w.done = false → w.toggle = tb tg → w.pos = buf.length → w.size = declared →
      buf ++ rem = payload → rem.length < fuel →
      ∃ c' w', wsFeed specPeer fuel c w rem offers = (c', .ok w') ∧ FeedDone payload mux declared c c' w' := by
  intro fuel
  induction fuel with
  | zero => intro c w rem offers buf tg _ _ _ _ _ _ _ _ hf; omega
  | succ fuel ih =>
    intro c w rem offers buf tg hph hmux hexp hnd htg hpos hsz hacc hf
    unfold wsFeed
    by_cases hre : rem.isEmpty
    · have : rem = [] := by simpa using hre
      subst this
      simp only [List.isEmpty_nil, if_true]
      refine ⟨c, w, rfl, rfl, hmux, hexp, hsz, rfl, Or.inr ⟨hnd, rfl, rfl, tg, ?_, htg⟩⟩
      rw [hph]; simp at hacc; rw [hacc]
    · have hrne : rem ≠ [] := by simpa using hre
      have hrl : 1 ≤ rem.length := by
        cases rem with
        | nil => exact absurd rfl hrne
        | cons x xs => simp
      simp only [hre, Bool.false_eq_true, if_false]
      generalize hk : nextOffer offers rem.length = k
      have hk1 : 1 ≤ k := by
        cases offers with
        | nil => simp [nextOffer] at hk; omega
        | cons a as => simp [nextOffer] at hk; omega
      have hbne : rem.take k ≠ [] := by
        intro h
        have := congrArg List.length h
        simp only [List.length_take, List.length_nil] at this
        omega
      have hbl : (rem.take k).length = min k rem.length := List.length_take
      have hsent1 : 1 ≤ min (rem.take k).length 7 := by rw [hbl]; omega
      have hsentle : min (rem.take k).length 7 ≤ rem.length := by rw [hbl]; omega
      have hplen : payload.length = buf.length + rem.length := by rw [← hacc]; simp
      have hw := wsWrite_seg c w (rem.take k) declared buf tg hph hexp hnd htg hpos hsz hbne
        (by intro d hd'
            rcases hd with h | h
            · rw [h] at hd'; cases hd'
            · rw [h] at hd'; cases hd'; omega)
      rw [hw]
      simp only []
      generalize hsent : min (rem.take k).length 7 = sent at *
      have htt : (rem.take k).take sent = rem.take sent := by
        rw [List.take_take]; congr 1; omega
      rw [htt]
      by_cases hlast : reachesSize declared (buf.length + sent) = true
      · -- the declared size is reached: committed, the next iteration finds nothing left
        have hds : declared = some payload.length := by
          rcases hd with h | h
          · rw [h] at hlast; simp [reachesSize] at hlast
          · exact h
        have hall : sent = rem.length := by
          rw [hds] at hlast
          simp only [reachesSize, decide_eq_true_eq] at hlast
          omega
        have hdrop : rem.drop sent = [] := by rw [hall]; simp
        have htake : rem.take sent = rem := by rw [hall]; simp
        simp only [hlast, if_true, hdrop, htake, hacc]
        cases fuel with
        | zero => omega
        | succ f =>
          unfold wsFeed
          simp only [List.isEmpty_nil, if_true]
          refine ⟨_, _, rfl, rfl, hmux, hexp, hsz, rfl, Or.inl ⟨rfl, rfl, ?_, ?_⟩⟩
          · simp [hmux]
          · simp [hmux]
      · have hl' : reachesSize declared (buf.length + sent) = false := by simpa using hlast
        simp only [hl', Bool.false_eq_true, if_false]
        have := ih { peer := ({ c.peer.1 with phase := .down declared (buf ++ rem.take sent) (!tg) },
                              c.peer.2 ++ [(0x20 + tb tg) :: List.replicate 7 0]),
                     queue := [],
                     sent := c.sent ++ [segDownCmd (tb tg) sent false :: padTo 7 (rem.take sent)] }
          { w with toggle := tb (!tg), done := false, pos := buf.length + sent } (rem.drop sent) offers.tail
          (buf ++ rem.take sent) (!tg) rfl hmux hexp rfl rfl
          (by simp only [List.length_append, List.length_take]; omega) hsz
          (by rw [List.append_assoc, List.take_append_drop]; exact hacc)
          (by simp only [List.length_drop]; omega)
        obtain ⟨c', w', hfeed, hdone⟩ := this
        exact ⟨c', w', hfeed, hdone⟩

/-! ## initiate, close, expedited -/

theorem muxB_getD (idx sub : Nat) (c0 : Nat) (rest : Bytes) (hidx : idx < 65536) (hsub : sub < 256) :
    (c0 :: (muxB idx sub ++ rest)).getD 1 0 + 256 * (c0 :: (muxB idx sub ++ rest)).getD 2 0 = idx ∧
    (c0 :: (muxB idx sub ++ rest)).getD 3 0 = sub ∧
    (c0 :: (muxB idx sub ++ rest)).drop 4 = rest ∧
    (c0 :: (muxB idx sub ++ rest)).length = rest.length + 4 := by
  have : sub % 256 = sub := Nat.mod_eq_of_lt hsub
  simp [muxB, leBytes, this]
  omega

/-- the strict server on the client's segmented download initiate -/
theorem ss_downInit (s : SS) (idx sub : Nat) (size : Option Nat) (hidx : idx < 65536) (hsub : sub < 256)
    (hsz : ∀ n, size = some n → n < 2 ^ 32) :
    ssStep s ((REQUEST_DOWNLOAD ||| (if size.isSome then SIZE_SPECIFIED else 0)) ::
        (muxB idx sub ++ sizeField size)) =
      ({ s with phase := .down size [] false, mux := (idx, sub) },
       [[0x60, idx % 256, idx / 256 % 256, sub % 256, 0, 0, 0, 0]]) := by
  obtain ⟨m1, m2, m3, m4⟩ := muxB_getD idx sub
    (REQUEST_DOWNLOAD ||| (if size.isSome then SIZE_SPECIFIED else 0))
    (sizeField size) hidx hsub
  obtain ⟨f1, f2, f3, f4, f5⟩ := downInitCmd_fields size.isSome
  have hl4 : (sizeField size).length = 4 := by
    cases size <;> simp [sizeField]
  simp only [ssStep, m4, hl4, ne_eq, not_true_eq_false, if_false, List.headD_cons, f1, if_true, onDownInit,
    m1, m2, m3, f2, f3, f4, f5, flagIf_false, Bool.false_eq_true, bne_self_eq_false, Bool.not_false,
    Bool.true_and, Bool.false_and]
  cases size with
  | none => simp [allZeroB, flagIf_false, sizeField]
  | some n =>
    have : leVal (leBytes 4 n) = n := by
      rw [leVal_leBytes]; exact Nat.mod_eq_of_lt (by simpa using hsz n rfl)
    simp [this, flagIf_false, sizeField]

/-- `WritableStream.__init__` for a segmented download against the strict server -/
theorem wsInit_seg (c : Chan PS) (idx sub : Nat) (size : Option Nat) (force : Bool)
    (hidx : idx < 65536) (hsub : sub < 256)
    (hsz : ∀ n, size = some n → n < 2 ^ 32)
    (hseg : isSegmented size force = true) :
    wsInit specPeer c idx sub size force =
      ({ peer := ({ c.peer.1 with phase := .down size [] false, mux := (idx, sub) },
                  c.peer.2 ++ [[0x60, idx % 256, idx / 256 % 256, sub % 256, 0, 0, 0, 0]]),
         queue := [],
         sent := c.sent ++ [(REQUEST_DOWNLOAD ||| (if size.isSome then SIZE_SPECIFIED else 0)) ::
           (muxB idx sub ++ sizeField size)] },
       .ok { size := size, pos := 0, toggle := 0, expHeader := none, done := false }) := by
  have hstep := ss_downInit c.peer.1 idx sub size hidx hsub hsz
  have hrr := rr_one c _ _ _ 0x60 _ hstep rfl resp_fields.1.1
  unfold wsInit
  simp only [hseg, if_true]
  rw [hrr]
  simp [RESPONSE_DOWNLOAD]

/-- `close()` of an unfinished segmented download: the empty last segment commits what was sent -/
theorem wsClose_open (c : Chan PS) (w : WS) (declared : Option Nat) (buf : Bytes) (tg : Bool)
    (hph : c.peer.1.phase = .down declared buf tg)
    (hexp : w.expHeader = none) (hnd : w.done = false) (htg : w.toggle = tb tg)
    (hdecl : ∀ d, declared = some d → d = buf.length) :
    ∃ c', wsClose specPeer c w = (c', .ok { w with done := true }) ∧
      c'.peer.1 = { c.peer.1 with phase := .idle, held := (c.peer.1.mux, buf) :: c.peer.1.held,
                                  commits := c.peer.1.commits ++ [(c.peer.1.mux, buf)] } := by
  have hcmd : (REQUEST_SEGMENT_DOWNLOAD ||| NO_MORE_DATA ||| tb tg ||| (7 <<< 1)) = segDownCmd (tb tg) 0 true := by
    cases tg <;> decide
  have hstep := ss_downSeg c.peer.1 declared buf [] tg true hph (by simp)
    (by intro d hd; have := hdecl d hd; simp; omega) (by intro h; cases h)
  simp only [List.length_nil, padTo, List.nil_append, Nat.sub_zero, List.append_nil, if_true] at hstep
  obtain ⟨r1, r2⟩ := resp_fields.2 tg
  have hrr := rr_one c _ _ _ (0x20 + tb tg) (List.replicate 7 0) hstep rfl r1
  refine ⟨{ peer := (_, c.peer.2 ++ [(0x20 + tb tg) :: List.replicate 7 0]), queue := [],
             sent := c.sent ++ [segDownCmd (tb tg) 0 true :: List.replicate 7 0] }, ?_, rfl⟩
  simp only [wsClose, hnd, hexp, Option.isNone_none, Bool.not_false, Bool.and_self, if_true, htg, hcmd]
  rw [hrr]

/-- the strict server on the client's expedited download request -/
theorem ss_downExp (s : SS) (idx sub : Nat) (data : Bytes) (hidx : idx < 65536) (hsub : sub < 256)
    (h1 : 1 ≤ data.length) (h4 : data.length ≤ 4) :
    ssStep s (((REQUEST_DOWNLOAD ||| EXPEDITED ||| SIZE_SPECIFIED ||| ((4 - data.length) <<< 2)) :: muxB idx sub)
        ++ padTo 4 data) =
      ({ s with phase := .idle, mux := (idx, sub), held := ((idx, sub), data) :: s.held,
                commits := s.commits ++ [((idx, sub), data)] },
       [[0x60, idx % 256, idx / 256 % 256, sub % 256, 0, 0, 0, 0]]) := by
  obtain ⟨m1, m2, m3, m4⟩ := muxB_getD idx sub
    (REQUEST_DOWNLOAD ||| EXPEDITED ||| SIZE_SPECIFIED ||| ((4 - data.length) <<< 2)) (padTo 4 data) hidx hsub
  obtain ⟨f1, f2, f3, f4, f5⟩ := expDownCmd_fields data.length (mem14 _ h1 h4)
  have h44 : 4 - (4 - data.length) = data.length := by omega
  simp only [List.cons_append, ssStep, m4, padTo_len 4 data h4, ne_eq, not_true_eq_false, if_false,
    List.headD_cons, f1, if_true, onDownInit, m1, m2, m3, f2, f3, f4, f5, flagIf_false, h44, padTo_take',
    padTo_drop_zero, Bool.not_true, Bool.false_and, Bool.and_false]

/-- the raw write that completes an expedited download: what was collected before plus this offer
    make up the payload, which goes out in the single expedited request -/
theorem wsWrite_exp (c : Chan PS) (w : WS) (idx sub : Nat) (payload b : Bytes)
    (hidx : idx < 65536) (hsub : sub < 256)
    (h1 : 1 ≤ payload.length) (h4 : payload.length ≤ 4) (hnd : w.done = false)
    (hsz : w.size = some payload.length)
    (hexp : w.expHeader = some ((REQUEST_DOWNLOAD ||| EXPEDITED ||| SIZE_SPECIFIED |||
      ((4 - payload.length) <<< 2)) :: muxB idx sub))
    (hcat : w.pending ++ b = payload) :
    wsWrite specPeer c w b =
      ({ peer := ({ c.peer.1 with phase := .idle, mux := (idx, sub),
                                  held := ((idx, sub), payload) :: c.peer.1.held,
                                  commits := c.peer.1.commits ++ [((idx, sub), payload)] },
                  c.peer.2 ++ [[0x60, idx % 256, idx / 256 % 256, sub % 256, 0, 0, 0, 0]]),
         queue := [],
         sent := c.sent ++ [((REQUEST_DOWNLOAD ||| EXPEDITED ||| SIZE_SPECIFIED |||
           ((4 - payload.length) <<< 2)) :: muxB idx sub) ++ padTo 4 payload] },
       .ok ({ w with done := true, pos := w.pos + b.length, pending := [] }, b.length)) := by
  have hstep := ss_downExp c.peer.1 idx sub payload hidx hsub h1 h4
  have hrr := rr_one c _ _ _ 0x60 _ hstep rfl resp_fields.1.1
  have hlen : w.pending.length + b.length = payload.length := by rw [← hcat]; simp
  have hn1 : ¬ b.length < payload.length - w.pending.length := by omega
  have htake : expTake w b = b := by
    unfold expTake
    split
    · rfl
    · rw [hsz]; simp only [Option.getD_some]; exact List.take_of_length_le (by omega)
  have hn2 : (w.pending.isEmpty && decide (b.length > 4)) = false := by
    cases hp : w.pending with
    | nil => rw [hp] at hlen; simp at hlen ⊢; omega
    | cons x xs => simp
  simp only [wsWrite, hnd, Bool.false_eq_true, if_false, hexp, hsz, Option.getD_some, hn1, hn2, htake, hcat]
  rw [hrr]
  simp [resp_fields.1.2.2]

/-- feeding an expedited download: offers that do not complete the declared size are collected by
    the stream (the caller advances), the offer that completes it sends the whole payload at once -/
theorem wsFeed_exp (idx sub : Nat) (payload : Bytes) (hidx : idx < 65536) (hsub : sub < 256)
    (h1 : 1 ≤ payload.length) (h4 : payload.length ≤ 4) :
    ∀ (fuel : Nat) (c : Chan PS) (w : WS) (rem : Bytes) (offers : List Nat),
      w.done = false → w.size = some payload.length →
      w.expHeader = some ((REQUEST_DOWNLOAD ||| EXPEDITED ||| SIZE_SPECIFIED |||
        ((4 - payload.length) <<< 2)) :: muxB idx sub) →
      w.pending ++ rem = payload → rem ≠ [] → rem.length < fuel →
      ∃ c' w', wsFeed specPeer fuel c w rem offers = (c', .ok w') ∧ w'.done = true ∧
        w'.expHeader = w.expHeader ∧
        c'.peer.1 = { c.peer.1 with phase := .idle, mux := (idx, sub),
                                    held := ((idx, sub), payload) :: c.peer.1.held,
                                    commits := c.peer.1.commits ++ [((idx, sub), payload)] } := by
  intro fuel
  induction fuel with
  | zero => intro c w rem offers _ _ _ _ _ hf; omega
  | succ fuel ih =>
    intro c w rem offers hnd hsz hexp hcat hne hf
    have hre : rem.isEmpty = false := by
      cases rem with
      | nil => exact absurd rfl hne
      | cons x xs => rfl
    unfold wsFeed
    simp only [hre, Bool.false_eq_true, if_false]
    generalize hk : nextOffer offers rem.length = k
    have hk1 : 1 ≤ k := by
      have hrl : 1 ≤ rem.length := by
        cases rem with
        | nil => exact absurd rfl hne
        | cons x xs => simp
      cases offers with
      | nil => simp [nextOffer] at hk; omega
      | cons a as => simp [nextOffer] at hk; omega
    have hplen : w.pending.length + rem.length = payload.length := by rw [← hcat]; simp
    by_cases hshort : k < rem.length
    · -- the offer does not complete the payload: collected, nothing sent
      have hbl : (rem.take k).length = k := by simp only [List.length_take]; omega
      have hlt : (rem.take k).length < payload.length - w.pending.length := by rw [hbl]; omega
      have hw : wsWrite specPeer c w (rem.take k) =
          (c, .ok ({ w with pending := w.pending ++ rem.take k, pos := w.pos + (rem.take k).length },
                   (rem.take k).length)) := by
        simp only [wsWrite, hnd, Bool.false_eq_true, if_false, hexp, hsz, Option.getD_some, hlt, if_true]
      rw [hw]
      simp only [hbl]
      have hdne : rem.drop k ≠ [] := by
        intro h
        have := congrArg List.length h
        simp only [List.length_drop, List.length_nil] at this
        omega
      exact ih c { w with pending := w.pending ++ rem.take k, pos := w.pos + k } (rem.drop k) offers.tail
        hnd hsz hexp (by simp only [List.append_assoc, List.take_append_drop]; exact hcat) hdne
        (by simp only [List.length_drop]; omega)
    · have htk : rem.take k = rem := List.take_of_length_le (by omega)
      rw [htk, wsWrite_exp c w idx sub payload rem hidx hsub h1 h4 hnd hsz hexp hcat]
      simp only [List.drop_length]
      have hfin : ∀ (f : Nat) (c : Chan PS) (w : WS) (o : List Nat), wsFeed specPeer f c w [] o = (c, .ok w) := by
        intro f c w o; cases f <;> simp [wsFeed]
      rw [hfin]
      exact ⟨_, _, rfl, rfl, rfl, rfl⟩

/-- **A completed download delivers exactly the payload, in legal frames.**

For every multiplexer, every payload (any length ≥ 0, any content), size declared or not, forced
segmentation or not, every caller (any list of offer sizes), every prior state of the strict
server that has not yet seen an illegal frame (any phase: also right after an aborted or
unfinished transfer) and every stale content of the client's response queue:

* the call returns normally,
* the server has committed exactly `payload` under exactly `(idx, sub)` — once — and holds it,
* the server found **no illegal request frame** (see the file header for what it checks): its
  illegality record is exactly what it was before the call (`none` stays `none`),
* the server is idle again and its answer style is untouched. -/
theorem download_delivers (c : Chan PS) (idx sub : Nat) (payload : Bytes) (sized force : Bool)
    (offers : List Nat) (hidx : idx < 65536) (hsub : sub < 256) (hlen : payload.length < 2 ^ 32) :
    ∃ c', download specPeer c idx sub payload sized force offers = (c', .ok ()) ∧
      c'.peer.1.illegal = c.peer.1.illegal ∧ c'.peer.1.phase = .idle ∧
      c'.peer.1.commits = c.peer.1.commits ++ [((idx, sub), payload)] ∧
      c'.peer.1.held = ((idx, sub), payload) :: c.peer.1.held ∧
      c'.peer.1.style = c.peer.1.style := by
  unfold download
  generalize hsize : (if sized then some payload.length else none) = size
  have hsz32 : ∀ n, size = some n → n < 2 ^ 32 := by
    intro n hn; cases sized <;> simp at hsize <;> rw [← hsize] at hn <;> cases hn; exact hlen
  have hdecl : size = none ∨ size = some payload.length := by
    cases sized <;> simp at hsize <;> rw [← hsize] <;> simp
  by_cases hseg : isSegmented size force = true
  · rw [wsInit_seg c idx sub size force hidx hsub hsz32 hseg]
    simp only []
    obtain ⟨c2, w2, hfeed, hi2, hm2, he2, hs2, hst2, hcase⟩ :=
      wsFeed_seg payload (idx, sub) size hdecl (2 * payload.length + offers.length + 2)
        { peer := ({ c.peer.1 with phase := .down size [] false, mux := (idx, sub) },
                   c.peer.2 ++ [[0x60, idx % 256, idx / 256 % 256, sub % 256, 0, 0, 0, 0]]),
          queue := [],
          sent := c.sent ++ [(REQUEST_DOWNLOAD ||| (if size.isSome then SIZE_SPECIFIED else 0)) ::
            (muxB idx sub ++ sizeField size)] }
        { size := size, pos := 0, toggle := 0, expHeader := none, done := false }
        payload offers [] false rfl rfl rfl rfl rfl rfl rfl (by simp) (by omega)
    rw [hfeed]
    simp only []
    rcases hcase with ⟨hd, hph, hco, hhe⟩ | ⟨hd, hco, hhe, tg', hph, htg⟩
    · simp only [wsClose, hd, Bool.not_true, Bool.false_and, Bool.false_eq_true, if_false]
      exact ⟨c2, rfl, hi2, hph, hco, hhe, hst2⟩
    · obtain ⟨c3, hcl, hc3⟩ := wsClose_open c2 w2 size payload tg' hph he2 hd htg
        (by intro d hd'; rcases hdecl with h | h <;> rw [h] at hd' <;> cases hd'; rfl)
      rw [hcl]
      simp only []
      refine ⟨c3, rfl, ?_, ?_, ?_, ?_, ?_⟩ <;> rw [hc3] <;> simp [hi2, hm2, hco, hhe, hst2]
  · -- expedited: declared 1..4 bytes, not forced
    have hnseg : isSegmented size force = false := by simpa using hseg
    have hsz : size = some payload.length ∧ 1 ≤ payload.length ∧ payload.length ≤ 4 := by
      rcases hdecl with h | h
      · rw [h] at hnseg; simp [isSegmented] at hnseg
      · rw [h] at hnseg
        simp only [isSegmented, Bool.or_eq_false_iff, decide_eq_false_iff_not] at hnseg
        exact ⟨h, by omega, by omega⟩
    obtain ⟨hs, h1, h4⟩ := hsz
    subst hs
    simp only [wsInit, hnseg, Bool.false_eq_true, if_false, Option.getD_some]
    have hpne : payload ≠ [] := by
      intro h; rw [h] at h1; simp at h1
    obtain ⟨c2, w2, hfeed, hd, he, hc2⟩ :=
      wsFeed_exp idx sub payload hidx hsub h1 h4 (2 * payload.length + offers.length + 2) c
        { size := some payload.length, pos := 0, toggle := 0,
          expHeader := some ((REQUEST_DOWNLOAD ||| EXPEDITED ||| SIZE_SPECIFIED |||
            ((4 - payload.length) <<< 2)) :: muxB idx sub), done := false }
        payload offers rfl rfl rfl rfl hpne (by omega)
    rw [hfeed]
    simp only [wsClose, hd, Bool.not_true, Bool.false_and, Bool.false_eq_true, if_false]
    refine ⟨c2, rfl, ?_, ?_, ?_, ?_, ?_⟩ <;> rw [hc2]

/-! ## uploads -/

/-- what the client must obtain from a server holding `v`, by answer style: an expedited answer
    without size indication carries four bytes and nothing says how many are data -/
def expectedUpload (st : Style) (v : Bytes) : Bytes :=
  if st.expedited ∧ 1 ≤ v.length ∧ v.length ≤ 4 ∧ ¬ st.expSize then padTo 4 v else v

theorem ss_upInit (s : SS) (idx sub : Nat) (v : Bytes) (hidx : idx < 65536) (hsub : sub < 256)
    (hheld : heldLookup (idx, sub) s.held = some v) :
    ssStep s (REQUEST_UPLOAD :: (muxB idx sub ++ [0, 0, 0, 0])) =
      (if s.style.expedited ∧ 1 ≤ v.length ∧ v.length ≤ 4 then
        ({ s with phase := .idle, mux := (idx, sub) },
         [(if s.style.expSize then 0x43 + (4 - v.length) * 4 else 0x42) ::
            ([idx % 256, idx / 256 % 256, sub % 256] ++ padTo 4 v)])
       else
        ({ s with phase := .up v false s.style.cuts, mux := (idx, sub) },
         [(if s.style.sizeIndicated then 0x41 else 0x40) ::
            ([idx % 256, idx / 256 % 256, sub % 256] ++
              (if s.style.sizeIndicated then leBytes 4 v.length else [0, 0, 0, 0]))])) := by
  obtain ⟨m1, m2, m3, m4⟩ := muxB_getD idx sub REQUEST_UPLOAD [0, 0, 0, 0] hidx hsub
  obtain ⟨f1, f2⟩ := upReq_fields.1
  simp only [ssStep, m4, List.length_cons, List.length_nil, ne_eq, not_true_eq_false, if_false,
    List.headD_cons, f1, show ¬ ((2 : Nat) = 1) from by decide, show ¬ ((2 : Nat) = 0) from by decide, if_true,
    onUpInit, m1, m2, m3, f2, flagIf_false]
  simp [allZeroB, flagIf_false, hheld]

/-- `ReadableStream.__init__` against the strict server holding `v` -/
theorem rsInit_ok (c : Chan PS) (idx sub : Nat) (v : Bytes) (hidx : idx < 65536) (hsub : sub < 256)
    (hlen : v.length < 2 ^ 32)
    (hheld : heldLookup (idx, sub) c.peer.1.held = some v) :
    ∃ c' s, rsInit specPeer c idx sub = (c', .ok s) ∧ c'.peer.1.illegal = c.peer.1.illegal ∧
      c'.peer.1.held = c.peer.1.held ∧ c'.peer.1.commits = c.peer.1.commits ∧
      c'.peer.1.style = c.peer.1.style ∧ s.done = false ∧
      ((c.peer.1.style.expedited ∧ 1 ≤ v.length ∧ v.length ≤ 4 ∧
          s.expData = some (expectedUpload c.peer.1.style v) ∧ c'.peer.1.phase = .idle ∧
          s.size = (if c.peer.1.style.expSize then some v.length else none)) ∨
       (¬ (c.peer.1.style.expedited ∧ 1 ≤ v.length ∧ v.length ≤ 4) ∧ s.expData = none ∧ s.toggle = tb false ∧
          c'.peer.1.phase = .up v false c.peer.1.style.cuts ∧
          s.size = (if c.peer.1.style.sizeIndicated then some v.length else none))) := by
  have hstep := ss_upInit c.peer.1 idx sub v hidx hsub hheld
  have hsub' : sub % 256 = sub := Nat.mod_eq_of_lt hsub
  have hmux : idx % 256 + 256 * (idx / 256 % 256) = idx := by omega
  obtain ⟨u1, u2, u3, u4⟩ := upInitResp_fields
  unfold rsInit
  dsimp only
  by_cases hexp : c.peer.1.style.expedited ∧ 1 ≤ v.length ∧ v.length ≤ 4
  · rw [if_pos hexp] at hstep
    by_cases hes : c.peer.1.style.expSize = true
    · simp only [hes, if_true] at hstep
      obtain ⟨a1, a2, a3, a4, a5⟩ := u1 v.length (mem14 _ hexp.2.1 hexp.2.2)
      have hrr := rr_one c _ _ _ _ _ hstep rfl a1
      rw [hrr]
      have hpl : (padTo 4 v).length = 4 := padTo_len 4 v hexp.2.2
      simp only [rsInitDecode, List.length_cons, List.length_append, hpl, List.length_nil, List.headD_cons,
        show ¬ (1 + 1 + 1 + 4 + 1 < 4) from by omega, if_false, a2, ne_eq, not_true_eq_false, a3,
        not_false_eq_true, if_true, a4, a5, List.getD_cons_succ, List.getD_cons_zero, hmux, hsub',
        List.cons_append, List.nil_append, List.drop_succ_cons, List.drop_zero, not_or, and_self,
        List.take_of_length_le (Nat.le_of_eq hpl), padTo_take']
      refine ⟨_, _, rfl, rfl, rfl, rfl, rfl, rfl, Or.inl ⟨hexp.1, hexp.2.1, hexp.2.2, ?_, rfl, ?_⟩⟩
      · simp [expectedUpload, hes]
      · simp [hes]
    · have hes' : c.peer.1.style.expSize = false := by simpa using hes
      simp only [hes', Bool.false_eq_true, if_false] at hstep
      obtain ⟨a1, a2, a3, a4⟩ := u2
      have hrr := rr_one c _ _ _ _ _ hstep rfl a1
      rw [hrr]
      have hpl : (padTo 4 v).length = 4 := padTo_len 4 v hexp.2.2
      simp only [rsInitDecode, List.length_cons, List.length_append, hpl, List.length_nil, List.headD_cons,
        show ¬ (1 + 1 + 1 + 4 + 1 < 4) from by omega, if_false, a2, ne_eq, not_true_eq_false, a3,
        not_false_eq_true, if_true, a4, List.getD_cons_succ, List.getD_cons_zero, hmux, hsub',
        List.cons_append, List.nil_append, List.drop_succ_cons, List.drop_zero, not_or, and_self,
        List.take_of_length_le (Nat.le_of_eq hpl)]
      refine ⟨_, _, rfl, rfl, rfl, rfl, rfl, rfl, Or.inl ⟨hexp.1, hexp.2.1, hexp.2.2, ?_, rfl, ?_⟩⟩
      · simp [expectedUpload, hes', hexp]
      · simp [hes']
  · rw [if_neg hexp] at hstep
    by_cases hsi : c.peer.1.style.sizeIndicated = true
    · simp only [hsi, if_true] at hstep
      obtain ⟨a1, a2, a3, a4⟩ := u3
      have hrr := rr_one c _ _ _ _ _ hstep rfl a1
      rw [hrr]
      have hv : leVal (leBytes 4 v.length) = v.length := by
        rw [leVal_leBytes]; exact Nat.mod_eq_of_lt (by simpa using hlen)
      simp only [rsInitDecode, List.length_cons, List.length_append, leBytes_length, List.length_nil, List.headD_cons,
        show ¬ (1 + 1 + 1 + 4 + 1 < 4) from by omega, if_false, a2, ne_eq, not_true_eq_false, a3,
        not_false_eq_true, if_true, a4, List.getD_cons_succ, List.getD_cons_zero, hmux, hsub',
        List.cons_append, List.nil_append, List.drop_succ_cons, List.drop_zero, not_or, and_self,
        List.take_of_length_le (Nat.le_of_eq (leBytes_length 4 v.length)), hv]
      exact ⟨_, _, rfl, rfl, rfl, rfl, rfl, rfl, Or.inr ⟨hexp, rfl, rfl, rfl, by simp [hsi]⟩⟩
    · have hsi' : c.peer.1.style.sizeIndicated = false := by simpa using hsi
      simp only [hsi', Bool.false_eq_true, if_false] at hstep
      obtain ⟨a1, a2, a3, a4⟩ := u4
      have hrr := rr_one c _ _ _ _ _ hstep rfl a1
      rw [hrr]
      simp only [rsInitDecode, List.length_cons, List.length_append, List.length_nil, List.headD_cons,
        show ¬ (1 + 1 + 1 + (0 + 1 + 1 + 1 + 1) + 1 < 4) from by omega, if_false, a2, ne_eq, not_true_eq_false, a3,
        not_false_eq_true, if_true, a4, List.getD_cons_succ, List.getD_cons_zero, hmux, hsub',
        List.cons_append, List.nil_append, not_or, and_self]
      exact ⟨_, _, rfl, rfl, rfl, rfl, rfl, rfl, Or.inr ⟨hexp, rfl, rfl, rfl, by simp [hsi']⟩⟩

/-- phase of the strict server after one upload segment -/
def nextUpPhase (rest : Bytes) (tg : Bool) (cuts : List Nat) : Phase :=
  if (rest.drop (clampCut (cuts.headD 7))).isEmpty then .idle
  else .up (rest.drop (clampCut (cuts.headD 7))) (!tg) cuts.tail

/-- the strict server on the client's upload segment request -/
theorem ss_upSeg (s : SS) (rest : Bytes) (tg : Bool) (cuts : List Nat)
    (hph : s.phase = .up rest tg cuts) :
    ssStep s ((REQUEST_SEGMENT_UPLOAD ||| tb tg) :: List.replicate 7 0) =
      ({ s with phase := nextUpPhase rest tg cuts },
       [(0x00 + tb tg + (7 - (rest.take (clampCut (cuts.headD 7))).length) * 2 +
          (if (rest.drop (clampCut (cuts.headD 7))).isEmpty then 1 else 0)) ::
            padTo 7 (rest.take (clampCut (cuts.headD 7)))]) := by
  obtain ⟨f1, f2, f3⟩ := upReq_fields.2 tg
  simp only [ssStep, List.length_cons, List.length_replicate, ne_eq, not_true_eq_false, if_false,
    List.headD_cons, f1, show ¬ ((3 : Nat) = 1) from by decide, show ¬ ((3 : Nat) = 0) from by decide,
    show ¬ ((3 : Nat) = 2) from by decide, if_true, onUpSeg, hph, f2, f3, flagIf_false,
    List.drop_succ_cons, List.drop_zero, allZeroB_replicate, Bool.not_true, bne_self_eq_false, nextUpPhase]

/-- one raw `read()` of a segmented upload against the strict server -/
theorem rsRead_seg (c : Chan PS) (s : RS) (rest : Bytes) (tg : Bool) (cuts : List Nat)
    (hph : c.peer.1.phase = .up rest tg cuts)
    (hnd : s.done = false) (hexp : s.expData = none) (htg : s.toggle = tb tg) :
    rsRead specPeer c s =
        ({ peer := ({ c.peer.1 with phase := nextUpPhase rest tg cuts },
                    c.peer.2 ++ [(0x00 + tb tg + (7 - (rest.take (clampCut (cuts.headD 7))).length) * 2 +
                      (if (rest.drop (clampCut (cuts.headD 7))).isEmpty then 1 else 0)) ::
                        padTo 7 (rest.take (clampCut (cuts.headD 7)))]),
           queue := [],
           sent := c.sent ++ [(REQUEST_SEGMENT_UPLOAD ||| tb tg) :: List.replicate 7 0] },
         .ok ({ s with done := (rest.drop (clampCut (cuts.headD 7))).isEmpty, toggle := tb (!tg),
                           pos := s.pos + (rest.take (clampCut (cuts.headD 7))).length },
                  rest.take (clampCut (cuts.headD 7)))) := by
  have hstep := ss_upSeg c.peer.1 rest tg cuts hph
  have hk : clampCut (cuts.headD 7) ≤ 7 := by simp only [clampCut]; omega
  have hl7 : (rest.take (clampCut (cuts.headD 7))).length ≤ 7 := by
    simp only [List.length_take]; omega
  obtain ⟨a1, a2, a3, a4, a5⟩ := upSegResp_fields tg _ (mem07 _ hl7) (rest.drop (clampCut (cuts.headD 7))).isEmpty
  generalize (0x00 + tb tg + (7 - (rest.take (clampCut (cuts.headD 7))).length) * 2 +
    (if (rest.drop (clampCut (cuts.headD 7))).isEmpty then 1 else 0)) = cmd at *
  have hrr := rr_one c _ _ _ _ _ hstep rfl a1
  simp only [rsRead, hnd, Bool.false_eq_true, if_false, hexp, htg]
  rw [hrr]
  simp only [rsReadDecode, List.headD_cons, a2, ne_eq, not_true_eq_false, if_false, a3, a4, List.drop_succ_cons,
    List.drop_zero, padTo_take', tb_xor, Bool.false_or]
  cases hE : (rest.drop (clampCut (cuts.headD 7))).isEmpty
  · rw [hE] at a5
    have hP : cmd &&& NO_MORE_DATA = 0 := by simpa using a5
    simp [hP, htg, hnd, hexp, tb_xor]
  · rw [hE] at a5
    have hP : ¬ (cmd &&& NO_MORE_DATA = 0) := by simpa using a5
    simp [hP, htg, hnd, hexp, tb_xor]

/-- `readall()` over a segmented upload: the concatenation of the segments is the held value -/
theorem rsReadAll_seg (v : Bytes) :
    ∀ (fuel : Nat) (c : Chan PS) (s : RS) (acc rest : Bytes) (tg : Bool) (cuts : List Nat),
      c.peer.1.phase = .up rest tg cuts → s.done = false → s.expData = none →
      s.toggle = tb tg → acc ++ rest = v → rest.length + 2 ≤ fuel →
      ∃ c' s', rsReadAll specPeer fuel c s acc = (c', .ok (s', v)) ∧ c'.peer.1.illegal = c.peer.1.illegal ∧
        c'.peer.1.phase = .idle ∧ c'.peer.1.held = c.peer.1.held ∧ c'.peer.1.commits = c.peer.1.commits ∧
        c'.peer.1.style = c.peer.1.style := by
  intro fuel
  induction fuel with
  | zero => intro c s acc rest tg cuts _ _ _ _ _ hf; omega
  | succ fuel ih =>
    intro c s acc rest tg cuts hph hnd hexp htg hacc hf
    obtain ⟨c1, hread, hc1⟩ : ∃ c1, rsRead specPeer c s =
        (c1, .ok ({ s with done := (rest.drop (clampCut (cuts.headD 7))).isEmpty, toggle := tb (!tg),
                           pos := s.pos + (rest.take (clampCut (cuts.headD 7))).length },
                  rest.take (clampCut (cuts.headD 7)))) ∧
        c1.peer.1 = { c.peer.1 with phase := nextUpPhase rest tg cuts } :=
      ⟨_, rsRead_seg c s rest tg cuts hph hnd hexp htg, rfl⟩
    have hk1 : 1 ≤ clampCut (cuts.headD 7) := by simp only [clampCut]; omega
    simp only [nextUpPhase] at hc1
    unfold rsReadAll
    rw [hread]
    simp only []
    generalize clampCut (cuts.headD 7) = k at *
    by_cases hre : rest = []
    · -- empty value: one empty last segment
      subst hre
      simp only [List.take_nil, List.isEmpty_nil, if_true]
      simp only [List.append_nil] at hacc
      subst hacc
      refine ⟨c1, _, rfl, ?_, ?_, ?_, ?_, ?_⟩ <;> rw [hc1] <;> simp
    · have hrl : 1 ≤ rest.length := by
        cases rest with
        | nil => exact absurd rfl hre
        | cons x xs => simp
      have hne : (rest.take k).isEmpty = false := by
        cases rest with
        | nil => exact absurd rfl hre
        | cons x xs =>
          obtain ⟨k', hk'⟩ : ∃ k', k = k' + 1 := ⟨k - 1, by omega⟩
          rw [hk']; rfl
      simp only [hne, Bool.false_eq_true, if_false]
      by_cases hlast : (rest.drop k).isEmpty = true
      · -- last segment: the next read returns nothing and the loop ends
        have hdrop : rest.drop k = [] := by simpa using hlast
        have htake : rest.take k = rest := by
          have := List.take_append_drop k rest
          rw [hdrop, List.append_nil] at this; exact this
        cases fuel with
        | zero => omega
        | succ f =>
          unfold rsReadAll
          simp only [rsRead, hlast, if_true, List.isEmpty_nil, htake, hacc]
          refine ⟨c1, _, rfl, ?_, ?_, ?_, ?_, ?_⟩ <;> rw [hc1] <;> simp only [hlast, if_true]
      · have hl' : (rest.drop k).isEmpty = false := by simpa using hlast
        have hklt : k < rest.length := by
          by_cases h : k < rest.length
          · exact h
          · have : rest.drop k = [] := List.drop_eq_nil_of_le (by omega)
            rw [this] at hl'; simp at hl'
        have hph1 : c1.peer.1.phase = .up (rest.drop k) (!tg) cuts.tail := by
          rw [hc1]; simp only [hl', Bool.false_eq_true, if_false]
        have := ih c1 { s with done := (rest.drop k).isEmpty, toggle := tb (!tg),
                               pos := s.pos + (rest.take k).length }
          (acc ++ rest.take k) (rest.drop k) (!tg) cuts.tail
          hph1 hl' hexp rfl
          (by rw [List.append_assoc, List.take_append_drop]; exact hacc)
          (by simp only [List.length_drop]; omega)
        obtain ⟨c', s', hr, h1, h2, h3, h4, h5⟩ := this
        refine ⟨c', s', hr, by rw [h1, hc1], h2, ?_, ?_, ?_⟩
        · rw [h3, hc1]
        · rw [h4, hc1]
        · rw [h5, hc1]

/-- **An upload returns exactly the bytes the server holds** (API level: `SdoClient.upload`, with
    the dictionary-size rule `truncate`).

For every multiplexer, every held value `v` (any length ≥ 0), every answer style the standard
allows — size indicated or not, expedited with or without size for 1..4 bytes or segmented
anyway, upload segments cut anywhere (any list of cut lengths, each used as 1..7) — every prior
server state without an illegal frame and every stale queue content: the call returns
`truncate odType size (expectedUpload style v)`, the server saw no illegal request, is idle again,
and holds what it held. -/
theorem upload_returns (c : Chan PS) (idx sub : Nat) (v : Bytes) (odType : Option (Option Nat)) (fuel : Nat)
    (hidx : idx < 65536) (hsub : sub < 256) (hlen : v.length < 2 ^ 32) (hfuel : v.length + 2 ≤ fuel)
    (hheld : heldLookup (idx, sub) c.peer.1.held = some v) :
    ∃ c' respSize, upload specPeer c idx sub odType fuel =
        (c', .ok (truncate odType respSize (expectedUpload c.peer.1.style v))) ∧
      (respSize = none ∨ respSize = some v.length) ∧
      c'.peer.1.illegal = c.peer.1.illegal ∧ c'.peer.1.phase = .idle ∧ c'.peer.1.held = c.peer.1.held ∧
      c'.peer.1.commits = c.peer.1.commits ∧ c'.peer.1.style = c.peer.1.style := by
  obtain ⟨c1, s, hinit, hi1, hh1, hc1, hs1, hnd, hcase⟩ := rsInit_ok c idx sub v hidx hsub hlen hheld
  unfold upload
  rw [hinit]
  simp only []
  rcases hcase with ⟨he, h1, h4, hexp, hph, hsz⟩ | ⟨hne, hexp, htg, hph, hsz⟩
  · simp only [hexp]
    refine ⟨c1, s.size, rfl, ?_, hi1, hph, hh1, hc1, hs1⟩
    rw [hsz]; split <;> simp
  · simp only [hexp]
    obtain ⟨c2, s2, hall, hi2, hp2, hh2, hc2, hs2⟩ :=
      rsReadAll_seg v fuel c1 s [] v false c.peer.1.style.cuts hph hnd hexp htg rfl hfuel
    rw [hall]
    simp only []
    have hexpd : expectedUpload c.peer.1.style v = v := by
      unfold expectedUpload
      rw [if_neg]
      intro h
      exact hne ⟨h.1, h.2.1, h.2.2.1⟩
    rw [hexpd]
    refine ⟨c2, s.size, rfl, ?_, by rw [hi2, hi1], hp2, by rw [hh2, hh1], by rw [hc2, hc1], by rw [hs2, hs1]⟩
    rw [hsz]; split <;> simp

/-- **Fixed-size entries get exactly the declared number of leading bytes; everything else is
    returned as received.**  The cut applies exactly to the data types of the generated
    `STRUCT_TYPES` table (numeric and boolean types): the result is the first `width/8` bytes
    whenever the response is longer or did not indicate its size; strings, domains, unknown types
    and objects missing from the dictionary are never cut. -/
theorem upload_truncate (data : Bytes) (respSize : Option Nat) (hrs : respSize = none ∨ respSize = some data.length) :
    (truncate none respSize data = data) ∧
    (truncate (some none) respSize data = data) ∧
    (∀ t, Codec.findRow t = none → truncate (some (some t)) respSize data = data) ∧
    (∀ t r, Codec.findRow t = some r → truncate (some (some t)) respSize data = data.take r.size) := by
  refine ⟨rfl, rfl, ?_, ?_⟩
  · intro t ht; simp [truncate, ht]
  · intro t r ht
    have hb : Codec.bitLen (some t) / 8 = r.size := by simp [Codec.bitLen, ht]
    simp only [truncate, Option.bind_some, ht, hb]
    rcases hrs with h | h
    · rw [h]
    · rw [h]
      simp only []
      split
      · rfl
      · rw [List.take_of_length_le (by omega)]

/-! ## histories, abort decoding -/

/-- a transfer request on the API -/
inductive Xfer where
  | down (idx sub : Nat) (payload : Bytes) (sized force : Bool) (offers : List Nat)
  | up (idx sub : Nat)

def Xfer.ok : Xfer → Prop
  | .down idx sub payload _ _ _ => idx < 65536 ∧ sub < 256 ∧ payload.length < 2 ^ 32
  | .up idx sub => idx < 65536 ∧ sub < 256

/-- run a list of transfers on one client, collecting whether each returned normally and what
    uploads returned -/
def runXfers : Chan PS → List Xfer → List (Option Bytes) → Chan PS × List (Option Bytes)
  | c, [], acc => (c, acc)
  | c, .down i j p sz f o :: xs, acc =>
    match download specPeer c i j p sz f o with
    | (c', .ok _) => runXfers c' xs (acc ++ [some []])
    | (c', .error _) => runXfers c' xs (acc ++ [none])
  | c, .up i j :: xs, acc =>
    match upload specPeer c i j none 1000000000000 with
    | (c', .ok d) => runXfers c' xs (acc ++ [some d])
    | (c', .error _) => runXfers c' xs (acc ++ [none])

/-- what the server must end up having committed, and what each upload must return -/
def specXfers (st : Style) : List ((Nat × Nat) × Bytes) → List Xfer → List ((Nat × Nat) × Bytes) × List (Option Bytes)
  | held, [] => ([], [])
  | held, .down i j p _ _ _ :: xs =>
    let (cs, rs) := specXfers st (((i, j), p) :: held) xs
    (((i, j), p) :: cs, some [] :: rs)
  | held, .up i j :: xs =>
    let (cs, rs) := specXfers st held xs
    (cs, (heldLookup (i, j) held).map (expectedUpload st) :: rs)

/-- an upload of something the server does not hold is refused (0x06020000) and changes nothing -/
theorem upload_missing (c : Chan PS) (idx sub : Nat) (odType : Option (Option Nat)) (fuel : Nat)
    (hidx : idx < 65536) (hsub : sub < 256)
    (hheld : heldLookup (idx, sub) c.peer.1.held = none) :
    ∃ c' e, upload specPeer c idx sub odType fuel = (c', .error e) ∧
      c'.peer.1.illegal = c.peer.1.illegal ∧ c'.peer.1.held = c.peer.1.held ∧
      c'.peer.1.commits = c.peer.1.commits ∧ c'.peer.1.style = c.peer.1.style := by
  obtain ⟨m1, m2, m3, m4⟩ := muxB_getD idx sub REQUEST_UPLOAD [0, 0, 0, 0] hidx hsub
  obtain ⟨f1, f2⟩ := upReq_fields.1
  have hstep : ssStep c.peer.1 (REQUEST_UPLOAD :: (muxB idx sub ++ [0, 0, 0, 0])) =
      ({ c.peer.1 with phase := .idle, mux := (idx, sub) }, [abortResp idx sub 0x06020000]) := by
    simp only [ssStep, m4, List.length_cons, List.length_nil, ne_eq, not_true_eq_false, if_false,
      List.headD_cons, f1, show ¬ ((2 : Nat) = 1) from by decide, show ¬ ((2 : Nat) = 0) from by decide, if_true,
      onUpInit, m1, m2, m3, f2, flagIf_false]
    simp [allZeroB, flagIf_false, hheld]
  obtain ⟨⟨s0, log⟩, q, snt⟩ := c
  simp only [upload, rsInit, requestResponse, send, specPeer] at hstep ⊢
  simp only [hstep, List.nil_append]
  simp only [abortResp, decodeResponse, List.cons_append, RESPONSE_ABORTED, if_true, List.length_cons,
    List.length_append, leBytes_length, List.length_nil]
  exact ⟨_, _, rfl, rfl, rfl, rfl, rfl⟩

/-- every held value is shorter than 2³² bytes (what the size field can announce) -/
def HeldBounded (held : List ((Nat × Nat) × Bytes)) : Prop :=
  ∀ k v, heldLookup k held = some v → v.length < 2 ^ 32

/-- **Transfers back-to-back on one client.**  For any history of downloads (any payloads,
    chunkings, modes) and uploads, starting from any server state without an illegal frame and
    any queue content: every download returns normally, every upload returns the value the server
    holds *at that moment* (initially held, or committed by an earlier download of the history;
    an object it does not hold is refused), the server commits exactly the downloaded payloads in
    order, and no request frame of the whole history is illegal. -/
theorem back_to_back (xs : List Xfer) :
    ∀ (c : Chan PS) (acc : List (Option Bytes)),
      (∀ x ∈ xs, x.ok) → c.peer.1.illegal = none → HeldBounded c.peer.1.held →
      (runXfers c xs acc).2 = acc ++ (specXfers c.peer.1.style c.peer.1.held xs).2 ∧
      (runXfers c xs acc).1.peer.1.commits =
        c.peer.1.commits ++ (specXfers c.peer.1.style c.peer.1.held xs).1 ∧
      (runXfers c xs acc).1.peer.1.illegal = none := by
  induction xs with
  | nil => intro c acc _ hill _; simp [runXfers, specXfers, hill]
  | cons x xs ih =>
    intro c acc hok hill hb
    have hx := hok x (by simp)
    have hrest : ∀ y ∈ xs, y.ok := fun y hy => hok y (by simp [hy])
    cases x with
    | down i j p sz f o =>
      obtain ⟨hi, hj, hp⟩ := hx
      obtain ⟨c', hd, hi', _, hc', hh', hs'⟩ := download_delivers c i j p sz f o hi hj hp
      have hb' : HeldBounded c'.peer.1.held := by
        intro k v hk
        rw [hh'] at hk
        simp only [heldLookup] at hk
        split at hk
        · cases hk; exact hp
        · exact hb k v hk
      obtain ⟨r1, r2, r3⟩ := ih c' (acc ++ [some []]) hrest (by rw [hi']; exact hill) hb'
      simp only [runXfers, hd, specXfers]
      rw [hs', hh'] at r1 r2
      refine ⟨?_, ?_, r3⟩
      · rw [r1]; simp
      · rw [r2, hc']; simp
    | up i j =>
      obtain ⟨hi, hj⟩ := hx
      cases hh : heldLookup (i, j) c.peer.1.held with
      | none =>
        obtain ⟨c', e, hu, hi', hh', hc', hs'⟩ := upload_missing c i j none 1000000000000 hi hj hh
        obtain ⟨r1, r2, r3⟩ := ih c' (acc ++ [none]) hrest (by rw [hi']; exact hill) (by rw [hh']; exact hb)
        simp only [runXfers, hu, specXfers, hh]
        rw [hs', hh'] at r1 r2
        refine ⟨?_, ?_, r3⟩
        · rw [r1]; simp
        · rw [r2, hc']
      | some v =>
        have hv := hb _ _ hh
        obtain ⟨c', rs, hu, _, hi', _, hh', hc', hs'⟩ :=
          upload_returns c i j v none 1000000000000 hi hj hv (by omega) hh
        obtain ⟨r1, r2, r3⟩ := ih c' (acc ++ [some (expectedUpload c.peer.1.style v)]) hrest
          (by rw [hi']; exact hill) (by rw [hh']; exact hb)
        simp only [runXfers, hu, specXfers, hh, truncate]
        rw [hs', hh'] at r1 r2
        refine ⟨?_, ?_, r3⟩
        · rw [r1]; simp
        · rw [r2, hc']

/-- **Abort frames decode to exactly the received code**: for every code below 2³² and any
    multiplexer bytes, `read_response` raises the aborted-transfer error with that code; through
    `request_response` the caller sees the same error, whatever was in the queue before. -/
theorem client_decodes_abort (code a b d : Nat) (hc : code < 2 ^ 32) :
    decodeResponse ([0x80, a, b, d] ++ leBytes 4 code) = .error (.aborted code) := by
  have h : leVal (leBytes 4 code) = code := by
    rw [leVal_leBytes]; exact Nat.mod_eq_of_lt (by simpa using hc)
  simp only [decodeResponse, List.cons_append, List.nil_append, RESPONSE_ABORTED, if_true, List.length_cons,
    leBytes_length, List.length_nil, List.drop_succ_cons, List.drop_zero]
  simp [List.take_of_length_le, h]

/-- **Every request frame of a download is legal** (second sentence of the property): the strict
    server, which checks each request it receives (8 bytes, command specifier legal for the step,
    multiplexer, toggle alternating from 0, unused-byte count, exactly one last-segment flag,
    declared size = bytes sent, padding zero), has nothing to object to.  The examples below show
    that the server really does object to each kind of defect. -/
theorem download_frames_legal (c : Chan PS) (idx sub : Nat) (payload : Bytes) (sized force : Bool)
    (offers : List Nat) (hidx : idx < 65536) (hsub : sub < 256) (hlen : payload.length < 2 ^ 32)
    (hill : c.peer.1.illegal = none) :
    ∃ c', download specPeer c idx sub payload sized force offers = (c', .ok ()) ∧
      c'.peer.1.illegal = none := by
  obtain ⟨c', h1, h2, _⟩ := download_delivers c idx sub payload sized force offers hidx hsub hlen
  exact ⟨c', h1, by rw [h2]; exact hill⟩

/-! ### the strict server is strict (non-vacuity of "no illegal frame") -/

def st0 : SS := ssInit [] ⟨true, true, true, []⟩

-- a 7-byte request
example : (ssStep st0 [0x40, 0, 0x20, 0, 0, 0, 0]).1.illegal ≠ none := by decide
-- reserved bit in a download initiate
example : (ssStep st0 [0x31, 0, 0x20, 0, 2, 0, 0, 0]).1.illegal ≠ none := by decide
-- first segment with toggle = 1
example : (ssStep (ssStep st0 [0x21, 0, 0x20, 0, 2, 0, 0, 0]).1 [0x1B, 1, 2, 0, 0, 0, 0, 0]).1.illegal ≠ none := by
  decide
-- unused bytes not zero
example : (ssStep (ssStep st0 [0x21, 0, 0x20, 0, 2, 0, 0, 0]).1 [0x0B, 1, 2, 9, 0, 0, 0, 0]).1.illegal ≠ none := by
  decide
-- declared size 3, two bytes sent and flagged last
example : (ssStep (ssStep st0 [0x21, 0, 0x20, 0, 3, 0, 0, 0]).1 [0x0B, 1, 2, 0, 0, 0, 0, 0]).1.illegal ≠ none := by
  decide
-- a well-formed transfer is accepted and committed
example : (ssStep (ssStep st0 [0x21, 0, 0x20, 0, 2, 0, 0, 0]).1 [0x0B, 1, 2, 0, 0, 0, 0, 0]).1.illegal = none ∧
    (ssStep (ssStep st0 [0x21, 0, 0x20, 0, 2, 0, 0, 0]).1 [0x0B, 1, 2, 0, 0, 0, 0, 0]).1.commits =
      [((0x2000, 0), [1, 2])] := by decide

-- the theorems' hypotheses are met by a concrete channel, e.g. one with stale junk in the queue
example : ∃ c', download specPeer ⟨(st0, []), [[1, 2, 3]], []⟩ 0x2000 0 [1, 2, 3, 4, 5, 6, 7, 8, 9] true false [2, 9] =
    (c', .ok ()) ∧ c'.peer.1.commits = [((0x2000, 0), [1, 2, 3, 4, 5, 6, 7, 8, 9])] := by
  obtain ⟨c', h, _, _, hc, _⟩ := download_delivers ⟨(st0, []), [[1, 2, 3]], []⟩ 0x2000 0
    [1, 2, 3, 4, 5, 6, 7, 8, 9] true false [2, 9] (by decide) (by decide) (by decide)
  exact ⟨c', h, hc⟩

end Canopen.C01
