/-
C12 — SDO block download delivers exactly the payload or fails visibly.

Theorems about `CanopenModel/Sdo/BlockDown.lean` (model of `BlockDownloadStream` + the parts of
`SdoClient` it uses) composed with the conformant block-download server of
`CanopenModel/Spec/BlockServer.lean`, for every payload, every stream of block sizes in 1..127
announced by the server, CRC requested/supported or not, every multiplexer, and (safety) every
set of lost client frames.  `Plain E` (Lemmas/BlockDown.lean) is the C12 setting of the environment:
block sizes 1..127, no C07 response disturbance, and the server's own time-out firing before the
client's whenever requests can get lost.  Helper lemmas: `CanopenProofs/Lemmas/BlockDown.lean`
(+ `BlockDownLoss`, `BlockDownFuel`, `BlockDownOffers`).

The caller.  `blockDownloadOffers … offers` is the `with` block for ANY RawIOBase caller (raw
`write()` calls with the given offers; the C12 driver replays the offers io.BufferedWriter made):
`undisturbed_offers`, `unsized_completed_by_close`.  `blockDownload` is the form with the 7-byte
chunks of the payload as pending `write` calls — exactly what the hand loop
`pos += fp.write(data[pos:])` produces, in every environment (`hand_loop_is_chunks`); the safety,
repair and fuel theorems are stated for it, and `undisturbed` is the `offers = []` instance of
`undisturbed_offers` in that form.
-/
import CanopenModel.Sdo.BlockDown
import CanopenProofs.Lemmas.BlockDown
import CanopenProofs.Lemmas.BlockDownLoss
import CanopenProofs.Lemmas.BlockDownFuel
import CanopenProofs.Lemmas.BlockDownOffers

namespace Canopen.C12
open Canopen Canopen.Crc Canopen.Gen.SdoBlock Canopen.Sdo.BlockDown

/-- **Safety under any loss pattern.**  Whatever client→server frames are lost (`E.lost` is an
    arbitrary set of global frame numbers: initiate, segments, retransmitted segments, end request,
    abort frames), whatever block sizes 1..127 the server announces, with or without CRC, and for
    any amount of fuel: if the `with` block returns normally, the server has committed exactly the
    payload. -/
theorem returns_normally_implies_exact (E : Env) (hE : Plain E) (fuel : Nat)
    (cap crcReq : Bool) (idx sub : Nat) (payload : Bytes) (h1 : 1 ≤ payload.length)
    (h2 : payload.length < 2 ^ 32)
    (hok : (blockDownload E fuel cap idx sub payload (some payload.length) crcReq).2 = .ok) :
    (blockDownload E fuel cap idx sub payload (some payload.length) crcReq).1.srv.committed = some payload := by
  unfold blockDownload blockDownloadFrom at hok ⊢
  have hinit := init_inv E hE payload h1 h2 cap crcReq idx sub
  generalize init E (sys0 cap) idx sub (some payload.length) crcReq = ri at hinit hok ⊢
  obtain ⟨s, b⟩ := ri
  cases b with
  | false => simp at hok
  | true =>
    have hinv := hinit s rfl
    have hrun := run_safe E hE payload fuel s _ hinv
    simp only at hok ⊢
    generalize run E fuel s (List.map (fun b => Item.write b false) (chunks payload)) = rr at hrun hok ⊢
    obtain ⟨s1, r⟩ := rr
    cases r with
    | ok => exact close_safe E hE payload s1 (hrun rfl) hok
    | err => simp at hok
    | fuel => simp at hok

theorem undisturbed (E : Env) (hE : Plain E) (hnl : ∀ n, E.lost n = false)
    (fuel : Nat) (cap crcReq : Bool) (idx sub : Nat) (payload : Bytes) (h1 : 1 ≤ payload.length)
    (h2 : payload.length < 2 ^ 32) (hf : (chunks payload).length + 1 ≤ fuel) :
    (blockDownload E fuel cap idx sub payload (some payload.length) crcReq).2 = .ok ∧
    (blockDownload E fuel cap idx sub payload (some payload.length) crcReq).1.srv.committed = some payload ∧
    (blockDownload E fuel cap idx sub payload (some payload.length) crcReq).1.srv.illegal = none ∧
    ∀ c, (chunks payload).getLast? = some c →
      (reqFrames (blockDownload E fuel cap idx sub payload (some payload.length) crcReq).1).reverse =
        idealInit crcReq idx sub payload.length :: idealSegs E.blkOf (chunks payload) 1 0 (E.blkOf 0)
          ++ [idealEnd c.length (if cap then crcHqx payload 0 else 0)] := by
  obtain ⟨log, hi, hlog⟩ := init_deliv' E hE cap crcReq idx sub payload.length h2 (hnl 0)
  have hinv := init_inv E hE payload h1 h2 cap crcReq idx sub _ hi
  obtain ⟨s1, hr, hd, hc, hsup, hsc, hill, hn, hreq, hlast⟩ :=
    run_fresh E hE payload (chunks payload) _ fuel hinv rfl (fun n _ => hnl n) rfl (by intro _; rfl) hf
  have hcl := close_ok E hE payload s1 hd (hnl _)
    (by rw [hsc, hsup]; intro h; simp only [Bool.and_eq_true] at h; exact h.2) hc
  unfold blockDownload blockDownloadFrom
  rw [hi]; simp only
  rw [hr]; simp only
  refine ⟨hcl.1, hcl.2.1, by rw [hcl.2.2.1, hill], ?_⟩
  intro c hcl'
  rw [hcl.2.2.2, hreq, hlast c hcl', hsup]
  simp [reqFrames, hlog]


/-- **Undisturbed block download, ANY caller** (the analogue of C01 `download_delivers`).
    `offers` is any list of sizes of raw `write()` offers: the caller offers prefixes of the unsent
    remainder of these lengths (a 0 counts as 1), then the whole remainder until nothing is left,
    and advances by the count `write` returns — a hand loop, io.BufferedWriter with any buffer size
    fed in pieces of any size, one byte at a time.  Size declared, no loss: the transfer returns
    normally, the server has committed exactly the payload, the strict server saw nothing
    illegal, and the frames on the bus are the same CiA 301 conversation as for 7-byte chunking —
    they do not depend on how the caller split the data.  (`write` keeps what does not fill a
    segment in `_pending` and always answers the number of bytes taken.) -/
theorem undisturbed_offers (E : Env) (hE : Plain E) (hnl : ∀ n, E.lost n = false) (offers : List Nat)
    (fuel : Nat) (cap crcReq : Bool) (idx sub : Nat) (payload : Bytes) (h1 : 1 ≤ payload.length)
    (h2 : payload.length < 2 ^ 32) (hf : payload.length + 2 ≤ fuel) :
    (blockDownloadOffers E fuel cap idx sub payload (some payload.length) crcReq offers).2 = .ok ∧
    (blockDownloadOffers E fuel cap idx sub payload (some payload.length) crcReq offers).1.srv.committed = some payload ∧
    (blockDownloadOffers E fuel cap idx sub payload (some payload.length) crcReq offers).1.srv.illegal = none ∧
    ∀ c, (chunks payload).getLast? = some c →
      (reqFrames (blockDownloadOffers E fuel cap idx sub payload (some payload.length) crcReq offers).1).reverse =
        idealInit crcReq idx sub payload.length :: idealSegs E.blkOf (chunks payload) 1 0 (E.blkOf 0)
          ++ [idealEnd c.length (if cap then crcHqx payload 0 else 0)] := by
  obtain ⟨log, hi, hlog⟩ := init_deliv' E hE cap crcReq idx sub payload.length h2 (hnl 0)
  have hinv := init_inv E hE payload h1 h2 cap crcReq idx sub _ hi
  have hne : payload ≠ [] := by intro h; rw [h] at h1; simp at h1
  have hfi : FeedInv E payload
      { cl := { size := some payload.length, blksize := E.blkOf 0, crcSupported := cap },
        srv := { crcCapable := cap, k := 1, phase := .recv, illegal := none, idx := idx, sub := sub,
                 size := some payload.length, crc := crcReq && cap, blk := E.blkOf 0, sseq := 0, buf := [] },
        queue := [], nreq := 1, log := log } payload :=
    ⟨by rw [hat_of_sized _ _ rfl rfl]; exact hinv, rfl, fun n _ => hnl n, rfl, by intro _; rfl, by simp⟩
  obtain ⟨s1, hr, hd, hc, hsup, hsc, hill, hreq, hlast⟩ :=
    feed_sized E hE payload payload.length _ payload offers fuel (Nat.le_refl _) hne hfi rfl hf
  have hcl := close_ok E hE payload s1 hd (hnl _)
    (by rw [hsc, hsup]; intro h; simp only [Bool.and_eq_true] at h; exact h.2) hc
  unfold blockDownloadOffers blockDownloadOffersFrom
  rw [hi]; simp only
  rw [hr]; simp only
  refine ⟨hcl.1, hcl.2.1, by rw [hcl.2.2.1, hill], ?_⟩
  intro c hcl'
  rw [hcl.2.2.2, hreq, hlast c hcl', hsup]
  simp [reqFrames, hlog]

/-- **Size not declared** (`size=None`), undisturbed, any caller: when the length of the payload
    is not a multiple of 7, `write` sends the full segments and keeps the rest, and `close()`
    completes the transfer — the kept bytes go out as the last segment (`c = 1`), then the end
    request; the server commits exactly the payload and saw nothing illegal.  (For a multiple of 7
    no segment ever carries `c = 1`: `close()` sends the end request into the open sub-block and the
    transfer fails — see the oracle in harness/props/c12.py.) -/
theorem unsized_completed_by_close (E : Env) (hE : Plain E) (hnl : ∀ n, E.lost n = false) (offers : List Nat)
    (fuel : Nat) (cap crcReq : Bool) (idx sub : Nat) (payload : Bytes) (h7 : payload.length % 7 ≠ 0)
    (hf : payload.length + 2 ≤ fuel) :
    (blockDownloadOffers E fuel cap idx sub payload none crcReq offers).2 = .ok ∧
    (blockDownloadOffers E fuel cap idx sub payload none crcReq offers).1.srv.committed = some payload ∧
    (blockDownloadOffers E fuel cap idx sub payload none crcReq offers).1.srv.illegal = none := by
  obtain ⟨log, hi⟩ := init_deliv_none E hE cap crcReq idx sub (hnl 0)
  have hne : payload ≠ [] := by intro h; rw [h] at h7; simp at h7
  have h1 : 1 ≤ payload.length := by cases payload <;> simp_all
  have hck := chunks7_props payload.length payload (Nat.le_refl _)
  have hb := hE.blk 0
  have hfi : FeedInv E payload
      { cl := { size := none, blksize := E.blkOf 0, crcSupported := cap },
        srv := { crcCapable := cap, k := 1, phase := .recv, illegal := none, idx := idx, sub := sub,
                 size := none, crc := crcReq && cap, blk := E.blkOf 0, sseq := 0, buf := [] },
        queue := [], nreq := 1, log := log } payload := by
    refine ⟨⟨rfl, rfl, rfl, rfl, by simp [hat]; omega, by simp [hat]; omega, by simp [hat], ?_, ?_, rfl, Or.inr rfl,
      by simp [hat], ?_, rfl, ?_, rfl⟩, rfl, fun n _ => hnl n, rfl, by intro _; rfl, by simp⟩
    · simp [hat, chunkItems, chunks, hck.1]
    · simp [hat, chunkItems, chunks, hck.1]
    · simpa [chunkItems, chunks] using hck.2
    · simp only [List.nil_append, chunkItems, chunks, hck.1]; exact hne
  obtain ⟨s1, hr, hfi1, hz1, hp1, hsup, hsc, hill⟩ :=
    feed_unsized E hE payload payload.length _ payload offers fuel (Nat.le_refl _) hfi rfl (by simpa using h7) hf
  have hcl := close_unsized E hE payload s1 hfi1 hp1
    (by rw [hsc, hsup]; intro h; simp only [Bool.and_eq_true] at h; exact h.2)
  unfold blockDownloadOffers blockDownloadOffersFrom
  rw [hi]; simp only
  rw [hr]; simp only
  exact ⟨hcl.1, hcl.2.1, by rw [hcl.2.2, hill]⟩

/-- **The hand loop is the chunk form** — in every environment (any loss, any response
    disturbance), for every declared size (right, wrong or none): a caller that always offers the
    whole unsent remainder (`offers = []`: `pos += fp.write(data[pos:])`, also what
    io.BufferedWriter does with one big `write`) makes the stream do, step for step, what the
    pending `write` calls with the 7-byte chunks of the payload do (`blockDownloadFrom`, the form
    the theorems below and C07 are stated for); the caller's last look costs one step of fuel. -/
theorem hand_loop_is_chunks (E : Env) (fuel : Nat) (s0 : Sys) (idx sub : Nat) (payload : Bytes)
    (size : Option Nat) (crcReq : Bool)
    (hnf : (blockDownloadFrom E fuel s0 idx sub payload size crcReq).2 ≠ .fuel) :
    blockDownloadOffersFrom E (fuel + 1) s0 idx sub payload size crcReq [] =
      blockDownloadFrom E fuel s0 idx sub payload size crcReq := by
  unfold blockDownloadFrom at hnf
  unfold blockDownloadOffersFrom blockDownloadFrom
  generalize hi : init E s0 idx sub size crcReq = x at hnf ⊢
  obtain ⟨s, b⟩ := x
  cases b with
  | false => rfl
  | true =>
    simp only at hnf ⊢
    have hj := init_clean E s0 s idx sub size crcReq hi
    have h1 := run_hand E (fuel + 1) s [] payload [] hj
    simp only [List.nil_append] at h1
    have hrun : (run E fuel s (chunkItems payload)).2 ≠ .fuel := by
      intro h
      apply hnf
      have e : (chunks payload).map (fun b => Item.write b false) = chunkItems payload := rfl
      rw [e]
      generalize run E fuel s (chunkItems payload) = y at h ⊢
      obtain ⟨s1, r⟩ := y
      simp only at h
      subst h
      rfl
    rw [h1, run_snoc_feed E fuel s (chunkItems payload) hrun]
    rfl

/-- **One lost segment in a sub-block other than the final one is repaired.**  `g ≥ 1` is the
    global number of the lost client frame (frame 0 is the initiate request, frame `g` the `g`-th
    segment); `notFinal … (g-1) 1 (blkOf 0) nseg` says that this segment belongs to a sub-block
    which is not the last one of the transfer. -/
theorem single_loss_repaired (E : Env) (hE : Plain E) (g : Nat) (hg : 1 ≤ g)
    (hlost : ∀ n, E.lost n = decide (n = g)) (fuel : Nat) (cap crcReq : Bool) (idx sub : Nat)
    (payload : Bytes) (h1 : 1 ≤ payload.length) (h2 : payload.length < 2 ^ 32)
    (hnf : notFinal E.blkOf (g - 1) 1 (E.blkOf 0) (chunks payload).length = true)
    (hf : (chunks payload).length + 132 ≤ fuel) :
    (blockDownload E fuel cap idx sub payload (some payload.length) crcReq).2 = .ok ∧
    (blockDownload E fuel cap idx sub payload (some payload.length) crcReq).1.srv.committed = some payload := by
  obtain ⟨log, hi, -⟩ := init_deliv' E hE cap crcReq idx sub payload.length h2 (by rw [hlost]; simp; omega)
  have hinv := init_inv E hE payload h1 h2 cap crcReq idx sub _ hi
  obtain ⟨s1, hr, hd, hc, hsup, hsc, hnl⟩ :=
    run_pre E hE payload (g - 1) _ (chunks payload) fuel hinv rfl rfl (by intro _; rfl)
      (by intro n hn; rw [hlost]; congr 1; apply propext; simp only at hn ⊢; omega) (by simpa using hnf) hf
  have hcl := close_ok E hE payload s1 hd (hnl _ (Nat.le_refl _))
    (by rw [hsc, hsup]; intro h; simp only [Bool.and_eq_true] at h; exact h.2) hc
  unfold blockDownload blockDownloadFrom
  rw [hi]; simp only
  rw [show List.map (fun b => Item.write b false) (chunks payload) = fresh (chunks payload) from rfl, hr]
  exact ⟨hcl.1, hcl.2.1⟩



/-! ## fuel: what the driver passes is enough for the two positive theorems -/

theorem chunks7_length : ∀ (f : Nat) (bs : Bytes), bs.length ≤ f → (chunks7 f bs).length = (bs.length + 6) / 7 := by
  intro f
  induction f with
  | zero => intro bs h; have : bs = [] := List.length_eq_zero_iff.mp (by omega); subst this; rfl
  | succ f ih =>
    intro bs h
    cases bs with
    | nil => rfl
    | cons x xs =>
      have := ih (List.drop 7 (x :: xs)) (by simp only [List.length_drop, List.length_cons] at h ⊢; omega)
      simp only [chunks7, List.isEmpty_cons, Bool.false_eq_true, if_false, List.length_cons, this,
        List.length_drop]
      omega

theorem driver_fuel_suffices (payload : Bytes) (n : Nat) :
    (chunks payload).length + 1 ≤ fuelFor payload n ∧ (chunks payload).length + 132 ≤ fuelFor payload n := by
  have := chunks7_length payload.length payload (Nat.le_refl _)
  simp only [chunks, fuelFor, this]
  omega

theorem closeEnd_not_fuel (E : Env) (s : Sys) : (closeEnd E s).2 ≠ .fuel := by
  unfold closeEnd
  simp only
  generalize requestResponse E s _ = x
  obtain ⟨s1, r⟩ := x
  cases r with
  | resp f => simp only; split <;> simp
  | timeout => simp
  | aborted => simp

theorem close_not_fuel (E : Env) (s : Sys) : (close E s).2 ≠ .fuel := by
  unfold close
  split
  · generalize hx : send E _ s.cl.pend true = x
    obtain ⟨s1, w⟩ := x
    cases w with
    | err => simp
    | cont items =>
      simp only
      have hd := send_last_done E _ _ s1 items hx
      have hnf := run_done_nofuel E items s1 hd
      generalize run E (items.length + 1) s1 items = y at hnf ⊢
      obtain ⟨s2, r⟩ := y
      cases r with
      | ok => exact closeEnd_not_fuel E s2
      | err => simp
      | fuel => exact absurd rfl hnf
  · exact closeEnd_not_fuel E s

/-- **The explicit fuel is never the reason for an outcome**: if at most `N` client frames are
    lost (`AtMost E 0 N`), `Res.fuel` cannot occur once the fuel covers the segments plus 130 steps
    per lost frame — every retransmission `_retransmit` pushes is paid for by a lost frame, so the
    recursion `write → send → _block_ack → _retransmit → write` terminates. -/
theorem fuel_suffices (E : Env) (hE : Plain E) (N : Nat) (hN : AtMost E 0 N)
    (fuel : Nat) (cap crcReq : Bool) (idx sub : Nat) (payload : Bytes) (h1 : 1 ≤ payload.length)
    (h2 : payload.length < 2 ^ 32) (hf : (chunks payload).length + 130 * N + 2 ≤ fuel) :
    (blockDownload E fuel cap idx sub payload (some payload.length) crcReq).2 ≠ .fuel := by
  unfold blockDownload blockDownloadFrom
  by_cases hl : E.lost 0 = true
  · have := init_lost E hE cap crcReq idx sub (some payload.length) hl
    generalize init E (sys0 cap) idx sub (some payload.length) crcReq = x at this ⊢
    obtain ⟨s, b⟩ := x
    simp only at this; subst this; simp
  · obtain ⟨log, hi, -⟩ := init_deliv' E hE cap crcReq idx sub payload.length h2 (by simpa using hl)
    have hinv := init_inv E hE payload h1 h2 cap crcReq idx sub _ hi
    rw [hi]
    simp only
    have hrun := run_no_fuel E hE payload fuel _ _ N hinv (atMost_next hN) (by simpa using hf)
    generalize run E fuel _ (List.map (fun b => Item.write b false) (chunks payload)) = y at hrun ⊢
    obtain ⟨s1, r⟩ := y
    cases r with
    | ok => exact close_not_fuel E s1
    | err => simp
    | fuel => exact absurd rfl hrun

/-- in particular for what the driver does: a loss set given as a list, fuel `fuelFor` -/
theorem driver_never_out_of_fuel (blkOf : Nat → Nat) (hb : ∀ k, 1 ≤ blkOf k ∧ blkOf k ≤ 127) (L : List Nat)
    (cap crcReq : Bool) (idx sub : Nat) (payload : Bytes) (h1 : 1 ≤ payload.length) (h2 : payload.length < 2 ^ 32) :
    (blockDownload { blkOf := blkOf, lost := fun n => L.contains n } (fuelFor payload L.length) cap idx sub payload
      (some payload.length) crcReq).2 ≠ .fuel := by
  refine fuel_suffices _ ⟨hb, rfl, Or.inl rfl⟩ L.length (atMost_of_list blkOf L 0) _ cap crcReq idx sub payload h1 h2 ?_
  have := chunks7_length payload.length payload (Nat.le_refl _)
  simp only [chunks, fuelFor, this]
  omega

/-! ## non-vacuity: the hypotheses are satisfiable and the runs are not degenerate
(30 bytes = 5 segments, block sizes 3, 2, 3, 2, …: sub-blocks {1,2,3}, {4,5}) -/

def exEnv (loss : List Nat) : Env := { blkOf := fun k => [3, 2].getD (k % 2) 0, lost := fun n => loss.contains n }

theorem exEnv_plain (loss : List Nat) : Plain (exEnv loss) := by
  refine ⟨fun k => ?_, rfl, Or.inl rfl⟩
  have h : k % 2 = 0 ∨ k % 2 = 1 := by omega
  rcases h with h | h <;> simp [exEnv, h]

example : (blockDownload (exEnv []) 50 true 0x2000 1 (List.range' 1 30) (some 30) true).2 = .ok ∧
    (blockDownload (exEnv []) 50 true 0x2000 1 (List.range' 1 30) (some 30) true).1.srv.committed
      = some (List.range' 1 30) := by decide +kernel

/-- frame 2 lies in the first of two sub-blocks -/
example : notFinal (exEnv [2]).blkOf (2 - 1) 1 ((exEnv [2]).blkOf 0) (chunks (List.range' 1 30)).length = true := by
  decide +kernel

example : (blockDownload (exEnv [2]) 200 true 0x2000 1 (List.range' 1 30) (some 30) true).2 = .ok := by
  decide +kernel

/-- frame 4 lies in the final sub-block: the hypothesis of `single_loss_repaired` fails, and so
    does the transfer — visibly, as the property allows -/
example : notFinal (exEnv [4]).blkOf (4 - 1) 1 ((exEnv [4]).blkOf 0) (chunks (List.range' 1 30)).length = false ∧
    (blockDownload (exEnv [4]) 200 true 0x2000 1 (List.range' 1 30) (some 30) true).2 = .err ∧
    (blockDownload (exEnv [4]) 200 true 0x2000 1 (List.range' 1 30) (some 30) true).1.srv.committed = none := by
  decide +kernel

/-- two losses hitting a retransmission: with CRC the client's checksum is spoilt and the server
    aborts (visible failure); without CRC the payload arrives -/
example : (blockDownload { blkOf := fun k => [4, 2].getD (k % 2) 0, lost := fun n => [2, 6].contains n } 400 true 0x2000 1
      (List.range' 1 70) (some 70) true).2 = .err ∧
    (blockDownload { blkOf := fun k => [4, 2].getD (k % 2) 0, lost := fun n => [2, 6].contains n } 400 false 0x2000 1
      (List.range' 1 70) (some 70) false).1.srv.committed = some (List.range' 1 70) := by
  decide +kernel

end Canopen.C12
