/-
C19 — CiA 402 state decoding and commanded transitions follow the drive state machine.

Property theorems about `CanopenModel/P402.lean` (model of `State402`, `BaseNode402.state` getter and
setter, `_next_state`, `_change_state`, `op_mode` setter, over the **generated** tables) composed with
the specification drive `Spec/Drive402.lean`.

* `decode_exact`, `decode_of_drive` — every statusword (no bound on its size) is reported as exactly
  the CiA 402 state whose pattern it matches, else UNKNOWN; the library decodes every conformant drive
  state correctly whatever the free status bits are.
* `never_illegal` — safety over **all** schedules of automatic transitions and time-out expiries, of any
  length: no illegal-transition error, operation never enabled unless asked for, a returned setter has
  seen the target.  The configuration graph is closed inside the kernel (`decide +kernel`, one closure
  per transport × auto-12 × target) and lifted to every history by `closed_sound`.
* `reaches_target`, `target_entered` — progress from every start configuration: at most `d` stalls and no overall time-out ⇒ returns within
  `256·(d+1)` steps (ranking of the non-stall sub-graph, also checked in the kernel).
* `fault_reset_needs_edge` — the fact about a conformant drive that makes `_change_state` lower bit 7
  (write CW_DISABLE_VOLTAGE) before the fault-reset command.
* `uncommandable_refused`, `op_mode_refused`, `op_mode_code`.
-/
import CanopenModel.P402
import CanopenProofs.Lemmas.P402
import CanopenProofs.Lemmas.P402Graph
import CanopenProofs.Lemmas.P402Safe
import CanopenProofs.Lemmas.P402ProgS
import CanopenProofs.Lemmas.P402ProgP

namespace Canopen.C19
open Canopen.P402 Canopen.Spec.Drive402 Canopen.Gen.P402Tables

/-! ## T decode_exact -/

theorem mem_all (s : PState) : s ∈ PState.all := by cases s <;> decide

theorem masks_small : ∀ r ∈ SW_MASK, r.2.1 < 128 := by decide

theorem getState_low (sw : Nat) : getState sw = getState (sw % 128) :=
  getStateFrom_low SW_MASK masks_small sw

theorem matches_low (s : PState) (sw : Nat) : Matches s sw ↔ Matches s (sw % 128) := by
  unfold Matches
  rw [and_low sw s.pattern.1 (by cases s <;> decide)]

/-- the property on one statusword, as a computable check -/
def decodeOK (x : Nat) : Bool :=
  (PState.all.all fun s => !decide (Matches s x) ||
      (getState x == s.name && PState.all.all fun s' => !decide (Matches s' x) || s' == s)) &&
  ((PState.all.any fun s => decide (Matches s x)) || getState x == unknownName)

theorem decodeOK_low : ∀ x : Fin 128, decodeOK x.val = true := by decide +kernel

theorem names_not_unknown : ∀ s : PState, s.name ≠ unknownName := by
  intro s; cases s <;> decide

/-- Every statusword is reported as exactly the CiA 402 power state whose bit pattern it matches
    (at most one does), and as UNKNOWN when it matches none. -/
theorem decode_exact (sw : Nat) :
    (∀ s : PState, Matches s sw → getState sw = s.name ∧ ∀ s', Matches s' sw → s' = s) ∧
    ((∀ s : PState, ¬ Matches s sw) → getState sw = unknownName) := by
  have hx := decodeOK_low ⟨sw % 128, Nat.mod_lt _ (by decide)⟩
  simp only [decodeOK, Bool.and_eq_true, List.all_eq_true, List.any_eq_true, Bool.or_eq_true,
    Bool.not_eq_true', decide_eq_false_iff_not, decide_eq_true_eq, beq_iff_eq] at hx
  obtain ⟨h1, h2⟩ := hx
  rw [getState_low sw]
  constructor
  · intro s hs
    rcases h1 s (mem_all s) with hn | ⟨hg, hu⟩
    · exact absurd ((matches_low s sw).mp hs) hn
    · refine ⟨hg, fun s' hs' => ?_⟩
      rcases hu s' (mem_all s') with hn | he
      · exact absurd ((matches_low s' sw).mp hs') hn
      · exact he
  · intro hnone
    rcases h2 with ⟨s, _, hs⟩ | hu
    · exact absurd ((matches_low s sw).mpr hs) (hnone s)
    · exact hu

example : Matches .oe 0x1237 ∧ getState 0x1237 = PState.oe.name := by decide
example : (∀ s ∈ PState.all, ¬ Matches s 0x000D) ∧ getState 0x000D = unknownName := by decide

/-! ## T decode_of_drive -/

theorem low7_ok : ∀ s ∈ PState.all, ∀ x : Fin 128,
    low7 s x.val < 128 ∧ Matches s (low7 s x.val) ∧ getState (low7 s x.val) = s.name := by
  decide +kernel

theorem statusword_low (s : PState) (extra : Nat) :
    statusword s extra % 128 = low7 s (extra % 128) := by
  have h := (low7_ok s (mem_all s) ⟨extra % 128, Nat.mod_lt _ (by decide)⟩).1
  simp only at h
  unfold statusword
  generalize low7 s (extra % 128) = l at *
  omega

/-- Whatever the free bits of the statusword are, a conformant drive in power state `s` is decoded
    as `s` (and its statusword is a 16-bit number showing that state's pattern). -/
theorem decode_of_drive (s : PState) (extra : Nat) :
    Matches s (statusword s extra) ∧ getState (statusword s extra) = s.name ∧
    statusword s extra < 65536 := by
  have h := low7_ok s (mem_all s) ⟨extra % 128, Nat.mod_lt _ (by decide)⟩
  simp only at h
  refine ⟨?_, ?_, ?_⟩
  · rw [matches_low, statusword_low]; exact h.2.1
  · rw [getState_low, statusword_low]; exact h.2.2
  · have := h.1
    unfold statusword
    generalize low7 s (extra % 128) = l at *
    omega

example : statusword .so 0xFFFF = 0xFFB3 ∧ statusword .nrtso 0xFFFF = 0xFFB0 := by decide

/-! ## the code's tables, evaluated once -/

/-- `next_state_indirect`, `TRANSITIONTABLE` and the uncommandable tuple of the tree under test,
    tabulated (Python's substring `in` on the str keys of NEXTSTATE2ANY included) -/
theorem codeTables_eq : codeTables = litTables := by decide +kernel

theorem specIdx_eq : specIdx = PState.num := by
  funext s; cases s <;> decide +kernel

theorem viewOf_eq (extra : Nat) : viewOf extra = PState.num := by
  funext s
  unfold viewOf
  rw [(decode_of_drive s extra).2.1]
  exact congrFun specIdx_eq s

/-- the targets `_next_state` accepts -/
def commandableTargets : List Nat := (List.range 8).filter fun t => !codeTables.uncmdOf t

theorem commandableTargets_eq : commandableTargets = [1, 2, 3, 4, 7] := by decide +kernel

/-- … are exactly the states the standard lets a controlword command lead to -/
theorem commandable_matches_spec (s : PState) : s.commandable = true ↔ specIdx s ∈ commandableTargets := by
  rw [commandableTargets_eq, specIdx_eq]; cases s <;> decide

/-! ## T op_mode_refused / op_mode_code -/

theorem and_two_pow (m b : Nat) : (m &&& 2 ^ b == 2 ^ b) = m.testBit b := by
  cases h : m.testBit b
  · apply beq_eq_false_iff_ne.mpr
    intro he
    have := congrArg (fun n => n.testBit b) he
    simp [Nat.testBit_and, h] at this
  · apply beq_iff_eq.mpr
    apply Nat.eq_of_testBit_eq; intro i
    rw [Nat.testBit_and, Nat.testBit_two_pow]
    by_cases hi : b = i
    · subst hi; simp [h]
    · simp [hi]

theorem opModeSet_of (mask : Nat) (name : Name) (bit : Nat) (code : Int)
    (h1 : lookupN SUPPORTED name = some (2 ^ bit)) (h2 : lookupN NAME2CODE name = some code) :
    opModeSet mask name = if mask.testBit bit then .written code else .refused := by
  unfold opModeSet isOpModeSupported
  rw [h1, h2]
  simp only [Option.map_some, and_two_pow]
  cases mask.testBit bit <;> rfl

/-- what the code's tables say for every mode of the standard -/
theorem mode_rows : ∀ r ∈ modeTable,
    lookupN SUPPORTED r.1 = some (2 ^ r.2.1) ∧ lookupN NAME2CODE r.1 = some r.2.2 := by decide

/-- An operation mode the drive does not advertise in 0x6502 is refused before anything is written
    (for every supported-modes mask, of any size); so is a name the tables do not know. -/
theorem op_mode_refused :
    (∀ r ∈ modeTable, ∀ mask : Nat, mask.testBit r.2.1 = false → opModeSet mask r.1 = .refused) ∧
    (∀ (name : Name) (mask : Nat), lookupN SUPPORTED name = none → opModeSet mask name = .refused) := by
  constructor
  · intro r hr mask hb
    rw [opModeSet_of mask r.1 r.2.1 r.2.2 (mode_rows r hr).1 (mode_rows r hr).2, hb]; rfl
  · intro name mask h
    unfold opModeSet isOpModeSupported
    rw [h]; rfl

/-- An advertised mode is written to 0x6060 as its CiA 402 code; 'NO MODE' (code 0) always is. -/
theorem op_mode_code :
    (∀ r ∈ modeTable, ∀ mask : Nat, mask.testBit r.2.1 = true → opModeSet mask r.1 = .written r.2.2) ∧
    (∀ mask : Nat, opModeSet mask noModeName = .written 0) := by
  constructor
  · intro r hr mask hb
    rw [opModeSet_of mask r.1 r.2.1 r.2.2 (mode_rows r hr).1 (mode_rows r hr).2, hb]; rfl
  · intro mask
    have h1 : lookupN SUPPORTED noModeName = some 0 := by decide
    have h2 : lookupN NAME2CODE noModeName = some 0 := by decide
    unfold opModeSet isOpModeSupported
    rw [h1, h2]
    simp

example : opModeSet 0x20 (modeTable[4]!).1 = .written 6 ∧ opModeSet 0x3DF (modeTable[4]!).1 = .refused := by
  decide

/-! ## configuration graphs, closed inside the kernel -/

theorem mem_inits (pdo auto12 : Bool) (target : Nat) (s : PState) (r : Bool) :
    initCfg pdo auto12 target s r ∈ inits pdo auto12 target := by
  unfold inits
  refine List.mem_flatMap.mpr ⟨s, mem_all s, ?_⟩
  cases r <;> simp

theorem safe_all (pdo auto12 : Bool) (t : Nat) (ht : t ∈ [1, 2, 3, 4, 7]) : chkSafe pdo auto12 t = true := by
  simp only [List.mem_cons, List.not_mem_nil, or_false] at ht
  rcases ht with rfl | rfl | rfl | rfl | rfl <;> cases pdo <;> cases auto12
  · exact safe_ff1
  · exact safe_ft1
  · exact safe_tf1
  · exact safe_tt1
  · exact safe_ff2
  · exact safe_ft2
  · exact safe_tf2
  · exact safe_tt2
  · exact safe_ff3
  · exact safe_ft3
  · exact safe_tf3
  · exact safe_tt3
  · exact safe_ff4
  · exact safe_ft4
  · exact safe_tf4
  · exact safe_tt4
  · exact safe_ff7
  · exact safe_ft7
  · exact safe_tf7
  · exact safe_tt7

/-! ## T never_illegal -/

/-- Safety, for every start state (8), reset bit, commandable target (5), transport, drive with or
    without automatic transition 12, free status bits, and **every** list of choices (moments of the
    automatic transitions, outcomes of the time-out tests) of any length:
    the setter never raises the illegal-transition error (nor the uncommandable-target error), no
    step makes the drive enter OPERATION ENABLED unless the target is OPERATION ENABLED or QUICK STOP
    ACTIVE, and when the setter has returned the state it last saw is the target (over SDO: the drive
    is in the target). -/
theorem never_illegal (pdo auto12 : Bool) (start : PState) (rst : Bool) (target : Nat)
    (ht : target ∈ commandableTargets) (extra : Nat) (chs : List Choice) :
    let c := run codeTables (viewOf extra) (initCfg pdo auto12 target start rst) chs
    c.pc ≠ .illegal ∧ c.pc ≠ .refused ∧
    (∀ ch, PState.oe ∈ entered codeTables c ch → target = specIdx .oe ∨ target = specIdx .qsa) ∧
    (c.pc = .done → seen (viewOf extra) c = target ∧ (pdo = false → specIdx c.st = target)) := by
  rw [commandableTargets_eq] at ht
  rw [codeTables_eq, viewOf_eq, specIdx_eq]
  intro c
  obtain ⟨hin, hstep, hgood, hconst⟩ := closed_facts (safe_all pdo auto12 target ht)
  have hmem : c ∈ visSafe pdo auto12 target :=
    run_mem hstep chs _ (hin _ (mem_inits pdo auto12 target start rst))
  obtain ⟨hp, htg⟩ := hconst c hmem
  have hg := hgood c hmem
  simp only [goodSafe, noEnable, Bool.and_eq_true, bne_iff_ne, ne_eq, Bool.or_eq_true, beq_iff_eq,
    List.all_eq_true, Bool.not_eq_true', htg] at hg
  obtain ⟨⟨⟨h1, h2⟩, h3⟩, h4⟩ := hg
  refine ⟨h1, h2, ?_, ?_⟩
  · intro ch hoe
    rw [entered_proj] at hoe
    rcases h4 _ (projCh_mem c.pc ch) with (h | h) | h
    · rw [List.contains_eq_mem, decide_eq_false_iff_not] at h; exact absurd hoe h
    · exact Or.inl h
    · exact Or.inr h
  · intro hd
    rcases h3 with h | ⟨h, h'⟩
    · exact absurd hd h
    · refine ⟨h, fun hpf => ?_⟩
      rcases h' with h' | h'
      · rw [hp, hpf] at h'; exact absurd h' (by decide)
      · exact h'

/-- non-vacuity: a run that does command the drive - SWITCH ON DISABLED → OPERATION ENABLED over SDO,
    nothing adversarial - writes 6, 7, 15 and returns with the drive enabled -/
example :
    (runConcrete codeTables (viewOf 0xFFFF) ⟨[], 0, 400, 30⟩ 1000
      { c := initCfg false false 4 .sod false }).c.pc = .done ∧
    (runConcrete codeTables (viewOf 0xFFFF) ⟨[], 0, 400, 30⟩ 1000
      { c := initCfg false false 4 .sod false }).c.st = .oe ∧
    (runConcrete codeTables (viewOf 0xFFFF) ⟨[], 0, 400, 30⟩ 1000
      { c := initCfg false false 4 .sod false }).cws.reverse = [6, 7, 15] := by decide +kernel

/-! ## T reaches_target -/

theorem prog_all (pdo auto12 : Bool) (t : Nat) (ht : t ∈ [1, 2, 3, 4, 7])
    (hq : auto12 = true → t ≠ 7) : chkProg pdo auto12 t = true := by
  simp only [List.mem_cons, List.not_mem_nil, or_false] at ht
  rcases ht with rfl | rfl | rfl | rfl | rfl <;> cases pdo <;> cases auto12
  · exact prog_ff1
  · exact prog_ft1
  · exact prog_tf1
  · exact prog_tt1
  · exact prog_ff2
  · exact prog_ft2
  · exact prog_tf2
  · exact prog_tt2
  · exact prog_ff3
  · exact prog_ft3
  · exact prog_tf3
  · exact prog_tt3
  · exact prog_ff4
  · exact prog_ft4
  · exact prog_tf4
  · exact prog_tt4
  · exact prog_ff7
  · exact absurd rfl (hq rfl)
  · exact prog_tf7
  · exact absurd rfl (hq rfl)

/-- Progress, from **every** start configuration (8 power states × any value of bit 7 of the last
    controlword, i.e. after any history of controlwords) to every commandable target, both transports,
    any free status bits, for every delay bound `d`: if along the run the environment stalls at most
    `d` times (the drive postpones its pending mandatory automatic transition at one of the library's
    accesses, or the single-step time-out has not yet expired while the drive is not in the awaited
    state and has nothing left to do by itself) and the overall time-out is never found expired, then
    after at most `256·(d+1)` steps of the machine - hence at most as many status reads - the setter
    has returned, having seen the target (with `never_illegal`: over SDO the drive is in the target).
    `hq` is not a restriction on the library: a drive that leaves QUICK STOP ACTIVE by itself
    (automatic transition 12) cannot be *held* there by anybody, so "the setter returns having seen
    QUICK STOP ACTIVE" is not owed; for that drive `target_entered` proves that the state is entered. -/
theorem reaches_target (pdo auto12 : Bool) (start : PState) (rst : Bool) (target : Nat)
    (ht : target ∈ commandableTargets)
    (hq : auto12 = true → target ≠ specIdx .qsa)
    (extra d : Nat) (chs : List Choice)
    (hs : stallCount codeTables (viewOf extra) (initCfg pdo auto12 target start rst) chs ≤ d)
    (hf : noFatal codeTables (viewOf extra) (initCfg pdo auto12 target start rst) chs = true)
    (hl : 256 * (d + 1) ≤ chs.length) :
    let c := run codeTables (viewOf extra) (initCfg pdo auto12 target start rst) chs
    c.pc = .done ∧ seen (viewOf extra) c = target := by
  rw [commandableTargets_eq] at ht
  rw [specIdx_eq] at hq
  rw [codeTables_eq, viewOf_eq] at hs hf ⊢
  intro c
  have hchk := prog_all pdo auto12 target ht hq
  simp only [chkProg, Bool.and_eq_true] at hchk
  obtain ⟨hcl, hrk⟩ := hchk
  obtain ⟨hin, hstep, hgood, hconst⟩ := closed_facts hcl
  have h0 := hin _ (mem_inits pdo auto12 target start rst)
  have hmem : c ∈ visProg pdo auto12 target := run_mem hstep chs _ h0
  have hterm : c.pc.terminal = true := by
    apply ranked_sound hstep hrk chs _ d h0 hs hf
    have := getSlot_lt (rankDfs litTables PState.num 100000 (visProg pdo auto12 target) 0)
      (encCfg (initCfg pdo auto12 target start rst))
    unfold rankOf
    omega
  have hnt : c.pc ≠ .timeout :=
    no_timeout hstep (fun c hc => by
      have := hgood c hc
      simp only [goodProg, Bool.and_eq_true] at this
      exact this.2) chs _ h0 (by show Pc.init ≠ Pc.timeout; decide) hf
  have hg := hgood c hmem
  have hw : c.target = target := (hconst c hmem).2
  simp only [goodProg, Bool.and_eq_true, bne_iff_ne, ne_eq, Bool.or_eq_true, beq_iff_eq, hw] at hg
  obtain ⟨⟨⟨h1, h2⟩, h3⟩, _⟩ := hg
  have hd : c.pc = .done := by
    cases hpc : c.pc <;> simp_all [Pc.terminal]
  refine ⟨hd, ?_⟩
  rcases h3 with h | h
  · exact absurd hd h
  · exact h

/-- non-vacuity: NOT READY TO SWITCH ON → OPERATION ENABLED over SDO, the drive postponing its automatic
    transition at its first five chances: the hypotheses of `reaches_target` hold with `d = 5`, and
    the run ends returned with the drive enabled -/
example :
    stallCount codeTables (viewOf 0) (initCfg false false 4 .nrtso false)
      (List.replicate 12 ⟨false, false⟩ ++ List.replicate 1600 ⟨true, false⟩) = 5 ∧
    noFatal codeTables (viewOf 0) (initCfg false false 4 .nrtso false)
      (List.replicate 12 ⟨false, false⟩ ++ List.replicate 1600 ⟨true, false⟩) = true ∧
    (run codeTables (viewOf 0) (initCfg false false 4 .nrtso false)
      (List.replicate 12 ⟨false, false⟩ ++ List.replicate 1600 ⟨true, false⟩)).st = .oe := by
  decide +kernel

/-! ## T target_entered -/

theorem enter_all (pdo : Bool) : chkEnter pdo true 7 = true := by
  cases pdo
  · exact enter_ft7
  · exact enter_tt7

/-- For every start configuration, commandable target and transport - including target QUICK STOP
    ACTIVE on a drive that leaves that state by itself - under the hypotheses of `reaches_target`
    there is a moment within the first `256·(d+1)` steps at which the setter has returned having seen
    the target, or the drive is in the target state. -/
theorem target_entered (pdo auto12 : Bool) (start : PState) (rst : Bool) (target : Nat)
    (ht : target ∈ commandableTargets) (extra d : Nat) (chs : List Choice)
    (hs : stallCount codeTables (viewOf extra) (initCfg pdo auto12 target start rst) chs ≤ d)
    (hf : noFatal codeTables (viewOf extra) (initCfg pdo auto12 target start rst) chs = true)
    (hl : 256 * (d + 1) ≤ chs.length) :
    ∃ k, k ≤ chs.length ∧
      ((run codeTables (viewOf extra) (initCfg pdo auto12 target start rst) (chs.take k)).pc = .done ∨
       specIdx (run codeTables (viewOf extra) (initCfg pdo auto12 target start rst) (chs.take k)).st = target) := by
  by_cases hq : auto12 = true → target ≠ specIdx .qsa
  · exact ⟨chs.length, Nat.le_refl _, Or.inl (by
      rw [List.take_length]
      exact (reaches_target pdo auto12 start rst target ht hq extra d chs hs hf hl).1)⟩
  · have ha : auto12 = true := by
      cases auto12
      · exact absurd (fun h => absurd h (by decide)) hq
      · rfl
    have htq : target = 7 := by
      rw [specIdx_eq] at hq
      by_cases h7 : target = 7
      · exact h7
      · exact absurd (fun _ => h7) hq
    subst ha; subst htq
    rw [codeTables_eq, viewOf_eq] at hs hf ⊢
    rw [specIdx_eq]
    have hchk := enter_all pdo
    simp only [chkEnter, Bool.and_eq_true] at hchk
    obtain ⟨hcl, hrk⟩ := hchk
    obtain ⟨hin, hstep, hgood, hconst⟩ := closed_facts hcl
    have h0 := hin _ (mem_inits pdo true 7 start rst)
    have hr0 : 256 * d + rankOf (rankDfsS litTables PState.num stopEnter 100000 (visProg pdo true 7) 0)
        (initCfg pdo true 7 start rst) ≤ chs.length := by
      have := getSlot_lt (rankDfsS litTables PState.num stopEnter 100000 (visProg pdo true 7) 0)
        (encCfg (initCfg pdo true 7 start rst))
      unfold rankOf
      omega
    obtain ⟨k, hk, hstop⟩ := ranked_sound_stop hstep hrk chs _ d h0 hs hf hr0
    refine ⟨k, hk, ?_⟩
    -- the prefix run is in the closure, is not a time-out (no fatal step), not an error
    have hmem := run_mem hstep (chs.take k) _ h0
    have hfk : noFatal litTables PState.num (initCfg pdo true 7 start rst) (chs.take k) = true :=
      noFatal_take litTables PState.num k chs _ hf
    have hnt := no_timeout hstep (fun c hc => by
      have := hgood c hc
      simp only [goodProg, Bool.and_eq_true] at this
      exact this.2) (chs.take k) _ h0 (by show Pc.init ≠ Pc.timeout; decide) hfk
    have hg := hgood _ hmem
    have hw := (hconst _ hmem).2
    generalize run litTables PState.num (initCfg pdo true 7 start rst) (chs.take k) = c at *
    simp only [goodProg, Bool.and_eq_true, bne_iff_ne, ne_eq] at hg
    simp only [stopEnter, Bool.or_eq_true, beq_iff_eq, hw] at hstop
    rcases hstop with ht | hs7
    · left
      cases hpc : c.pc <;> simp_all [Pc.terminal]
    · exact Or.inr hs7

/-! ## T fault_reset_needs_edge (why `_change_state` lowers bit 7 before the fault-reset command) -/

/-- The fact about a conformant drive behind the fault-reset repair: in FAULT, while bit 7 of the last
    controlword is set, **no** controlword with bit 7 set changes anything (no rising edge: the drive
    stays in FAULT, the bit stays set) - so writing 0x80 again and again, as the setter did before
    the repair, never leaves FAULT; whereas, whatever the last controlword was, `CW_DISABLE_VOLTAGE`
    followed by the fault-reset command of the transition table leaves FAULT for SWITCH ON DISABLED,
    the first write changing nothing but the bit. -/
theorem fault_reset_needs_edge (c : Cfg) (hf : c.st = .fault) :
    (c.rst = true → ∀ cw : Nat, cw.testBit 7 = true →
      (receive c cw).st = .fault ∧ (receive c cw).rst = true) ∧
    ((receive c codeTables.preCw).st = .fault ∧ (receive c codeTables.preCw).rst = false) ∧
    (∀ cw, codeTables.ttOf codeTables.fault (specIdx .sod) = some cw →
      (receive (receive c codeTables.preCw) cw).st = .sod) := by
  rw [codeTables_eq, specIdx_eq]
  obtain ⟨p, a, t, s, r, ca, pc, f, n⟩ := c
  simp only at hf
  subst hf
  refine ⟨?_, ?_, ?_⟩
  · intro hr cw hb
    simp only at hr
    subst hr
    have hc : commandStates PState.fault false cw = [] := rfl
    simp [receive, hc, hb]
  · cases r <;> exact ⟨rfl, rfl⟩
  · intro cw hcw
    have : cw = 128 := by
      have h : litTables.ttOf litTables.fault PState.sod.num = some 128 := by decide
      rw [h] at hcw
      exact (Option.some.inj hcw).symm
    subst this
    cases r <;> rfl

/-- the repaired setter on the history that used to fail: FAULT, bit 7 already set, target SWITCH ON
    DISABLED, SDO, time-outs 8 and 4 ticks: it writes 0x0000, then 0x0080, and returns -/
example :
    (runConcrete codeTables (viewOf 0) ⟨[], 0, 8, 4⟩ 1000
      { c := initCfg false false 1 .fault true }).c.pc = .done ∧
    (runConcrete codeTables (viewOf 0) ⟨[], 0, 8, 4⟩ 1000
      { c := initCfg false false 1 .fault true }).c.st = .sod ∧
    (runConcrete codeTables (viewOf 0) ⟨[], 0, 8, 4⟩ 1000
      { c := initCfg false false 1 .fault true }).cws.reverse = [0, 128] := by decide +kernel

/-! ## T uncommandable_refused -/

def pcBeforeWrite (p : Pc) : Bool :=
  p == .init || p == .aLoop || p == .loop || p == .done || p == .refused

def goodUncmd (c : Cfg) : Bool :=
  pcBeforeWrite c.pc && (c.pc != .done || seen PState.num c == c.target)

def chkUncmd (pdo auto12 : Bool) (t : Nat) : Bool :=
  checkClosed litTables PState.num pdo auto12 t (inits pdo auto12 t) goodUncmd
    (exploreFrom litTables PState.num (inits pdo auto12 t))

/-- from every initial configuration the third step is terminal, whatever the choices -/
def threeSteps (pdo auto12 : Bool) (t : Nat) : Bool :=
  (inits pdo auto12 t).all fun c0 =>
    (choicesAt c0.pc).all fun x1 =>
      (choicesAt (step litTables PState.num c0 x1).pc).all fun x2 =>
        (choicesAt (step litTables PState.num (step litTables PState.num c0 x1) x2).pc).all fun x3 =>
          (step litTables PState.num (step litTables PState.num (step litTables PState.num c0 x1) x2) x3).pc.terminal

theorem uncmd_all : ([false, true].all fun p => [false, true].all fun a => [0, 5, 6].all fun t =>
    chkUncmd p a t && threeSteps p a t) = true := by decide +kernel

theorem uncmdTargets_eq : (List.range 8).filter (fun t => codeTables.uncmdOf t) = [0, 5, 6] := by
  decide +kernel

/-- Assigning a state that cannot be commanded (NOT READY TO SWITCH ON, FAULT, FAULT REACTION ACTIVE):
    under every schedule no controlword is ever written (the setter never gets past its first
    decision), after its first three steps it has ended - with the ValueError, or without doing
    anything when the drive already shows that very state. -/
theorem uncommandable_refused (pdo auto12 : Bool) (start : PState) (rst : Bool) (target : Nat)
    (ht : target < 8) (hu : codeTables.uncmdOf target = true) (extra : Nat) (chs : List Choice) :
    let c := run codeTables (viewOf extra) (initCfg pdo auto12 target start rst) chs
    pcBeforeWrite c.pc = true ∧ c.rst = rst ∧
    (c.pc = .done → seen (viewOf extra) c = target) ∧
    (3 ≤ chs.length → c.pc = .refused ∨ c.pc = .done) := by
  have hmem : target ∈ (List.range 8).filter (fun t => codeTables.uncmdOf t) :=
    List.mem_filter.mpr ⟨List.mem_range.mpr ht, hu⟩
  rw [uncmdTargets_eq] at hmem
  rw [codeTables_eq, viewOf_eq]
  intro c
  have hall := uncmd_all
  simp only [List.all_eq_true, Bool.and_eq_true] at hall
  obtain ⟨hchk, h3⟩ := hall pdo (by cases pdo <;> simp) auto12 (by cases auto12 <;> simp) target hmem
  obtain ⟨hin, hstep, hgood, hconst⟩ := closed_facts hchk
  have h0 := hin _ (mem_inits pdo auto12 target start rst)
  have hcm : c ∈ _ := run_mem hstep chs _ h0
  have hg := hgood c hcm
  simp only [goodUncmd, Bool.and_eq_true, bne_iff_ne, ne_eq, Bool.or_eq_true, beq_iff_eq,
    (hconst c hcm).2] at hg
  -- the reset bit only changes at `write`, which is never reached
  have hrst : ∀ (chs : List Choice) (c : Cfg), c ∈ exploreFrom litTables PState.num (inits pdo auto12 target) →
      (run litTables PState.num c chs).rst = c.rst := by
    intro chs
    induction chs with
    | nil => intro c _; rfl
    | cons ch rest ih =>
      intro c hc
      rw [run, ih _ (hstep c hc ch)]
      have hp := (hgood c hc)
      simp only [goodUncmd, Bool.and_eq_true] at hp
      have hp := hp.1
      unfold step
      cases hpc : c.pc <;> simp_all [pcBeforeWrite, advance, decide1] <;> (repeat' split) <;> rfl
  refine ⟨hg.1, hrst chs _ h0, ?_, ?_⟩
  · intro hd
    rcases hg.2 with h | h
    · exact absurd hd h
    · exact h
  · intro hlen
    have hthree : ∀ chs : List Choice, 3 ≤ chs.length →
        (run litTables PState.num (initCfg pdo auto12 target start rst) chs).pc.terminal = true := by
      intro chs hl
      match chs, hl with
      | ch1 :: ch2 :: ch3 :: rest, _ =>
        simp only [threeSteps, List.all_eq_true] at h3
        have ht3 := h3 _ (mem_inits pdo auto12 target start rst) _ (projCh_mem _ ch1) _ (projCh_mem _ ch2)
          _ (projCh_mem _ ch3)
        rw [← step_proj, ← step_proj, ← step_proj] at ht3
        simp only [run]
        rw [run_terminal _ _ rest _ ht3]
        exact ht3
    have ht3 : c.pc.terminal = true := hthree chs hlen
    have hb := hg.1
    cases hpc : c.pc <;> simp_all [Pc.terminal, pcBeforeWrite]

example : codeTables.uncmdOf 5 = true ∧
    (run codeTables (viewOf 0) (initCfg false false 5 .oe false) [⟨false, false⟩, ⟨false, false⟩, ⟨false, false⟩]).pc
      = .refused := by decide +kernel

end Canopen.C19
