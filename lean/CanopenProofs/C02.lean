/-
C02 — SDO server serves and stores object values exactly, in conformant CiA 301 frames.

Theorems about `CanopenModel/Sdo/Server.lean` (model of `SdoServer.on_request` and of
`LocalNode.get_data/set_data`) composed with the strict reference client of
`CanopenModel/Spec/SdoClient.lean`.  They hold for every server state satisfying the toggle
invariant `SrvWF` (which every history preserves), every node, every frame, every value length.
-/
import CanopenModel.Sdo.Server
import CanopenModel.Spec.SdoClient
import CanopenProofs.Lemmas.SdoServer

namespace Canopen.C02
open Canopen Canopen.Sdo Canopen.Spec Canopen.Gen.SdoConst

/-! ## no frame makes the server raise; one well-formed response per request -/

/-- Only the zero-length frame (which the CAN layer never delivers to an SDO server with a
    command byte missing; the property quantifies over 1..8 byte frames) escapes `on_request`. -/
theorem never_raises (s : Srv) (n : Node) (req : Bytes) (h : req ≠ []) :
    (srvStep s n req).raised = false := by
  cases req with
  | nil => exact absurd rfl h
  | cons c r => simp only [srvStep, finish]; split <;> rfl

/-- expected server command specifier for a client command specifier -/
def matching (ccs : Nat) : Option Nat :=
  if ccs = 0x40 ∨ ccs = 0xA0 then some 0x40
  else if ccs = 0x60 then some 0x00
  else if ccs = 0x20 then some 0x60
  else if ccs = 0x00 then some 0x20
  else none

/-- a handler result is good: on success exactly one 8-byte frame whose specifier is `want`,
    on an exception nothing was sent yet (the abort frame follows); the invariant survives -/
def HGood (want : Nat) (h : HRes) : Prop :=
  (h.err = none → ∃ r c, h.sent = [r] ∧ r.length = 8 ∧ r.head? = some c ∧ c &&& 0xE0 = want) ∧
  (h.err ≠ none → h.sent = []) ∧ SrvWF h.srv

theorem initUpload_good (s : Srv) (n : Node) (req : Bytes) (hwf : SrvWF s) :
    HGood 0x40 (initUpload s n req) := by
  unfold initUpload
  split
  · rename_i c0 b1 b2 b3 rest
    dsimp only
    split
    · exact ⟨by simp, by simp, hwf⟩
    · rename_i data hd
      split
      · rename_i hsz
        obtain ⟨_, h2, _⟩ := expUpCmd_fields data.length (in14_mem _ hsz.1 hsz.2)
        refine ⟨fun _ => ⟨_, _, rfl, ?_, rfl, h2⟩, by simp, hwf⟩
        simp [muxBytes_length, padTo_length 4 data (by omega)]
      · split
        · refine ⟨fun _ => ⟨_, _, rfl, ?_, rfl, segUpInit_fields.2.1⟩, by simp, Or.inl rfl⟩
          simp [muxBytes_length]
        · exact ⟨by simp, by simp, hwf⟩
  · exact ⟨by simp, by simp, hwf⟩

theorem toggle_xor (s : Srv) (hwf : SrvWF s) : s.toggle ^^^ TOGGLE_BIT = 0 ∨ s.toggle ^^^ TOGGLE_BIT = TOGGLE_BIT := by
  rcases hwf with h | h <;> rw [h] <;> decide

theorem segmentedUpload_good (s : Srv) (n : Node) (command : Nat) (hwf : SrvWF s) :
    HGood 0x00 (segmentedUpload s n command) := by
  unfold segmentedUpload
  split
  · exact ⟨by simp, by simp, hwf⟩
  · split
    · exact ⟨by simp, by simp, hwf⟩
    · rename_i buf _
      obtain ⟨t, ht⟩ := wf_tbit s hwf
      have hl : (buf.take 7).length ≤ 7 := by simp only [List.length_take]; omega
      obtain ⟨_, h2, _⟩ := segUpCmd_fields t _ (le7_mem _ hl) (buf.drop 7).isEmpty
      refine ⟨fun _ => ⟨_, _, rfl, ?_, rfl, ?_⟩, by simp, toggle_xor s hwf⟩
      · simp [padTo_length 7 (buf.take 7) hl]
      · rw [ht]; exact h2

theorem initDownload_good (s : Srv) (n : Node) (req : Bytes) (hwf : SrvWF s) :
    HGood 0x60 (initDownload s n req) := by
  unfold initDownload
  split
  · dsimp only
    split
    · split
      · exact ⟨by simp, by simp, hwf⟩
      · exact ⟨fun _ => ⟨_, _, rfl, by simp [muxBytes_length], rfl, by decide⟩, by simp, hwf⟩
    · split
      · exact ⟨by simp, by simp, hwf⟩
      · exact ⟨fun _ => ⟨_, _, rfl, by simp [muxBytes_length], rfl, by decide⟩, by simp, Or.inl rfl⟩
  · exact ⟨by simp, by simp, hwf⟩

theorem segmentedDownload_good (s : Srv) (n : Node) (command : Nat) (req : Bytes) (hwf : SrvWF s) :
    HGood 0x20 (segmentedDownload s n command req) := by
  unfold segmentedDownload
  split
  · exact ⟨by simp, by simp, hwf⟩
  · dsimp only
    split
    · exact ⟨by simp, by simp, hwf⟩
    · unfold segDownFinish
      split
      · exact ⟨by simp, by simp, hwf⟩
      · refine ⟨fun _ => ⟨_, _, rfl, by simp, rfl, ?_⟩, by simp, toggle_xor s hwf⟩
        rcases hwf with h | h <;> (dsimp only; rw [h]) <;> decide

theorem finish_good (want : Nat) (h : HRes) (m : Option Nat) (hg : HGood want h)
    (hm : m = some want ∨ h.err ≠ none) :
    (finish h).raised = false ∧ SrvWF (finish h).srv ∧
    ∃ r c, (finish h).sent = [r] ∧ r.length = 8 ∧ r.head? = some c ∧
      (c = 0x80 ∨ some (c &&& 0xE0) = m) := by
  obtain ⟨h1, h2, h3⟩ := hg
  unfold finish
  cases he : h.err with
  | none =>
    obtain ⟨r, c, hs, hl, hh, hcw⟩ := h1 he
    have hm' : m = some want := by
      rcases hm with hm | hm
      · exact hm
      · exact absurd he hm
    exact ⟨rfl, h3, r, c, hs, hl, hh, Or.inr (by rw [hm', hcw])⟩
  | some e =>
    have := h2 (by rw [he]; simp)
    exact ⟨rfl, h3, abortFrame h.srv (errCode e), 0x80, by simp [this], abortFrame_length _ _,
      abortFrame_head _ _, Or.inl rfl⟩

theorem dispatch_good (s : Srv) (n : Node) (command : Nat) (req : Bytes) (hwf : SrvWF s)
    (hc : command &&& 0xE0 ≠ 0x80) :
    ∃ want, HGood want (dispatch s n command req) ∧
      (matching (command &&& 0xE0) = some want ∨ (dispatch s n command req).err ≠ none) := by
  unfold dispatch
  generalize command &&& 0xE0 = ccs at hc
  dsimp only
  by_cases h1 : ccs = REQUEST_UPLOAD
  · rw [if_pos h1]
    exact ⟨0x40, initUpload_good s n _ hwf, Or.inl (by rw [h1]; decide)⟩
  · rw [if_neg h1]
    by_cases h2 : ccs = REQUEST_SEGMENT_UPLOAD
    · rw [if_pos h2]
      exact ⟨0x00, segmentedUpload_good s n _ hwf, Or.inl (by rw [h2]; decide)⟩
    · rw [if_neg h2]
      by_cases h3 : ccs = REQUEST_DOWNLOAD
      · rw [if_pos h3]
        exact ⟨0x60, initDownload_good s n _ hwf, Or.inl (by rw [h3]; decide)⟩
      · rw [if_neg h3]
        by_cases h4 : ccs = REQUEST_SEGMENT_DOWNLOAD
        · rw [if_pos h4]
          exact ⟨0x20, segmentedDownload_good s n _ _ hwf, Or.inl (by rw [h4]; decide)⟩
        · rw [if_neg h4]
          by_cases h5 : ccs = REQUEST_BLOCK_UPLOAD
          · rw [if_pos h5]
            exact ⟨0x40, initUpload_good s n _ hwf, Or.inl (by rw [h5]; decide)⟩
          · rw [if_neg h5]
            by_cases h6 : ccs = REQUEST_BLOCK_DOWNLOAD
            · rw [if_pos h6]
              exact ⟨0, ⟨by simp, by simp, hwf⟩, Or.inr (by simp)⟩
            · rw [if_neg h6]
              by_cases h7 : ccs = REQUEST_ABORTED
              · exact absurd h7 hc
              · rw [if_neg h7]
                exact ⟨0, ⟨by simp, by simp, hwf⟩, Or.inr (by simp)⟩

/-- **One response per request.**  For every state satisfying the toggle invariant, every node and
    every non-empty frame that is not a client abort: nothing is raised, exactly one frame is sent,
    it has 8 bytes, and its command specifier is the one matching the request or 0x80 (abort);
    the invariant holds afterwards.  (Payload bytes are bytes whenever the stored values are.) -/
theorem one_response (s : Srv) (n : Node) (command : Nat) (rest : Bytes) (hwf : SrvWF s)
    (hc : command &&& 0xE0 ≠ 0x80) :
    (srvStep s n (command :: rest)).raised = false ∧ SrvWF (srvStep s n (command :: rest)).srv ∧
    ∃ r c, (srvStep s n (command :: rest)).sent = [r] ∧ r.length = 8 ∧ r.head? = some c ∧
      (c = 0x80 ∨ some (c &&& 0xE0) = matching (command &&& 0xE0)) := by
  obtain ⟨want, hg, hm⟩ := dispatch_good s n command (command :: rest) hwf hc
  exact finish_good want _ _ hg hm

/-- a client abort (or any frame at all) also preserves the invariant -/
theorem step_wf (s : Srv) (n : Node) (req : Bytes) (hwf : SrvWF s) : SrvWF (srvStep s n req).srv := by
  cases req with
  | nil => exact hwf
  | cons command rest =>
    by_cases hc : command &&& 0xE0 = 0x80
    · simp only [srvStep, dispatch, hc, REQUEST_UPLOAD, REQUEST_SEGMENT_UPLOAD, REQUEST_DOWNLOAD,
        REQUEST_SEGMENT_DOWNLOAD, REQUEST_BLOCK_UPLOAD, REQUEST_BLOCK_DOWNLOAD, REQUEST_ABORTED]
      simp only [requestAborted, finish]
      by_cases hl : (command :: rest).length < 8
      · simp only [hl, if_true]; exact hwf
      · simp only [hl, if_false]; exact hwf
    · exact (one_response s n command rest hwf hc).2.1

/-! ## uploads: the strict reference client obtains exactly the value -/

/-- one segment-upload exchange, fully evaluated -/
theorem segUp_step (s : Srv) (n : Node) (t : Bool) (rem : Bytes)
    (hb : s.buffer = some rem) (ht : s.toggle = tbit t) :
    srvStep s n (segUpReq t :: List.replicate 7 0) =
      ⟨{ s with buffer := some (rem.drop 7), toggle := tbit (!t) }, n,
       [segUpCmd (tbit t) (rem.take 7).length (rem.drop 7).isEmpty :: padTo 7 (rem.take 7)], false⟩ := by
  obtain ⟨h1, h2⟩ := req_cmds.2.1 t
  simp only [srvStep, dispatch, h1, REQUEST_UPLOAD, REQUEST_SEGMENT_UPLOAD]
  simp only [segmentedUpload, h2, ht, hb, finish, tbit_xor]
  simp

theorem upSegT_correct (v : Bytes) (idx sub : Nat) :
    ∀ (fuel : Nat) (s : Srv) (n : Node) (t : Bool) (acc rem : Bytes),
      s.buffer = some rem → s.toggle = tbit t → acc ++ rem = v →
      rem.length / 7 + 1 ≤ fuel →
      ∃ s', upSegT fuel s n idx sub v.length t acc = (s', n, .ok v) ∧ SrvWF s' := by
  intro fuel
  induction fuel with
  | zero => intro s n t acc rem _ _ _ hf; omega
  | succ fuel ih =>
    intro s n t acc rem hb ht hacc hf
    have hstep := segUp_step s n t rem hb ht
    have hlen7 : (rem.take 7).length ≤ 7 := by simp only [List.length_take]; omega
    obtain ⟨c1, c2, c3, c4, c5⟩ := segUpCmd_fields t _ (le7_mem _ hlen7) (rem.drop 7).isEmpty
    unfold upSegT
    simp only [hstep]
    generalize segUpCmd (tbit t) (rem.take 7).length (rem.drop 7).isEmpty = cmd at *
    have h7 : 7 - (7 - (rem.take 7).length) = (rem.take 7).length := by omega
    simp only [oneResp, List.length_cons, padTo_length 7 _ hlen7, if_true, Bool.false_eq_true, if_false,
      asAbort, c1, List.headD_cons, List.drop_succ_cons, List.drop_zero, judgeUpSeg, c2, c3, c4, c5, h7,
      padTo_take, padTo_drop_allZero, bne_self_eq_false, Bool.not_true]
    by_cases he : (rem.drop 7).isEmpty
    · have hrem : rem.take 7 = rem := by
        have h0 : rem.drop 7 = [] := by simpa using he
        have := List.take_append_drop 7 rem
        rw [h0, List.append_nil] at this; exact this
      simp only [he, if_true, hrem, hacc]
      exact ⟨_, rfl, wf_of_tbit _ (!t) rfl⟩
    · have hlong : 7 < rem.length := by
        have h0 : rem.drop 7 ≠ [] := by simpa using he
        by_cases h : 7 < rem.length
        · exact h
        · exact absurd (List.drop_eq_nil_of_le (by omega)) h0
      have h7l : (rem.take 7).length = 7 := by simp only [List.length_take]; omega
      have hnl : ¬ (v.length ≤ (acc ++ rem.take 7).length) := by
        rw [← hacc, List.length_append, List.length_append, h7l]; omega
      simp only [he, Bool.false_eq_true, if_false, h7l, show ¬ (7 : Nat) = 0 from by decide, hnl]
      exact ih { s with buffer := some (rem.drop 7), toggle := tbit (!t) } n (!t)
        (acc ++ rem.take 7) (rem.drop 7) rfl rfl
        (by rw [List.append_assoc, List.take_append_drop]; exact hacc)
        (by simp only [List.length_drop]; omega)

/-- **Upload is exact.**  Whatever state the server is in (any history before), if the node's
    value for `idx:sub` is the byte string `v` (first present source: read callback, stored data,
    ParameterValue, DefaultValue) then a strict reference client obtains exactly `v` — expedited
    for 1..4 bytes, segmented otherwise (including the empty value) — and finds nothing to object
    to in any response: multiplexer echoed, true size announced, toggle alternating from 0, unused
    byte counts right, last-segment flag exactly when the data is exhausted, padding zero. -/
theorem upload_exact (s : Srv) (n : Node) (idx sub : Nat) (v : Bytes) (hwf : SrvWF s)
    (hidx : idx < 65536) (hsub : sub < 256) (hv : getData n idx sub true = .ok v)
    (hlen : v.length < 2 ^ 32) :
    ∃ s', refUpload s n idx sub = (s', n, .ok v) ∧ SrvWF s' := by
  have hmux : idx % 256 + 256 * (idx / 256 % 256) = idx := by omega
  have hsub' : sub % 256 = sub := Nat.mod_eq_of_lt hsub
  unfold refUpload
  simp only [srvStep, mux, List.cons_append, List.nil_append, dispatch, req_cmds.1, if_true, initUpload,
    hmux, hsub', hv]
  by_cases hsz : 1 ≤ v.length ∧ v.length ≤ 4
  · -- expedited
    obtain ⟨c1, c2, c3, c4, c5, c6⟩ := expUpCmd_fields v.length (in14_mem _ hsz.1 hsz.2)
    simp only [hsz, and_self, if_true, finish]
    generalize expUpCmd v.length = cmd at *
    have h4 : 4 - (4 - v.length) = v.length := by omega
    simp only [oneResp, Bool.false_eq_true, if_false, List.length_cons, List.length_append, muxBytes_length,
      padTo_length 4 v hsz.2, if_true, asAbort, c1, judgeUpInit, List.headD_cons, c2, bne_self_eq_false,
      List.drop_succ_cons, List.drop_zero, muxBytes_eq, mux, List.take_succ_cons, List.take_zero,
      List.cons_append, List.nil_append, hsub', c3, c4, c5, c6, h4, padTo_take, padTo_drop_allZero,
      Bool.not_true]
    exact ⟨_, rfl, hwf⟩
  · -- segmented (also the empty value): size announced, then the segment loop
    obtain ⟨c1, c2, c3, c4, c5, c6⟩ := segUpInit_fields
    simp only [hsz, if_false, hlen, if_true, finish]
    generalize RESPONSE_UPLOAD ||| SIZE_SPECIFIED = cmd at *
    have hsize : leVal (leBytes 4 v.length) = v.length := by
      rw [leVal_leBytes]; exact Nat.mod_eq_of_lt (by simpa using hlen)
    simp only [oneResp, Bool.false_eq_true, if_false, List.length_cons, List.length_append, muxBytes_length,
      leBytes_length, if_true, asAbort, c1, judgeUpInit, List.headD_cons, c2, bne_self_eq_false,
      List.drop_succ_cons, List.drop_zero, muxBytes_eq, mux, List.take_succ_cons, List.take_zero,
      List.cons_append, List.nil_append, hsub', c3, c4, c5, c6, Bool.or_self, Bool.not_true, hsize]
    exact upSegT_correct v idx sub (v.length / 7 + 2) _ n false [] v rfl rfl rfl (by omega)

/-! ## downloads: every accepted download stores exactly the transferred bytes -/

/-- what an accepted `set_data` does to the node: the write callbacks are told exactly the bytes,
    then exactly the bytes are stored; dictionary and read callbacks are untouched -/
theorem setData_ok (n n' : Node) (idx sub : Nat) (data : Bytes)
    (h : setData n (some idx) (some sub) data true = .ok n') :
    n'.store = ((idx, sub), data) :: n.store ∧ n'.writeLog = n.writeLog ++ [(idx, sub, data)] ∧
    n'.od = n.od ∧ n'.readCb = n.readCb := by
  unfold setData at h
  split at h
  · cases h
  · split at h
    · cases h
    · split at h
      · cases h
      · dsimp only at h
        split at h
        · cases h
        · cases h; simp

/-- one segment-download exchange, fully evaluated: `fin` is what the final `set_data` (last
    segment only) returns -/
theorem segDown_step (s : Srv) (n n' : Node) (t last : Bool) (buf chunk : Bytes)
    (hb : s.buffer = some buf) (ht : s.toggle = tbit t) (hc : chunk.length ≤ 7)
    (hfin : (if last then setData n s.index s.sub (buf ++ chunk) true else .ok n) = .ok n') :
    srvStep s n (segDownReq t chunk.length last :: padTo 7 chunk) =
      ⟨{ s with buffer := some (buf ++ chunk), toggle := tbit (!t) }, n',
       [(0x20 + tbit t) :: List.replicate 7 0], false⟩ := by
  obtain ⟨h1, h2, h3, h4⟩ := req_cmds.2.2.2.2 t _ (le7_mem _ hc) last
  have hx : (RESPONSE_SEGMENT_DOWNLOAD ||| tbit t) = 0x20 + tbit t := by cases t <;> decide
  simp only [srvStep, dispatch, h1, REQUEST_UPLOAD, REQUEST_SEGMENT_UPLOAD, REQUEST_DOWNLOAD,
    REQUEST_SEGMENT_DOWNLOAD]
  simp only [segmentedDownload, h2, ht, hb, h3, List.drop_succ_cons, List.drop_zero,
    Nat.add_sub_cancel, padTo_take]
  have hcond : (if segDownReq t chunk.length last &&& NO_MORE_DATA ≠ 0
      then setData n s.index s.sub (buf ++ chunk) true else .ok n) = .ok n' := by
    cases last
    · have h4' : segDownReq t chunk.length false &&& NO_MORE_DATA = 0 := by simpa using h4
      simpa [h4'] using hfin
    · have h4' : ¬ (segDownReq t chunk.length true &&& NO_MORE_DATA = 0) := by simpa using h4
      simpa [h4'] using hfin
  rw [hcond]
  simp [segDownFinish, finish, tbit_xor, hx]

theorem downSegT_correct (data : Bytes) (idx sub : Nat) (n n' : Node)
    (hset : setData n (some idx) (some sub) data true = .ok n') :
    ∀ (cs : List Nat) (s : Srv) (t : Bool) (buf rem : Bytes),
      s.buffer = some buf → s.toggle = tbit t → s.index = some idx → s.sub = some sub →
      buf ++ rem = data → rem.length < cs.length →
      ∃ s', downSegT cs s n idx sub t rem = (s', n', .ok []) ∧ SrvWF s' := by
  intro cs
  induction cs with
  | nil => intro s t buf rem _ _ _ _ _ hl; simp at hl
  | cons k ks ih =>
    intro s t buf rem hb ht hi hsu hacc hl
    have hc : (rem.take (min (max k 1) 7)).length ≤ 7 := by simp only [List.length_take]; omega
    have hne : ¬ (0x20 + tbit t = 0x80) := by cases t <;> decide
    unfold downSegT
    dsimp only
    by_cases he : (rem.drop (min (max k 1) 7)).isEmpty
    · have hrem : rem.take (min (max k 1) 7) = rem := by
        have h0 : rem.drop (min (max k 1) 7) = [] := by simpa using he
        have := List.take_append_drop (min (max k 1) 7) rem
        rw [h0, List.append_nil] at this; exact this
      have hfin : (if (rem.drop (min (max k 1) 7)).isEmpty
          then setData n s.index s.sub (buf ++ rem.take (min (max k 1) 7)) true else .ok n) = .ok n' := by
        rw [if_pos he, hrem, hacc, hi, hsu, hset]
      have hE : (rem.drop (min (max k 1) 7)).isEmpty = true := he
      rw [hE] at hfin ⊢
      simp only [segDown_step s n n' t true buf _ hb ht hc hfin, oneResp, Bool.false_eq_true, if_false,
        List.length_cons, List.length_replicate, if_true, asAbort, hne, bne_self_eq_false]
      refine ⟨_, rfl, ?_⟩
      exact wf_of_tbit _ (!t) rfl
    · have hfin : (if (rem.drop (min (max k 1) 7)).isEmpty
          then setData n s.index s.sub (buf ++ rem.take (min (max k 1) 7)) true else .ok n) = .ok n := by
        rw [if_neg he]
      have hE : (rem.drop (min (max k 1) 7)).isEmpty = false := by simpa using he
      rw [hE] at hfin ⊢
      simp only [segDown_step s n n t false buf _ hb ht hc hfin, oneResp, Bool.false_eq_true, if_false,
        List.length_cons, List.length_replicate, if_true, asAbort, hne, bne_self_eq_false]
      have h0 : rem.drop (min (max k 1) 7) ≠ [] := by simpa using he
      have hlt : min (max k 1) 7 < rem.length := by
        by_cases h : min (max k 1) 7 < rem.length
        · exact h
        · exact absurd (List.drop_eq_nil_of_le (by omega)) h0
      exact ih { s with buffer := some (buf ++ rem.take (min (max k 1) 7)), toggle := tbit (!t) } (!t)
        (buf ++ rem.take (min (max k 1) 7)) (rem.drop (min (max k 1) 7)) rfl rfl hi hsu
        (by rw [List.append_assoc, List.take_append_drop]; exact hacc)
        (by simp only [List.length_drop, List.length_cons] at hl ⊢; omega)

/-- the expedited download exchange, fully evaluated -/
theorem expDown_step (s : Srv) (n n' : Node) (idx sub : Nat) (data : Bytes)
    (hidx : idx < 65536) (hsub : sub < 256) (h1 : 1 ≤ data.length) (h4 : data.length ≤ 4)
    (hset : setData n (some idx) (some sub) data true = .ok n') :
    srvStep s n (expDownReq data.length :: (mux idx sub ++ padTo 4 data)) =
      ⟨{ s with index := some idx, sub := some sub }, n', [0x60 :: (mux idx sub ++ [0, 0, 0, 0])], false⟩ := by
  have hmux : idx % 256 + 256 * (idx / 256 % 256) = idx := by omega
  have hsub' : sub % 256 = sub := Nat.mod_eq_of_lt hsub
  obtain ⟨c1, c2, c3, c4⟩ := req_cmds.2.2.2.1 data.length (in14_mem _ h1 h4)
  simp only [srvStep, mux, List.cons_append, List.nil_append, dispatch, c1, initDownload, hmux, hsub', c2, c3, c4,
    ne_eq, not_false_eq_true, padTo_take, hset, if_true]
  simp [REQUEST_DOWNLOAD, REQUEST_UPLOAD, REQUEST_SEGMENT_UPLOAD, finish, RESPONSE_DOWNLOAD, muxBytes, leBytes, hsub']

/-- the segmented download initiate exchange, fully evaluated -/
theorem segDownInit_step (s : Srv) (n : Node) (idx sub len : Nat) (hidx : idx < 65536) (hsub : sub < 256) :
    srvStep s n (0x21 :: (mux idx sub ++ leBytes 4 len)) =
      ⟨{ s with index := some idx, sub := some sub, buffer := some [], toggle := 0 }, n,
       [0x60 :: (mux idx sub ++ [0, 0, 0, 0])], false⟩ := by
  have hmux : idx % 256 + 256 * (idx / 256 % 256) = idx := by omega
  have hsub' : sub % 256 = sub := Nat.mod_eq_of_lt hsub
  obtain ⟨c1, c2, c3⟩ := req_cmds.2.2.1
  have h4 : ¬ (leBytes 4 len).length < 4 := by simp
  simp only [srvStep, mux, List.cons_append, List.nil_append, dispatch, c1, initDownload, hmux, hsub', c2, c3,
    ne_eq, not_true_eq_false, not_false_eq_true, h4, and_false, if_false]
  simp [REQUEST_DOWNLOAD, REQUEST_UPLOAD, REQUEST_SEGMENT_UPLOAD, finish, RESPONSE_DOWNLOAD, muxBytes, leBytes, hsub']

/-- **Download is exact.**  Whatever state the server is in, a by-the-book download that the node
    accepts (the entry exists, is writable, and for numeric types has the right length) —
    expedited, or segmented with *any* chunking of the payload into segments — is acknowledged
    frame by frame exactly as the reference client demands, and leaves the node with exactly the
    payload stored and the write callbacks told exactly the payload, once. -/
theorem download_exact (s : Srv) (n n' : Node) (idx sub : Nat) (data : Bytes) (expedited : Bool)
    (chunks : List Nat) (hwf : SrvWF s) (hidx : idx < 65536) (hsub : sub < 256)
    (hset : setData n (some idx) (some sub) data true = .ok n') :
    (∃ s', refDownload s n idx sub data expedited chunks = (s', n', .ok []) ∧ SrvWF s') ∧
    n'.store = ((idx, sub), data) :: n.store ∧ n'.writeLog = n.writeLog ++ [(idx, sub, data)] := by
  refine ⟨?_, (setData_ok n n' idx sub data hset).1, (setData_ok n n' idx sub data hset).2.1⟩
  have hne : ¬ ((0x60 : Nat) = 0x80) := by decide
  unfold refDownload
  by_cases hexp : expedited = true ∧ 1 ≤ data.length ∧ data.length ≤ 4
  · simp only [hexp, and_self, if_true]
    rw [expDown_step s n n' idx sub data hidx hsub hexp.2.1 hexp.2.2 hset]
    simp only [oneResp, Bool.false_eq_true, if_false, List.length_cons, List.length_append, List.length_nil, mux,
      asAbort, hne, if_true]
    exact ⟨_, rfl, hwf⟩
  · simp only [hexp, if_false]
    rw [segDownInit_step s n idx sub data.length hidx hsub]
    simp only [oneResp, Bool.false_eq_true, List.length_cons, List.length_append, List.length_nil, mux, if_true,
      asAbort, hne, bne_self_eq_false, if_false]
    exact downSegT_correct data idx sub n n' hset _ _ false [] data rfl rfl rfl rfl rfl
      (by simp only [List.length_append, List.length_replicate]; omega)

/-- … which later uploads then see: after an accepted download, a strict upload of the same entry
    returns exactly the downloaded bytes (entry readable, no read callback overriding it). -/
theorem download_then_upload (s : Srv) (n n' : Node) (idx sub : Nat) (data : Bytes) (hwf : SrvWF s)
    (hidx : idx < 65536) (hsub : sub < 256) (hlen : data.length < 2 ^ 32)
    (hset : setData n (some idx) (some sub) data true = .ok n')
    (hcb : lookup (idx, sub) n.readCb = none)
    (hr : ∀ obj, findObject n (some idx) (some sub) = .ok obj → accReadable obj.access = true) :
    ∃ s', refUpload s n' idx sub = (s', n', .ok data) ∧ SrvWF s' := by
  obtain ⟨hst, _, hod, hrc⟩ := setData_ok n n' idx sub data hset
  have hfo : findObject n' (some idx) (some sub) = findObject n (some idx) (some sub) := by
    simp only [findObject, hod]
  have hget : getData n' idx sub true = .ok data := by
    unfold getData
    rw [hfo]
    unfold setData at hset
    split at hset
    · cases hset
    · rename_i obj hobj
      have := hr obj hobj
      simp [this, hrc, hcb, hst, lookup]
  exact upload_exact s n' idx sub data hwf hidx hsub hget hlen

/-! ## histories -/

/-- **History safety.**  From a freshly created node, after *any* sequence of non-empty frames —
    valid transfers, restarts, out-of-sequence segments, unknown commands, truncated frames —
    nothing was raised, every request other than a client abort got exactly one 8-byte response,
    and the state again satisfies the invariant under which `upload_exact` / `download_exact`
    hold; so transfers placed anywhere in such a history complete exactly. -/
theorem history_safe (n : Node) (frames : List Bytes) (hne : ∀ f ∈ frames, f ≠ []) :
    ∀ (s : Srv), SrvWF s →
      SrvWF (srvRun s n frames).1 ∧
      (∀ o ∈ (srvRun s n frames).2.2, o.2 = false) ∧
      ((srvRun s n frames).2.2.length = frames.length) := by
  induction frames generalizing n with
  | nil => intro s hwf; exact ⟨hwf, by simp [srvRun], rfl⟩
  | cons f fs ih =>
    intro s hwf
    have hf := hne f (by simp)
    have hstep := step_wf s n f hwf
    have hr := never_raises s n f hf
    obtain ⟨i1, i2, i3⟩ := ih (srvStep s n f).node (fun g hg => hne g (by simp [hg])) _ hstep
    simp only [srvRun]
    refine ⟨i1, ?_, by simp [i3]⟩
    intro o ho
    simp only [List.mem_cons] at ho
    rcases ho with rfl | ho
    · exact hr
    · exact i2 o ho

/-! ## non-vacuity -/

def exNode : Node :=
  { od := [(0x2000, .var ⟨some 0x0A, 0, none, some (.bytes [1, 2, 3, 4, 5, 6, 7, 8, 9])⟩)],
    store := [], readCb := [], writeLog := [] }

example : getData exNode 0x2000 0 true = .ok [1, 2, 3, 4, 5, 6, 7, 8, 9] := rfl
example : ∃ s', refUpload srvInit exNode 0x2000 0 = (s', exNode, .ok [1, 2, 3, 4, 5, 6, 7, 8, 9]) ∧ SrvWF s' :=
  upload_exact srvInit exNode 0x2000 0 _ srvInit_wf (by decide) (by decide) rfl (by decide)
example : ∃ n', setData exNode (some 0x2000) (some 0) [] true = .ok n' := ⟨_, rfl⟩

end Canopen.C02
