/-
C06 — Refused SDO accesses report the standard abort code and change nothing.

Server side: theorems about `CanopenModel/Sdo/Server.lean` and the strict reference client.
Every refusal is observed through the reference client, which accepts an abort only if it carries
the multiplexer of the transfer — so "abort with code c" below always includes "and the
multiplexer of the transfer".  (The client-side decoding of abort frames is `client_decodes_abort`
in CanopenProofs/C01.lean, over the client model.)
-/
import CanopenProofs.C02

namespace Canopen.C06
open Canopen Canopen.Sdo Canopen.Spec Canopen.Gen.SdoConst Canopen.C02

/-! ## which condition gives which code (node level) -/

/-- `get_data` refusals: missing index, missing sub-index, write-only entry, entry without value -/
theorem read_refusal_codes (n : Node) (idx sub : Nat) :
    (lookup idx n.od = none → getData n idx sub true = .error (.abort 0x06020000)) ∧
    (∀ ms, lookup idx n.od = some (.record ms) → lookup sub ms = none →
        getData n idx sub true = .error (.abort 0x06090011)) ∧
    (∀ obj, findObject n (some idx) (some sub) = .ok obj → accReadable obj.access = false →
        getData n idx sub true = .error (.abort 0x06010001)) ∧
    (∀ obj, findObject n (some idx) (some sub) = .ok obj → accReadable obj.access = true →
        lookup (idx, sub) n.readCb = none → lookup (idx, sub) n.store = none →
        obj.value = none → obj.default = none →
        getData n idx sub true = .error (.abort 0x060A0023)) := by
  refine ⟨?_, ?_, ?_, ?_⟩
  · intro h; simp [getData, findObject, h]
  · intro ms h hs; simp [getData, findObject, h, hs]
  · intro obj ho hr; simp [getData, ho, hr]
  · intro obj ho hr h1 h2 h3 h4; simp [getData, ho, hr, h1, h2, h3, h4]

/-- `set_data` refusals: missing index, missing sub-index, read-only / constant entry, numeric
    entry written with the wrong number of bytes -/
theorem write_refusal_codes (n : Node) (idx sub : Nat) (data : Bytes) :
    (lookup idx n.od = none → setData n (some idx) (some sub) data true = .error (.abort 0x06020000)) ∧
    (∀ ms, lookup idx n.od = some (.record ms) → lookup sub ms = none →
        setData n (some idx) (some sub) data true = .error (.abort 0x06090011)) ∧
    (∀ obj, findObject n (some idx) (some sub) = .ok obj → accWritable obj.access = false →
        setData n (some idx) (some sub) data true = .error (.abort 0x06010002)) ∧
    (∀ obj, findObject n (some idx) (some sub) = .ok obj → accWritable obj.access = true →
        isNumberType obj.dtype = true → 8 * data.length ≠ Codec.bitLen obj.dtype →
        setData n (some idx) (some sub) data true = .error (.abort 0x06070010)) := by
  refine ⟨?_, ?_, ?_, ?_⟩
  · intro h; simp [setData, findObject, h]
  · intro ms h hs; simp [setData, findObject, h, hs]
  · intro obj ho hw; simp [setData, ho, hw]
  · intro obj ho hw hn hl; simp [setData, ho, hw, hn, hl]

/-- a download the dictionary would accept but that a write callback of the application refuses
    by raising `SdoAbortedError(code)`: `set_data` answers with exactly that code (and by
    `refused_write_inert` the client sees one abort frame with it and the node is unchanged) -/
theorem callback_refusal_code (n : Node) (idx sub code : Nat) (data : Bytes) (obj : VarDesc)
    (ho : findObject n (some idx) (some sub) = .ok obj) (hw : accWritable obj.access = true)
    (hl : isNumberType obj.dtype = true → 8 * data.length = Codec.bitLen obj.dtype)
    (hr : lookup (idx, sub) n.refuse = some code) :
    setData n (some idx) (some sub) data true = .error (.abort code) := by
  unfold setData
  rw [ho]
  by_cases hn : isNumberType obj.dtype = true
  · simp [hw, hn, hl hn, hr]
  · simp [hw, hn, hr]

theorem access_codes :
    accReadable 2 = false ∧ accWritable 1 = false ∧ accWritable 3 = false ∧
    accReadable 0 = true ∧ accReadable 1 = true ∧ accReadable 3 = true ∧
    accWritable 0 = true ∧ accWritable 2 = true := by decide

/-! ## the abort frame -/

theorem abortFrame_eq (s : Srv) (idx sub code : Nat) (hi : s.index = some idx) (hs : s.sub = some sub)
    (hidx : idx < 65536) (hsub : sub < 256) :
    abortFrame s code = 0x80 :: (mux idx sub ++ leBytes 4 code) := by
  have : sub % 256 = sub := Nat.mod_eq_of_lt hsub
  simp [abortFrame, hi, hs, RESPONSE_ABORTED, mux, leBytes, this]

theorem asAbort_abortFrame (idx sub code : Nat) (hc : code < 2 ^ 32) :
    asAbort (0x80 :: (mux idx sub ++ leBytes 4 code)) idx sub = some (.aborted code) := by
  have h : leVal (leBytes 4 code) = code := by
    rw [leVal_leBytes]; exact Nat.mod_eq_of_lt (by simpa using hc)
  simp [asAbort, mux, h]

/-! ## refused reads -/

/-- A read the node refuses with code `c` is answered by exactly one abort frame carrying `c` and
    the multiplexer of the request; nothing in the node changes. -/
theorem refused_read (s : Srv) (n : Node) (idx sub code : Nat) (hidx : idx < 65536) (hsub : sub < 256)
    (hc : code < 2 ^ 32) (h : getData n idx sub true = .error (.abort code)) :
    ∃ s', refUpload s n idx sub = (s', n, .aborted code) := by
  have hmux : idx % 256 + 256 * (idx / 256 % 256) = idx := by omega
  have hsub' : sub % 256 = sub := Nat.mod_eq_of_lt hsub
  unfold refUpload
  simp only [srvStep, mux, List.cons_append, List.nil_append, dispatch, req_cmds.1, if_true, initUpload,
    hmux, hsub', h, finish, errCode]
  rw [abortFrame_eq _ idx sub code rfl rfl hidx hsub]
  simp only [oneResp, Bool.false_eq_true, if_false, List.length_cons, List.length_append, List.length_nil,
    mux, leBytes_length, if_true]
  have := asAbort_abortFrame idx sub code hc
  simp only [mux] at this
  simp only [List.cons_append, List.nil_append] at this ⊢
  rw [this]
  exact ⟨_, rfl⟩

/-! ## refused writes -/

/-- the expedited download exchange when `set_data` refuses -/
theorem expDown_refused (s : Srv) (n : Node) (idx sub code : Nat) (data : Bytes)
    (hidx : idx < 65536) (hsub : sub < 256) (h1 : 1 ≤ data.length) (h4 : data.length ≤ 4)
    (hset : setData n (some idx) (some sub) data true = .error (.abort code)) :
    srvStep s n (expDownReq data.length :: (mux idx sub ++ padTo 4 data)) =
      ⟨{ s with index := some idx, sub := some sub }, n,
       [0x80 :: (mux idx sub ++ leBytes 4 code)], false⟩ := by
  have hmux : idx % 256 + 256 * (idx / 256 % 256) = idx := by omega
  have hsub' : sub % 256 = sub := Nat.mod_eq_of_lt hsub
  obtain ⟨c1, c2, c3, c4⟩ := req_cmds.2.2.2.1 data.length (in14_mem _ h1 h4)
  simp only [srvStep, mux, List.cons_append, List.nil_append, dispatch, c1, initDownload, hmux, hsub', c2, c3, c4,
    ne_eq, not_false_eq_true, padTo_take, hset, if_true]
  simp only [REQUEST_DOWNLOAD, REQUEST_UPLOAD, REQUEST_SEGMENT_UPLOAD, finish, errCode,
    show ¬ ((32 : Nat) = 64) from by decide, show ¬ ((32 : Nat) = 96) from by decide, if_false, if_true,
    List.nil_append]
  rw [abortFrame_eq _ idx sub code rfl rfl hidx hsub]
  simp [mux, hsub']

/-- the last segment of a segmented download when `set_data` refuses: buffer was extended, toggle
    and node are untouched, one abort frame with the transfer's multiplexer -/
theorem segDown_refused (s : Srv) (n : Node) (t : Bool) (buf chunk : Bytes) (idx sub code : Nat)
    (hb : s.buffer = some buf) (ht : s.toggle = tbit t) (hc : chunk.length ≤ 7)
    (hi : s.index = some idx) (hsu : s.sub = some sub) (hidx : idx < 65536) (hsub : sub < 256)
    (hfin : setData n (some idx) (some sub) (buf ++ chunk) true = .error (.abort code)) :
    srvStep s n (segDownReq t chunk.length true :: padTo 7 chunk) =
      ⟨{ s with buffer := some (buf ++ chunk) }, n, [0x80 :: (mux idx sub ++ leBytes 4 code)], false⟩ := by
  obtain ⟨h1, h2, h3, h4⟩ := req_cmds.2.2.2.2 t _ (le7_mem _ hc) true
  have h4' : ¬ (segDownReq t chunk.length true &&& NO_MORE_DATA = 0) := by simpa using h4
  simp only [srvStep, dispatch, h1, REQUEST_UPLOAD, REQUEST_SEGMENT_UPLOAD, REQUEST_DOWNLOAD,
    REQUEST_SEGMENT_DOWNLOAD]
  simp only [segmentedDownload, h2, ht, hb, h3, List.drop_succ_cons, List.drop_zero,
    Nat.add_sub_cancel, padTo_take, ne_eq, h4', not_false_eq_true, if_true, hi, hsu, hfin]
  simp [segDownFinish, finish, errCode]
  exact abortFrame_eq _ idx sub code rfl rfl hidx hsub

theorem downSegT_refused (data : Bytes) (idx sub code : Nat) (n : Node) (hidx : idx < 65536)
    (hsub : sub < 256) (hcode : code < 2 ^ 32)
    (hset : setData n (some idx) (some sub) data true = .error (.abort code)) :
    ∀ (cs : List Nat) (s : Srv) (t : Bool) (buf rem : Bytes),
      s.buffer = some buf → s.toggle = tbit t → s.index = some idx → s.sub = some sub →
      buf ++ rem = data → rem.length < cs.length →
      ∃ s', downSegT cs s n idx sub t rem = (s', n, .aborted code) := by
  intro cs
  induction cs with
  | nil => intro s t buf rem _ _ _ _ _ hl; simp at hl
  | cons k ks ih =>
    intro s t buf rem hb ht hi hsu hacc hl
    have hc : (rem.take (min (max k 1) 7)).length ≤ 7 := by simp only [List.length_take]; omega
    have hne : ¬ (0x20 + tbit t = 0x80) := by cases t <;> decide
    unfold downSegT
    dsimp only
    by_cases he : (rem.drop (min (max k 1) 7)).isEmpty
    · have hrem : rem.take (min (max k 1) 7) = rem := by
        have h0 : rem.drop (min (max k 1) 7) = [] := by simpa using he
        have := List.take_append_drop (min (max k 1) 7) rem
        rw [h0, List.append_nil] at this; exact this
      have hE : (rem.drop (min (max k 1) 7)).isEmpty = true := he
      rw [hE]
      rw [segDown_refused s n t buf _ idx sub code hb ht hc hi hsu hidx hsub (by rw [hrem, hacc]; exact hset)]
      simp only [oneResp, Bool.false_eq_true, if_false, List.length_cons, List.length_append, List.length_nil,
        mux, leBytes_length, if_true]
      have := asAbort_abortFrame idx sub code hcode
      simp only [mux] at this
      rw [this]
      exact ⟨_, rfl⟩
    · have hE : (rem.drop (min (max k 1) 7)).isEmpty = false := by simpa using he
      have hfin : (if false = true then setData n s.index s.sub (buf ++ rem.take (min (max k 1) 7)) true
          else .ok n) = Except.ok n := by simp
      rw [hE]
      simp only [segDown_step s n n t false buf _ hb ht hc hfin, oneResp, Bool.false_eq_true, if_false,
        List.length_cons, List.length_replicate, if_true, asAbort, hne, bne_self_eq_false]
      have h0 : rem.drop (min (max k 1) 7) ≠ [] := by simpa using he
      have hlt : min (max k 1) 7 < rem.length := by
        by_cases h : min (max k 1) 7 < rem.length
        · exact h
        · exact absurd (List.drop_eq_nil_of_le (by omega)) h0
      exact ih { s with buffer := some (buf ++ rem.take (min (max k 1) 7)), toggle := tbit (!t) } (!t)
        (buf ++ rem.take (min (max k 1) 7)) (rem.drop (min (max k 1) 7)) rfl rfl hi hsu
        (by rw [List.append_assoc, List.take_append_drop]; exact hacc)
        (by simp only [List.length_drop, List.length_cons] at hl ⊢; omega)

/-- **A refused write reports its code and is inert.**  If the node refuses the payload with code
    `c` (read-only or constant entry, missing index or sub-index, numeric entry with the wrong
    length: `write_refusal_codes`), then a by-the-book download — expedited, or segmented with any
    chunking, where the refusal only comes at the last segment — ends in one abort frame with `c`
    and the transfer's multiplexer, and the node (stored values, write-callback log) is exactly as
    before. -/
theorem refused_write_inert (s : Srv) (n : Node) (idx sub code : Nat) (data : Bytes)
    (expedited : Bool) (chunks : List Nat) (hidx : idx < 65536) (hsub : sub < 256)
    (hcode : code < 2 ^ 32)
    (hset : setData n (some idx) (some sub) data true = .error (.abort code)) :
    ∃ s', refDownload s n idx sub data expedited chunks = (s', n, .aborted code) := by
  have hne : ¬ ((0x60 : Nat) = 0x80) := by decide
  unfold refDownload
  by_cases hexp : expedited = true ∧ 1 ≤ data.length ∧ data.length ≤ 4
  · simp only [hexp, and_self, if_true]
    rw [expDown_refused s n idx sub code data hidx hsub hexp.2.1 hexp.2.2 hset]
    simp only [oneResp, Bool.false_eq_true, if_false, List.length_cons, List.length_append, List.length_nil,
      mux, leBytes_length, if_true]
    have := asAbort_abortFrame idx sub code hcode
    simp only [mux] at this
    rw [this]
    exact ⟨_, rfl⟩
  · simp only [hexp, if_false]
    rw [segDownInit_step s n idx sub data.length hidx hsub]
    simp only [oneResp, Bool.false_eq_true, List.length_cons, List.length_append, List.length_nil, mux, if_true,
      asAbort, hne, bne_self_eq_false, if_false]
    exact downSegT_refused data idx sub code n hidx hsub hcode hset _ _ false [] data rfl rfl rfl rfl rfl
      (by simp only [List.length_append, List.length_replicate]; omega)

theorem initUpload_node (s : Srv) (n : Node) (req : Bytes) : (initUpload s n req).node = n := by
  unfold initUpload
  repeat (first | split | (dsimp only))
  all_goals rfl

theorem segmentedUpload_node (s : Srv) (n : Node) (c : Nat) : (segmentedUpload s n c).node = n := by
  unfold segmentedUpload
  repeat (first | split | (dsimp only))
  all_goals rfl

theorem initDownload_inert (s : Srv) (n : Node) (req : Bytes) (h : (initDownload s n req).err ≠ none) :
    (initDownload s n req).node = n := by
  unfold initDownload at h ⊢
  split
  · rename_i command b1 b2 b3 rest
    dsimp only at h ⊢
    by_cases hc : command &&& EXPEDITED ≠ 0
    · rw [if_pos hc] at h ⊢
      generalize setData n (some (b1 + 256 * b2)) (some b3) _ true = r at h ⊢
      cases r with
      | error e => rfl
      | ok n' => exact absurd rfl h
    · rw [if_neg hc] at h ⊢
      split <;> rfl
  · rfl

theorem segmentedDownload_inert (s : Srv) (n : Node) (c : Nat) (req : Bytes)
    (h : (segmentedDownload s n c req).err ≠ none) : (segmentedDownload s n c req).node = n := by
  unfold segmentedDownload at h ⊢
  split
  · rfl
  · dsimp only
    split
    · rfl
    · rename_i buf hb
      simp only [(by simp_all : (¬ (c &&& TOGGLE_BIT ≠ s.toggle))), if_false, hb] at h
      unfold segDownFinish at h ⊢
      split
      · rfl
      · rename_i n' hfin
        rw [hfin] at h
        exact absurd rfl h

theorem requestAborted_node (s : Srv) (n : Node) (req : Bytes) : (requestAborted s n req).node = n := by
  unfold requestAborted
  split <;> rfl

/-- In *every* refusal branch of `on_request`, for any frame whatsoever: when the handler ends
    in an exception the node is untouched (store and write-callback log unchanged). -/
theorem any_refusal_inert (s : Srv) (n : Node) (command : Nat) (req : Bytes)
    (h : (dispatch s n command req).err ≠ none) : (dispatch s n command req).node = n := by
  unfold dispatch at h ⊢
  dsimp only at h ⊢
  split
  · exact initUpload_node s n req
  · split
    · exact segmentedUpload_node s n command
    · split
      · rename_i h1 h2 h3
        rw [if_neg h1, if_neg h2, if_pos h3] at h
        exact initDownload_inert s n req h
      · split
        · rename_i h1 h2 h3 h4
          rw [if_neg h1, if_neg h2, if_neg h3, if_pos h4] at h
          exact segmentedDownload_inert s n command req h
        · split
          · exact initUpload_node s n req
          · split
            · rfl
            · split
              · exact requestAborted_node s n req
              · rfl

/-! ## protocol-level refusals -/

/-- A segment request with the wrong toggle bit is answered with 0x05030000 and the running
    transfer's multiplexer, in both directions; state and node are unchanged. -/
theorem toggle_error (s : Srv) (n : Node) (t : Bool) (idx sub : Nat) (ht : s.toggle = tbit t)
    (hi : s.index = some idx) (hsu : s.sub = some sub) (hidx : idx < 65536) (hsub : sub < 256) :
    srvStep s n (segUpReq (!t) :: List.replicate 7 0) =
      ⟨s, n, [0x80 :: (mux idx sub ++ leBytes 4 0x05030000)], false⟩ ∧
    ∀ (chunk : Bytes) (last : Bool), chunk.length ≤ 7 →
      srvStep s n (segDownReq (!t) chunk.length last :: padTo 7 chunk) =
        ⟨s, n, [0x80 :: (mux idx sub ++ leBytes 4 0x05030000)], false⟩ := by
  have hne : tbit (!t) ≠ tbit t := by cases t <;> decide
  constructor
  · obtain ⟨h1, h2⟩ := req_cmds.2.1 (!t)
    simp only [srvStep, dispatch, h1, REQUEST_UPLOAD, REQUEST_SEGMENT_UPLOAD]
    simp only [segmentedUpload, h2, ht, ne_eq, hne, not_false_eq_true, if_true, finish, errCode,
      show ¬ ((96 : Nat) = 64) from by decide, if_false, List.nil_append]
    rw [abortFrame_eq s idx sub _ hi hsu hidx hsub]
  · intro chunk last hc
    obtain ⟨h1, h2, _, _⟩ := req_cmds.2.2.2.2 (!t) _ (le7_mem _ hc) last
    simp only [srvStep, dispatch, h1, REQUEST_UPLOAD, REQUEST_SEGMENT_UPLOAD, REQUEST_DOWNLOAD,
      REQUEST_SEGMENT_DOWNLOAD]
    simp only [segmentedDownload, h2, ht, ne_eq, hne, not_false_eq_true, if_true, finish, errCode,
      show ¬ ((0 : Nat) = 64) from by decide, show ¬ ((0 : Nat) = 96) from by decide,
      show ¬ ((0 : Nat) = 32) from by decide, if_false, List.nil_append]
    rw [abortFrame_eq s idx sub _ hi hsu hidx hsub]

/-- An unknown command specifier (ccs = 7) and the unsupported block download (ccs = 6) are
    answered with 0x05040001 and the multiplexer of the running transfer; nothing changes. -/
theorem unknown_command (s : Srv) (n : Node) (command : Nat) (rest : Bytes) (idx sub : Nat)
    (hc : command &&& 0xE0 = 0xE0 ∨ command &&& 0xE0 = 0xC0)
    (hi : s.index = some idx) (hsu : s.sub = some sub) (hidx : idx < 65536) (hsub : sub < 256) :
    srvStep s n (command :: rest) = ⟨s, n, [0x80 :: (mux idx sub ++ leBytes 4 0x05040001)], false⟩ := by
  rcases hc with hc | hc <;>
  · simp only [srvStep, dispatch, hc, REQUEST_UPLOAD, REQUEST_SEGMENT_UPLOAD, REQUEST_DOWNLOAD,
      REQUEST_SEGMENT_DOWNLOAD, REQUEST_BLOCK_UPLOAD, REQUEST_BLOCK_DOWNLOAD, REQUEST_ABORTED]
    simp [finish, errCode, abortFrame_eq s idx sub _ hi hsu hidx hsub]

/-! ## non-vacuity -/

def roNode : Node :=
  { od := [(0x2000, .var ⟨some 0x06, 1, some (.int 7), none⟩),
           (0x2001, .record [(1, ⟨some 0x06, 0, none, none⟩)])],
    store := [], readCb := [], writeLog := [] }

example : setData roNode (some 0x2000) (some 0) [1, 2] true = .error (.abort 0x06010002) := rfl
example : setData roNode (some 0x2001) (some 1) [1, 2, 3] true = .error (.abort 0x06070010) := rfl
example : getData roNode 0x2001 1 true = .error (.abort 0x060A0023) := rfl
example : getData roNode 0x2001 2 true = .error (.abort 0x06090011) := rfl

end Canopen.C06
