/-
C11 — NMT commands, states and heartbeats follow the CiA 301 state machine.

Model: `CanopenModel/Nmt.lean` (`NmtBase`, `NmtMaster`, `NmtSlave` of canopen/nmt.py as wired by
`RemoteNode`/`LocalNode.associate_network`, two networks on one simulated bus) instantiated with the
**generated** tables `NMT_STATES`, `NMT_COMMANDS`, `COMMAND_TO_STATE`.
Specification: `CanopenModel/Spec/NmtMachine.lean` (CiA 301 machine, written independently).
Helper lemmas and the specification's reading of a history (`specOp`/`specRun`: how the CiA 301
machine of the node moves on each operation; `specMasterOp`: what the master must report after
commands and heartbeats it has seen; `specHbView`: CiA 301 decoding of the seven state bits;
`lastHb`: the heartbeat value a batch of frames leaves behind): `CanopenProofs/Lemmas/NmtSys.lean`.

All statements quantify over every history (`List Op`, any length), every command specifier /
target / heartbeat byte (`Nat`), every string (`List Char`), every system state where no history is
mentioned.  The only finite facts are about the tables (256 / 128 rows, `decide +kernel`), lifted to
all naturals / all strings in `Lemmas/Nmt.lean`.

The model follows the code **after the repair of F13** (`NmtBase.on_command` / `send_command`
evaluated `NMT_STATES[self._state]` for a log line and raised `KeyError` whenever the last heartbeat
had carried an undefined state value; see the regression `example` at the end).
-/
import CanopenProofs.Lemmas.NmtSys

namespace Canopen.C11
open Canopen Canopen.Nmt Canopen.Gen.Nmt
open Canopen.Spec.Nmt

/-! ## T tables_match_spec -/

/-- assigning the name of a state leads to that state, from anywhere (specification sanity) -/
theorem names_lead_to_state : ∀ T T' : St, assign T' T.name = T := by
  intro T T'; cases T <;> cases T' <;> decide

/-- The code's three tables are the CiA 301 tables: `COMMAND_TO_STATE` maps exactly the defined
    command specifiers, each to the heartbeat code of its CiA 301 destination (for every `Nat`);
    `NMT_STATES` names exactly the CiA 301 states by their codes; `NMT_COMMANDS` accepts exactly the
    eight names of the specification, each with the specifier of the service it requests (for every
    string); and a state's name requests the service that leads to that state. -/
theorem tables_match_spec :
    (∀ c : Nat, lookupNat COMMAND_TO_STATE c = (decodeCs c).map (fun cmd => cmd.dest.code)) ∧
    (∀ v : Nat, lookupNat NMT_STATES v = (allStates.find? (fun s => s.code = v)).map St.name) ∧
    (∀ T : St, stateView T.code = .known T.name) ∧
    (∀ n : List Char, lookupName NMT_COMMANDS n = (cmdOfName n).map Cmd.cs) ∧
    (∀ T T' : St, assign T' T.name = T) :=
  ⟨cmdTable_spec, states_only_spec, stateView_code, names_spec, names_lead_to_state⟩

/-! ## T master_frame -/

/-- From **any** system state (whatever heartbeats or commands came before): a master API call
    with a byte-sized code emits exactly the one frame `[code, node id]` on CAN id 0 and does not
    raise — for defined and undefined codes alike; the broadcast master emits `[code, 0]`; a state
    assignment by a valid name emits the frame with the CiA 301 specifier of that name.  The slave
    answers nothing (the step's `tx` is exactly that one frame). -/
theorem master_frame (sys : Sys) (code : Nat) (hc : code < 256) (hid : sys.master.id < 256) :
    ((step sys (.api code)).2.res = .ok ∧
      (step sys (.api code)).2.tx = [(.M, ⟨0, [code, sys.master.id]⟩)]) ∧
    ((step sys (.bcast code)).2.res = .ok ∧
      (step sys (.bcast code)).2.tx = [(.M, ⟨0, [code, 0]⟩)]) ∧
    (∀ n cmd, cmdOfName n = some cmd →
      ((step sys (.setName n)).2.res = .ok ∧
        (step sys (.setName n)).2.tx = [(.M, ⟨0, [cmd.cs, sys.master.id]⟩)]) ∧
      ((step sys (.bcastName n)).2.res = .ok ∧
        (step sys (.bcastName n)).2.tx = [(.M, ⟨0, [cmd.cs, 0]⟩)])) := by
  refine ⟨?_, ?_, ?_⟩
  · rw [step_api_ok sys code hc hid]; exact ⟨rfl, rfl⟩
  · rw [step_bcast_ok sys code hc]; exact ⟨rfl, rfl⟩
  · intro n cmd hn
    rw [step_setName_valid sys n cmd hn, step_api_ok sys cmd.cs (cs_lt cmd) hid,
      step_bcastName_valid sys n cmd hn, step_bcast_ok sys cmd.cs (cs_lt cmd)]
    exact ⟨⟨rfl, rfl⟩, rfl, rfl⟩

/-- the same, spelled out for the state reached by an arbitrary history of a node pair with id `own` -/
theorem master_frame_history (own : Nat) (hown : own < 256) (od : Option Nat) (ops : List Op)
    (code : Nat) (hc : code < 256) :
    (step (runFrom (Sys.init own od) ops) (.api code)).2.res = .ok ∧
    (step (runFrom (Sys.init own od) ops) (.api code)).2.tx = [(.M, ⟨0, [code, own]⟩)] := by
  have hi := inv_run own ops _ (inv_init own od)
  have := (master_frame (runFrom (Sys.init own od) ops) code hc (by rw [hi.1]; exact hown)).1
  rw [hi.1] at this
  exact this

example : ((Sys.init 5 none).master.id < 256) ∧ (255 < 256) := by decide

/-! ## T views_agree -/

/-- Starting anywhere master and slave agree with the CiA 301 machine in state `T`: for every
    history of commands (master API by code or by any name, third-party node-control frames of any
    content — any specifier, any target, malformed ones included) and after **every prefix** of it,
    master view = slave view = the name of the state the CiA 301 machine is in. -/
theorem views_agree_from (own : Nat) (hown : own < 256) (sys : Sys) (T : St) (h0 : Agree own sys T)
    (ops : List Op) (hc : ∀ o ∈ ops, isCommand o = true) (k : Nat) :
    (runFrom sys (ops.take k)).masterView = .known (specRun own T (ops.take k)).name ∧
    (runFrom sys (ops.take k)).slaveView = .known (specRun own T (ops.take k)).name := by
  have h := agree_run own hown (ops.take k) sys T h0
    (fun o ho => hc o (List.mem_of_mem_take ho))
  exact ⟨by rw [Sys.masterView, h.2.1, stateView_code], by rw [Sys.slaveView, h.2.2, stateView_code]⟩

/-- … in particular from the freshly created pair of nodes -/
theorem views_agree (own : Nat) (hown : own < 256) (od : Option Nat)
    (ops : List Op) (hc : ∀ o ∈ ops, isCommand o = true) (k : Nat) :
    (runFrom (Sys.init own od) (ops.take k)).masterView =
      .known (specRun own .initialising (ops.take k)).name ∧
    (runFrom (Sys.init own od) (ops.take k)).slaveView =
      .known (specRun own .initialising (ops.take k)).name :=
  views_agree_from own hown _ _ (agree_init own od) ops hc k

/-- non-vacuity: a history in the class that visits defined, undefined, broadcast, foreign and
    malformed commands and ends somewhere else than it started -/
def demoOps : List Op :=
  [.api 1, .bus [2, 0], .setName St.preOperational.name, .bus [129, 6], .api 7, .bus [130],
   .setName ['x']]
example : ∀ o ∈ demoOps, isCommand o = true := by decide
example : specRun 5 .initialising demoOps = .preOperational := by decide
example : (runFrom (Sys.init 5 (some 0)) demoOps).masterView = .known St.preOperational.name ∧
    (runFrom (Sys.init 5 (some 0)) (demoOps.take 2)).slaveView = .known St.stopped.name := by decide

/-! ## T slave_tracks_spec -/

/-- On **every** history of every operation kind (master API, broadcasts through `Network.nmt`,
    third-party frames, heartbeat and boot-up frames, local application calls, heartbeat-time writes,
    producer ticks, waits) the slave reports the state of the CiA 301 machine that has received the
    node-control frames addressed to the node and the local application's transitions. -/
theorem slave_tracks_spec (own : Nat) (hown : own < 256) (od : Option Nat) (ops : List Op) :
    (runFrom (Sys.init own od) ops).slaveView = .known (specRun own .initialising ops).name := by
  rw [Sys.slaveView, slave_run own hown ops _ .initialising (inv_init own od) rfl, stateView_code]

example : (runFrom (Sys.init 5 (some 100)) [.bcast 1, .hb 5 [4], .sapi 2, .tick, .bcastName St.sleep.name]).slaveView
    = .known St.sleep.name := by decide

/-! ## T other_target_inert -/

/-- After any history, a node-control frame for another node (target ≠ own, ≠ 0) changes nothing
    at all — not the master, not the slave, not the heartbeat producer — raises nothing and makes
    nobody transmit. -/
theorem other_target_inert (own : Nat) (od : Option Nat) (ops : List Op) (cs tgt : Nat) (rest : Bytes)
    (h1 : tgt ≠ own) (h2 : tgt ≠ 0) :
    step (runFrom (Sys.init own od) ops) (.bus (cs :: tgt :: rest)) =
      (runFrom (Sys.init own od) ops, ⟨.ok, [(.X, ⟨0, cs :: tgt :: rest⟩)], []⟩) := by
  have hi := inv_run own ops _ (inv_init own od)
  generalize runFrom (Sys.init own od) ops = sys at hi
  rw [step_bus_wf]
  have hr1 : recvNum sys.master.id sys.master.state cs tgt = sys.master.state := by
    simp [recvNum, hi.1, h1, h2]
  have hr2 : slaveRecv sys.slave cs tgt = sys.slave := by
    unfold slaveRecv
    have : recvNum sys.slave.id sys.slave.state cs tgt = sys.slave.state := by
      simp [recvNum, hi.2.1, h1, h2]
    rw [this]
    exact updateHeartbeat_fix own _ hi.2
  rw [hr1, hr2]


example : (6 : Nat) ≠ 5 ∧ (6 : Nat) ≠ 0 ∧
    (runFrom (Sys.init 5 (some 100)) [.sapi 128, .api 1]).slave.task = some ⟨0x705, [5], 100⟩ := by decide

/-! ## T heartbeat_decoding -/

/-- For every byte (every `Nat`, in fact) and from any state: the master decodes the seven state
    bits; the reported state is CiA 301's reading of them (`UNKNOWN STATE 'n'` for undefined
    values); the toggle bit is ignored (clearing or setting bit 7 gives the same result); the
    callback gets the masked value; the slave and the broadcast master are untouched and nothing is
    sent; boot-up (state bits 0) is reported as PRE-OPERATIONAL; a heartbeat of another node changes
    nothing. -/
theorem heartbeat_decoding (sys : Sys) (b : Nat) (rest : Bytes) :
    -- the master object alone
    (sys.master.onHeartbeat (b :: rest) =
      some ({ sys.master with state := hbState (b % 128), received := some (b % 128) }, b % 128)) ∧
    -- toggle bit ignored
    (sys.master.onHeartbeat ((b % 128) :: rest) = sys.master.onHeartbeat (b :: rest) ∧
     sys.master.onHeartbeat ((b % 128 + 128) :: rest) = sys.master.onHeartbeat (b :: rest)) ∧
    -- on the bus: reported state, callback, nobody else affected, nothing sent
    ((step sys (.hb sys.master.id (b :: rest))).1.masterView = specHbView (b % 128) ∧
     (step sys (.hb sys.master.id (b :: rest))).1.slave = sys.slave ∧
     (step sys (.hb sys.master.id (b :: rest))).1.bcast = sys.bcast ∧
     (step sys (.hb sys.master.id (b :: rest))).2 =
        ⟨.ok, [(.X, ⟨0x700 + sys.master.id, b :: rest⟩)], [b % 128]⟩) ∧
    -- boot-up
    (b % 128 = 0 → (step sys (.hb sys.master.id (b :: rest))).1.masterView =
        .known St.preOperational.name) ∧
    -- heartbeat of another node
    (∀ node, node ≠ sys.master.id → step sys (.hb node (b :: rest)) =
        (sys, ⟨.ok, [(.X, ⟨0x700 + node, b :: rest⟩)], []⟩)) := by
  have hstep : step sys (.hb sys.master.id (b :: rest)) =
      ({ master := { sys.master with state := hbState (b % 128), received := some (b % 128) },
         bcast := sys.bcast, slave := sys.slave },
       ⟨.ok, [(.X, ⟨0x700 + sys.master.id, b :: rest⟩)], [b % 128]⟩) := by
    simp [step, fromThird, toMasterAll, toSlaveAll, toMaster_hb,
      toSlave_other _ ⟨0x700 + sys.master.id, b :: rest⟩ (by simp), combine]
  refine ⟨?_, ⟨?_, ?_⟩, ?_, ?_, ?_⟩
  · simp [Master.onHeartbeat, and_7f]
  · simp [Master.onHeartbeat, and_7f]
  · simp [Master.onHeartbeat, and_7f]
  · rw [hstep]
    exact ⟨stateView_hbState b, rfl, rfl, rfl⟩
  · intro h0
    rw [hstep]
    show stateView (hbState (b % 128)) = _
    rw [h0]; decide
  · intro node hn
    have h1 : (⟨0x700 + node, b :: rest⟩ : Frame).id ≠ 0x700 + sys.master.id := by
      simp; omega
    simp [step, fromThird, toMasterAll, toSlaveAll,
      toMaster_other _ ⟨0x700 + node, b :: rest⟩ (by simp) h1,
      toSlave_other _ ⟨0x700 + node, b :: rest⟩ (by simp), combine]

example : specHbView 5 = .known St.operational.name ∧ specHbView 0 = .known St.preOperational.name ∧
    specHbView 127 = .known St.preOperational.name ∧ specHbView 3 = .unknown 3 := by decide

/-! ## T genuine_heartbeat_syncs -/

/-- After any history that leaves the slave's heartbeat producer running: its payload is the code of
    the node's current CiA 301 state, on 0x700 + own; when it transmits, the master afterwards
    reports that state (INITIALISING, whose code is the boot-up value, is heard as PRE-OPERATIONAL)
    — so a master whose view had drifted (local transitions of the node, broadcasts it issued itself,
    foreign heartbeat claims) is re-synchronised by the node's next heartbeat. -/
theorem genuine_heartbeat_syncs (own : Nat) (hown : own < 256) (od : Option Nat) (ops : List Op)
    (t : HbTask) (ht : (runFrom (Sys.init own od) ops).slave.task = some t) :
    -- the producer's payload is the node's current state
    t.payload = [(specRun own .initialising ops).code] ∧ t.canId = 0x700 + own ∧
    (step (runFrom (Sys.init own od) ops) .tick).2 =
      ⟨.ok, [(.S, ⟨0x700 + own, [(specRun own .initialising ops).code]⟩)],
        [(specRun own .initialising ops).code]⟩ ∧
    -- afterwards the master reports the node's state (boot-up read as PRE-OPERATIONAL)
    (step (runFrom (Sys.init own od) ops) .tick).1.masterView =
      .known (heardAs (specRun own .initialising ops)).name ∧
    (step (runFrom (Sys.init own od) ops) .tick).1.slaveView =
      .known (specRun own .initialising ops).name := by
  have hi := inv_run own ops _ (inv_init own od)
  have hs := slave_run own hown ops _ .initialising (inv_init own od) rfl
  generalize specRun own .initialising ops = T at hs
  generalize runFrom (Sys.init own od) ops = sys at hi hs ht
  obtain ⟨hp, hc⟩ := hi.2.2.1 t ht
  rw [hs] at hp
  have hstep : step sys .tick =
      ({ master := { sys.master with state := hbState T.code, received := some T.code },
         bcast := sys.bcast, slave := sys.slave },
       ⟨.ok, [(.S, ⟨0x700 + own, [T.code]⟩)], [T.code]⟩) := by
    have hm := hi.1
    subst hm
    have h := toMaster_hb sys.master T.code []
    rw [code_mod] at h
    simp [step, ht, fromSlave, toMasterAll, hp, hc, h, combine]
  refine ⟨hp, hc, ?_, ?_, ?_⟩
  · rw [hstep]
  · rw [hstep]
    show stateView (hbState T.code) = _
    rw [hbState_code, stateView_code]
  · rw [hstep]
    show stateView sys.slave.state = _
    rw [hs, stateView_code]

example : (runFrom (Sys.init 5 (some 100)) [.sapi 128, .bcast 1, .hb 5 [4]]).slave.task =
      some ⟨0x705, [5], 100⟩ ∧
    (runFrom (Sys.init 5 (some 100)) [.sapi 128, .bcast 1, .hb 5 [4]]).masterView = .known St.stopped.name ∧
    (step (runFrom (Sys.init 5 (some 100)) [.sapi 128, .bcast 1, .hb 5 [4]]) .tick).1.masterView =
      .known St.operational.name := by decide

/-! ## T invalid_name_inert -/

/-- Every string that is not one of the eight names of the specification is rejected by the code's
    table, and assigning it — on the master, on the broadcast master or on the slave — is an error
    that sends nothing and leaves the whole system exactly as it was. -/
theorem invalid_name_inert (sys : Sys) (n : List Char) (h : cmdOfName n = none) :
    lookupName NMT_COMMANDS n = none ∧
    step sys (.setName n) = (sys, ⟨.err, [], []⟩) ∧
    step sys (.bcastName n) = (sys, ⟨.err, [], []⟩) ∧
    step sys (.sname n) = (sys, ⟨.err, [], []⟩) := by
  refine ⟨by rw [names_spec, h]; rfl, step_setName_invalid sys n h, step_bcastName_invalid sys n h, ?_⟩
  simp [step, slave_setState_invalid _ n h, fromSlave, toMasterAll, combine]


example : cmdOfName [] = none ∧ cmdOfName ['o', 'p', 'e', 'r', 'a', 't', 'i', 'o', 'n', 'a', 'l'] = none ∧
    cmdOfName (St.operational.name ++ [' ']) = none := by decide

/-! ## T wait_returns / wait_fails / wait_bootup_returns / wait_bootup_fails -/

/-- `wait_for_heartbeat`: if at least one well-formed heartbeat frame is processed during the wait,
    the call returns CiA 301's reading of the last one, which is then also the master's view; the
    slave is not involved. -/
theorem wait_returns (sys : Sys) (arrivals : List Bytes) (v : Nat) (h : lastHb arrivals = some v) :
    (step sys (.waitHb arrivals)).2.res = .okState (specHbView v) ∧
    (step sys (.waitHb arrivals)).1.masterView = specHbView v ∧
    (step sys (.waitHb arrivals)).1.slave = sys.slave ∧
    (step sys (.waitHb arrivals)).1.bcast = sys.bcast := by
  have hv : v = v % 128 := (Nat.mod_eq_of_lt (lastHb_lt arrivals v h)).symm
  have hm := wait_master sys arrivals
  rw [h] at hm
  refine ⟨?_, ?_, (waitHeartbeat_slave sys arrivals).1, (waitHeartbeat_slave sys arrivals).2⟩
  · simp only [step, waitHeartbeat, hm, hbVerdict, hbApply]
    rw [hv, stateView_hbState]
  · simp only [step, waitHeartbeat, Sys.masterView, hm, hbApply]
    rw [hv, stateView_hbState]


/-- … and if none is, it fails with the NMT error, the master's state is what it was, nothing was
    sent. -/
theorem wait_fails (sys : Sys) (arrivals : List Bytes) (h : lastHb arrivals = none) :
    (step sys (.waitHb arrivals)).2.res = .errNmt ∧
    (step sys (.waitHb arrivals)).1.master.state = sys.master.state ∧
    (step sys (.waitHb arrivals)).1.slave = sys.slave ∧
    (step sys (.waitHb arrivals)).1.bcast = sys.bcast ∧
    (step sys (.waitHb [])).2 = ⟨.errNmt, [], []⟩ := by
  have hm := wait_master sys arrivals
  rw [h] at hm
  refine ⟨?_, ?_, (waitHeartbeat_slave sys arrivals).1, (waitHeartbeat_slave sys arrivals).2, rfl⟩
  · simp only [step, waitHeartbeat, hm, hbVerdict, hbApply]
    rfl
  · simp only [step, waitHeartbeat, hm, hbApply]
    rfl

example : lastHb [[0x85]] = some 5 ∧ lastHb [[4], [], [0x7f, 1]] = some 127 ∧ lastHb [[]] = none ∧
    lastHb [] = none := by decide

/-- `wait_for_bootup`: if, before the deadline is seen to have passed, some wake-up ends on a boot-up
    message (`Quiet pre`: no earlier iteration did, none was past the deadline), the call returns
    normally at that iteration and the master reports PRE-OPERATIONAL. -/
theorem wait_bootup_returns (sys : Sys) (pre : List (Bool × List Bytes)) (hq : Quiet pre)
    (arr : List Bytes) (rest : List (Bool × List Bytes)) (h : lastHb arr = some 0) :
    (step sys (.waitBoot (pre ++ (false, arr) :: rest))).2.res = .ok ∧
    (step sys (.waitBoot (pre ++ (false, arr) :: rest))).1.masterView = .known St.preOperational.name ∧
    (step sys (.waitBoot (pre ++ (false, arr) :: rest))).1.slave = sys.slave ∧
    (step sys (.waitBoot (pre ++ (false, arr) :: rest))).1.bcast = sys.bcast := by
  obtain ⟨sys', _, e1, e2⟩ := waitBootup_quiet pre hq sys ((false, arr) :: rest)
  have hm := wait_master sys' arr
  rw [h] at hm
  have hr : (fromThird sys'.forget (hbFrames sys'.master.id arr)).1.master.received = some 0 := by
    rw [hm]; rfl
  have hw : waitBootup sys' ((false, arr) :: rest) =
      ((fromThird sys'.forget (hbFrames sys'.master.id arr)).1,
       ⟨.ok, (hbFrames sys'.master.id arr).map (Sender.X, ·),
        (fromThird sys'.forget (hbFrames sys'.master.id arr)).2.1⟩) := by
    simp only [waitBootup, Bool.false_eq_true, if_false, hr, if_true]
  refine ⟨?_, ?_, (waitBootup_slave _ sys).1, (waitBootup_slave _ sys).2⟩
  · simp only [step]; rw [e2, hw]
  · simp only [step, Sys.masterView]; rw [e1, hw]
    simp only [hm, hbApply]
    decide

/-- … if the deadline is seen to have passed first, it fails with the NMT error; and on no wake-up
    sequence whatsoever does it return normally without a boot-up message having been the last thing
    processed in some wake-up. -/
theorem wait_bootup_fails (sys : Sys) (pre : List (Bool × List Bytes)) (hq : Quiet pre)
    (arr : List Bytes) (rest : List (Bool × List Bytes)) :
    -- the deadline passes before a boot-up message has been the last thing seen in a wake-up
    (step sys (.waitBoot (pre ++ (true, arr) :: rest))).2.res = .errNmt ∧
    -- whatever the clock does, no normal return without a boot-up message
    (∀ iters, (∀ it ∈ iters, lastHb it.2 ≠ some 0) → (step sys (.waitBoot iters)).2.res ≠ .ok) ∧
    (∀ iters, (step sys (.waitBoot iters)).1.slave = sys.slave ∧
      (step sys (.waitBoot iters)).1.bcast = sys.bcast) := by
  obtain ⟨sys', _, _, e2⟩ := waitBootup_quiet pre hq sys ((true, arr) :: rest)
  refine ⟨?_, fun iters h => waitBootup_no_false_return iters h sys, fun iters => waitBootup_slave iters sys⟩
  simp only [step]; rw [e2]
  simp only [waitBootup, if_true]


example : Quiet [(false, [[5]]), (false, []), (false, [[0], [0x7f]])] := by unfold Quiet; decide

/-! ## the master's view on interleaved commands and heartbeats -/

theorem master_view_step (own : Nat) (hown : own < 256) (sys : Sys) (h : Inv own sys) (op : Op)
    (hop : isBusOp op = true) :
    (step sys op).1.masterView = specMasterOp own sys.masterView op := by
  obtain ⟨hm, -⟩ := h
  cases op with
  | api c =>
    by_cases hc : c < 256
    · rw [step_api_ok sys c hc (by omega)]
      exact stateView_applyNum _ _
    · rw [step_api_big sys c (by omega)]
      simp only [specMasterOp, specCmdView_ge _ c (by omega)]
  | setName n =>
    cases hn : cmdOfName n with
    | none => rw [step_setName_invalid sys n hn]; simp only [specMasterOp, specNameView, hn]
    | some cmd =>
      rw [step_setName_valid sys n cmd hn, step_api_ok sys cmd.cs (cs_lt cmd) (by omega)]
      simp only [specMasterOp, specNameView, hn]
      show stateView (applyNum sys.master.state cmd.cs) = _
      rw [stateView_applyNum, specCmdView, decodeCs_cs]
  | bus data =>
    match data with
    | [] => rw [step_bus_short sys [] (by simp)]; rfl
    | [a] => rw [step_bus_short sys [a] (by simp)]; rfl
    | cs :: tgt :: rest =>
      rw [step_bus_wf]
      show stateView (recvNum sys.master.id sys.master.state cs tgt) = _
      simp only [specMasterOp, recvNum, hm]
      split
      · exact stateView_applyNum _ _
      · rfl
  | hb node data =>
    by_cases hn : node = own
    · subst hn
      subst hm
      cases data with
      | nil =>
        simp [step, fromThird, toMasterAll, toMaster_hb_empty, specMasterOp, Sys.masterView]
      | cons b rest =>
        simp only [specMasterOp, if_true]
        exact (heartbeat_decoding sys b rest).2.2.1.1
    · have h1 : (⟨0x700 + node, data⟩ : Frame).id ≠ 0x700 + sys.master.id := by
        simp; omega
      have : (step sys (.hb node data)).1.master = sys.master := by
        simp [step, fromThird, toMasterAll, toMaster_other _ ⟨0x700 + node, data⟩ (by simp) h1]
      simp only [Sys.masterView, this]
      cases data with
      | nil => rfl
      | cons b rest => simp only [specMasterOp, hn, if_false]
  | _ => simp [isBusOp] at hop

/-- On every history of master commands, third-party node-control frames and error-control frames
    in any interleaving, from any reachable state (`Inv`), the master reports what `specMasterOp`
    prescribes: the CiA 301 destination of the last defined command that addressed the node, or
    CiA 301's reading of the last heartbeat, whichever came last. -/
theorem master_tracks_commands_and_heartbeats (own : Nat) (hown : own < 256) (ops : List Op) :
    ∀ sys : Sys, Inv own sys → (∀ o ∈ ops, isBusOp o = true) →
    (runFrom sys ops).masterView = ops.foldl (specMasterOp own) sys.masterView := by
  induction ops with
  | nil => intro sys _ _; rfl
  | cons op rest ih =>
    intro sys h hc
    simp only [runFrom, List.foldl_cons]
    rw [← master_view_step own hown sys h op (hc op (by simp))]
    exact ih _ (inv_step own sys op h) (fun o ho => hc o (by simp [ho]))

/-- regression for F13: a heartbeat with an undefined state value (3) followed by a command — the
    command frame is sent and the view follows (the unrepaired code raised `KeyError` here) -/
example : (runFrom (Sys.init 5 (some 0)) [.hb 5 [3]]).masterView = .unknown 3 ∧
    (step (runFrom (Sys.init 5 (some 0)) [.hb 5 [3]]) (.api 1)).2 = ⟨.ok, [(.M, ⟨0, [1, 5]⟩)], []⟩ ∧
    (step (runFrom (Sys.init 5 (some 0)) [.hb 5 [3]]) (.bus [2, 0])).1.masterView =
      .known St.stopped.name := by decide

end Canopen.C11
